(* Lemmas for property C12, second layer (Props/C12c.v): level renumbering and entries that do not
   become nodes.

   Part A (specification only, Spec/Dde.v): the nesting of a level sequence K is its POP PROFILE -
   for every arriving entry the number of still open entries it closes.  spec_parents K is a function
   of the pop profile and determines it (nesting_exact), strictly monotone maps keep it
   (monotone_keeps_nesting), and so does renumbering each group's children on their own
   (group_keeps_nesting).
   Part B (model, Model/Structure.v): two runs of structure() over entry lists that differ in the
   level field only and have the same pop profile are in lock step; the forests are equal up to the
   level field and one raises when the other does (renumber_same_forest).
   Part C: named 66/77/88 entries after the first entry are transparent (skipped_transparent). *)
From Coq Require Import ZArith NArith List Bool Lia Arith ZifyBool ZifyN ZifyNat.
Import ListNotations.
Require Import SR.Base.Res SR.Spec.Dde SR.Model.Structure SR.Proofs.StructureP.
(* The definitions of this development that occur in theorem statements (Props/) live in Spec/RenumberWf.v (audit item G1).
   The abbreviations keep the qualified names RenumberP.name of other files resolving; they are parsing-only aliases. *)
Require Export SR.Spec.RenumberWf.
Notation npop := SR.Spec.RenumberWf.npop (only parsing).
Notation push := SR.Spec.RenumberWf.push (only parsing).
Notation same_pops := SR.Spec.RenumberWf.same_pops (only parsing).
Notation keeps_nesting := SR.Spec.RenumberWf.keeps_nesting (only parsing).
Notation chain_sorted := SR.Spec.RenumberWf.chain_sorted (only parsing).
Notation erase_e := SR.Spec.RenumberWf.erase_e (only parsing).
Notation erase_d := SR.Spec.RenumberWf.erase_d (only parsing).
Notation erase_t := SR.Spec.RenumberWf.erase_t (only parsing).
Notation same_shape := SR.Spec.RenumberWf.same_shape (only parsing).
Notation relevelled := SR.Spec.RenumberWf.relevelled (only parsing).
Notation transparent := SR.Spec.RenumberWf.transparent (only parsing).
Notation ins_skipped := SR.Spec.RenumberWf.ins_skipped (only parsing).
Notation ins_s_nil := SR.Spec.RenumberWf.ins_s_nil (only parsing).
Notation ins_s_keep := SR.Spec.RenumberWf.ins_s_keep (only parsing).
Notation ins_s_add := SR.Spec.RenumberWf.ins_s_add (only parsing).
Notation group_renumbering := SR.Spec.RenumberWf.group_renumbering (only parsing).
Notation lvl_of_num := SR.Spec.RenumberWf.lvl_of_num (only parsing).
Notation set_level := SR.Spec.RenumberWf.set_level (only parsing).
Notation relevel := SR.Spec.RenumberWf.relevel (only parsing).
Notation in_range := SR.Spec.RenumberWf.in_range (only parsing).
Notation entry_in := SR.Spec.RenumberWf.entry_in (only parsing).
Open Scope nat_scope.
Ltac Zify.zify_post_hook ::= Z.to_euclidean_division_equations.

(* ================================================================= A. the open chain and the pop profile *)

(* the pop profile of the entries K arriving at the open chain st *)
Fixpoint pops (st : list N) (K : list N) : list nat :=
  match K with
  | [] => []
  | x :: r => npop x st :: pops (push x st) r
  end.

Lemma same_pops_iff : forall K K' st st', same_pops st st' K K' = true <-> pops st K = pops st' K'.
Proof.
  induction K as [|x r IH]; intros [|x' r'] st st'; cbn [same_pops pops]; split; intro H;
    try reflexivity; try discriminate.
  - apply andb_true_iff in H. destruct H as [H1 H2]. apply Nat.eqb_eq in H1. apply IH in H2.
    rewrite H1, H2. reflexivity.
  - injection H as H1 H2. apply andb_true_iff. split; [apply Nat.eqb_eq; exact H1 | apply IH; exact H2].
Qed.

Lemma npop_le_length : forall x st, npop x st <= length st.
Proof. intros x st. induction st as [|y r IH]; cbn [npop length]; [lia|]. destruct (y <? x)%N; lia. Qed.

(* closing for a smaller level closes at least as much; the count splits *)
Lemma npop_split : forall z x st, (z <= x)%N ->
  npop z st = npop x st + npop z (skipn (npop x st) st).
Proof.
  intros z x st Hzx. induction st as [|y r IH].
  - reflexivity.
  - cbn [npop]. destruct (y <? x)%N eqn:E.
    + cbn [skipn plus npop]. reflexivity.
    + assert (Ez : (y <? z)%N = false) by lia. rewrite Ez. cbn [skipn plus]. rewrite IH. reflexivity.
Qed.

(* parents computed with the chain of open POSITIONS ps (same length as st) *)
Fixpoint parents_w (ps : list nat) (st : list N) (k : nat) (K : list N) : list (option nat) :=
  match K with
  | [] => []
  | x :: r => let n := npop x st in
              hd_error (skipn n ps) :: parents_w (k :: skipn n ps) (push x st) (S k) r
  end.

Lemma skipn_add : forall {A} (a b : nat) (l : list A), skipn a (skipn b l) = skipn (b + a) l.
Proof.
  intros A a b. induction b as [|b IH]; intro l.
  - reflexivity.
  - destruct l as [|x l]; cbn [skipn plus].
    + destruct a; reflexivity.
    + apply IH.
Qed.

Lemma parents_w_sp : forall K rp ps st,
  (forall z, nearest_smaller rp z = hd_error (skipn (npop z st) ps)) ->
  sp_from rp K = parents_w ps st (length rp) K.
Proof.
  induction K as [|x r IH]; intros rp ps st J.
  - reflexivity.
  - cbn [sp_from parents_w]. f_equal; [apply J|].
    change (S (length rp)) with (length (x :: rp)). apply IH. intro z.
    cbn [nearest_smaller]. unfold push. cbn [npop]. destruct (x <? z)%N eqn:E.
    + reflexivity.
    + cbn [skipn]. rewrite J, skipn_add. rewrite (npop_split z x st) by lia. reflexivity.
Qed.

Lemma parents_w_spec : forall K, spec_parents K = parents_w [] [] 0 K.
Proof.
  intro K. rewrite spec_parents_sp. apply (parents_w_sp K [] [] []). intro z. reflexivity.
Qed.

(* parents are a function of the pop profile ... *)
Lemma parents_of_pops : forall K K' ps st st' k, pops st K = pops st' K' ->
  parents_w ps st k K = parents_w ps st' k K'.
Proof.
  induction K as [|x r IH]; intros [|x' r'] ps st st' k H; cbn [pops] in H; try discriminate.
  - reflexivity.
  - injection H as H1 H2. cbn [parents_w]. rewrite H1. f_equal. apply IH. exact H2.
Qed.

(* ... and determine it: the open positions are strictly decreasing outward *)
Fixpoint dec_below (k : nat) (ps : list nat) : Prop :=
  match ps with
  | [] => True
  | p :: r => p < k /\ dec_below p r
  end.

Lemma dec_below_weaken : forall ps k k', dec_below k ps -> k <= k' -> dec_below k' ps.
Proof. intros [|p r] k k' H Hk; cbn [dec_below] in *; [exact I|]. destruct H. split; [lia | assumption]. Qed.

Lemma dec_below_skipn : forall n ps k, dec_below k ps -> dec_below k (skipn n ps).
Proof.
  induction n as [|n IH]; intros ps k H; [exact H|]. destruct ps as [|p r]; [exact H|].
  cbn [skipn]. apply IH. cbn [dec_below] in H. destruct H as [H1 H2]. eapply dec_below_weaken; [exact H2 | lia].
Qed.

Lemma dec_below_hd : forall n ps k q, dec_below k ps -> hd_error (skipn n ps) = Some q -> q < k.
Proof.
  intros n ps k q H Hq. pose proof (dec_below_skipn n ps k H) as H1.
  destruct (skipn n ps) as [|p r]; [discriminate|]. inversion Hq; subst. cbn [dec_below] in H1. tauto.
Qed.

Lemma hd_skipn_inj : forall ps k n n', dec_below k ps -> n <= length ps -> n' <= length ps ->
  hd_error (skipn n ps) = hd_error (skipn n' ps) -> n = n'.
Proof.
  induction ps as [|p r IH]; intros k n n' Hd Hn Hn' H.
  - cbn [length] in *. lia.
  - cbn [dec_below] in Hd. destruct Hd as [Hp Hr]. cbn [length] in *.
    destruct n as [|n], n' as [|n']; cbn [skipn hd_error] in H.
    + reflexivity.
    + symmetry in H. apply (dec_below_hd n' r p p Hr) in H. lia.
    + apply (dec_below_hd n r p p Hr) in H. lia.
    + f_equal. apply (IH p); try assumption; lia.
Qed.

Lemma pops_of_parents : forall K K' ps st st' k,
  length st = length ps -> length st' = length ps -> dec_below k ps ->
  parents_w ps st k K = parents_w ps st' k K' -> pops st K = pops st' K'.
Proof.
  induction K as [|x r IH]; intros [|x' r'] ps st st' k L L' Hd H; cbn [parents_w] in H; try discriminate.
  - reflexivity.
  - injection H as H1 H2. cbn [pops].
    pose proof (npop_le_length x st) as B. pose proof (npop_le_length x' st') as B'.
    assert (E : npop x st = npop x' st') by (apply (hd_skipn_inj ps k); try assumption; lia).
    rewrite E. f_equal. rewrite E in H2.
    apply (IH r' (k :: skipn (npop x' st') ps) (push x st) (push x' st') (S k)).
    + unfold push. cbn [length]. rewrite !skipn_length. lia.
    + unfold push. cbn [length]. rewrite !skipn_length. lia.
    + cbn [dec_below]. split; [lia|]. apply dec_below_skipn. exact Hd.
    + exact H2.
Qed.

(* the exact condition *)
Lemma nesting_exact : forall K K', keeps_nesting K K' = true <-> spec_parents K = spec_parents K'.
Proof.
  intros K K'. unfold keeps_nesting. rewrite same_pops_iff, !parents_w_spec. split; intro H.
  - apply parents_of_pops. exact H.
  - apply (pops_of_parents K K' [] [] [] 0); try reflexivity. exact H.
Qed.

Lemma roots_of_parents : forall K K', spec_parents K = spec_parents K' -> spec_roots K = spec_roots K'.
Proof. intros K K' H. rewrite !spec_roots_eq, H. reflexivity. Qed.

Lemma pops_length : forall K st, length (pops st K) = length K.
Proof. induction K as [|x r IH]; intro st; cbn [pops length]; [reflexivity | rewrite IH; reflexivity]. Qed.

Lemma keeps_nesting_length : forall K K', keeps_nesting K K' = true -> length K = length K'.
Proof.
  intros K K' H. apply same_pops_iff in H. rewrite <- (pops_length K []), <- (pops_length K' []), H. reflexivity.
Qed.

(* ----------------------------------------------------------------- the order relation with every open entry *)

Lemma chain_sorted_skipn : forall n st, chain_sorted st -> chain_sorted (skipn n st).
Proof.
  induction n as [|n IH]; intros st H; [exact H|]. destruct st as [|y r]; [exact H|].
  cbn [skipn]. apply IH. cbn [chain_sorted] in H. tauto.
Qed.

Lemma npop_stop : forall x st, match skipn (npop x st) st with [] => True | z :: _ => (z < x)%N end.
Proof.
  intros x st. induction st as [|y r IH]; cbn [npop]; [exact I|].
  destruct (y <? x)%N eqn:E; cbn [skipn]; [lia | exact IH].
Qed.

Lemma push_sorted : forall x st, chain_sorted st -> chain_sorted (push x st).
Proof.
  intros x st H. unfold push. cbn [chain_sorted]. split; [apply npop_stop | apply chain_sorted_skipn; exact H].
Qed.

(* on a sorted chain the comparisons of x with the open entries are: not below x for the first
   npop x st of them, below x for all the others *)
Lemma npop_compare : forall x st, chain_sorted st ->
  map (fun y => (y <? x)%N) st = repeat false (npop x st) ++ repeat true (length st - npop x st).
Proof.
  intros x st. induction st as [|y r IH]; intro H; [reflexivity|].
  cbn [chain_sorted] in H. destruct H as [H1 H2]. cbn [npop map length].
  destruct (y <? x)%N eqn:E.
  - cbn [repeat app Nat.sub]. f_equal.
    clear IH. revert y H1 E. induction r as [|z r IHr]; intros y H1 E; [reflexivity|].
    cbn [map length repeat]. cbn [chain_sorted] in H2. destruct H2 as [H3 H4].
    assert (Ez : (z <? x)%N = true) by lia. rewrite Ez. f_equal. apply (IHr H4 z H3 Ez).
  - cbn [repeat app]. f_equal. rewrite IH by exact H2. reflexivity.
Qed.

(* ================================================================= A2. strictly monotone maps *)

Lemma nearest_smaller_map : forall (g : N -> N) rp x,
  Forall (fun y => (y <? x)%N = (g y <? g x)%N) rp ->
  nearest_smaller (map g rp) (g x) = nearest_smaller rp x.
Proof.
  intros g rp x H. induction H as [|y r Hy Hr IH]; [reflexivity|].
  cbn [map nearest_smaller]. rewrite <- Hy, map_length, IH. reflexivity.
Qed.

Lemma sp_from_map : forall (g : N -> N) l rp,
  (forall a b, In a (rp ++ l) -> In b (rp ++ l) -> (a <? b)%N = (g a <? g b)%N) ->
  sp_from (map g rp) (map g l) = sp_from rp l.
Proof.
  intros g. induction l as [|x r IH]; intros rp H; [reflexivity|].
  cbn [map sp_from]. f_equal.
  - apply nearest_smaller_map. apply Forall_forall. intros y Hy. apply H; apply in_or_app.
    + left. exact Hy.
    + right. left. reflexivity.
  - change (g x :: map g rp) with (map g (x :: rp)). apply IH. intros a b Ha Hb.
    apply H; apply in_or_app.
    + cbn [app] in Ha. destruct Ha as [Ha|Ha]; [right; left; exact Ha|].
      apply in_app_or in Ha. destruct Ha; [left | right; right]; assumption.
    + cbn [app] in Hb. destruct Hb as [Hb|Hb]; [right; left; exact Hb|].
      apply in_app_or in Hb. destruct Hb; [left | right; right]; assumption.
Qed.

(* g keeps the order of the level numbers that occur *)
Lemma order_keeps_nesting : forall (g : N -> N) (K : list N),
  (forall a b, In a K -> In b K -> (a <? b)%N = (g a <? g b)%N) ->
  spec_parents (map g K) = spec_parents K /\ spec_roots (map g K) = spec_roots K.
Proof.
  intros g K H.
  assert (E : spec_parents (map g K) = spec_parents K).
  { rewrite !spec_parents_sp. apply (sp_from_map g K []). exact H. }
  split; [exact E | apply roots_of_parents; exact E].
Qed.

(* strictly monotone on a set of level numbers that contains all of K *)
Lemma monotone_keeps_nesting : forall (dom : N -> Prop) (g : N -> N) (K : list N),
  (forall a b, dom a -> dom b -> (a < b)%N -> (g a < g b)%N) ->
  Forall dom K ->
  spec_parents (map g K) = spec_parents K /\ spec_roots (map g K) = spec_roots K.
Proof.
  intros dom g K Hg HK. apply order_keeps_nesting. intros a b Ha Hb.
  rewrite Forall_forall in HK. pose proof (HK _ Ha) as Da. pose proof (HK _ Hb) as Db.
  destruct (a <? b)%N eqn:E.
  - symmetry. apply N.ltb_lt. apply Hg; try assumption. lia.
  - symmetry. apply N.ltb_ge. destruct (N.eq_dec a b) as [->|Hne]; [lia|].
    apply N.lt_le_incl. apply Hg; try assumption. lia.
Qed.

(* ================================================================= B. two runs of structure() in lock step *)

Definition erase_f (f : frame) : frame := {| fd := erase_d (fd f); fkids := map erase_t (fkids f) |}.

Lemma relevelled_fields : forall e e', erase_e e = erase_e e' <->
  ename e = ename e' /\ efill e = efill e' /\ eredef e = eredef e' /\ epic e = epic e' /\ eocc e = eocc e'
  /\ etext e = etext e'.
Proof.
  intros [l n f r p o t] [l' n' f' r' p' o' t']. unfold erase_e. cbn. split; intro H.
  - inversion H; subst. repeat split.
  - destruct H as [? [? [? [? [? ?]]]]]. subst. reflexivity.
Qed.

Definition drel (d d' : dde) : Prop := erase_d d = erase_d d' /\ skipped d = skipped d'.

Lemma dde_name_erase : forall e, dde_name (erase_e e) = dde_name e.
Proof. reflexivity. Qed.

Lemma L01_num : forall a, two_digits a = true -> lvl_eqb a L01 = (lvl_num a =? 1)%N.
Proof. intros a H. unfold L01. rewrite lvl_eqb_num by (exact H || reflexivity). reflexivity. Qed.

Lemma skipped_num : forall d, two_digits (dlv d) = true -> skipped d = negb (kept_level (lvl_num (dlv d))).
Proof. intros d H. rewrite <- (keep_num d H). unfold keep. rewrite negb_involutive. reflexivity. Qed.

Lemma mk_ddes_rel : forall l l', Forall2 relevelled l l' ->
  Forall (fun e => two_digits (elv e) = true) l -> Forall (fun e => two_digits (elv e) = true) l' ->
  forall c, Forall2 drel (mk_ddes c l) (mk_ddes c l').
Proof.
  intros l l' H. induction H as [|e e' r r' [He [Hk H1]] Hr IH]; intros D D' c.
  - constructor.
  - inversion D as [|? ? De Dr]; subst. inversion D' as [|? ? De' Dr']; subst.
    rewrite (mk_ddes_eq c e r), (mk_ddes_eq c e' r'). cbv zeta. rewrite (L01_num _ De), (L01_num _ De'), H1.
    assert (Hn : dde_name e = dde_name e') by (rewrite <- (dde_name_erase e), He; reflexivity).
    assert (Hf : is_filler e = is_filler e') by (unfold is_filler; rewrite Hn; reflexivity).
    rewrite Hf. destruct (is_filler e'); constructor; try (apply IH; assumption).
    + split.
      * unfold erase_d. cbn [de du]. rewrite He. reflexivity.
      * rewrite !skipped_num by assumption. unfold dlv. cbn [de]. rewrite Hk. reflexivity.
    + split.
      * unfold erase_d. cbn [de du]. rewrite He, Hn. reflexivity.
      * rewrite !skipped_num by assumption. unfold dlv. cbn [de]. rewrite Hk. reflexivity.
Qed.

(* how many open frames an entry of (two-character) level x closes *)
Fixpoint npopL (x : lvl) (st : list lvl) : nat :=
  match st with
  | [] => 0
  | y :: r => if lvl_leb x y then S (npopL x r) else 0
  end.

Lemma npopL_num : forall x st, two_digits x = true -> Forall (fun y => two_digits y = true) st ->
  npopL x st = npop (lvl_num x) (map lvl_num st).
Proof.
  intros x st Hx H. induction H as [|y r Hy Hr IH]; [reflexivity|].
  cbn [npopL map npop]. rewrite (lvl_leb_num x y Hx Hy), IH.
  destruct (lvl_num y <? lvl_num x)%N; reflexivity.
Qed.

(* the levels of the open frames, innermost first *)
Definition lv (c : frame) (r : list frame) : list lvl := map (fun f => dlv (fd f)) (c :: r).

Lemma erase_close : forall c, erase_t (close c) = close (erase_f c).
Proof. reflexivity. Qed.

Lemma erase_attach : forall t p, erase_f (attach t p) = attach (erase_t t) (erase_f p).
Proof. intros t p. unfold erase_f, attach. cbn [fd fkids]. rewrite map_app. reflexivity. Qed.

Lemma cons_inj : forall {A} (a b : A) l l', a :: l = b :: l' -> a = b /\ l = l'.
Proof. intros A a b l l' H. injection H as H1 H2. split; assumption. Qed.

Lemma pop_sim : forall x x' r r' c c',
  erase_f c = erase_f c' -> map erase_f r = map erase_f r' ->
  npopL x (lv c r) = npopL x' (lv c' r') ->
  match pop x c r, pop x' c' r' with
  | inl (b, q), inl (b', q') =>
      erase_f b = erase_f b' /\ map erase_f q = map erase_f q'
      /\ lv b q = skipn (npopL x (lv c r)) (lv c r)
      /\ lv b' q' = skipn (npopL x' (lv c' r')) (lv c' r')
  | inr t, inr t' =>
      erase_t t = erase_t t'
      /\ npopL x (lv c r) = length (lv c r) /\ npopL x' (lv c' r') = length (lv c' r')
  | _, _ => False
  end.
Proof.
  intros x x'. induction r as [|p o IH]; intros [|p' o'] c c' Hc Hr Hn; try discriminate Hr.
  - cbn [pop]. rewrite (pop_test_eq x), (pop_test_eq x'). unfold lv in *. cbn [map npopL] in *.
    destruct (lvl_leb x (dlv (fd c))), (lvl_leb x' (dlv (fd c'))); try discriminate Hn.
    + rewrite !erase_close, Hc. repeat split.
    + repeat split; assumption.
  - cbn [map] in Hr. apply cons_inj in Hr. destruct Hr as [Hp Ho]. cbn [pop]. rewrite (pop_test_eq x), (pop_test_eq x').
    unfold lv in Hn. cbn [map npopL] in Hn.
    destruct (lvl_leb x (dlv (fd c))) eqn:E, (lvl_leb x' (dlv (fd c'))) eqn:E'; try discriminate Hn.
    + injection Hn as Hn.
      assert (Ha : erase_f (attach (close c) p) = erase_f (attach (close c') p'))
        by (rewrite !erase_attach, !erase_close, Hc, Hp; reflexivity).
      specialize (IH o' (attach (close c) p) (attach (close c') p') Ha Ho Hn).
      unfold lv. cbn [map npopL]. rewrite E, E'. cbn [skipn length].
      destruct (pop x (attach (close c) p) o) as [[b q]|t], (pop x' (attach (close c') p') o') as [[b' q']|t'];
        try exact IH.
      destruct IH as [I1 [I2 I3]]. split; [exact I1|]. unfold lv in I2, I3. cbn [map length] in I2, I3.
      cbn [attach fd] in I2, I3. split; f_equal; assumption.
    + unfold lv. cbn [map npopL]. rewrite E, E'. cbn [skipn]. repeat split; try assumption.
      cbn [map]. rewrite Hp, Ho. reflexivity.
Qed.

Lemma name_is_erase : forall tgt t, name_is tgt (erase_t t) = name_is tgt t.
Proof. intros tgt [d b k]. reflexivity. Qed.

Lemma set_based_erase : forall t, erase_t (set_based t) = set_based (erase_t t).
Proof. intros [d b k]. reflexivity. Qed.

Lemma filter_map_erase : forall tgt k,
  map erase_t (filter (name_is tgt) k) = filter (name_is tgt) (map erase_t k).
Proof.
  intros tgt k. induction k as [|t k IH]; [reflexivity|].
  cbn [filter map]. rewrite name_is_erase. destruct (name_is tgt t); cbn [map]; rewrite IH; reflexivity.
Qed.

(* the REDEFINES check looks at names only *)
Lemma mark_sim : forall tgt k k', map erase_t k = map erase_t k' ->
  match mark_unique tgt k, mark_unique tgt k' with
  | Some a, Some a' => map erase_t a = map erase_t a'
  | None, None => True
  | _, _ => False
  end.
Proof.
  intros tgt k k' H. unfold mark_unique.
  assert (L : length (filter (name_is tgt) k) = length (filter (name_is tgt) k')).
  { rewrite <- (map_length erase_t (filter _ k)), filter_map_erase, H, <- filter_map_erase, map_length. reflexivity. }
  set (g := fun t => if name_is tgt t then set_based t else t).
  assert (G : forall l, map erase_t (map g l) = map g (map erase_t l)).
  { intro l. rewrite !map_map. apply map_ext. intro t. unfold g. rewrite name_is_erase.
    destruct (name_is tgt t); [apply set_based_erase | reflexivity]. }
  destruct (filter (name_is tgt) k) as [|a [|a2 ar]], (filter (name_is tgt) k') as [|b [|b2 br]];
    try discriminate L; try exact I.
  rewrite !G, H. reflexivity.
Qed.

Definition LS (s : state) : list lvl := lv (cur s) (rest s).

(* the two states are equal up to the level field *)
Definition Esim (s s' : state) : Prop :=
  map erase_t (roots s) = map erase_t (roots s')
  /\ erase_f (cur s) = erase_f (cur s')
  /\ map erase_f (rest s) = map erase_f (rest s').

Lemma erase_open : forall d d', erase_d d = erase_d d' -> erase_f (open d) = erase_f (open d').
Proof. intros d d' H. unfold erase_f, open. cbn [fd fkids map]. rewrite H. reflexivity. Qed.

Lemma eredef_erase : forall d d', erase_d d = erase_d d' -> eredef (de d) = eredef (de d').
Proof.
  intros d d' H. change (eredef (de d)) with (eredef (de (erase_d d))). rewrite H. reflexivity.
Qed.

Lemma step_sim : forall s s' d d', Esim s s' -> drel d d' ->
  (skipped d = false -> npopL (dlv d) (LS s) = npopL (dlv d') (LS s')) ->
  match step s d, step s' d' with
  | Ok a, Ok a' =>
      Esim a a'
      /\ (if skipped d then LS a = LS s /\ LS a' = LS s'
          else LS a = dlv d :: skipn (npopL (dlv d) (LS s)) (LS s)
               /\ LS a' = dlv d' :: skipn (npopL (dlv d') (LS s')) (LS s'))
  | Err e, Err e' => e = e'
  | _, _ => False
  end.
Proof.
  intros s s' d d' [E1 [E2 E3]] [Hd Hs] Hn. unfold step. rewrite <- Hs.
  destruct (skipped d) eqn:Sk.
  - split; [repeat split; assumption | split; reflexivity].
  - specialize (Hn eq_refl). unfold LS in Hn.
    pose proof (pop_sim (dlv d) (dlv d') (rest s) (rest s') (cur s) (cur s') E2 E3 Hn) as P.
    destruct (pop (dlv d) (cur s) (rest s)) as [[b q]|t], (pop (dlv d') (cur s') (rest s')) as [[b' q']|t'];
      try contradiction.
    + destruct P as [P1 [P2 [P3 P4]]]. rewrite <- (eredef_erase d d' Hd).
      assert (Hk : map erase_t (fkids b) = map erase_t (fkids b'))
        by (change (fkids (erase_f b) = fkids (erase_f b')); rewrite P1; reflexivity).
      assert (Hfd : erase_d (fd b) = erase_d (fd b'))
        by (change (fd (erase_f b) = fd (erase_f b')); rewrite P1; reflexivity).
      destruct (eredef (de d)) as [tgt|].
      * pose proof (mark_sim tgt (fkids b) (fkids b') Hk) as M.
        destruct (mark_unique tgt (fkids b)) as [k1|], (mark_unique tgt (fkids b')) as [k1'|]; try contradiction.
        -- split.
           ++ unfold Esim. cbn [roots cur rest map]. split; [exact E1|]. split; [apply erase_open; exact Hd|].
              f_equal; [|exact P2]. unfold erase_f. cbn [fd fkids]. rewrite Hfd, M. reflexivity.
           ++ unfold LS, lv in *. cbn [cur rest map open fd] in *. cbn [map] in P3, P4.
              rewrite <- P3, <- P4. split; reflexivity.
        -- reflexivity.
      * split.
        -- unfold Esim. cbn [roots cur rest map]. split; [exact E1|]. split; [apply erase_open; exact Hd|].
           f_equal; assumption.
        -- unfold LS, lv in *. cbn [cur rest map open fd] in *. cbn [map] in P3, P4.
           rewrite <- P3, <- P4. split; reflexivity.
    + destruct P as [P1 [P2 P3]]. split.
      * unfold Esim. cbn [roots cur rest map]. split; [|split; [apply erase_open; exact Hd | reflexivity]].
        rewrite !map_app. cbn [map]. rewrite E1, P1. reflexivity.
      * unfold LS in *. rewrite P2, P3, !skipn_all. split; reflexivity.
Qed.

Lemma map_skipn : forall {A B} (f : A -> B) n l, map f (skipn n l) = skipn n (map f l).
Proof.
  intros A B f. induction n as [|n IH]; intro l; [reflexivity|]. destruct l as [|x l]; [reflexivity|].
  cbn [skipn map]. apply IH.
Qed.

Lemma Forall_skipn : forall {A} (P : A -> Prop) n l, Forall P l -> Forall P (skipn n l).
Proof.
  intros A P. induction n as [|n IH]; intros l H; [exact H|]. destruct l as [|x l]; [exact H|].
  cbn [skipn]. apply IH. inversion H; assumption.
Qed.

Definition lvl_ok (y : lvl) : Prop := two_digits y = true.

Lemma run_sim : forall r r', Forall2 drel r r' -> Forall digits_ok r -> Forall digits_ok r' ->
  forall s s', Esim s s' -> Forall lvl_ok (LS s) -> Forall lvl_ok (LS s') ->
  pops (map lvl_num (LS s)) (levels_of (filter keep r)) = pops (map lvl_num (LS s')) (levels_of (filter keep r')) ->
  match run s r, run s' r' with
  | Ok a, Ok a' => Esim a a'
  | Err e, Err e' => e = e'
  | _, _ => False
  end.
Proof.
  intros r r' H. induction H as [|d d' r r' Hd Hr IH]; intros D D' s s' E G G' HP.
  - exact E.
  - inversion D as [|? ? Dd Dr]; subst. inversion D' as [|? ? Dd' Dr']; subst.
    cbn [run]. cbn [filter] in HP. destruct Hd as [Hd Hs].
    assert (Kd' : keep d' = negb (skipped d)) by (unfold keep; rewrite Hs; reflexivity).
    assert (Kd : keep d = negb (skipped d)) by reflexivity.
    rewrite Kd, Kd' in HP.
    assert (Hn : skipped d = false -> npopL (dlv d) (LS s) = npopL (dlv d') (LS s')).
    { intro Sk. rewrite Sk in HP. cbn [negb levels_of map pops] in HP. injection HP as HP1 _.
      rewrite !npopL_num by assumption. exact HP1. }
    pose proof (step_sim s s' d d' E (conj Hd Hs) Hn) as S.
    destruct (step s d) as [a|e], (step s' d') as [a'|e']; try contradiction; [|exact S].
    destruct S as [Ea SL]. destruct (skipped d) eqn:Sk.
    + destruct SL as [L1 L2]. cbn [negb] in HP. apply IH; try assumption; rewrite ?L1, ?L2; assumption.
    + destruct SL as [L1 L2]. cbn [negb levels_of map pops] in HP. injection HP as HP1 HP2.
      apply IH; try assumption.
      * rewrite L1. constructor; [exact Dd | apply Forall_skipn; exact G].
      * rewrite L2. constructor; [exact Dd' | apply Forall_skipn; exact G'].
      * rewrite L1, L2. cbn [map]. rewrite !map_skipn, !npopL_num by assumption. exact HP2.
Qed.

Definition erase_res (r : res (list tree)) : res (list tree) :=
  match r with Ok f => Ok (map erase_t f) | Err e => Err e end.

Lemma erase_collapse : forall r c, erase_t (collapse c r) = collapse (erase_f c) (map erase_f r).
Proof.
  induction r as [|p o IH]; intro c; cbn [collapse map]; [reflexivity|].
  rewrite IH, erase_attach, erase_close. reflexivity.
Qed.

Lemma finish_sim : forall s s', Esim s s' -> map erase_t (finish s) = map erase_t (finish s').
Proof.
  intros s s' [E1 [E2 E3]]. unfold finish. rewrite !map_app. cbn [map].
  rewrite !erase_collapse, E1, E2, E3. reflexivity.
Qed.

(* the level numbers of the nodes, given as a list of DDE objects *)
Lemma kept_of_cons : forall l d r, mk_ddes 0 l = d :: r -> kept_of l = d :: filter keep r.
Proof. intros l d r H. unfold kept_of. rewrite H. reflexivity. Qed.

Lemma structure_sim : forall l l',
  Forall2 relevelled l l' ->
  Forall (fun e => two_digits (elv e) = true) l -> Forall (fun e => two_digits (elv e) = true) l' ->
  keeps_nesting (levels_of (kept_of l)) (levels_of (kept_of l')) = true ->
  erase_res (structure l) = erase_res (structure l').
Proof.
  intros l l' H D D' HK. unfold structure.
  pose proof (mk_ddes_rel l l' H D D' 0%N) as R.
  pose proof (mk_ddes_digits l 0%N D) as G. pose proof (mk_ddes_digits l' 0%N D') as G'.
  unfold keeps_nesting in HK. apply same_pops_iff in HK. unfold kept_of in HK.
  destruct R as [|d d' r r' Hd Hr]; [reflexivity|].
  inversion G as [|? ? Gd Gr]; subst. inversion G' as [|? ? Gd' Gr']; subst.
  cbn [structure_ddes]. cbn [levels_of map pops] in HK. injection HK as HK.
  set (s0 := {| roots := []; cur := open d; rest := [] |}).
  set (s0' := {| roots := []; cur := open d'; rest := [] |}).
  assert (E0 : Esim s0 s0').
  { unfold Esim, s0, s0'. cbn [roots cur rest map]. destruct Hd as [Hd _].
    split; [reflexivity | split; [apply erase_open; exact Hd | reflexivity]]. }
  pose proof (run_sim r r' Hr Gr Gr' s0 s0' E0) as S.
  assert (L0 : LS s0 = [dlv d]) by reflexivity. assert (L0' : LS s0' = [dlv d']) by reflexivity.
  rewrite L0, L0' in S. assert (F0 : Forall lvl_ok [dlv d]) by (constructor; [exact Gd | constructor]).
  assert (F0' : Forall lvl_ok [dlv d']) by (constructor; [exact Gd' | constructor]).
  specialize (S F0 F0' HK).
  destruct (run s0 r) as [a|e], (run s0' r') as [a'|e']; try contradiction.
  - cbn [erase_res]. f_equal. apply finish_sim. exact S.
  - cbn [erase_res]. rewrite S. reflexivity.
Qed.

Lemma filter_keep_rel : forall r r', Forall2 drel r r' ->
  map erase_d (filter keep r) = map erase_d (filter keep r').
Proof.
  intros r r' H. induction H as [|d d' r r' [Hd Hs] Hr IH]; [reflexivity|].
  cbn [filter].
  assert (Kd' : keep d' = negb (skipped d)) by (unfold keep; rewrite Hs; reflexivity).
  assert (Kd : keep d = negb (skipped d)) by reflexivity.
  rewrite Kd, Kd'. destruct (skipped d); cbn [negb map]; [exact IH|].
  rewrite Hd, IH. reflexivity.
Qed.

Lemma kept_of_rel : forall l l', Forall2 relevelled l l' ->
  Forall (fun e => two_digits (elv e) = true) l -> Forall (fun e => two_digits (elv e) = true) l' ->
  map erase_d (kept_of l) = map erase_d (kept_of l').
Proof.
  intros l l' H D D'. pose proof (mk_ddes_rel l l' H D D' 0%N) as R. unfold kept_of.
  destruct R as [|d d' r r' [Hd _] Hr]; [reflexivity|].
  cbn [map]. rewrite Hd, (filter_keep_rel r r' Hr). reflexivity.
Qed.

(* Two entry lists that differ in the level numbers only and have the same nesting (stated on the
   specification) give the same forest up to the level field, and raise together. *)
Lemma renumber_same_forest : forall l l',
  Forall2 relevelled l l' ->
  Forall (fun e => two_digits (elv e) = true) l -> Forall (fun e => two_digits (elv e) = true) l' ->
  spec_parents (levels_of (kept_of l)) = spec_parents (levels_of (kept_of l')) ->
  (forall e, structure l = Err e <-> structure l' = Err e)
  /\ ((exists f, structure l = Ok f) <-> (exists f', structure l' = Ok f'))
  /\ (forall f f', structure l = Ok f -> structure l' = Ok f' ->
        same_shape f f'
        /\ map erase_d (preorder_f f) = map erase_d (preorder_f f')
        /\ parents f = parents f'
        /\ root_pos 0 f = root_pos 0 f').
Proof.
  intros l l' H D D' HP.
  pose proof (structure_sim l l' H D D' (proj2 (nesting_exact _ _) HP)) as S.
  split; [|split].
  - intro e. destruct (structure l) as [f|e1], (structure l') as [f'|e1']; cbn [erase_res] in S;
      try discriminate S; split; intro X; try discriminate X; congruence.
  - destruct (structure l) as [f|e1], (structure l') as [f'|e1']; cbn [erase_res] in S; try discriminate S.
    + split; intros _; eexists; reflexivity.
    + split; intros [f X]; discriminate X.
  - intros f f' Hf Hf'. rewrite Hf, Hf' in S. cbn [erase_res] in S. injection S as S.
    destruct (structure_full l f D Hf) as [P1 [P2 P3]].
    destruct (structure_full l' f' D' Hf') as [P1' [P2' P3']].
    split; [exact S|]. split; [|split].
    + rewrite P1, P1'. apply kept_of_rel; assumption.
    + rewrite P2, P2'. exact HP.
    + rewrite P3, P3'. apply roots_of_parents. exact HP.
Qed.

(* ================================================================= C. entries that never become nodes *)

Lemma transparent_mk : forall e c r, transparent e ->
  exists d, mk_ddes c (e :: r) = d :: mk_ddes c r /\ skipped d = true.
Proof.
  intros e c r [H1 [H2 H3]]. exists {| de := e; du := dde_name e |}. rewrite mk_ddes_eq. cbv zeta. rewrite H3.
  rewrite (L01_num _ H1).
  assert (E : (lvl_num (elv e) =? 1)%N = false) by (unfold kept_level in H2; lia).
  rewrite E. split; [reflexivity|].
  rewrite skipped_num by exact H1. unfold dlv. cbn [de]. rewrite H2. reflexivity.
Qed.

Lemma mk_ddes_cons : forall e c, exists d c1, forall r', mk_ddes c (e :: r') = d :: mk_ddes c1 r'.
Proof.
  intros e c. cbn [mk_ddes]. destruct (is_filler e); eexists; eexists; intro r'; reflexivity.
Qed.

Lemma ins_skipped_run : forall l l', ins_skipped l l' -> forall c s,
  run s (mk_ddes c l') = run s (mk_ddes c l) /\ filter keep (mk_ddes c l') = filter keep (mk_ddes c l).
Proof.
  intros l l' H. induction H as [|e l l' H IH|e l l' T H IH]; intros c s.
  - split; reflexivity.
  - destruct (mk_ddes_cons e c) as [d [c1 M]]. rewrite !M. cbn [run filter]. split.
    + destruct (step s d) as [s1|x]; [apply IH | reflexivity].
    + rewrite (proj2 (IH c1 s)). reflexivity.
  - destruct (transparent_mk e c l' T) as [d [M Sk]]. rewrite M. cbn [run filter].
    unfold step. unfold keep at 1. rewrite Sk. cbn [negb]. apply IH.
Qed.

Lemma skipped_transparent : forall e l l', ins_skipped l l' ->
  structure (e :: l') = structure (e :: l) /\ kept_of (e :: l') = kept_of (e :: l).
Proof.
  intros e l l' H. unfold structure, kept_of.
  destruct (mk_ddes_cons e 0%N) as [d [c1 M]]. rewrite !M. cbn [structure_ddes].
  destruct (ins_skipped_run l l' H c1 {| roots := []; cur := open d; rest := [] |}) as [R F].
  rewrite R, F. split; reflexivity.
Qed.

Lemma skipped_transparent_shape : forall e l l' f f', ins_skipped l l' ->
  structure (e :: l) = Ok f -> structure (e :: l') = Ok f' ->
  preorder_f f' = preorder_f f /\ parents f' = parents f /\ root_pos 0 f' = root_pos 0 f.
Proof.
  intros e l l' f f' H Hf Hf'. destruct (skipped_transparent e l l' H) as [S _].
  rewrite S, Hf in Hf'. injection Hf' as <-. repeat split.
Qed.

(* ================================================================= D. every group renumbers its children on its own *)

(* the relation between the entries seen so far (rp, nearest first) and the chain of open positions ps
   with levels st that parents_w maintains *)
Definition chain_inv (rp : list N) (ps : list nat) (st : list N) : Prop :=
  forall z, nearest_smaller rp z = hd_error (skipn (npop z st) ps).

Lemma chain_inv_push : forall rp ps st x, chain_inv rp ps st ->
  chain_inv (x :: rp) (length rp :: skipn (npop x st) ps) (push x st).
Proof.
  intros rp ps st x J z. cbn [nearest_smaller]. unfold push. cbn [npop]. destruct (x <? z)%N eqn:E.
  - reflexivity.
  - cbn [skipn]. rewrite J, skipn_add. rewrite (npop_split z x st) by lia. reflexivity.
Qed.

Lemma spec_parent_at : forall pre x suf,
  spec_parent (pre ++ x :: suf) (length pre) = nearest_smaller (rev pre) x.
Proof.
  intros pre x suf. unfold spec_parent. rewrite nth_error_app2 by lia. rewrite Nat.sub_diag. cbn [nth_error].
  rewrite firstn_app, Nat.sub_diag, firstn_all. cbn [firstn]. rewrite app_nil_r. reflexivity.
Qed.

Section Group.
  Variables K K' : list N.

  (* siblings (same parent, or both roots) keep their order relation; a child stays above its parent *)
  Hypothesis Hsib : forall i j x y x' y',
    nth_error K i = Some x -> nth_error K j = Some y -> nth_error K' i = Some x' -> nth_error K' j = Some y' ->
    spec_parent K i = spec_parent K j -> (x <? y)%N = (x' <? y')%N.
  Hypothesis Hpar : forall i p y' z',
    spec_parent K i = Some p -> nth_error K' i = Some y' -> nth_error K' p = Some z' -> (z' < y')%N.

  Definition cpos (t : nat * N * N) : nat := fst (fst t).
  Definition clev (t : nat * N * N) : N := snd (fst t).
  Definition clev' (t : nat * N * N) : N := snd t.

  (* the open chain: position, level in K, level in K'; consecutive elements are child and parent *)
  Inductive chainI : list (nat * N * N) -> Prop :=
  | chainI_nil : chainI []
  | chainI_cons : forall i y y' r,
      nth_error K i = Some y -> nth_error K' i = Some y' ->
      spec_parent K i = hd_error (map cpos r) ->
      match r with [] => True | t :: _ => (clev' t < y')%N end ->
      chainI r -> chainI ((i, y, y') :: r).

  Lemma chainI_skipn : forall n c, chainI c -> chainI (skipn n c).
  Proof.
    induction n as [|n IH]; intros c H; [exact H|]. destruct H as [|i y y' r A B C D E]; [constructor|].
    cbn [skipn]. apply IH. exact E.
  Qed.

  Lemma npop_group : forall c k x x', chainI c ->
    nth_error K k = Some x -> nth_error K' k = Some x' ->
    spec_parent K k = hd_error (skipn (npop x (map clev c)) (map cpos c)) ->
    npop x' (map clev' c) = npop x (map clev c).
  Proof.
    intros c k x x' H Hx Hx'. induction H as [|i y y' r A B C D E IH]; intro HP; [reflexivity|].
    cbn [map npop] in *. unfold clev, clev', cpos in HP |- *. cbn [fst snd] in *.
    destruct (y <? x)%N eqn:Eyx.
    - cbn [skipn hd_error] in HP. pose proof (Hpar k i x' y' HP Hx' B) as L.
      assert (E2 : (y' <? x')%N = true) by lia. rewrite E2. reflexivity.
    - cbn [skipn] in HP. specialize (IH HP). fold clev clev' cpos in IH, HP.
      assert (E2 : (y' <? x')%N = false).
      { destruct r as [|[[i2 z] z'] r2].
        - cbn [map npop skipn hd_error] in HP, C. rewrite <- C in HP.
          rewrite <- (Hsib i k y x y' x' A Hx B Hx' (eq_sym HP)). exact Eyx.
        - cbn [map npop] in IH, HP. unfold clev, clev' in IH, HP, D. cbn [fst snd] in IH, HP, D.
          destruct (z <? x)%N eqn:Ezx.
          + cbn [skipn hd_error map] in HP. cbn [map hd_error] in C. rewrite <- C in HP.
            rewrite <- (Hsib i k y x y' x' A Hx B Hx' (eq_sym HP)). exact Eyx.
          + destruct (z' <? x')%N eqn:Ezx'; [discriminate IH|]. lia. }
      rewrite E2. f_equal. exact IH.
  Qed.

  Lemma group_pops : forall Ksuf K'suf Kpre K'pre c,
    K = Kpre ++ Ksuf -> K' = K'pre ++ K'suf -> length Kpre = length K'pre -> length Ksuf = length K'suf ->
    chain_inv (rev Kpre) (map cpos c) (map clev c) -> chainI c ->
    pops (map clev' c) K'suf = pops (map clev c) Ksuf.
  Proof.
    induction Ksuf as [|x r IH]; intros [|x' r'] Kpre K'pre c EK EK' Lp Ls J CI; try discriminate Ls.
    - reflexivity.
    - cbn [pops].
      assert (Hx : nth_error K (length Kpre) = Some x)
        by (rewrite EK, nth_error_app2 by lia; rewrite Nat.sub_diag; reflexivity).
      assert (Hx' : nth_error K' (length Kpre) = Some x')
        by (rewrite EK', Lp, nth_error_app2 by lia; rewrite Nat.sub_diag; reflexivity).
      assert (HP : spec_parent K (length Kpre) = hd_error (skipn (npop x (map clev c)) (map cpos c)))
        by (rewrite EK, spec_parent_at; apply J).
      pose proof (npop_group c (length Kpre) x x' CI Hx Hx' HP) as N1.
      rewrite N1. f_equal. set (n := npop x (map clev c)) in *.
      specialize (IH r' (Kpre ++ [x]) (K'pre ++ [x']) ((length Kpre, x, x') :: skipn n c)).
      cbn [map] in IH. unfold clev at 1, clev' at 1, cpos at 1 in IH. cbn [fst snd] in IH.
      rewrite !map_skipn in IH. unfold push. rewrite N1. fold n. apply IH.
      + rewrite <- app_assoc. exact EK.
      + rewrite <- app_assoc. exact EK'.
      + rewrite !app_length. cbn [length]. lia.
      + cbn [length] in Ls. lia.
      + rewrite rev_unit. rewrite <- (rev_length Kpre). apply chain_inv_push. exact J.
      + pose proof (chainI_skipn n c CI) as CS. constructor; try assumption.
        * rewrite HP, map_skipn. reflexivity.
        * rewrite <- map_skipn in HP. destruct (skipn n c) as [|[[p z] z'] c2] eqn:Ec; [exact I|].
          cbn [map hd_error] in HP. unfold cpos in HP at 1. cbn [fst] in HP.
          unfold clev'. cbn [snd]. inversion CS as [|? ? ? ? A B C D E]; subst.
          exact (Hpar (length Kpre) p x' z' HP Hx' B).
  Qed.

  Lemma group_parents : length K = length K' -> spec_parents K' = spec_parents K.
  Proof.
    intro L. apply nesting_exact. unfold keeps_nesting. apply same_pops_iff.
    apply (group_pops K K' [] [] []); try reflexivity; try exact L.
    - intro z. reflexivity.
    - constructor.
  Qed.
End Group.

Lemma opt_nat_eqb_refl : forall a, opt_nat_eqb a a = true.
Proof. intros [a|]; cbn [opt_nat_eqb]; [apply Nat.eqb_refl | reflexivity]. Qed.

Lemma nth_error_nth0 : forall (l : list N) i x, nth_error l i = Some x -> nth i l 0%N = x /\ i < length l.
Proof.
  intros l i x H. split; [apply nth_error_nth; exact H|]. apply nth_error_Some. rewrite H. discriminate.
Qed.

Lemma group_keeps_nesting : forall K K', group_renumbering K K' = true ->
  spec_parents K' = spec_parents K /\ spec_roots K' = spec_roots K.
Proof.
  intros K K' H. unfold group_renumbering in H. apply andb_true_iff in H. destruct H as [HL HA].
  apply Nat.eqb_eq in HL. rewrite forallb_forall in HA.
  assert (E : spec_parents K' = spec_parents K).
  { apply group_parents; [| |exact HL].
    - intros i j x y x' y' A B A' B' HP.
      destruct (nth_error_nth0 _ _ _ A) as [A1 A2]. destruct (nth_error_nth0 _ _ _ B) as [B1 B2].
      destruct (nth_error_nth0 _ _ _ A') as [A1' _]. destruct (nth_error_nth0 _ _ _ B') as [B1' _].
      assert (Hi : In i (seq 0 (length K))) by (apply in_seq; lia).
      assert (Hj : In j (seq 0 (length K))) by (apply in_seq; lia).
      pose proof (HA i Hi) as Q. apply andb_true_iff in Q. destruct Q as [Q _].
      rewrite forallb_forall in Q. specialize (Q j Hj).
      rewrite HP, opt_nat_eqb_refl in Q. cbn [negb orb] in Q. apply eqb_prop in Q.
      rewrite A1, B1, A1', B1' in Q. exact Q.
    - intros i p y' z' HP A' B'.
      destruct (nth_error_nth0 _ _ _ A') as [A1' A2']. destruct (nth_error_nth0 _ _ _ B') as [B1' _].
      assert (Hi : In i (seq 0 (length K))) by (apply in_seq; lia).
      pose proof (HA i Hi) as Q. apply andb_true_iff in Q. destruct Q as [_ Q].
      rewrite HP, A1', B1' in Q. lia. }
  split; [exact E | apply roots_of_parents; exact E].
Qed.

(* ================================================================= E. a monotone map applied to the entries of a copybook *)

Lemma lvl_of_num_ok : forall n, (n < 100)%N -> two_digits (lvl_of_num n) = true /\ lvl_num (lvl_of_num n) = n.
Proof.
  intros n H. unfold two_digits, is_digit, lvl_num, lvl_of_num. cbn [fst snd].
  split; lia.
Qed.

Definition on_kept (g : N -> N) (n : N) : N := if kept_level n then g n else n.

Definition kept_levels (L : list N) : list N :=
  match L with [] => [] | x :: r => x :: filter kept_level r end.

Lemma mk_ddes_levels : forall l c, map (fun d => lvl_num (dlv d)) (mk_ddes c l) = map (fun e => lvl_num (elv e)) l.
Proof.
  intros l c. rewrite <- (mk_ddes_de l c) at 2. rewrite map_map. reflexivity.
Qed.

Lemma filter_keep_levels : forall r, Forall digits_ok r ->
  levels_of (filter keep r) = filter kept_level (levels_of r).
Proof.
  intros r H. induction H as [|d r Hd Hr IH]; [reflexivity|].
  cbn [filter levels_of map]. rewrite (keep_num d Hd). destruct (kept_level (lvl_num (dlv d))); cbn [map].
  - f_equal. exact IH.
  - exact IH.
Qed.

Lemma levels_kept_of : forall l, Forall (fun e => two_digits (elv e) = true) l ->
  levels_of (kept_of l) = kept_levels (map (fun e => lvl_num (elv e)) l).
Proof.
  intros l D. pose proof (mk_ddes_digits l 0%N D) as G. pose proof (mk_ddes_levels l 0%N) as M.
  unfold kept_of. destruct (mk_ddes 0 l) as [|d r].
  - destruct l; [reflexivity | discriminate M].
  - inversion G as [|? ? Gd Gr]; subst. cbn [map] in M. rewrite <- M. cbn [kept_levels levels_of map].
    f_equal. apply filter_keep_levels. exact Gr.
Qed.

Lemma kept_levels_map : forall g L, Forall (fun n => kept_level (g n) = kept_level n) L ->
  kept_levels (map g L) = map g (kept_levels L).
Proof.
  intros g [|x r] H; [reflexivity|]. inversion H as [|? ? _ Hr]; subst. cbn [map kept_levels]. f_equal.
  clear H. induction Hr as [|y r Hy Hr IH]; [reflexivity|]. cbn [map filter]. rewrite Hy.
  destruct (kept_level y); cbn [map]; rewrite IH; reflexivity.
Qed.

Section Monotone.
  (* used = the level numbers the kept entries of the copybook carry (within 01..49);
     g is strictly monotone on them, stays within 01..49 and maps 01, and only 01, to 01.
     (On the whole of 01..49 only the identity is such a map, hence the set.) *)
  Variable used : N -> Prop.
  Variable g : N -> N.
  Hypothesis used_range : forall a, used a -> in_range a.
  Hypothesis g_mono : forall a b, used a -> used b -> (a < b)%N -> (g a < g b)%N.
  Hypothesis g_range : forall a, used a -> in_range (g a).
  Hypothesis g_one : forall a, used a -> (g a =? 1)%N = (a =? 1)%N.
  Notation entry_in := (entry_in used).

  Lemma relevel_num : forall e, entry_in e ->
    two_digits (elv (relevel g e)) = true /\ lvl_num (elv (relevel g e)) = on_kept g (lvl_num (elv e)).
  Proof.
    clear g_one g_mono used_range. intros e [D R]. unfold relevel, on_kept. destruct (kept_level (lvl_num (elv e))) eqn:E.
    - cbn [set_level elv]. apply lvl_of_num_ok. pose proof (g_range _ (R eq_refl)) as GR. unfold in_range in GR. lia.
    - split; [exact D | reflexivity].
  Qed.

  Lemma on_kept_kept : forall n, (kept_level n = true -> used n) -> kept_level (on_kept g n) = kept_level n.
  Proof.
    clear g_one g_mono used_range. intros n R. unfold on_kept. destruct (kept_level n) eqn:E; [|exact E].
    pose proof (g_range _ (R eq_refl)) as GR. unfold in_range in GR. unfold kept_level. lia.
  Qed.

  Lemma on_kept_one : forall n, (kept_level n = true -> used n) -> (on_kept g n =? 1)%N = (n =? 1)%N.
  Proof.
    clear g_mono g_range used_range. intros n R. unfold on_kept. destruct (kept_level n) eqn:E.
    - apply g_one. apply R. reflexivity.
    - reflexivity.
  Qed.

  Lemma relevel_relevelled : forall l, Forall entry_in l -> Forall2 relevelled l (map (relevel g) l).
  Proof.
    clear g_mono used_range. intros l H. induction H as [|e r He Hr IH]; [constructor|]. cbn [map]. constructor; [|exact IH].
    destruct (relevel_num e He) as [_ N1]. destruct He as [D R]. unfold relevelled. rewrite N1. split; [|split].
    - unfold relevel. destruct (kept_level (lvl_num (elv e))); reflexivity.
    - symmetry. apply on_kept_kept. exact R.
    - symmetry. apply on_kept_one. exact R.
  Qed.

  Lemma on_kept_mono : forall a b,
    (used a \/ kept_level a = false) -> (used b \/ kept_level b = false) ->
    (a < b)%N -> (on_kept g a < on_kept g b)%N.
  Proof.
    clear g_one. intros a b Ha Hb L. unfold on_kept.
    destruct (kept_level a) eqn:Ea, (kept_level b) eqn:Eb.
    - destruct Ha as [Ha|Ha]; [|discriminate]. destruct Hb as [Hb|Hb]; [|discriminate]. apply g_mono; assumption.
    - destruct Ha as [Ha|Ha]; [|discriminate]. pose proof (g_range _ Ha) as GR. unfold in_range in GR.
      unfold kept_level in Eb. lia.
    - destruct Hb as [Hb|Hb]; [|discriminate]. apply used_range in Hb. unfold in_range in Hb.
      unfold kept_level in Ea. lia.
    - exact L.
  Qed.

  Lemma monotone_renumber_nesting : forall l, Forall entry_in l ->
    Forall (fun e => two_digits (elv e) = true) (map (relevel g) l)
    /\ levels_of (kept_of (map (relevel g) l)) = map (on_kept g) (levels_of (kept_of l))
    /\ spec_parents (levels_of (kept_of (map (relevel g) l))) = spec_parents (levels_of (kept_of l)).
  Proof.
    clear g_one. intros l H.
    assert (D : Forall (fun e => two_digits (elv e) = true) l)
      by (eapply Forall_impl; [|exact H]; intros e [A _]; exact A).
    assert (D' : Forall (fun e => two_digits (elv e) = true) (map (relevel g) l)).
    { apply Forall_forall. intros e' Hin. apply in_map_iff in Hin. destruct Hin as [e [<- Hin]].
      rewrite Forall_forall in H. apply (relevel_num e (H e Hin)). }
    assert (R : Forall (fun n => kept_level n = true -> used n) (map (fun e => lvl_num (elv e)) l)).
    { apply Forall_forall. intros n Hin. apply in_map_iff in Hin. destruct Hin as [e [<- Hin]].
      rewrite Forall_forall in H. apply (H e Hin). }
    assert (E : levels_of (kept_of (map (relevel g) l)) = map (on_kept g) (levels_of (kept_of l))).
    { rewrite !levels_kept_of by assumption. rewrite map_map.
      rewrite (map_ext_in (fun e => lvl_num (elv (relevel g e))) (fun e => on_kept g (lvl_num (elv e)))).
      - rewrite <- (map_map (fun e => lvl_num (elv e)) (on_kept g)). apply kept_levels_map.
        eapply Forall_impl; [|exact R]. intros n Hn. apply on_kept_kept. exact Hn.
      - intros e Hin. rewrite Forall_forall in H. apply (relevel_num e (H e Hin)). }
    split; [exact D'|]. split; [exact E|]. rewrite E.
    apply (monotone_keeps_nesting (fun n => used n \/ kept_level n = false)).
    - exact on_kept_mono.
    - rewrite levels_kept_of by exact D. apply Forall_forall. intros n Hin.
      rewrite Forall_forall in R.
      assert (Hin' : In n (map (fun e => lvl_num (elv e)) l)).
      { destruct (map (fun e => lvl_num (elv e)) l) as [|x r]; [exact Hin|]. cbn [kept_levels] in Hin.
        destruct Hin as [<-|Hin]; [left; reflexivity|]. right. apply filter_In in Hin. tauto. }
      specialize (R n Hin'). destruct (kept_level n); [left; apply R; reflexivity | right; reflexivity].
  Qed.
End Monotone.

(* end to end: a map that is strictly monotone on the level numbers in use (within 01..49) and keeps
   01, and only 01, at 01, applied to the kept entries of a copybook, gives the same forest up to the
   level field *)
Lemma monotone_renumber_same_forest : forall (used : N -> Prop) (g : N -> N) (l : list entry),
  (forall a, used a -> in_range a) ->
  (forall a b, used a -> used b -> (a < b)%N -> (g a < g b)%N) ->
  (forall a, used a -> in_range (g a)) ->
  (forall a, used a -> (g a =? 1)%N = (a =? 1)%N) ->
  Forall (entry_in used) l ->
  let l' := map (relevel g) l in
  (forall e, structure l = Err e <-> structure l' = Err e)
  /\ ((exists f, structure l = Ok f) <-> (exists f', structure l' = Ok f'))
  /\ (forall f f', structure l = Ok f -> structure l' = Ok f' ->
        same_shape f f'
        /\ map erase_d (preorder_f f) = map erase_d (preorder_f f')
        /\ parents f = parents f'
        /\ root_pos 0 f = root_pos 0 f').
Proof.
  intros used g l Hu Hm Hr H1 H l'.
  destruct (monotone_renumber_nesting used g Hu Hm Hr l H) as [D' [_ E]].
  apply renumber_same_forest.
  - apply (relevel_relevelled used g Hr H1). exact H.
  - eapply Forall_impl; [|exact H]. intros e [A _]. exact A.
  - exact D'.
  - symmetry. exact E.
Qed.

(* ================================================================= statements as Props/C12c.v quotes them *)

Lemma count_is_order : forall (x : N) (st : list N),
  chain_sorted st ->
  chain_sorted (push x st)
  /\ map (fun y => (y <? x)%N) st = repeat false (npop x st) ++ repeat true (length st - npop x st).
Proof. intros x st H. split; [apply push_sorted; exact H | apply npop_compare; exact H]. Qed.

Lemma skipped_transparent_full : forall (e : entry) (l l' : list entry),
  ins_skipped l l' ->
  structure (e :: l') = structure (e :: l)
  /\ kept_of (e :: l') = kept_of (e :: l)
  /\ (forall f f', structure (e :: l) = Ok f -> structure (e :: l') = Ok f' ->
        preorder_f f' = preorder_f f /\ parents f' = parents f /\ root_pos 0 f' = root_pos 0 f).
Proof.
  intros e l l' H. destruct (skipped_transparent e l l' H) as [A B]. split; [exact A|]. split; [exact B|].
  intros f f' Hf Hf'. exact (skipped_transparent_shape e l l' f f' H Hf Hf').
Qed.
