(* Lemmas for C08c: the document Model/SchemaDoc.v renders from the generated structure tree is valid under
   Spec/SchemaTruth.v valid_schema (the framework's model of the 2020-12 meta-schema). *)
From Coq Require Import ZArith NArith List Bool Lia Arith ZifyBool ZifyN ZifyNat.
Import ListNotations.
Require Import SR.Base.Res SR.Gen.JsonTypeParams SR.Spec.Anchor SR.Spec.Layout SR.Model.Layout SR.Spec.SchemaTruth
  SR.Model.Estruct SR.Model.JsonType SR.Model.SchemaDoc SR.Proofs.JsonTypeP.
(* The definitions of this development that occur in theorem statements (Props/) live in Spec/SchemaDocWf.v (audit item G1).
   The abbreviations keep the qualified names SchemaDocP.name of other files resolving; they are parsing-only aliases. *)
Require Export SR.Spec.SchemaDocWf.
Notation is_decimal_kw := SR.Spec.SchemaDocWf.is_decimal_kw (only parsing).
Notation atom_keys := SR.Spec.SchemaDocWf.atom_keys (only parsing).
Notation atom_keys_props := SR.Spec.SchemaDocWf.atom_keys_props (only parsing).
Notation atom_keys_alts := SR.Spec.SchemaDocWf.atom_keys_alts (only parsing).
Open Scope nat_scope.

(* ================================================================== valid_schema, one member at a time *)

Definition member_ok (f : nat) (kv : list N * jval) : bool :=
  let k := fst kv in
  let x := snd kv in
  if str_eqb k k_type then
    is_simple_type x
    || match x with VArr ((_ :: _) as l) => forallb is_simple_type l && nodup_texts l | _ => false end
  else if str_eqb k k_anchor then match x with VText s => legal s | _ => false end
  else if str_eqb k k_ref then is_text x
  else if str_eqb k k_oneOf then
    match x with VArr ((_ :: _) as l) => forallb (valid_schema f) l | _ => false end
  else if str_eqb k k_properties then
    match x with VMap ps => forallb (fun p => valid_schema f (snd p)) ps | _ => false end
  else if str_eqb k k_items then valid_schema f x
  else if str_eqb k k_maxItems || str_eqb k k_minLength || str_eqb k k_maxLength then nonneg_int x
  else if str_eqb k k_title || str_eqb k k_contentEncoding then is_text x
  else true.

Lemma valid_schema_S f d : valid_schema (S f) (VMap d) = forallb (member_ok f) d.
Proof. reflexivity. Qed.

Lemma ok_text_title f x : member_ok f (k_title, VText x) = true.
Proof. reflexivity. Qed.
Lemma ok_text_cobol f x : member_ok f (k_cobol, VText x) = true.
Proof. reflexivity. Qed.
Lemma ok_text_enc f x : member_ok f (k_contentEncoding, VText x) = true.
Proof. reflexivity. Qed.
Lemma ok_text_conv f x : member_ok f (k_conversion, VText x) = true.
Proof. reflexivity. Qed.
Lemma ok_text_ref f x : member_ok f (k_ref, VText x) = true.
Proof. reflexivity. Qed.
Lemma ok_depends f v : member_ok f (k_maxItemsDependsOn, v) = true.
Proof. reflexivity. Qed.
Lemma ok_text_anchor f x : member_ok f (k_anchor, VText x) = legal x.
Proof. reflexivity. Qed.
Lemma ok_text_type f s : member_ok f (k_type, VText s) = is_simple_type (VText s) || false.
Proof. reflexivity. Qed.
Lemma ok_items f v : member_ok f (k_items, v) = valid_schema f v.
Proof. reflexivity. Qed.
Lemma ok_props f ps : member_ok f (k_properties, VMap ps) = forallb (fun p => valid_schema f (snd p)) ps.
Proof. reflexivity. Qed.
Lemma ok_oneOf f x l : member_ok f (k_oneOf, VArr (x :: l)) = forallb (valid_schema f) (x :: l).
Proof. reflexivity. Qed.
Lemma ok_oneOf_empty f : member_ok f (k_oneOf, VArr []) = false.
Proof. reflexivity. Qed.
Lemma nonneg_of_nat n : nonneg_int (VNum (Z.of_nat n)) = true.
Proof. cbn [nonneg_int]. apply Z.leb_le. lia. Qed.
Lemma ok_maxLength f n : member_ok f (m_len k_maxLength n) = true.
Proof. change (nonneg_int (VNum (Z.of_nat n)) = true). apply nonneg_of_nat. Qed.
Lemma ok_minLength f n : member_ok f (m_len k_minLength n) = true.
Proof. change (nonneg_int (VNum (Z.of_nat n)) = true). apply nonneg_of_nat. Qed.
Lemma ok_maxItems f n : member_ok f (m_len k_maxItems n) = true.
Proof. change (nonneg_int (VNum (Z.of_nat n)) = true). apply nonneg_of_nat. Qed.
Lemma ok_type_array f : member_ok f (m_type s_array) = true.
Proof. reflexivity. Qed.
Lemma ok_type_object f : member_ok f (m_type s_object) = true.
Proof. reflexivity. Qed.

(* ================================================================== anchors *)

Lemma start_is_cont c : is_start c = true -> is_cont c = true.
Proof. intros H. unfold is_cont. rewrite H. reflexivity. Qed.

(* REDEFINES-<legal anchor> is a legal anchor *)
Lemma legal_redefines n : legal n = true -> legal (s_redefines ++ n) = true.
Proof.
  destruct n as [|c t]; [discriminate|]. cbn [legal]. intros H. apply andb_true_iff in H as [Hc Ht].
  change (legal (s_redefines ++ c :: t)) with (forallb is_cont ([69; 68; 69; 70; 73; 78; 69; 83; 45]%N ++ c :: t)).
  rewrite forallb_app. cbn [forallb]. rewrite (start_is_cont c Hc), Ht. reflexivity.
Qed.

(* ================================================================== json_type only chooses simple types *)

Lemma chain_in u : forall bs k, chain u bs = Ok k -> In k (map snd bs).
Proof.
  induction bs as [|[names out] r IH]; intros k H; [discriminate|].
  cbn [chain] in H. destruct (mem u names).
  - inversion H; subst. left. reflexivity.
  - right. apply IH. exact H.
Qed.

Lemma json_type_range u txt k :
  json_type u txt = Ok k -> In k (jt_out_numeric :: jt_out_text :: map snd jt_branches).
Proof.
  unfold json_type. destruct (mem u jt_display).
  - intros H. inversion H; subst. destruct (numeric_text jt_numeric_chars jt_upper txt); [left|right; left]; reflexivity.
  - intros H. right. right. apply (chain_in u). exact H.
Qed.

Lemma json_type_ext_range u txt k :
  json_type_ext u txt = Ok k -> In k (xt_out_numeric :: xt_out_text :: map snd xt_branches).
Proof.
  unfold json_type_ext. destruct (mem u xt_display).
  - intros H. inversion H; subst. destruct (numeric_text xt_numeric_chars xt_upper txt); [left|right; left]; reflexivity.
  - intros H. right. right. apply (chain_in u). exact H.
Qed.

(* computed from the tables regenerated from the source: every type json_type can emit is one of the
   meta-schema's simpleTypes *)
Lemma json_type_table_simple : forallb type_ok (jt_out_numeric :: jt_out_text :: map snd jt_branches) = true.
Proof. vm_compute. reflexivity. Qed.

Lemma json_type_simple u txt k : json_type u txt = Ok k -> type_ok k = true.
Proof.
  intros H. apply json_type_range in H. pose proof json_type_table_simple as T.
  rewrite forallb_forall in T. apply T. exact H.
Qed.

Lemma json_type_ext_table : forallb (fun k => type_ok k || is_decimal_kw k) (xt_out_numeric :: xt_out_text :: map snd xt_branches) = true.
Proof. vm_compute. reflexivity. Qed.

Lemma json_type_ext_simple u txt k : json_type_ext u txt = Ok k -> is_decimal_kw k = false -> type_ok k = true.
Proof.
  intros H Hd. apply json_type_ext_range in H. pose proof json_type_ext_table as T.
  rewrite forallb_forall in T. apply T in H. rewrite Hd, orb_false_r in H. exact H.
Qed.

(* ================================================================== the rendering of any tree *)

Section Render.
  Variables name_of title_of cobol_of : id -> list N.
  Variable kw_of : id -> N * N * N.

  Notation D := (doc_of name_of title_of cobol_of kw_of).
  Notation DP := (docs_props name_of title_of cobol_of kw_of).
  Notation DA := (docs_alts name_of title_of cobol_of kw_of).
  Notation ktext := (key_text name_of).

  (* unfolding equations *)
  Lemma doc_JAtom inner a sz :
    D inner (JAtom a sz) =
    VMap ((match a with
           | Some k => (if inner then [] else [m_title title_of (key_id k)]) ++ [m_anchor name_of k; m_cobol cobol_of (key_id k)] ++ kw_members kw_of (key_id k)
           | None => []
           end)
          ++ (if inner then [] else [m_len k_maxLength sz; m_len k_minLength sz])).
  Proof. reflexivity. Qed.
  Lemma doc_JArr inner a n its :
    D inner (JArr a n its) =
    VMap (table_head title_of cobol_of (arr_id a its)
          ++ [m_type s_array; (k_items, D (is_none a) its); m_len k_maxItems n] ++ anchor_members name_of a).
  Proof. reflexivity. Qed.
  Lemma doc_JOdo inner a c its :
    D inner (JOdo a c its) =
    VMap (table_head title_of cobol_of (arr_id a its)
          ++ [m_type s_array; (k_items, D (is_none a) its);
              (k_maxItemsDependsOn, VMap [(k_ref, VText (c_hash :: name_of c))])] ++ anchor_members name_of a).
  Proof. reflexivity. Qed.
  Lemma doc_JObj inner a ps :
    D inner (JObj a ps) =
    VMap ((match a with Some k => [m_title title_of (key_id k); m_anchor name_of k; m_cobol cobol_of (key_id k)] | None => [] end)
          ++ [m_type s_object; (k_properties, VMap (DP (match a with None => inner | Some _ => false end) ps))]).
  Proof. reflexivity. Qed.
  Lemma doc_JOne inner a alts :
    D inner (JOne a alts) = VMap ((k_oneOf, VArr (DA alts)) :: anchor_members name_of a).
  Proof. reflexivity. Qed.
  Lemma doc_JRef inner k :
    D inner (JRef k) = VMap [m_title title_of (key_id k); m_cobol cobol_of (key_id k); (k_ref, VText (ref_text name_of k))].
  Proof. reflexivity. Qed.
  Lemma docs_props_cons inner k s r : DP inner (PCons k s r) = (ktext k, D inner s) :: DP inner r.
  Proof. reflexivity. Qed.
  Lemma docs_alts_cons s r : DA (ACons s r) = D false s :: DA r.
  Proof. reflexivity. Qed.

  Lemma ok_m_title f i : member_ok f (m_title title_of i) = true.
  Proof. apply ok_text_title. Qed.
  Lemma ok_m_cobol f i : member_ok f (m_cobol cobol_of i) = true.
  Proof. apply ok_text_cobol. Qed.
  Lemma ok_m_anchor f k : legal (ktext k) = true -> member_ok f (m_anchor name_of k) = true.
  Proof. intros H. unfold m_anchor. rewrite ok_text_anchor. exact H. Qed.

  Lemma ok_kw_members f i : type_ok (kw_of i) = true -> forallb (member_ok f) (kw_members kw_of i) = true.
  Proof.
    unfold kw_members, type_ok. destruct (kw_of i) as [[t e] c]. cbn [fst].
    destruct (type_text t) as [s|]; intros H; destruct (enc_text e), (conv_text c);
      cbn [opt_member app forallb]; rewrite ?ok_text_type, ?ok_text_enc, ?ok_text_conv, ?H; reflexivity.
  Qed.

  Lemma ok_anchor_members f a :
    (forall k, a = Some k -> legal (ktext k) = true) -> forallb (member_ok f) (anchor_members name_of a) = true.
  Proof.
    intros H. destruct a as [k|]; [|reflexivity]. cbn [anchor_members forallb].
    rewrite (ok_m_anchor f k (H k eq_refl)). reflexivity.
  Qed.

  Lemma ok_table_head f oi : forallb (member_ok f) (table_head title_of cobol_of oi) = true.
  Proof. destruct oi; [|reflexivity]. cbn [table_head forallb]. rewrite ok_m_title, ok_m_cobol. reflexivity. Qed.

  Definition anchors_legal (l : list key) : Prop := forall k, In k l -> legal (ktext k) = true.
  Definition types_simple (l : list key) : Prop := forall k, In k l -> type_ok (kw_of (key_id k)) = true.

  Lemma anchors_of_unfold s :
    anchors_of s = (match js_anchor s with Some k => [k] | None => [] end) ++
                   match s with
                   | JAtom _ _ => []
                   | JArr _ _ its => anchors_of its
                   | JOdo _ _ its => anchors_of its
                   | JObj _ ps => anchors_props ps
                   | JOne _ alts => anchors_alts alts
                   | JRef _ => []
                   end.
  Proof. destruct s; reflexivity. Qed.

  Lemma own_anchor_legal s k : anchors_legal (anchors_of s) -> js_anchor s = Some k -> legal (ktext k) = true.
  Proof. intros H E. apply H. rewrite anchors_of_unfold, E. left. reflexivity. Qed.

  Lemma sub_anchors_legal s l :
    anchors_legal (anchors_of s) ->
    (match s with
     | JAtom _ _ => []
     | JArr _ _ its => anchors_of its
     | JOdo _ _ its => anchors_of its
     | JObj _ ps => anchors_props ps
     | JOne _ alts => anchors_alts alts
     | JRef _ => []
     end = l) -> anchors_legal l.
  Proof. intros H E k Hk. apply H. rewrite anchors_of_unfold, E. apply in_or_app. right. exact Hk. Qed.

  Lemma doc_valid_js :
    (forall s inner fuel,
        shape_ok s = true -> anchors_legal (anchors_of s) -> types_simple (atom_keys s) ->
        jdepth s <= fuel -> valid_schema fuel (D inner s) = true)
    /\ (forall ps inner f,
        shape_props ps = true -> anchors_legal (anchors_props ps) -> types_simple (atom_keys_props ps) ->
        jdepth_props ps <= f -> forallb (fun p => valid_schema f (snd p)) (DP inner ps) = true)
    /\ (forall alts f,
        shape_alts alts = true -> anchors_legal (anchors_alts alts) -> types_simple (atom_keys_alts alts) ->
        jdepth_alts alts <= f -> forallb (valid_schema f) (DA alts) = true).
  Proof.
    apply js_props_alts_ind.
    - (* JAtom *)
      intros a sz inner fuel _ Ha Ht Hd. destruct fuel as [|f]; [cbn [jdepth] in Hd; lia|].
      rewrite doc_JAtom, valid_schema_S, forallb_app. apply andb_true_iff. split.
      + destruct a as [k|]; [|reflexivity].
        rewrite !forallb_app. cbn [forallb].
        rewrite (ok_m_anchor f k (own_anchor_legal _ k Ha eq_refl)), ok_m_cobol.
        rewrite (ok_kw_members f (key_id k) (Ht k (or_introl eq_refl))).
        destruct inner; cbn [forallb]; rewrite ?ok_m_title; reflexivity.
      + destruct inner; cbn [forallb]; rewrite ?ok_maxLength, ?ok_minLength; reflexivity.
    - (* JArr *)
      intros a n its IH inner fuel Hs Ha Ht Hd. destruct fuel as [|f]; [cbn [jdepth] in Hd; lia|].
      cbn [jdepth] in Hd. cbn [shape_ok] in Hs. cbn [atom_keys] in Ht.
      rewrite doc_JArr, valid_schema_S, !forallb_app. cbn [forallb].
      rewrite ok_table_head, ok_type_array, ok_items, ok_maxItems.
      rewrite (IH (is_none a) f Hs (sub_anchors_legal _ _ Ha eq_refl) Ht ltac:(lia)).
      rewrite ok_anchor_members; [reflexivity|]. intros k E. apply (own_anchor_legal _ k Ha). subst a. reflexivity.
    - (* JOdo *)
      intros a c its IH inner fuel Hs Ha Ht Hd. destruct fuel as [|f]; [cbn [jdepth] in Hd; lia|].
      cbn [jdepth] in Hd. cbn [shape_ok] in Hs. cbn [atom_keys] in Ht.
      rewrite doc_JOdo, valid_schema_S, !forallb_app. cbn [forallb].
      rewrite ok_table_head, ok_type_array, ok_items, ok_depends.
      rewrite (IH (is_none a) f Hs (sub_anchors_legal _ _ Ha eq_refl) Ht ltac:(lia)).
      rewrite ok_anchor_members; [reflexivity|]. intros k E. apply (own_anchor_legal _ k Ha). subst a. reflexivity.
    - (* JObj *)
      intros a ps IH inner fuel Hs Ha Ht Hd. destruct fuel as [|f]; [cbn [jdepth] in Hd; lia|].
      cbn [jdepth] in Hd. cbn [shape_ok] in Hs. apply andb_true_iff in Hs as [_ Hs]. cbn [atom_keys] in Ht.
      rewrite doc_JObj, valid_schema_S, forallb_app. cbn [forallb].
      rewrite ok_type_object, ok_props.
      rewrite (IH _ f Hs (sub_anchors_legal _ _ Ha eq_refl) Ht ltac:(lia)).
      destruct a as [k|]; [|reflexivity]. cbn [forallb].
      rewrite ok_m_title, ok_m_cobol, (ok_m_anchor f k (own_anchor_legal _ k Ha eq_refl)). reflexivity.
    - (* JOne *)
      intros a alts IH inner fuel Hs Ha Ht Hd. destruct fuel as [|f]; [cbn [jdepth] in Hd; lia|].
      cbn [jdepth] in Hd. cbn [shape_ok] in Hs. apply andb_true_iff in Hs as [Hne Hs]. cbn [atom_keys] in Ht.
      rewrite doc_JOne, valid_schema_S. cbn [forallb].
      pose proof (IH f Hs (sub_anchors_legal _ _ Ha eq_refl) Ht ltac:(lia)) as Hv.
      destruct alts as [|s0 r]; [discriminate|]. rewrite docs_alts_cons in Hv |- *. rewrite ok_oneOf, Hv.
      rewrite ok_anchor_members; [reflexivity|]. intros k E. apply (own_anchor_legal _ k Ha). subst a. reflexivity.
    - (* JRef *)
      intros k inner fuel _ _ _ Hd. destruct fuel as [|f]; [cbn [jdepth] in Hd; lia|].
      rewrite doc_JRef, valid_schema_S. cbn [forallb]. rewrite ok_m_title, ok_m_cobol, ok_text_ref. reflexivity.
    - (* PNil *) reflexivity.
    - (* PCons *)
      intros k s IHs r IHr inner f Hs Ha Ht Hd. cbn [shape_props] in Hs. apply andb_true_iff in Hs as [Hs1 Hs2].
      cbn [jdepth_props] in Hd. rewrite docs_props_cons. cbn [forallb snd].
      rewrite (IHs inner f Hs1); [rewrite (IHr inner f Hs2); [reflexivity| | |lia]| | |lia].
      + intros x Hx. apply Ha. cbn [anchors_props]. apply in_or_app. right. exact Hx.
      + intros x Hx. apply Ht. cbn [atom_keys_props]. apply in_or_app. right. exact Hx.
      + intros x Hx. apply Ha. cbn [anchors_props]. apply in_or_app. left. exact Hx.
      + intros x Hx. apply Ht. cbn [atom_keys_props]. apply in_or_app. left. exact Hx.
    - (* ANil *) reflexivity.
    - (* ACons *)
      intros s IHs r IHr f Hs Ha Ht Hd. cbn [shape_alts] in Hs. apply andb_true_iff in Hs as [Hs1 Hs2].
      cbn [jdepth_alts] in Hd. rewrite docs_alts_cons. cbn [forallb].
      rewrite (IHs false f Hs1); [rewrite (IHr f Hs2); [reflexivity| | |lia]| | |lia].
      + intros x Hx. apply Ha. cbn [anchors_alts]. apply in_or_app. right. exact Hx.
      + intros x Hx. apply Ht. cbn [atom_keys_alts]. apply in_or_app. right. exact Hx.
      + intros x Hx. apply Ha. cbn [anchors_alts]. apply in_or_app. left. exact Hx.
      + intros x Hx. apply Ht. cbn [atom_keys_alts]. apply in_or_app. left. exact Hx.
  Qed.
End Render.

(* ================================================================== the tree build_json_schema makes *)

(* ---- its elementary sub-schemas are the elementary items of the description ---- *)

Lemma alts_of_atoms u all : forall k,
  In k (atom_keys_alts (alts_of u all)) -> exists b, In b all /\ In k (atom_keys (b_js b)).
Proof.
  induction all as [|[[i0 ou0] s0] r IH]; intros k Hk; [destruct Hk|].
  cbn [alts_of] in Hk.
  assert (Hr : In k (atom_keys_alts (alts_of u r)) -> exists b, In b ((i0, ou0, s0) :: r) /\ In k (atom_keys (b_js b))).
  { intros H. destruct (IH k H) as [b [A B]]. exists b. split; [right; exact A|exact B]. }
  destruct ou0 as [u'|]; [|apply Hr; exact Hk].
  destruct (N.eqb u u'); [|apply Hr; exact Hk].
  cbn [atom_keys_alts] in Hk. apply in_app_or in Hk as [Hk|Hk]; [|apply Hr; exact Hk].
  exists (i0, Some u', s0). split; [left; reflexivity|exact Hk].
Qed.

Lemma assemble_atoms all : forall bs E k,
  incl bs all -> In k (atom_keys_props (assemble all E bs)) -> exists b, In b all /\ In k (atom_keys (b_js b)).
Proof.
  induction bs as [|[[i0 ou0] s0] r IH]; intros E k Hincl Hk; [destruct Hk|].
  assert (Hr : incl r all) by (intros x Hx; apply Hincl; right; exact Hx).
  assert (H0 : In (i0, ou0, s0) all) by (apply Hincl; left; reflexivity).
  cbn [assemble] in Hk. destruct ou0 as [u0|].
  - destruct (existsb (N.eqb u0) E).
    + cbn [atom_keys_props atom_keys app] in Hk. eapply IH; eauto.
    + cbn [atom_keys_props atom_keys] in Hk. apply in_app_or in Hk as [Hk|Hk].
      * apply alts_of_atoms in Hk. exact Hk.
      * cbn [app] in Hk. eapply IH; eauto.
  - cbn [atom_keys_props] in Hk. apply in_app_or in Hk as [Hk|Hk].
    + exists (i0, None, s0). split; [exact H0|exact Hk].
    + eapply IH; eauto.
Qed.

Lemma plain_atoms : forall bs k,
  In k (atom_keys_props (plain bs)) -> exists b, In b bs /\ In k (atom_keys (b_js b)).
Proof.
  induction bs as [|[[i0 ou0] s0] r IH]; intros k Hk; [destruct Hk|].
  cbn [plain atom_keys_props] in Hk. apply in_app_or in Hk as [Hk|Hk].
  - exists (i0, ou0, s0). split; [left; reflexivity|exact Hk].
  - destruct (IH k Hk) as [b [A B]]. exists b. split; [right; exact A|exact B].
Qed.

Lemma build_atoms :
  (forall x k, In k (atom_keys (build_alt x)) -> In k (map KName (elem_ids x)))
  /\ (forall ks targets b k, In b (kid_alts targets ks) -> In k (atom_keys (b_js b)) -> In k (map KName (elem_ids_kids ks))).
Proof.
  apply item_items_ind.
  - intros i sz oc rd k Hk. destruct oc; cbn in Hk |- *; tauto.
  - intros i oc rd ks IH k Hk. cbn [elem_ids].
    destruct oc as [|n|c]; cbn [build_alt atom_keys] in Hk.
    + apply assemble_atoms in Hk; [|apply incl_refl]. destruct Hk as [b [A B]]. eapply IH; eauto.
    + apply plain_atoms in Hk. destruct Hk as [b [A B]]. eapply IH; eauto.
    + apply plain_atoms in Hk. destruct Hk as [b [A B]]. eapply IH; eauto.
  - intros targets b k [].
  - intros x IHx xs IHxs targets b k Hb Hk. rewrite kid_alts_cons in Hb. cbn [elem_ids_kids]. rewrite map_app.
    apply in_or_app. destruct Hb as [Heq|Hb].
    + subst b. left. apply IHx. exact Hk.
    + right. eapply IHxs; eauto.
Qed.

(* ---- its nesting: two levels of sub-schemas per level of the description, and one ---- *)

Lemma alts_of_depth u all M :
  (forall b, In b all -> jdepth (b_js b) <= M) -> jdepth_alts (alts_of u all) <= M.
Proof.
  induction all as [|[[i0 ou0] s0] r IH]; intros H; [cbn; lia|].
  assert (Hr : jdepth_alts (alts_of u r) <= M) by (apply IH; intros b Hb; apply H; right; exact Hb).
  cbn [alts_of]. destruct ou0 as [u'|]; [|exact Hr]. destruct (N.eqb u u'); [|exact Hr].
  cbn [jdepth_alts]. pose proof (H (i0, Some u', s0) (or_introl eq_refl)) as H0. cbn [b_js snd] in H0. lia.
Qed.

Lemma assemble_depth all M :
  (forall b, In b all -> jdepth (b_js b) <= M) ->
  forall bs E, incl bs all -> jdepth_props (assemble all E bs) <= S M.
Proof.
  intros H. induction bs as [|[[i0 ou0] s0] r IH]; intros E Hincl; [cbn; lia|].
  assert (Hr : incl r all) by (intros x Hx; apply Hincl; right; exact Hx).
  pose proof (H (i0, ou0, s0) (Hincl _ (or_introl eq_refl))) as H0. cbn [b_js snd] in H0.
  cbn [assemble]. destruct ou0 as [u0|].
  - destruct (existsb (N.eqb u0) E).
    + cbn [jdepth_props jdepth]. specialize (IH E Hr). lia.
    + cbn [jdepth_props jdepth]. specialize (IH (u0 :: E) Hr). pose proof (alts_of_depth u0 all M H). lia.
  - cbn [jdepth_props]. specialize (IH E Hr). lia.
Qed.

Lemma plain_depth M : forall bs,
  (forall b, In b bs -> jdepth (b_js b) <= M) -> jdepth_props (plain bs) <= M.
Proof.
  induction bs as [|[[i0 ou0] s0] r IH]; intros H; [cbn; lia|].
  cbn [plain jdepth_props]. pose proof (H (i0, ou0, s0) (or_introl eq_refl)) as H0. cbn [b_js snd] in H0.
  assert (jdepth_props (plain r) <= M) by (apply IH; intros b Hb; apply H; right; exact Hb). lia.
Qed.

Lemma build_depth :
  (forall x, jdepth (build_alt x) <= 2 * idepth x + 1)
  /\ (forall ks targets b, In b (kid_alts targets ks) -> jdepth (b_js b) <= 2 * idepth_kids ks + 1).
Proof.
  apply item_items_ind.
  - intros i sz oc rd. destruct oc; cbn; lia.
  - intros i oc rd ks IH. cbn [idepth].
    destruct oc as [|n|c]; cbn [build_alt jdepth].
    + pose proof (assemble_depth (kid_alts (redef_targets ks) ks) _ (IH (redef_targets ks)) (kid_alts (redef_targets ks) ks) []
                    (incl_refl _)). lia.
    + pose proof (plain_depth _ (kid_alts [] ks) (IH [])). lia.
    + pose proof (plain_depth _ (kid_alts [] ks) (IH [])). lia.
  - intros targets b [].
  - intros x IHx xs IHxs targets b Hb. rewrite kid_alts_cons in Hb. cbn [idepth_kids].
    destruct Hb as [Heq|Hb].
    + subst b. cbn [b_js snd]. lia.
    + specialize (IHxs targets b Hb). lia.
Qed.

(* ================================================================== the emitted document is valid *)

Section Emitted.
  Variables name_of title_of cobol_of : id -> list N.
  Variable kw_of : id -> N * N * N.

  (* any choice of type keywords that the meta-schema accepts (both generators) *)
  Lemma emitted_valid_types (e : env) (t : item) (fuel : nat) :
    wf8 e t = true -> NoDup (ids_of t) ->
    (forall i, In i (ids_of t) -> legal (name_of i) = true) ->
    (forall i, In i (elem_ids t) -> type_ok (kw_of i) = true) ->
    2 * idepth t + 1 <= fuel ->
    valid_schema fuel (doc name_of title_of cobol_of kw_of (build t)) = true.
  Proof.
    intros Hw Hnd Hn Ht Hf. unfold doc, build.
    apply (proj1 (doc_valid_js name_of title_of cobol_of kw_of)).
    - apply (valid_shape_partial t Hnd). apply (proj1 (wf8_not_raises e)). exact Hw.
    - intros k Hk.
      assert (Hnd' : NoDup (L.ids t)) by (rewrite (proj1 ids_bridge); exact Hnd).
      destruct (proj1 (anchors_triple e) t Hw Hnd') as [_ [Hincl _]].
      apply Hincl in Hk. apply K_inv in Hk as [j [Hj Hk]]. rewrite (proj1 ids_bridge) in Hj.
      destruct Hk as [-> | ->]; cbn [key_text].
      + apply Hn. exact Hj.
      + apply legal_redefines. apply Hn. exact Hj.
    - intros k Hk. apply (proj1 build_atoms) in Hk. apply in_map_iff in Hk as [i [<- Hi]]. cbn [key_id]. apply Ht. exact Hi.
    - pose proof (proj1 build_depth t). lia.
  Qed.

  (* the standard generator: the keywords of every elementary item are what json_type returns *)
  Lemma emitted_valid (e : env) (t : item) (fuel : nat) :
    wf8 e t = true -> NoDup (ids_of t) ->
    (forall i, In i (ids_of t) -> legal (name_of i) = true) ->
    (forall i, In i (elem_ids t) -> exists u txt, json_type u txt = Ok (kw_of i)) ->
    2 * idepth t + 1 <= fuel ->
    valid_schema fuel (doc name_of title_of cobol_of kw_of (build t)) = true.
  Proof.
    intros Hw Hnd Hn Ht Hf. apply (emitted_valid_types e); try assumption.
    intros i Hi. destruct (Ht i Hi) as [u [txt H]]. exact (json_type_simple u txt _ H).
  Qed.

  (* the extended-vocabulary generator, when no item is typed decimal *)
  Lemma emitted_valid_ext (e : env) (t : item) (fuel : nat) :
    wf8 e t = true -> NoDup (ids_of t) ->
    (forall i, In i (ids_of t) -> legal (name_of i) = true) ->
    (forall i, In i (elem_ids t) -> (exists u txt, json_type_ext u txt = Ok (kw_of i)) /\ is_decimal_kw (kw_of i) = false) ->
    2 * idepth t + 1 <= fuel ->
    valid_schema fuel (doc name_of title_of cobol_of kw_of (build t)) = true.
  Proof.
    intros Hw Hnd Hn Ht Hf. apply (emitted_valid_types e); try assumption.
    intros i Hi. destruct (Ht i Hi) as [[u [txt H]] Hd]. exact (json_type_ext_simple u txt _ H Hd).
  Qed.
End Emitted.

(* ================================================================== the hypothesis on names is needed *)

(* a record (a group) whose own name is not a legal anchor: the document is invalid, whatever else it holds *)
Lemma root_name_needed name_of title_of cobol_of kw_of i oc rd ks fuel :
  legal (name_of i) = false ->
  valid_schema fuel (doc name_of title_of cobol_of kw_of (build (Group i oc rd ks))) = false.
Proof.
  intros H. destruct fuel as [|f]; [reflexivity|]. unfold doc, build.
  assert (Ha : forall g, member_ok g (m_anchor name_of (KName i)) = false).
  { intros g. unfold m_anchor. rewrite ok_text_anchor. cbn [key_text]. exact H. }
  destruct oc as [|n|c]; cbn [build_alt].
  - rewrite doc_JObj, valid_schema_S, forallb_app. cbn [forallb]. rewrite Ha, andb_false_r. reflexivity.
  - rewrite doc_JArr, valid_schema_S, !forallb_app. cbn [anchor_members forallb]. rewrite Ha.
    rewrite !andb_false_r. reflexivity.
  - rewrite doc_JOdo, valid_schema_S, !forallb_app. cbn [anchor_members forallb]. rewrite Ha.
    rewrite !andb_false_r. reflexivity.
Qed.
