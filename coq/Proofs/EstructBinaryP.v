(* Proofs/EstructBinaryP.v - C18 for BINARY items: lemmas behind Props/C18c.v.
   The decoder returns the two's-complement reading of the field as an int, whatever the picture says: the only bound is the
   width's; the picture's digit count and its scale play no part. *)
From Coq Require Import ZArith NArith List Bool Lia Arith ZifyBool ZifyN ZifyNat.
Import ListNotations.
Require Import SR.Base.Res SR.Base.Dec SR.Gen.EstructParams SR.Spec.Encode SR.Spec.Fits SR.Model.Estruct.
Require Import SR.Proofs.EstructP SR.Proofs.EstructWidthP.
Require Export SR.Spec.FitsBinary.
Open Scope Z_scope.

(* ---------- the value: the stored integer, for every buffer of the width ---------- *)
Lemma binary_value u p w buffer :
  In u binary_spellings -> spec_binary_width (p_int p + p_frac p) = Some w -> length buffer = w ->
  unpack u p buffer = Ok (VInt (signed_be w buffer)).
Proof.
  intros Hu Hw Hlen. destruct (usage_binary u Hu) as (H1 & H2 & H3). unfold unpack. rewrite H1, H2, H3.
  unfold unpack_binary_int. rewrite (bin_width_spec p w Hw), Hlen, Nat.eqb_refl. reflexivity.
Qed.

(* ---------- the width bound ---------- *)
Lemma from_be_bound buffer : bytes_ok buffer = true -> (from_be buffer < 256 ^ N.of_nat (length buffer))%N.
Proof.
  unfold bytes_ok. induction buffer as [|b t IH] using rev_ind; intros H.
  - vm_compute. reflexivity.
  - rewrite forallb_app in H. apply andb_true_iff in H. destruct H as [Ht Hb]. cbn [forallb] in Hb.
    rewrite from_be_app, app_length. cbn [length]. rewrite Nat.add_1_r, Nat2N.inj_succ, N.pow_succ_r'.
    specialize (IH Ht). lia.
Qed.

Lemma signed_be_bound_2 buffer : length buffer = 2%nat -> bytes_ok buffer = true ->
  - 32768 <= signed_be 2 buffer < 32768.
Proof.
  intros Hl Hb. pose proof (from_be_bound buffer Hb) as H. rewrite Hl in H. change (256 ^ N.of_nat 2)%N with 65536%N in H.
  unfold signed_be. change (2 ^ (8 * N.of_nat 2 - 1))%N with 32768%N. destruct (_ <? _)%N eqn:E; lia.
Qed.

Lemma signed_be_bound_4 buffer : length buffer = 4%nat -> bytes_ok buffer = true ->
  - 2147483648 <= signed_be 4 buffer < 2147483648.
Proof.
  intros Hl Hb. pose proof (from_be_bound buffer Hb) as H. rewrite Hl in H. change (256 ^ N.of_nat 4)%N with 4294967296%N in H.
  unfold signed_be. change (2 ^ (8 * N.of_nat 4 - 1))%N with 2147483648%N. destruct (_ <? _)%N eqn:E; lia.
Qed.

Lemma signed_be_bound_8 buffer : length buffer = 8%nat -> bytes_ok buffer = true ->
  - 9223372036854775808 <= signed_be 8 buffer < 9223372036854775808.
Proof.
  intros Hl Hb. pose proof (from_be_bound buffer Hb) as H. rewrite Hl in H.
  change (256 ^ N.of_nat 8)%N with 18446744073709551616%N in H.
  unfold signed_be. change (2 ^ (8 * N.of_nat 8 - 1))%N with 9223372036854775808%N. destruct (_ <? _)%N eqn:E; lia.
Qed.

Lemma signed_be_bound w buffer : (w = 2 \/ w = 4 \/ w = 8)%nat -> length buffer = w -> bytes_ok buffer = true ->
  width_low w <= signed_be w buffer <= width_high w.
Proof.
  unfold width_low, width_high. intros [ -> | [ -> | -> ] ] Hl Hb.
  - pose proof (signed_be_bound_2 buffer Hl Hb). change (2 ^ (8 * Z.of_nat 2 - 1)) with 32768. lia.
  - pose proof (signed_be_bound_4 buffer Hl Hb). change (2 ^ (8 * Z.of_nat 4 - 1)) with 2147483648. lia.
  - pose proof (signed_be_bound_8 buffer Hl Hb). change (2 ^ (8 * Z.of_nat 8 - 1)) with 9223372036854775808. lia.
Qed.

Lemma binary_width_bound u p w buffer :
  In u binary_spellings -> spec_binary_width (p_int p + p_frac p) = Some w -> length buffer = w ->
  bytes_ok buffer = true ->
  exists v, unpack u p buffer = Ok (VInt v) /\ width_low w <= v <= width_high w.
Proof.
  intros Hu Hw Hl Hb. exists (signed_be w buffer). split; [apply binary_value; assumption|].
  apply signed_be_bound; [apply (spec_binary_width_cases _ _ Hw)|assumption|assumption].
Qed.

(* every number of the width's range is the decode of some buffer of the width: the bound is exact *)
Lemma to_be_bytes_ok w : forall u, bytes_ok (to_be w u) = true.
Proof.
  unfold bytes_ok. induction w as [|w IH]; intros u; cbn [to_be]; [reflexivity|].
  rewrite forallb_app, IH. cbn [forallb]. assert (u mod 256 < 256)%N by (apply N.mod_lt; lia). lia.
Qed.

Lemma binary_every_value_reached u p w v :
  In u binary_spellings -> spec_binary_width (p_int p + p_frac p) = Some w ->
  width_low w <= v <= width_high w ->
  exists buffer, length buffer = w /\ bytes_ok buffer = true /\ unpack u p buffer = Ok (VInt v).
Proof.
  intros Hu Hw Hv. exists (enc_be w v). split; [apply length_enc_be|]. split; [apply to_be_bytes_ok|].
  apply C02_binary; [assumption|assumption|]. unfold width_low, width_high in Hv. lia.
Qed.

(* ---------- fitting the picture ---------- *)
Lemma pow10_N_Z k : Z.of_N (10 ^ N.of_nat k) = 10 ^ Z.of_nat k.
Proof. rewrite N2Z.inj_pow, nat_N_Z. reflexivity. Qed.

Lemma pow10_pos k : 0 < 10 ^ Z.of_nat k.
Proof. apply Z.pow_pos_nonneg; lia. Qed.

(* the number the field stores fits the picture exactly when its integer content has at most m+n digits *)
Lemma stored_fits_iff s m n v :
  fits_signed s m n (stored_number n v) = true <-> picture_low s (m + n) <= v <= picture_high (m + n).
Proof.
  unfold fits_signed, fits, sign_fits, stored_number, picture_low, picture_high. cbn [coef dexp neg].
  rewrite Z.eqb_refl. cbn [andb].
  pose proof (pow10_N_Z (m + n)) as HP. pose proof (pow10_pos (m + n)) as Hpos.
  destruct s; destruct (v <? 0) eqn:E; cbn [orb negb andb]; lia.
Qed.

(* the RESULT (an int: exponent 0) fits exactly when, in addition, the picture has no fraction digits *)
Lemma int_result_fits_iff p v :
  fits_result p (VInt v) = true <->
  p_frac p = 0%nat /\ picture_low (p_signed p) (p_int p + p_frac p) <= v <= picture_high (p_int p + p_frac p).
Proof.
  cbn [fits_result]. destruct (p_frac p) as [|n'] eqn:En.
  - change (dec_of_int v) with (stored_number 0 v). rewrite stored_fits_iff. tauto.
  - split; [|intros [H _]; discriminate].
    unfold fits_signed, fits, dec_of_int. cbn [dexp]. intros H.
    apply andb_true_iff in H. destruct H as [H _]. apply andb_true_iff in H. destruct H as [H _].
    apply Z.eqb_eq in H. lia.
Qed.

Lemma in_picture_range_iff s d v : in_picture_range s d v = true <-> picture_low s d <= v <= picture_high d.
Proof. unfold in_picture_range. lia. Qed.

Lemma binary_fits_iff u p w buffer :
  In u binary_spellings -> spec_binary_width (p_int p + p_frac p) = Some w -> length buffer = w ->
  exists v, unpack u p buffer = Ok (VInt v) /\ v = signed_be w buffer /\
    (fits_signed (p_signed p) (p_int p) (p_frac p) (stored_number (p_frac p) v) = true
     <-> picture_low (p_signed p) (p_int p + p_frac p) <= v <= picture_high (p_int p + p_frac p)).
Proof.
  intros Hu Hw Hl. exists (signed_be w buffer). split; [apply binary_value; assumption|]. split; [reflexivity|].
  apply stored_fits_iff.
Qed.

Lemma binary_result_fits_iff u p w buffer :
  In u binary_spellings -> spec_binary_width (p_int p + p_frac p) = Some w -> length buffer = w ->
  exists v, unpack u p buffer = Ok (VInt v) /\ v = signed_be w buffer /\
    (fits_result p (VInt v) = true
     <-> p_frac p = 0%nat /\ picture_low (p_signed p) (p_int p + p_frac p) <= v <= picture_high (p_int p + p_frac p)).
Proof.
  intros Hu Hw Hl. exists (signed_be w buffer). split; [apply binary_value; assumption|]. split; [reflexivity|].
  apply int_result_fits_iff.
Qed.

(* the violations are exactly the trigger set of the known finding *)
Lemma binary_violation_set u p w buffer :
  In u binary_spellings -> spec_binary_width (p_int p + p_frac p) = Some w -> length buffer = w ->
  violates u p buffer = binary_exceeds_picture p buffer.
Proof.
  intros Hu Hw Hl. unfold violates. rewrite (binary_value u p w buffer Hu Hw Hl).
  unfold binary_exceeds_picture. rewrite Hl.
  pose proof (int_result_fits_iff p (signed_be w buffer)) as H.
  pose proof (in_picture_range_iff (p_signed p) (p_int p + p_frac p) (signed_be w buffer)) as R.
  destruct (fits_result p (VInt (signed_be w buffer))) eqn:F;
    destruct (in_picture_range (p_signed p) (p_int p + p_frac p) (signed_be w buffer)) eqn:G;
    destruct (0 <? p_frac p)%nat eqn:Z0; cbn [negb orb]; try reflexivity; exfalso.
  - destruct H as [H _]. specialize (H eq_refl). apply Nat.ltb_lt in Z0. lia.
  - destruct H as [H _]. specialize (H eq_refl). destruct R as [_ R]. destruct H as [_ H]. specialize (R H). discriminate.
  - destruct H as [H _]. specialize (H eq_refl). destruct R as [_ R]. destruct H as [_ H]. specialize (R H). discriminate.
  - destruct H as [_ H]. destruct R as [R _]. specialize (R eq_refl). apply Nat.ltb_ge in Z0.
    assert (fits_result p (VInt (signed_be w buffer)) = true) by (rewrite F; apply H; split; [lia|exact R]). congruence.
Qed.

(* outside the trigger set: the main theorem *)
Lemma binary_fits_outside_finding u p w buffer :
  In u binary_spellings -> spec_binary_width (p_int p + p_frac p) = Some w -> length buffer = w ->
  binary_exceeds_picture p buffer = false ->
  exists r, unpack u p buffer = Ok r /\ fits_result p r = true.
Proof.
  intros Hu Hw Hl Hk. pose proof (binary_violation_set u p w buffer Hu Hw Hl) as H. rewrite Hk in H.
  unfold violates in H. rewrite (binary_value u p w buffer Hu Hw Hl) in *.
  eexists. split; [reflexivity|]. apply negb_false_iff. exact H.
Qed.

(* ---------- the scale ---------- *)
Lemma binary_scale_never_applied u p w buffer :
  In u binary_spellings -> spec_binary_width (p_int p + p_frac p) = Some w -> length buffer = w ->
  (0 < p_frac p)%nat ->
  exists v, unpack u p buffer = Ok (VInt v) /\ fits_result p (VInt v) = false.
Proof.
  intros Hu Hw Hl Hn. exists (signed_be w buffer). split; [apply binary_value; assumption|].
  destruct (fits_result p (VInt (signed_be w buffer))) eqn:F; [|reflexivity].
  apply int_result_fits_iff in F. lia.
Qed.

(* ---------- a picture without S: negative result = too many digits under the unsigned reading ---------- *)
Lemma spec_binary_width_digits d w : spec_binary_width d = Some w ->
  (w = 2 /\ d <= 4 \/ w = 4 /\ d <= 9 \/ w = 8 /\ d <= 18)%nat.
Proof.
  unfold spec_binary_width. destruct (d <? 1)%nat; [discriminate|].
  destruct (d <=? 4)%nat eqn:E1; [intros H; injection H as <-; left; split; [reflexivity|apply Nat.leb_le; exact E1]|].
  destruct (d <=? 9)%nat eqn:E2; [intros H; injection H as <-; right; left; split; [reflexivity|apply Nat.leb_le; exact E2]|].
  destruct (d <=? 18)%nat eqn:E3; [intros H; injection H as <-; right; right; split; [reflexivity|apply Nat.leb_le; exact E3]|discriminate].
Qed.

Lemma pow10_le a b : (a <= b)%nat -> 10 ^ Z.of_nat a <= 10 ^ Z.of_nat b.
Proof. intros H. apply Z.pow_le_mono_r; lia. Qed.

Lemma unsigned_reading d w buffer :
  spec_binary_width d = Some w -> length buffer = w -> bytes_ok buffer = true ->
  (Z.of_N (from_be buffer) <= picture_high d <-> 0 <= signed_be w buffer <= picture_high d).
Proof.
  intros Hw Hl Hb. unfold picture_high.
  pose proof (from_be_bound buffer Hb) as HB. rewrite Hl in HB.
  destruct (spec_binary_width_digits d w Hw) as [[-> Hd]|[[-> Hd]|[-> Hd]]]; pose proof (pow10_le _ _ Hd) as HP; unfold signed_be.
  - change (10 ^ Z.of_nat 4) with 10000 in HP. change (256 ^ N.of_nat 2)%N with 65536%N in HB.
    change (2 ^ (8 * N.of_nat 2 - 1))%N with 32768%N. destruct (_ <? _)%N eqn:E; lia.
  - change (10 ^ Z.of_nat 9) with 1000000000 in HP. change (256 ^ N.of_nat 4)%N with 4294967296%N in HB.
    change (2 ^ (8 * N.of_nat 4 - 1))%N with 2147483648%N. destruct (_ <? _)%N eqn:E; lia.
  - change (10 ^ Z.of_nat 18) with 1000000000000000000 in HP. change (256 ^ N.of_nat 8)%N with 18446744073709551616%N in HB.
    change (2 ^ (8 * N.of_nat 8 - 1))%N with 9223372036854775808%N. destruct (_ <? _)%N eqn:E; lia.
Qed.

(* ---------- all two-byte buffers ---------- *)
Lemma halfword_buffers_complete a b : (a < 256)%N -> (b < 256)%N -> In [a; b] halfword_buffers.
Proof.
  intros Ha Hb. unfold halfword_buffers. apply in_flat_map. exists (N.to_nat a). split; [apply in_seq; lia|].
  apply in_map_iff. exists (N.to_nat b). split; [rewrite !N2Nat.id; reflexivity|apply in_seq; lia].
Qed.

Lemma halfword_buffers_all buffer : length buffer = 2%nat -> bytes_ok buffer = true -> In buffer halfword_buffers.
Proof.
  intros Hl Hb. destruct buffer as [|a [|b [|c t]]]; try discriminate.
  unfold bytes_ok in Hb. cbn [forallb] in Hb. apply halfword_buffers_complete; lia.
Qed.

(* of the 65536 buffers of two bytes: how many decode to a value that does not fit *)
Lemma halfword_counts :
  count_if (fun _ => true) halfword_buffers = 65536%N
  /\ count_if (violates 10 (mkpic false 4 0)) halfword_buffers = 55536%N
  /\ count_if (violates 10 (mkpic true 4 0)) halfword_buffers = 45537%N
  /\ count_if (violates 10 (mkpic false 1 0)) halfword_buffers = 65526%N
  /\ count_if (violates 10 (mkpic true 1 0)) halfword_buffers = 65517%N
  /\ count_if (violates 10 (mkpic false 2 2)) halfword_buffers = 65536%N.
Proof. vm_compute. repeat split; reflexivity. Qed.

(* ---------- witnesses against the full statement ---------- *)
Lemma binary_witnesses :
  unpack 10 (mkpic false 4 0) [127; 255]%N = Ok (VInt 32767)
  /\ fits_result (mkpic false 4 0) (VInt 32767) = false
  /\ unpack 10 (mkpic false 4 0) [255; 255]%N = Ok (VInt (-1))
  /\ fits_result (mkpic false 4 0) (VInt (-1)) = false
  /\ unpack 10 (mkpic true 3 2) [127; 255; 255; 255]%N = Ok (VInt 2147483647)
  /\ fits_result (mkpic true 3 2) (VInt 2147483647) = false
  /\ unpack 10 (mkpic true 3 2) [0; 0; 48; 57]%N = Ok (VInt 12345)
  /\ fits_result (mkpic true 3 2) (VInt 12345) = false.
Proof. vm_compute. repeat split; reflexivity. Qed.

(* 7F FF in 9(4) COMP: no error, and the value 32767 does not fit *)
Lemma binary_full_refuted :
  ~ (forall (u : N) (p : pic) (w : nat) (buffer : list N),
      In u binary_spellings -> (1 <= p_int p + p_frac p <= 18)%nat ->
      spec_binary_width (p_int p + p_frac p) = Some w -> length buffer = w -> bytes_ok buffer = true ->
      (exists e, unpack u p buffer = Err e) \/
      (exists r, unpack u p buffer = Ok r /\ fits_result p r = true)).
Proof.
  intros H. specialize (H 10%N (mkpic false 4 0) 2%nat [127; 255]%N).
  destruct H as [[e He]|[r [Hr Hf]]]; try reflexivity.
  - cbn. auto 10.
  - cbn. lia.
  - vm_compute in He. discriminate.
  - vm_compute in Hr. injection Hr as <-. vm_compute in Hf. discriminate.
Qed.

Lemma conj_refuted (A B : Prop) : ~ B -> ~ (A /\ B).
Proof. intros HB [_ H]. exact (HB H). Qed.
