(* Model/Utf8.v: decoding inverts encoding on every sequence of Unicode scalar values. *)
From Coq Require Import ZArith NArith List Bool Lia Arith ZifyBool ZifyN ZifyNat.
Import ListNotations.
Require Import SR.Model.Utf8.
Open Scope N_scope.
Ltac Zify.zify_post_hook ::= Z.to_euclidean_division_equations.

Ltac ltb_true := match goal with |- context [?a <? ?b] => replace (a <? b) with true by (symmetry; apply N.ltb_lt; lia) end.
Ltac ltb_false := match goal with |- context [?a <? ?b] => replace (a <? b) with false by (symmetry; apply N.ltb_ge; lia) end.

Lemma cont_ok x : x < 64 -> cont (128 + x) = Some x.
Proof.
  intros H. unfold cont.
  replace (128 <=? 128 + x) with true by (symmetry; apply N.leb_le; lia).
  replace (128 + x <? 192) with true by (symmetry; apply N.ltb_lt; lia).
  cbn [andb]. f_equal. lia.
Qed.

Lemma scalar_inv c : scalar c = true -> c < 55296 \/ (57343 < c /\ c <= 1114111).
Proof.
  unfold scalar. intros H. apply orb_prop in H as [H|H]; [left; apply N.ltb_lt; exact H|right].
  apply andb_prop in H as [H1 H2]. apply N.ltb_lt in H1. apply N.leb_le in H2. split; assumption.
Qed.

Lemma decode_char c rest fuel : scalar c = true ->
  utf8_decode (S fuel) (utf8_char c ++ rest) = option_map (cons c) (utf8_decode fuel rest).
Proof.
  intros Hs. apply scalar_inv in Hs. unfold utf8_char.
  destruct (c <? 128) eqn:E1.
  { cbn [app utf8_decode]. rewrite E1. reflexivity. }
  apply N.ltb_ge in E1. destruct (c <? 2048) eqn:E2.
  { apply N.ltb_lt in E2. cbn [app utf8_decode].
    assert (Hm : c mod 64 < 64) by (apply N.mod_lt; discriminate).
    replace (192 + c / 64 <? 128) with false by (symmetry; apply N.ltb_ge; lia).
    replace (192 + c / 64 <? 192) with false by (symmetry; apply N.ltb_ge; lia).
    replace (192 + c / 64 <? 224) with true by (symmetry; apply N.ltb_lt; lia).
    rewrite (cont_ok _ Hm). cbn zeta.
    replace ((192 + c / 64 - 192) * 64 + c mod 64) with c by lia.
    replace (c <? 128) with false by (symmetry; apply N.ltb_ge; lia). reflexivity. }
  apply N.ltb_ge in E2. destruct (c <? 65536) eqn:E3.
  { apply N.ltb_lt in E3. cbn [app utf8_decode].
    assert (Hm : c mod 64 < 64) by (apply N.mod_lt; discriminate).
    assert (Hm2 : (c / 64) mod 64 < 64) by (apply N.mod_lt; discriminate).
    replace (224 + c / 4096 <? 128) with false by (symmetry; apply N.ltb_ge; lia).
    replace (224 + c / 4096 <? 192) with false by (symmetry; apply N.ltb_ge; lia).
    replace (224 + c / 4096 <? 224) with false by (symmetry; apply N.ltb_ge; lia).
    replace (224 + c / 4096 <? 240) with true by (symmetry; apply N.ltb_lt; lia).
    rewrite (cont_ok _ Hm), (cont_ok _ Hm2). cbn zeta.
    replace (((224 + c / 4096 - 224) * 64 + (c / 64) mod 64) * 64 + c mod 64) with c by lia.
    replace (c <? 2048) with false by (symmetry; apply N.ltb_ge; lia).
    replace ((55296 <=? c) && (c <=? 57343)) with false; [reflexivity|].
    symmetry. apply andb_false_iff. destruct Hs as [H|[H _]]; [left; apply N.leb_gt; lia|right; apply N.leb_gt; lia]. }
  apply N.ltb_ge in E3. destruct Hs as [Hs|[_ Hs]]; [lia|]. cbn [app utf8_decode].
  assert (Hm : c mod 64 < 64) by (apply N.mod_lt; discriminate).
  assert (Hm2 : (c / 64) mod 64 < 64) by (apply N.mod_lt; discriminate).
  assert (Hm3 : (c / 4096) mod 64 < 64) by (apply N.mod_lt; discriminate).
  replace (240 + c / 262144 <? 128) with false by (symmetry; apply N.ltb_ge; lia).
  replace (240 + c / 262144 <? 192) with false by (symmetry; apply N.ltb_ge; lia).
  replace (240 + c / 262144 <? 224) with false by (symmetry; apply N.ltb_ge; lia).
  replace (240 + c / 262144 <? 240) with false by (symmetry; apply N.ltb_ge; lia).
  replace (240 + c / 262144 <? 248) with true by (symmetry; apply N.ltb_lt; lia).
  rewrite (cont_ok _ Hm), (cont_ok _ Hm2), (cont_ok _ Hm3). cbn zeta.
  replace ((((240 + c / 262144 - 240) * 64 + (c / 4096) mod 64) * 64 + (c / 64) mod 64) * 64 + c mod 64) with c by lia.
  replace (c <? 65536) with false by (symmetry; apply N.ltb_ge; lia).
  replace (1114111 <? c) with false by (symmetry; apply N.ltb_ge; lia). reflexivity.
Qed.

Lemma utf8_char_length c : (1 <= length (utf8_char c))%nat.
Proof. unfold utf8_char. destruct (c <? 128), (c <? 2048), (c <? 65536); cbn [length]; lia. Qed.

Lemma utf8_decode_encode : forall s fuel, forallb scalar s = true -> (length (utf8 s) <= fuel)%nat ->
  utf8_decode fuel (utf8 s) = Some s.
Proof.
  induction s as [|c s IH]; intros fuel Hs Hf.
  - destruct fuel; reflexivity.
  - cbn [forallb] in Hs. apply andb_prop in Hs as [Hc Hs].
    change (utf8 (c :: s)) with (utf8_char c ++ utf8 s) in *. rewrite app_length in Hf.
    pose proof (utf8_char_length c). destruct fuel as [|fuel]; [lia|].
    rewrite (decode_char c _ fuel Hc), IH by (assumption || lia). reflexivity.
Qed.

(* reading back the file written with encoding utf-8 gives the characters *)
Lemma utf8_roundtrip s : forallb scalar s = true -> utf8_decode (length (utf8 s)) (utf8 s) = Some s.
Proof. intros H. apply utf8_decode_encode; [exact H|apply Nat.le_refl]. Qed.
