(* Lemmas about Model/Structure.v for property C07. *)
From Coq Require Import ZArith NArith List Bool Lia Arith ZifyBool ZifyN ZifyNat.
Import ListNotations.
Require Import SR.Base.Res SR.Spec.Dde SR.Model.Structure.
Require Import SR.Gen.StructureParams.
(* The definitions of this development that occur in theorem statements (Props/) live in Spec/StructureWf.v (audit item G1).
   The abbreviations keep the qualified names StructureP.name of other files resolving; they are parsing-only aliases. *)
Require Export SR.Spec.StructureWf.
Notation users := SR.Spec.StructureWf.users (only parsing).
Notation not_generated := SR.Spec.StructureWf.not_generated (only parsing).
Notation no01 := SR.Spec.StructureWf.no01 (only parsing).
Notation levels_of := SR.Spec.StructureWf.levels_of (only parsing).
Notation kept_of := SR.Spec.StructureWf.kept_of (only parsing).
Open Scope nat_scope.
Ltac Zify.zify_post_hook ::= Z.to_euclidean_division_equations.

(* ================================================================= what the source says now (T1)

   Model/Structure.v is parameterised by Gen/StructureParams.v, which harness/t1_text.py regenerates from
   DDE.__init__ and structure() of src/stingray/cobol_parser.py on every run.  The lemmas of this section
   state in closed form what the model is for the values the proofs below were written for; each is
   proved by computation, so it stops compiling when the source changes the FILLER literals, the
   format FILLER-n of the generated names, the increment, the level that resets the counter, the reset at
   the start of structure(), the set of skipped levels or the comparison of the pop loop.  Everything
   after this section uses these lemmas, never the parameters. *)

(* name = clauses.get(name) or clauses.get(filler) or the literal FILLER; that literal is what is numbered *)
Lemma naming_literals : default_name = FILLER /\ filler_name = FILLER.
Proof. split; reflexivity. Qed.

Lemma dde_name_eq : forall e,
  dde_name e = match ename e with
               | Some n => n
               | None => match efill e with Some f => f | None => FILLER end
               end.
Proof. reflexivity. Qed.

Lemma is_filler_eq : forall e, is_filler e = str_eqb (dde_name e) FILLER.
Proof. reflexivity. Qed.

(* unique_name = FILLER-n *)
Lemma gen_name_eq : forall n, gen_name n = FILLER_dash ++ dec n.
Proof. intro n. unfold gen_name. change gen_suffix with (@nil N). rewrite app_nil_r. reflexivity. Qed.

(* the counter is set to zero by a level-01 entry, and by nothing else, before it is advanced by one *)
Lemma is_reset_eq : forall l, is_reset l = lvl_eqb l L01.
Proof. intro l. unfold is_reset. change reset_levels with [L01]. cbn [existsb]. apply orb_false_r. Qed.

Lemma mk_ddes_eq : forall c e r,
  mk_ddes c (e :: r) =
  let c0 := if lvl_eqb (elv e) L01 then 0%N else c in
  if is_filler e then {| de := e; du := gen_name (c0 + 1) |} :: mk_ddes (c0 + 1) r
  else {| de := e; du := dde_name e |} :: mk_ddes c0 r.
Proof. intros c e r. cbn [mk_ddes]. rewrite is_reset_eq. reflexivity. Qed.

(* structure() starts the numbering from zero whatever the counter was: [structure l] is [mk_ddes 0 l] *)
Lemma structure_resets : reset_at_start = true.
Proof. reflexivity. Qed.

(* the loop skips the levels 66, 77 and 88 *)
Lemma skipped_eq : forall d, skipped d = lvl_eqb (dlv d) L66 || lvl_eqb (dlv d) L77 || lvl_eqb (dlv d) L88.
Proof.
  intro d. unfold skipped. change skipped_levels with [L66; L77; L88]. cbn [existsb].
  rewrite orb_false_r, orb_assoc. reflexivity.
Qed.

(* the pop loop compares node.level <= bottom.level *)
Lemma pop_test_eq : forall a b, pop_test a b = lvl_leb a b.
Proof. reflexivity. Qed.

(* ================================================================= strings, decimal numerals *)

Lemma str_eqb_eq : forall a b, str_eqb a b = true <-> a = b.
Proof.
  induction a as [|x a IH]; destruct b as [|y b]; simpl; split; intro H; try reflexivity; try discriminate.
  - apply andb_true_iff in H. destruct H as [H1 H2]. apply N.eqb_eq in H1. apply IH in H2. subst. reflexivity.
  - inversion H; subst. rewrite N.eqb_refl. simpl. apply IH. reflexivity.
Qed.

Lemma str_eqb_refl : forall a, str_eqb a a = true.
Proof. intro a. apply str_eqb_eq. reflexivity. Qed.

Fixpoint val_lsb (l : list N) : N :=
  match l with [] => 0%N | d :: t => ((d - 48) + 10 * val_lsb t)%N end.

Lemma dec_lsb_val : forall f n, (n < N.of_nat f)%N -> val_lsb (dec_lsb f n) = n.
Proof.
  induction f as [|f IH]; intros n Hn.
  - lia.
  - cbn [dec_lsb]. destruct (n <? 10)%N eqn:E.
    + cbn [val_lsb]. lia.
    + cbn [val_lsb]. rewrite IH by lia. lia.
Qed.

Lemma dec_inj : forall n m, dec n = dec m -> n = m.
Proof.
  intros n m H. unfold dec in H.
  apply (f_equal (@rev N)) in H. rewrite !rev_involutive in H.
  apply (f_equal val_lsb) in H.
  rewrite !dec_lsb_val in H by lia. exact H.
Qed.

Lemma gen_name_inj : forall n m, gen_name n = gen_name m -> n = m.
Proof. intros n m H. rewrite !gen_name_eq in H. apply app_inv_head in H. apply dec_inj. exact H. Qed.

(* ================================================================= naming *)

Lemma mk_ddes_cons_no01 : forall c e r, no01 e ->
  mk_ddes c (e :: r) =
  if is_filler e then {| de := e; du := gen_name (c + 1) |} :: mk_ddes (c + 1) r
  else {| de := e; du := dde_name e |} :: mk_ddes c r.
Proof. intros c e r H. rewrite mk_ddes_eq. unfold no01 in H. rewrite H. reflexivity. Qed.

Lemma users_cons : forall e r,
  users (e :: r) = if is_filler e then users r else dde_name e :: users r.
Proof. intros. unfold users. cbn [filter]. destruct (is_filler e); reflexivity. Qed.

Lemma mk_ddes_names_in : forall l c u, Forall no01 l -> In u (map du (mk_ddes c l)) ->
  (exists k, (c < k)%N /\ u = gen_name k) \/ In u (users l).
Proof.
  induction l as [|e r IH]; intros c u Hl Hin.
  - destruct Hin.
  - inversion Hl as [|? ? He Hr]; subst.
    rewrite mk_ddes_cons_no01 in Hin by exact He. rewrite users_cons.
    destruct (is_filler e).
    + cbn [map du In] in Hin. destruct Hin as [Hu | Hin].
      * left. exists (c + 1)%N. split; [lia | symmetry; exact Hu].
      * destruct (IH _ _ Hr Hin) as [[k [Hk Hu]] | Hu].
        -- left. exists k. split; [lia | exact Hu].
        -- right. exact Hu.
    + cbn [map du In] in Hin. destruct Hin as [Hu | Hin].
      * right. left. exact Hu.
      * destruct (IH _ _ Hr Hin) as [[k [Hk Hu]] | Hu].
        -- left. exists k. split; [lia | exact Hu].
        -- right. right. exact Hu.
Qed.

Lemma mk_ddes_nodup : forall l c, Forall no01 l -> NoDup (users l) -> Forall not_generated (users l) ->
  NoDup (map du (mk_ddes c l)).
Proof.
  induction l as [|e r IH]; intros c Hl Hnd Hng.
  - constructor.
  - inversion Hl as [|? ? He Hr]; subst.
    rewrite mk_ddes_cons_no01 by exact He. rewrite users_cons in Hnd, Hng.
    destruct (is_filler e).
    + cbn [map du]. constructor.
      * intro Hin. destruct (mk_ddes_names_in _ _ _ Hr Hin) as [[k [Hk Hu]] | Hu].
        -- apply gen_name_inj in Hu. lia.
        -- rewrite Forall_forall in Hng. exact (Hng _ Hu (c + 1)%N eq_refl).
      * apply IH; assumption.
    + cbn [map du]. inversion Hnd as [|? ? Hn1 Hn2]; subst. inversion Hng as [|? ? Hg1 Hg2]; subst.
      constructor.
      * intro Hin. destruct (mk_ddes_names_in _ _ _ Hr Hin) as [[k [Hk Hu]] | Hu].
        -- exact (Hg1 k Hu).
        -- exact (Hn1 Hu).
      * apply IH; assumption.
Qed.

(* one record: the counter may be reset by the first entry only *)
Lemma names_distinct : forall (c : N) (l : list entry),
  Forall no01 (tl l) -> NoDup (users l) -> Forall not_generated (users l) ->
  NoDup (map du (mk_ddes c l)).
Proof.
  intros c [|e r] Hl Hnd Hng.
  - constructor.
  - cbn [tl] in Hl. rewrite mk_ddes_eq. cbv zeta. rewrite users_cons in Hnd, Hng.
    set (c0 := if lvl_eqb (elv e) L01 then 0%N else c).
    destruct (is_filler e).
    + cbn [map du]. constructor.
      * intro Hin. destruct (mk_ddes_names_in _ _ _ Hl Hin) as [[k [Hk Hu]] | Hu].
        -- apply gen_name_inj in Hu. lia.
        -- rewrite Forall_forall in Hng. exact (Hng _ Hu (c0 + 1)%N eq_refl).
      * apply mk_ddes_nodup; assumption.
    + cbn [map du]. inversion Hnd as [|? ? Hn1 Hn2]; subst. inversion Hng as [|? ? Hg1 Hg2]; subst.
      constructor.
      * intro Hin. destruct (mk_ddes_names_in _ _ _ Hl Hin) as [[k [Hk Hu]] | Hu].
        -- exact (Hg1 k Hu).
        -- exact (Hn1 Hu).
      * apply mk_ddes_nodup; assumption.
Qed.

Lemma mk_ddes_01 : forall c e r, lvl_eqb (elv e) L01 = true -> mk_ddes c (e :: r) = mk_ddes 0 (e :: r).
Proof. intros c e r H. rewrite !mk_ddes_eq. rewrite H. reflexivity. Qed.

Lemma mk_ddes_app_01 : forall l1 c e l2, lvl_eqb (elv e) L01 = true ->
  mk_ddes c (l1 ++ e :: l2) = mk_ddes c l1 ++ mk_ddes 0 (e :: l2).
Proof.
  induction l1 as [|x l1 IH]; intros c e l2 He.
  - cbn [app]. rewrite (mk_ddes_eq c e l2), (mk_ddes_eq 0 e l2). rewrite He. reflexivity.
  - cbn [app]. rewrite (mk_ddes_eq c x (l1 ++ e :: l2)), (mk_ddes_eq c x l1). cbv zeta.
    destruct (is_filler x); cbn [app]; rewrite IH by exact He; reflexivity.
Qed.

Lemma mk_ddes_de : forall l c, map de (mk_ddes c l) = l.
Proof.
  induction l as [|e r IH]; intro c; cbn [mk_ddes map].
  - reflexivity.
  - destruct (is_filler e); cbn [map de]; rewrite IH; reflexivity.
Qed.

(* a named entry keeps its name *)
Lemma mk_ddes_named : forall l c d, In d (mk_ddes c l) -> is_filler (de d) = false -> du d = dde_name (de d).
Proof.
  induction l as [|e r IH]; intros c d Hin Hf.
  - destruct Hin.
  - cbn [mk_ddes] in Hin. destruct (is_filler e) eqn:E; destruct Hin as [Hd | Hin].
    + subst d. cbn [de] in Hf. congruence.
    + eapply IH; eassumption.
    + subst d. reflexivity.
    + eapply IH; eassumption.
Qed.

(* ================================================================= the order on levels *)

Lemma lvl_leb_total : forall a b, lvl_leb a b = false -> lvl_leb b a = true.
Proof. intros [a1 a2] [b1 b2]. unfold lvl_leb. cbn [fst snd]. lia. Qed.

Lemma lvl_leb_trans : forall a b c, lvl_leb a b = true -> lvl_leb b c = true -> lvl_leb a c = true.
Proof. intros [a1 a2] [b1 b2] [c1 c2]. unfold lvl_leb. cbn [fst snd]. lia. Qed.

Lemma lvl_leb_num : forall a b, two_digits a = true -> two_digits b = true ->
  lvl_leb a b = negb (lvl_num b <? lvl_num a)%N.
Proof.
  intros [a1 a2] [b1 b2]. unfold two_digits, is_digit, lvl_leb, lvl_num. cbn [fst snd]. lia.
Qed.

Lemma lvl_eqb_num : forall a n1 n2, two_digits a = true -> is_digit n1 = true -> is_digit n2 = true ->
  lvl_eqb a (n1, n2) = (lvl_num a =? lvl_num (n1, n2))%N.
Proof.
  intros [a1 a2] n1 n2. unfold two_digits, is_digit, lvl_eqb, lvl_num. cbn [fst snd]. lia.
Qed.

Lemma keep_num : forall d, two_digits (dlv d) = true -> keep d = kept_level (lvl_num (dlv d)).
Proof.
  intros d H. unfold keep. rewrite skipped_eq. unfold kept_level, L66, L77, L88.
  rewrite !lvl_eqb_num by (exact H || reflexivity). reflexivity.
Qed.

(* ================================================================= flattening a state *)

Definition fflat (f : frame) : list dde := fd f :: preorder_f (fkids f).

Fixpoint sflat (st : list frame) : list dde :=
  match st with
  | [] => []
  | f :: outer => sflat outer ++ fflat f
  end.

Definition stflat (s : state) : list dde := preorder_f (roots s) ++ sflat (cur s :: rest s).

Definition fpars (p : option nat) (i : nat) (f : frame) : list (option nat) :=
  p :: parents_f (Some i) (S i) (fkids f).

Fixpoint spars (n0 : nat) (st : list frame) : list (option nat) :=
  match st with
  | [] => []
  | f :: outer =>
      spars n0 outer ++
      fpars (match outer with [] => None | _ :: o' => Some (n0 + length (sflat o')) end)
            (n0 + length (sflat outer)) f
  end.

Definition stpars (s : state) : list (option nat) :=
  parents_f None 0 (roots s) ++ spars (length (preorder_f (roots s))) (cur s :: rest s).

Lemma preorder_f_cons : forall t f, preorder_f (t :: f) = preorder t ++ preorder_f f.
Proof. reflexivity. Qed.

Lemma preorder_f_app : forall a b, preorder_f (a ++ b) = preorder_f a ++ preorder_f b.
Proof. intros. unfold preorder_f. apply flat_map_app. Qed.

Lemma preorder_node : forall d b kids, preorder (TNode d b kids) = d :: preorder_f kids.
Proof. reflexivity. Qed.

Lemma preorder_close : forall f, preorder (close f) = fflat f.
Proof. reflexivity. Qed.

Lemma parents_t_eq : forall p i d b kids,
  parents_t p i (TNode d b kids) = p :: parents_f (Some i) (S i) kids.
Proof.
  intros p i d b kids. cbn [parents_t]. f_equal.
  generalize (S i). induction kids as [|k ks IH]; intro j.
  - reflexivity.
  - cbn [parents_f]. rewrite IH. reflexivity.
Qed.

Lemma parents_f_cons : forall p i t f,
  parents_f p i (t :: f) = parents_t p i t ++ parents_f p (i + length (preorder t)) f.
Proof. reflexivity. Qed.

Lemma parents_f_app : forall a b p i,
  parents_f p i (a ++ b) = parents_f p i a ++ parents_f p (i + length (preorder_f a)) b.
Proof.
  induction a as [|t a IH]; intros b p i.
  - cbn [app parents_f preorder_f flat_map length]. rewrite Nat.add_0_r. reflexivity.
  - cbn [app]. rewrite !parents_f_cons, IH, preorder_f_cons, app_length, <- app_assoc.
    rewrite Nat.add_assoc. reflexivity.
Qed.

Lemma parents_close : forall p i f, parents_t p i (close f) = fpars p i f.
Proof. intros. unfold close. rewrite parents_t_eq. reflexivity. Qed.

Lemma preorder_f_one : forall t, preorder_f [t] = preorder t.
Proof. intro t. unfold preorder_f. cbn [flat_map]. apply app_nil_r. Qed.

Lemma sflat_attach : forall c p o, sflat (attach (close c) p :: o) = sflat (c :: p :: o).
Proof.
  intros c p o. cbn [sflat]. unfold fflat. cbn [attach fd fkids].
  rewrite preorder_f_app, preorder_f_one, preorder_close. unfold fflat.
  rewrite <- app_assoc. reflexivity.
Qed.

Lemma spars_attach : forall n0 c p o, spars n0 (attach (close c) p :: o) = spars n0 (c :: p :: o).
Proof.
  intros n0 c p o. cbn [spars]. rewrite <- app_assoc. f_equal.
  unfold fpars at 1. cbn [attach fd fkids].
  rewrite parents_f_app. rewrite parents_f_cons. cbn [parents_f]. rewrite app_nil_r.
  rewrite parents_close.
  f_equal. cbn [sflat]. rewrite app_length. unfold fflat. cbn [length].
  replace (n0 + (length (sflat o) + S (length (preorder_f (fkids p))))) with (S (n0 + length (sflat o)) + length (preorder_f (fkids p))) by lia.
  reflexivity.
Qed.

Lemma collapse_flat : forall r c n0,
  preorder (collapse c r) = sflat (c :: r) /\ parents_t None n0 (collapse c r) = spars n0 (c :: r).
Proof.
  induction r as [|p o IH]; intros c n0.
  - cbn [collapse]. rewrite preorder_close, parents_close. cbn [sflat spars app length].
    rewrite Nat.add_0_r. split; reflexivity.
  - cbn [collapse]. destruct (IH (attach (close c) p) n0) as [H1 H2].
    rewrite H1, H2, sflat_attach, spars_attach. split; reflexivity.
Qed.

Lemma pop_flat : forall x r c n0,
  match pop x c r with
  | inl (b, r') => sflat (b :: r') = sflat (c :: r) /\ spars n0 (b :: r') = spars n0 (c :: r)
  | inr t => preorder t = sflat (c :: r) /\ parents_t None n0 t = spars n0 (c :: r)
  end.
Proof.
  intros x. induction r as [|p o IH]; intros c n0.
  - cbn [pop]. rewrite pop_test_eq. destruct (lvl_leb x (dlv (fd c))).
    + rewrite preorder_close, parents_close. cbn [sflat spars app length].
      rewrite Nat.add_0_r. split; reflexivity.
    + split; reflexivity.
  - cbn [pop]. rewrite pop_test_eq. destruct (lvl_leb x (dlv (fd c))).
    + specialize (IH (attach (close c) p) n0).
      destruct (pop x (attach (close c) p) o) as [[b r'] | t];
        rewrite sflat_attach, spars_attach in IH; exact IH.
    + split; reflexivity.
Qed.

(* ================================================================= nearest smaller level, model order *)

Fixpoint ns (revp : list dde) (x : lvl) : option nat :=
  match revp with
  | [] => None
  | y :: r => if lvl_leb x (dlv y) then ns r x else Some (length r)
  end.

Fixpoint msp_from (revp : list dde) (l : list dde) : list (option nat) :=
  match l with
  | [] => []
  | d :: r => ns revp (dlv d) :: msp_from (d :: revp) r
  end.
Definition msp (P : list dde) : list (option nat) := msp_from [] P.

Lemma msp_from_app : forall a b rp, msp_from rp (a ++ b) = msp_from rp a ++ msp_from (rev a ++ rp) b.
Proof.
  induction a as [|d a IH]; intros b rp.
  - reflexivity.
  - cbn [app msp_from rev]. rewrite IH, <- app_assoc. reflexivity.
Qed.

Lemma msp_snoc : forall P d, msp (P ++ [d]) = msp P ++ [ns (rev P) (dlv d)].
Proof. intros. unfold msp. rewrite msp_from_app, app_nil_r. reflexivity. Qed.

Definition lv_ge (x : lvl) (l : list dde) : Prop := Forall (fun d => lvl_leb x (dlv d) = true) l.

Lemma ns_skip : forall x l r, lv_ge x l -> ns (l ++ r) x = ns r x.
Proof.
  intros x l r H. induction H as [|d l Hd Hl IH].
  - reflexivity.
  - cbn [app ns]. rewrite Hd. exact IH.
Qed.

Lemma lv_ge_rev : forall x l, lv_ge x l -> lv_ge x (rev l).
Proof. intros. apply Forall_rev. assumption. Qed.

Lemma lv_ge_app : forall x a b, lv_ge x a -> lv_ge x b -> lv_ge x (a ++ b).
Proof. intros. apply Forall_app. split; assumption. Qed.

Lemma lv_ge_trans : forall x y l, lvl_leb x y = true -> lv_ge y l -> lv_ge x l.
Proof.
  intros x y l Hxy H. eapply Forall_impl; [|exact H].
  intros d Hd. cbn beta in Hd. eapply lvl_leb_trans; eassumption.
Qed.

(* rf = the entries of the closed trees; outer frames have smaller levels, and everything that lies
   between an outer frame and the next inner one has a level at least that of the inner one *)
Fixpoint chain_ok (c : frame) (rest : list frame) (rf : list dde) : Prop :=
  match rest with
  | [] => lv_ge (dlv (fd c)) rf
  | p :: o => lvl_leb (dlv (fd c)) (dlv (fd p)) = false
              /\ lv_ge (dlv (fd c)) (preorder_f (fkids p))
              /\ chain_ok p o rf
  end.

Lemma chain_ok_fd : forall c c' r rf, fd c = fd c' -> chain_ok c r rf -> chain_ok c' r rf.
Proof. intros c c' r rf H. destruct r; cbn [chain_ok]; rewrite H; auto. Qed.

Lemma pop_ns : forall x rf r c,
  lv_ge x (preorder_f (fkids c)) -> chain_ok c r rf ->
  match pop x c r with
  | inl (b, r') =>
      ns (rev (rf ++ sflat (c :: r))) x = Some (length (rf ++ sflat r'))
      /\ lv_ge x (preorder_f (fkids b)) /\ chain_ok b r' rf /\ lvl_leb x (dlv (fd b)) = false
  | inr t => ns (rev (rf ++ sflat (c :: r))) x = None /\ lv_ge x (rf ++ preorder t)
  end.
Proof.
  intros x rf. induction r as [|p o IH]; intros c Hk Hc.
  - cbn [pop]. rewrite pop_test_eq. destruct (lvl_leb x (dlv (fd c))) eqn:E.
    + cbn [chain_ok] in Hc. cbn [sflat app]. unfold fflat.
      assert (Hall : lv_ge x (rf ++ fd c :: preorder_f (fkids c))).
      { apply lv_ge_app. eapply lv_ge_trans; eassumption. constructor; assumption. }
      split.
      * rewrite <- (app_nil_r (rev _)). rewrite ns_skip by (apply lv_ge_rev; exact Hall). reflexivity.
      * rewrite preorder_close. exact Hall.
    + cbn [sflat app]. unfold fflat. split; [|split; [|split]]; try assumption.
      rewrite rev_app_distr. cbn [rev]. rewrite <- !app_assoc.
      rewrite ns_skip by (apply lv_ge_rev; exact Hk). cbn [app ns]. rewrite E.
      rewrite rev_length, app_nil_r. reflexivity.
  - cbn [pop]. rewrite pop_test_eq. destruct (lvl_leb x (dlv (fd c))) eqn:E.
    + cbn [chain_ok] in Hc. destruct Hc as [Hlt [Hge Hc]].
      assert (Hk' : lv_ge x (preorder_f (fkids (attach (close c) p)))).
      { cbn [attach fkids]. rewrite preorder_f_app. apply lv_ge_app.
        - eapply lv_ge_trans; eassumption.
        - cbn [preorder_f flat_map]. rewrite app_nil_r, preorder_close. unfold fflat.
          constructor; assumption. }
      specialize (IH (attach (close c) p) Hk' (chain_ok_fd p (attach (close c) p) o rf eq_refl Hc)).
      rewrite sflat_attach in IH. exact IH.
    + split; [|split; [|split]]; try assumption.
      change (sflat (c :: p :: o)) with (sflat (p :: o) ++ fflat c). unfold fflat.
      rewrite app_assoc, rev_app_distr. cbn [rev]. rewrite <- !app_assoc.
      rewrite ns_skip by (apply lv_ge_rev; exact Hk). cbn [app ns]. rewrite E.
      rewrite rev_length. reflexivity.
Qed.

(* ================================================================= marking keeps the shape *)

Lemma mark_shape : forall tgt kids kids', mark_unique tgt kids = Some kids' ->
  preorder_f kids' = preorder_f kids /\ forall q i, parents_f q i kids' = parents_f q i kids.
Proof.
  intros tgt kids kids' H. unfold mark_unique in H.
  destruct (filter (name_is tgt) kids) as [|? [|? ?]]; try discriminate.
  inversion H; subst kids'. clear H.
  set (g := fun t => if name_is tgt t then set_based t else t).
  assert (Hg : forall t, preorder (g t) = preorder t /\ forall q i, parents_t q i (g t) = parents_t q i t).
  { intros [d b ks]. unfold g. destruct (name_is tgt (TNode d b ks)).
    - cbn [set_based]. split; [reflexivity|]. intros. rewrite !parents_t_eq. reflexivity.
    - split; reflexivity. }
  induction kids as [|k ks IH].
  - split; reflexivity.
  - destruct IH as [IH1 IH2]. destruct (Hg k) as [G1 G2]. cbn [map]. split.
    + rewrite !preorder_f_cons, G1, IH1. reflexivity.
    + intros q i. rewrite !parents_f_cons, G1, G2, IH2. reflexivity.
Qed.

(* ================================================================= the invariant *)

Definition Inv (s : state) (P : list dde) : Prop :=
  stflat s = P /\ stpars s = msp P /\ fkids (cur s) = []
  /\ chain_ok (cur s) (rest s) (preorder_f (roots s)).

Lemma inv_push : forall s P d b b' r',
  stflat s = P -> stpars s = msp P ->
  sflat (b :: r') = sflat (cur s :: rest s) ->
  spars (length (preorder_f (roots s))) (b :: r') = spars (length (preorder_f (roots s))) (cur s :: rest s) ->
  ns (rev P) (dlv d) = Some (length (preorder_f (roots s) ++ sflat r')) ->
  lv_ge (dlv d) (preorder_f (fkids b)) -> chain_ok b r' (preorder_f (roots s)) ->
  lvl_leb (dlv d) (dlv (fd b)) = false ->
  fd b' = fd b -> preorder_f (fkids b') = preorder_f (fkids b) ->
  (forall q i, parents_f q i (fkids b') = parents_f q i (fkids b)) ->
  Inv {| roots := roots s; cur := open d; rest := b' :: r' |} (P ++ [d]).
Proof.
  intros s P d b b' r' Hf Hp Hsf Hsp Hns Hge Hch Hlt Hfd Hpre Hpar.
  assert (Hfl : fflat b' = fflat b) by (unfold fflat; rewrite Hfd, Hpre; reflexivity).
  unfold Inv, stflat, stpars. cbn [roots cur rest]. split; [|split; [|split]].
  - cbn [sflat]. unfold fflat at 2. cbn [open fd fkids preorder_f flat_map].
    rewrite Hfl. change (sflat r' ++ fflat b) with (sflat (b :: r')). rewrite Hsf.
    rewrite app_assoc. unfold stflat in Hf. rewrite Hf. reflexivity.
  - rewrite msp_snoc, Hns, <- Hp. unfold stpars. rewrite <- app_assoc. f_equal.
    cbn [spars]. unfold fpars at 2. cbn [open fkids parents_f].
    assert (Hfp : forall q i, fpars q i b' = fpars q i b) by (intros; unfold fpars; rewrite Hpar; reflexivity).
    rewrite Hfp. change (spars ?n r' ++ fpars ?q ?i b) with (spars n (b :: r')) at 1.
    cbn [spars] in Hsp. cbn [spars]. rewrite Hsp. rewrite app_length. reflexivity.
  - reflexivity.
  - cbn [chain_ok open fd]. rewrite Hfd, Hpre. split; [exact Hlt | split; [exact Hge |]].
    eapply chain_ok_fd; [|exact Hch]. symmetry; exact Hfd.
Qed.

Lemma step_inv : forall s P d s', Inv s P -> step s d = Ok s' ->
  Inv s' (if keep d then P ++ [d] else P).
Proof.
  intros s P d s' [Hf [Hp [Hk Hc]]] Hs. unfold step in Hs. unfold keep.
  destruct (skipped d).
  - inversion Hs; subst. cbn [negb]. repeat split; assumption.
  - cbn [negb].
    assert (Hk0 : lv_ge (dlv d) (preorder_f (fkids (cur s)))) by (rewrite Hk; constructor).
    pose proof (pop_ns (dlv d) _ _ _ Hk0 Hc) as Hn.
    pose proof (pop_flat (dlv d) (rest s) (cur s) (length (preorder_f (roots s)))) as Hfl.
    destruct (pop (dlv d) (cur s) (rest s)) as [[b r'] | t].
    + destruct Hn as [Hns [Hge [Hch Hlt]]]. destruct Hfl as [Hsf Hsp].
      unfold stflat in Hf. rewrite Hf in Hns.
      destruct (eredef (de d)) as [tgt|].
      * destruct (mark_unique tgt (fkids b)) as [kids'|] eqn:Em; [|discriminate].
        inversion Hs; subst s'. destruct (mark_shape _ _ _ Em) as [M1 M2].
        eapply inv_push with (b := b); try eassumption; try reflexivity.
      * inversion Hs; subst s'.
        eapply inv_push with (b := b); try eassumption; try reflexivity.
    + destruct Hn as [Hns Hge]. destruct Hfl as [Hsf Hsp]. inversion Hs; subst s'.
      unfold stflat in Hf. rewrite Hf in Hns.
      unfold Inv, stflat, stpars. cbn [roots cur rest]. split; [|split; [|split]].
      * rewrite preorder_f_app, preorder_f_one, Hsf. change (sflat [open d]) with (fflat (open d)).
        unfold fflat. cbn [open fd fkids]. change (preorder_f []) with (@nil dde).
        rewrite <- Hf, <- app_assoc. reflexivity.
      * rewrite msp_snoc, Hns, <- Hp. unfold stpars.
        rewrite parents_f_app. cbn [parents_f]. rewrite app_nil_r, Nat.add_0_l, Hsp.
        change (spars (length (preorder_f (roots s ++ [t]))) [open d]) with [@None nat].
        rewrite <- !app_assoc. reflexivity.
      * reflexivity.
      * cbn [chain_ok open fd]. rewrite preorder_f_app, preorder_f_one.
        exact Hge.
Qed.

Lemma run_inv : forall l s P s', Inv s P -> run s l = Ok s' -> Inv s' (P ++ filter keep l).
Proof.
  induction l as [|d r IH]; intros s P s' HI Hr.
  - cbn [run] in Hr. inversion Hr; subst. cbn [filter]. rewrite app_nil_r. exact HI.
  - cbn [run] in Hr. destruct (step s d) as [s1|e] eqn:Es; [|discriminate].
    pose proof (step_inv _ _ _ _ HI Es) as H1. cbn [filter].
    destruct (keep d).
    + specialize (IH _ _ _ H1 Hr). rewrite <- app_assoc in IH. exact IH.
    + exact (IH _ _ _ H1 Hr).
Qed.

Lemma inv_init : forall d, Inv {| roots := []; cur := open d; rest := [] |} [d].
Proof.
  intro d. unfold Inv, stflat, stpars. cbn. repeat split. constructor.
Qed.

Lemma finish_flat : forall s, preorder_f (finish s) = stflat s /\ parents (finish s) = stpars s.
Proof.
  intro s. unfold finish, parents, stflat, stpars.
  destruct (collapse_flat (rest s) (cur s) (length (preorder_f (roots s)))) as [H1 H2].
  split.
  - rewrite preorder_f_app. cbn [preorder_f flat_map]. rewrite app_nil_r, H1. reflexivity.
  - rewrite parents_f_app. cbn [parents_f]. rewrite app_nil_r, Nat.add_0_l, H2. reflexivity.
Qed.

(* every kept entry once, in order; parents = nearest preceding smaller level (model order) *)
Lemma structure_ddes_shape : forall d r f, structure_ddes (d :: r) = Ok f ->
  preorder_f f = d :: filter keep r /\ parents f = msp (d :: filter keep r).
Proof.
  intros d r f H. cbn [structure_ddes] in H.
  destruct (run {| roots := []; cur := open d; rest := [] |} r) as [s|e] eqn:E; [|discriminate].
  inversion H; subst f. destruct (run_inv _ _ _ _ (inv_init d) E) as [Hf [Hp _]].
  destruct (finish_flat s) as [F1 F2]. cbn [app] in Hf, Hp. rewrite F1, F2, Hf, Hp. split; reflexivity.
Qed.

(* ================================================================= from the model order to level numbers *)

Fixpoint sp_from (rp : list N) (l : list N) : list (option nat) :=
  match l with
  | [] => []
  | x :: r => nearest_smaller rp x :: sp_from (x :: rp) r
  end.

Lemma spec_parents_from : forall l pre,
  map (spec_parent (pre ++ l)) (seq (length pre) (length l)) = sp_from (rev pre) l.
Proof.
  induction l as [|x r IH]; intro pre.
  - reflexivity.
  - cbn [length seq map sp_from]. f_equal.
    + unfold spec_parent. rewrite nth_error_app2 by lia. rewrite Nat.sub_diag. cbn [nth_error].
      rewrite firstn_app, Nat.sub_diag, firstn_all. cbn [firstn]. rewrite app_nil_r. reflexivity.
    + specialize (IH (pre ++ [x])). rewrite <- app_assoc in IH. cbn [app] in IH.
      rewrite app_length in IH. cbn [length] in IH. rewrite Nat.add_1_r in IH.
      rewrite IH, rev_unit. reflexivity.
Qed.

Lemma spec_parents_sp : forall K, spec_parents K = sp_from [] K.
Proof. intro K. unfold spec_parents. exact (spec_parents_from K []). Qed.

Definition digits_ok (d : dde) : Prop := two_digits (dlv d) = true.

Lemma ns_num : forall rp x, Forall digits_ok rp -> two_digits x = true ->
  ns rp x = nearest_smaller (levels_of rp) (lvl_num x).
Proof.
  intros rp x H Hx. induction H as [|y r Hy Hr IH].
  - reflexivity.
  - cbn [ns levels_of map nearest_smaller]. rewrite (lvl_leb_num x (dlv y) Hx Hy).
    destruct (lvl_num (dlv y) <? lvl_num x)%N; cbn [negb].
    + unfold levels_of. rewrite map_length. reflexivity.
    + exact IH.
Qed.

Lemma msp_num : forall l rp, Forall digits_ok rp -> Forall digits_ok l ->
  msp_from rp l = sp_from (levels_of rp) (levels_of l).
Proof.
  induction l as [|d r IH]; intros rp Hrp Hl.
  - reflexivity.
  - inversion Hl as [|? ? Hd Hr]; subst. cbn [msp_from levels_of map sp_from]. f_equal.
    + apply ns_num; assumption.
    + apply (IH (d :: rp)); [constructor; assumption | assumption].
Qed.

Lemma msp_spec : forall K, Forall digits_ok K -> msp K = spec_parents (levels_of K).
Proof. intros K H. rewrite spec_parents_sp. unfold msp. apply (msp_num K []); [constructor | exact H]. Qed.

Lemma mk_ddes_digits : forall l c, Forall (fun e => two_digits (elv e) = true) l -> Forall digits_ok (mk_ddes c l).
Proof.
  induction l as [|e r IH]; intros c H.
  - constructor.
  - inversion H as [|? ? He Hr]; subst. cbn [mk_ddes].
    destruct (is_filler e); constructor; try (apply IH; assumption); exact He.
Qed.

Lemma filter_digits : forall l, Forall digits_ok l -> Forall digits_ok (filter keep l).
Proof.
  intros l H. apply Forall_forall. intros d Hd. apply filter_In in Hd. destruct Hd as [Hd _].
  rewrite Forall_forall in H. apply H. exact Hd.
Qed.

Lemma filter_keep_num : forall l, Forall digits_ok l ->
  map de (filter keep l) = filter (fun e => kept_level (lvl_num (elv e))) (map de l).
Proof.
  induction l as [|d r IH]; intro H.
  - reflexivity.
  - inversion H as [|? ? Hd Hr]; subst. cbn [filter map]. rewrite (keep_num d Hd). unfold dlv.
    destruct (kept_level (lvl_num (elv (de d)))); cbn [map]; rewrite IH by exact Hr; reflexivity.
Qed.

(* ----------------------------------------------------------------- main statements *)

Lemma structure_main : forall (l : list entry) (f : list tree),
  Forall (fun e => two_digits (elv e) = true) l ->
  structure l = Ok f ->
  preorder_f f = kept_of l /\ parents f = spec_parents (levels_of (kept_of l)).
Proof.
  intros l f Hd H. unfold structure in H. unfold kept_of.
  pose proof (mk_ddes_digits l 0%N Hd) as Hdd.
  destruct (mk_ddes 0 l) as [|d r] eqn:E.
  - discriminate.
  - destruct (structure_ddes_shape _ _ _ H) as [H1 H2]. split; [exact H1|].
    rewrite H2. apply msp_spec. inversion Hdd; subst. constructor; [assumption|].
    apply filter_digits. assumption.
Qed.

(* when the first entry is itself a kept level, nothing is special about it *)
Lemma structure_entries : forall (l : list entry) (f : list tree),
  Forall (fun e => two_digits (elv e) = true) l ->
  match l with [] => True | e :: _ => kept_level (lvl_num (elv e)) = true end ->
  structure l = Ok f ->
  preorder_f f = filter keep (mk_ddes 0 l)
  /\ map de (preorder_f f) = filter (fun e => kept_level (lvl_num (elv e))) l.
Proof.
  intros l f Hd H1 H. destruct (structure_main l f Hd H) as [Hp _].
  pose proof (mk_ddes_digits l 0%N Hd) as Hdd.
  assert (Hk : kept_of l = filter keep (mk_ddes 0 l)).
  { unfold kept_of. destruct l as [|e r]; [reflexivity|].
    pose proof (mk_ddes_de (e :: r) 0%N) as Hde.
    destruct (mk_ddes 0 (e :: r)) as [|d r'] eqn:E; [reflexivity|].
    cbn [map] in Hde. inversion Hde; subst.
    inversion Hdd as [|? ? Hd0 Hr0]; subst. cbn [filter]. rewrite (keep_num d Hd0). unfold dlv.
    rewrite H1. reflexivity. }
  split.
  - rewrite Hp. exact Hk.
  - rewrite Hp, Hk, filter_keep_num by exact Hdd. rewrite mk_ddes_de. reflexivity.
Qed.

Lemma structure_err : forall l e, structure l = Err e -> (l = [] /\ e = StopIter) \/ (l <> [] /\ e = ValueError).
Proof.
  intros l e H. unfold structure in H. destruct l as [|x r].
  - left. cbn in H. inversion H. split; reflexivity.
  - right. split; [discriminate|].
    destruct (mk_ddes 0 (x :: r)) as [|d ds] eqn:E.
    + cbn [mk_ddes] in E. destruct (is_filler x); discriminate.
    + cbn [structure_ddes] in H.
      assert (G : forall l s e, run s l = Err e -> e = ValueError).
      { clear. induction l as [|d r IH]; intros s e H; cbn [run] in H; [discriminate|].
        destruct (step s d) as [s1|e1] eqn:Es.
        - eapply IH; eassumption.
        - inversion H; subst. unfold step in Es. destruct (skipped d); [discriminate|].
          destruct (pop (dlv d) (cur s) (rest s)) as [[b r']|t]; [|discriminate].
          destruct (eredef (de d)); [|discriminate].
          destruct (mark_unique s0 (fkids b)); [discriminate|]. inversion Es. reflexivity. }
      destruct (run _ ds) as [s|e1] eqn:Er; [discriminate|]. inversion H; subst. eapply G; eassumption.
Qed.

(* a level-01 entry is a root when no level is 00 *)
Lemma level01_root : forall K k, Forall (fun y => (1 <= y)%N) K -> nth_error K k = Some 1%N ->
  spec_parent K k = None.
Proof.
  intros K k H Hk. unfold spec_parent. rewrite Hk.
  assert (G : forall r, Forall (fun y => (1 <= y)%N) r -> nearest_smaller r 1 = None).
  { induction r as [|y r IH]; intro Hr; [reflexivity|]. inversion Hr; subst. cbn [nearest_smaller].
    destruct (y <? 1)%N eqn:E; [lia | apply IH; assumption]. }
  apply G. apply Forall_rev. apply Forall_forall. intros y Hy.
  rewrite Forall_forall in H. apply H. rewrite <- (firstn_skipn k K). apply in_or_app. left. exact Hy.
Qed.

(* ================================================================= the trees start where no parent exists *)

Fixpoint nones_from (i : nat) (l : list (option nat)) : list nat :=
  match l with
  | [] => []
  | None :: r => i :: nones_from (S i) r
  | Some _ :: r => nones_from (S i) r
  end.

Lemma nones_from_app : forall a b i, nones_from i (a ++ b) = nones_from i a ++ nones_from (i + length a) b.
Proof.
  induction a as [|x a IH]; intros b i.
  - cbn [app nones_from length]. rewrite Nat.add_0_r. reflexivity.
  - cbn [app nones_from length]. rewrite IH. replace (S i + length a) with (i + S (length a)) by lia.
    destruct x; reflexivity.
Qed.

Lemma spec_roots_nones : forall (g : nat -> option nat) n i,
  filter (fun k => match g k with None => true | Some _ => false end) (seq i n) = nones_from i (map g (seq i n)).
Proof.
  intros g. induction n as [|n IH]; intro i.
  - reflexivity.
  - cbn [seq filter map nones_from]. rewrite IH. destruct (g i); reflexivity.
Qed.

Lemma spec_roots_eq : forall K, spec_roots K = nones_from 0 (spec_parents K).
Proof. intro K. unfold spec_roots, spec_parents. apply spec_roots_nones. Qed.

Lemma msp_from_length : forall l rp, length (msp_from rp l) = length l.
Proof. induction l as [|d r IH]; intro rp; cbn [msp_from length]; [reflexivity | rewrite IH; reflexivity]. Qed.

Lemma root_pos_app : forall a b i, root_pos i (a ++ b) = root_pos i a ++ root_pos (i + length (preorder_f a)) b.
Proof.
  induction a as [|t a IH]; intros b i.
  - cbn [app root_pos]. change (preorder_f []) with (@nil dde). cbn [length]. rewrite Nat.add_0_r. reflexivity.
  - cbn [app root_pos]. rewrite IH, preorder_f_cons, app_length, Nat.add_assoc. reflexivity.
Qed.

Definition RInv (s : state) (P : list dde) : Prop :=
  root_pos 0 (roots s) ++ [length (preorder_f (roots s))] = nones_from 0 (msp P).

Lemma step_rinv : forall s P d s', Inv s P -> RInv s P -> step s d = Ok s' ->
  RInv s' (if keep d then P ++ [d] else P).
Proof.
  intros s P d s' [Hf [Hp [Hk Hc]]] HR Hs. unfold step in Hs. unfold keep.
  destruct (skipped d).
  - inversion Hs; subst. exact HR.
  - cbn [negb].
    assert (Hk0 : lv_ge (dlv d) (preorder_f (fkids (cur s)))) by (rewrite Hk; constructor).
    pose proof (pop_ns (dlv d) _ _ _ Hk0 Hc) as Hn.
    pose proof (pop_flat (dlv d) (rest s) (cur s) 0) as Hfl.
    unfold stflat in Hf. rewrite Hf in Hn.
    assert (Hlen : length (msp P) = length P) by (unfold msp; apply msp_from_length).
    destruct (pop (dlv d) (cur s) (rest s)) as [[b r'] | t].
    + destruct Hn as [Hns _].
      assert (G : forall rs', RInv {| roots := roots s; cur := open d; rest := rs' |} (P ++ [d])).
      { intro rs'. unfold RInv. cbn [roots]. rewrite msp_snoc, Hns, nones_from_app. cbn [nones_from].
        rewrite app_nil_r. exact HR. }
      destruct (eredef (de d)) as [tgt|].
      * destruct (mark_unique tgt (fkids b)); [|discriminate]. inversion Hs; subst s'. apply G.
      * inversion Hs; subst s'. apply G.
    + destruct Hn as [Hns _]. destruct Hfl as [Hsf _]. inversion Hs; subst s'.
      unfold RInv. cbn [roots]. rewrite msp_snoc, Hns, nones_from_app. cbn [nones_from].
      rewrite <- HR, Hlen, Nat.add_0_l. rewrite root_pos_app. cbn [root_pos]. rewrite Nat.add_0_l.
      rewrite preorder_f_app, preorder_f_one, Hsf, Hf. reflexivity.
Qed.

Lemma run_rinv : forall l s P s', Inv s P -> RInv s P -> run s l = Ok s' -> RInv s' (P ++ filter keep l).
Proof.
  induction l as [|d r IH]; intros s P s' HI HR Hr.
  - cbn [run] in Hr. inversion Hr; subst. cbn [filter]. rewrite app_nil_r. exact HR.
  - cbn [run] in Hr. destruct (step s d) as [s1|e] eqn:Es; [|discriminate].
    pose proof (step_inv _ _ _ _ HI Es) as H1. pose proof (step_rinv _ _ _ _ HI HR Es) as H2. cbn [filter].
    destruct (keep d).
    + specialize (IH _ _ _ H1 H2 Hr). rewrite <- app_assoc in IH. exact IH.
    + exact (IH _ _ _ H1 H2 Hr).
Qed.

Lemma structure_roots : forall (l : list entry) (f : list tree),
  Forall (fun e => two_digits (elv e) = true) l ->
  structure l = Ok f ->
  root_pos 0 f = spec_roots (levels_of (kept_of l)).
Proof.
  intros l f Hd H. unfold structure in H. unfold kept_of.
  pose proof (mk_ddes_digits l 0%N Hd) as Hdd.
  destruct (mk_ddes 0 l) as [|d r] eqn:E; [discriminate|].
  cbn [structure_ddes] in H.
  destruct (run {| roots := []; cur := open d; rest := [] |} r) as [s|e] eqn:Er; [|discriminate].
  inversion H; subst f.
  assert (R0 : RInv {| roots := []; cur := open d; rest := [] |} [d]) by reflexivity.
  pose proof (run_rinv _ _ _ _ (inv_init d) R0 Er) as HR. cbn [app] in HR.
  rewrite spec_roots_eq, <- msp_spec.
  - unfold RInv in HR. rewrite <- HR. unfold finish. rewrite root_pos_app. cbn [root_pos].
    rewrite Nat.add_0_l. reflexivity.
  - inversion Hdd; subst. constructor; [assumption|]. apply filter_digits. assumption.
Qed.

(* ================================================================= when structure() raises *)

Lemma mark_unique_some : forall tgt kids,
  (exists kids', mark_unique tgt kids = Some kids') <-> length (filter (name_is tgt) kids) = 1.
Proof.
  intros tgt kids. unfold mark_unique. destruct (filter (name_is tgt) kids) as [|a [|b r]]; cbn [length]; split; intro H.
  - destruct H as [? H]. discriminate.
  - discriminate.
  - reflexivity.
  - eexists. reflexivity.
  - destruct H as [? H]. discriminate.
  - discriminate.
Qed.

(* the one way a step fails: a kept entry below some open node carries a redefines clause and the
   number of children of that node (so far) with the target name is not one *)
Lemma step_err : forall s d e, step s d = Err e <->
  e = ValueError /\ keep d = true /\
  exists b r' tgt, pop (dlv d) (cur s) (rest s) = inl (b, r') /\ eredef (de d) = Some tgt
                   /\ length (filter (name_is tgt) (fkids b)) <> 1.
Proof.
  intros s d e. unfold step, keep. destruct (skipped d); cbn [negb].
  - split; [discriminate | intros [_ [H _]]; discriminate].
  - destruct (pop (dlv d) (cur s) (rest s)) as [[b r']|t].
    + destruct (eredef (de d)) as [tgt|].
      * destruct (mark_unique tgt (fkids b)) as [k|] eqn:Em.
        -- split; [discriminate|]. intros [_ [_ [b0 [r0 [t0 [H1 [H2 H3]]]]]]]. inversion H1; inversion H2; subst.
           exfalso. apply H3. apply mark_unique_some. eexists; eassumption.
        -- split.
           ++ intro H. inversion H; subst. split; [reflexivity|]. split; [reflexivity|].
              exists b, r', tgt. split; [reflexivity|]. split; [reflexivity|].
              intro Hl. apply mark_unique_some in Hl. destruct Hl as [k Hk]. congruence.
           ++ intros [He _]. subst. reflexivity.
      * split; [discriminate|]. intros [_ [_ [b0 [r0 [t0 [_ [H2 _]]]]]]]. discriminate.
    + split; [discriminate|]. intros [_ [_ [b0 [r0 [t0 [H1 _]]]]]]. discriminate.
Qed.

Lemma run_no_redefines : forall l s, Forall (fun d => eredef (de d) = None) l -> exists s', run s l = Ok s'.
Proof.
  induction l as [|d r IH]; intros s H.
  - eexists; reflexivity.
  - inversion H as [|? ? Hd Hr]; subst. cbn [run].
    assert (G : exists s1, step s d = Ok s1).
    { unfold step. destruct (skipped d); [eexists; reflexivity|].
      destruct (pop (dlv d) (cur s) (rest s)) as [[b r']|t]; [|eexists; reflexivity].
      rewrite Hd. eexists; reflexivity. }
    destruct G as [s1 Hs]. rewrite Hs. apply IH. exact Hr.
Qed.

Lemma structure_no_redefines : forall l, l <> [] -> Forall (fun e => eredef e = None) l ->
  exists f, structure l = Ok f.
Proof.
  intros l Hne H. unfold structure.
  assert (Hd : Forall (fun d => eredef (de d) = None) (mk_ddes 0 l)).
  { apply Forall_forall. intros d Hin. rewrite Forall_forall in H. apply H.
    rewrite <- (mk_ddes_de l 0%N). apply in_map. exact Hin. }
  destruct l as [|e r]; [congruence|].
  destruct (mk_ddes 0 (e :: r)) as [|d ds] eqn:E.
  - cbn [mk_ddes] in E. destruct (is_filler e); discriminate.
  - inversion Hd; subst. cbn [structure_ddes].
    destruct (run_no_redefines ds {| roots := []; cur := open d; rest := [] |}) as [s' Hs]; [assumption|].
    rewrite Hs. eexists; reflexivity.
Qed.

Lemma structure_full : forall (l : list entry) (f : list tree),
  Forall (fun e => two_digits (elv e) = true) l ->
  structure l = Ok f ->
  preorder_f f = kept_of l
  /\ parents f = spec_parents (levels_of (kept_of l))
  /\ root_pos 0 f = spec_roots (levels_of (kept_of l)).
Proof.
  intros l f Hd H. destruct (structure_main l f Hd H) as [H1 H2].
  split; [exact H1 | split; [exact H2 | exact (structure_roots l f Hd H)]].
Qed.
