(* C09c - companion of Props/C09.v: a heading row that holds the same name more than once
   (known finding K-duplicate-heading-last-wins, code 1 of Judge/JC09.v).
   Only the property theorems, each closed by an exact lemma of Proofs/DupHeadingsP.v.

   The property reads "each header names a column; asking a row for a name returns the cell under
   that header".  C09_by_name and C09_values (Props/C09.v) prove it under NoDup (map str_of h).
   HeadingRowSchemaLoader.header builds the properties with a dict comprehension keyed by
   str(name), so with a repeated name the dict keeps the key at its FIRST place and holds the LAST
   value: the last column of that name wins silently, the cells under the earlier columns of that
   name cannot be reached by name, and values() has fewer entries than the row has columns.

   Spec/DupHeadings.v (no reference to the implementation): [last_index k hs] the position of the
   last header equal to k, [first_names hs] the distinct names in order of first occurrence,
   [last_wins_values hs r] one value per distinct name, each read from the last column of that name,
   [repeated hs] some name occurs twice.  Spec/DupHeadingsWf.v: the unguarded statements and the witness. *)
From Coq Require Import NArith List Bool.
Import ListNotations.
Require Import SR.Base.Res SR.Spec.Table SR.Spec.DupHeadings SR.Spec.DupHeadingsWf SR.Model.HeaderRow SR.Proofs.DupHeadingsP.
Require SR.Judge.JC09 SR.Proofs.DupHeadingsJudgeP.

(* ------------------------------------------------------------------ the full statements, refuted *)
(* C09_by_name without its hypothesis: every header reads its own column, for every heading row *)
Definition C09c_by_name_full_statement : Prop := by_name_unguarded.
(* C09_values without its hypothesis: the value list is the cells in header order, one per column *)
Definition C09c_values_full_statement : Prop := values_unguarded.

(* Known finding 1.  id,name,id over the row 1,Ann,7: asking for id gives 7 (the cell of column 2, not of
   column 0), values() is [7, Ann] (two entries for three columns), and over the short row 1,Ann the name id
   is reported absent although the row has a cell under the first id column. *)
Theorem C09c_refuted_1 :
  ~ C09c_by_name_full_statement /\ ~ C09c_values_full_statement
  /\ exists s, row_iter HeadingRow None [w_head; w_row] = Ok (Some s, [w_row])
       /\ nav_name s (str_of w_id) w_row = Ok (Some w_7)
       /\ values s w_row = Ok [Some w_7; Some w_Ann]
       /\ nav_name s (str_of w_id) [w_1; w_Ann] = Ok None.
Proof. exact refuted_1. Qed.
Print Assumptions C09c_refuted_1.

(* ------------------------------------------------------------------ what holds for ANY heading row *)
(* No hypothesis on the heading row h.  Reading never raises and delivers the rows after the first;
   asking for the name k returns the cell under the LAST column headed k (absent marker when the row is
   too short for THAT column), whatever stands under earlier columns of the same name; a name that heads
   no column is a KeyError; values() lists one value per DISTINCT name, in order of first occurrence, each
   read from the last column of that name - so it has length (first_names ...) entries, not length h. *)
Theorem C09c_duplicate_headings : forall (h : row) (body : sheet) pre os rows,
  row_iter HeadingRow pre (h :: body) = Ok (os, rows) ->
  exists s, os = Some s /\ rows = body
    /\ (forall (k : key) (i : nat) (r : row),
          nth_error (map str_of h) i = Some k ->
          (forall j, i < j -> nth_error (map str_of h) j <> Some k) ->
          nav_name s k r = Ok (nth_error r i))
    /\ (forall (k : key) (r : row), ~ In k (map str_of h) -> nav_name s k r = Err KeyError)
    /\ (forall r : row, values s r = Ok (last_wins_values key_eqb (map str_of h) r))
    /\ (forall r v, values s r = Ok v -> length v = length (first_names key_eqb (map str_of h))).
Proof. exact duplicate_headings. Qed.
Print Assumptions C09c_duplicate_headings.

(* What the specification's functions mean.  last_index: column i is headed k and no later column is.
   first_names: no name twice, exactly the names of the heading row, and a further column adds its name
   at the END unless the name was there already (= order of first occurrence). *)
Theorem C09c_last_index_spec : forall (k : key) (hs : list key) (i : nat),
  last_index key_eqb k hs = Some i <->
  (nth_error hs i = Some k /\ forall j, i < j -> nth_error hs j <> Some k).
Proof. exact last_index_spec. Qed.
Print Assumptions C09c_last_index_spec.

Theorem C09c_first_names_spec : forall hs : list key,
  NoDup (first_names key_eqb hs)
  /\ (forall k, In k (first_names key_eqb hs) <-> In k hs)
  /\ (forall k, first_names key_eqb (hs ++ [k])
                = first_names key_eqb hs ++ (if existsb (key_eqb k) hs then [] else [k])).
Proof. exact first_names_spec. Qed.
Print Assumptions C09c_first_names_spec.

(* A repeated name costs entries: values() is strictly shorter than the heading row exactly when some
   name is repeated (repeated = not NoDup), and as long as it otherwise. *)
Theorem C09c_values_shorter : forall h : row,
  (repeated key_eqb (map str_of h) = true <-> ~ NoDup (map str_of h))
  /\ (repeated key_eqb (map str_of h) = true -> length (first_names key_eqb (map str_of h)) < length h)
  /\ (NoDup (map str_of h) -> length (first_names key_eqb (map str_of h)) = length h).
Proof. exact values_shorter. Qed.
Print Assumptions C09c_values_shorter.

(* On distinct names the last-wins reading IS the property's reading (so C09c_duplicate_headings
   extends C09_values rather than contradicting it). *)
Theorem C09c_distinct_is_property : forall (hs : list key) (r : row),
  NoDup hs -> last_wins_values key_eqb hs r = cells_in_header_order (length hs) r.
Proof. exact last_wins_values_distinct_cell. Qed.
Print Assumptions C09c_distinct_is_property.

(* The hypothesis of C09_by_name is exactly what is needed: a schema under which every header of h
   reads its own column exists only when the names of h are pairwise distinct. *)
Theorem C09c_by_name_needs_distinct : forall (h : row) (s : schema),
  (forall (r : row) (i : nat) (c : cell), nth_error h i = Some c -> nav_name s (str_of c) r = Ok (nth_error r i)) ->
  NoDup (map str_of h).
Proof. exact by_name_needs_distinct. Qed.
Print Assumptions C09c_by_name_needs_distinct.

(* The same collapse through ExternalSchemaLoader: a metadata sheet listing id, name, id loads as
   {id: position 2, name: position 1}; id then reads column 2 where the hand-written schema of the
   same names reads column 0 (outside the domain of C09_external, which demands distinct names). *)
Theorem C09c_external_repeated_name :
  exists s, ext_load_meta [[w_id]; [w_name]; [w_id]] = Ok s
    /\ map (fun e => (e_key e, e_pos e)) s = [(str_of w_id, Some 2); (str_of w_name, Some 1)]
    /\ nav_name s (str_of w_id) w_row = Ok (Some w_7)
    /\ nav_name (hand_schema [str_of w_id; str_of w_name; str_of w_id]) (str_of w_id) w_row = Ok (Some w_1)
    /\ values s w_row = Ok [Some w_7; Some w_Ann].
Proof. exact external_repeated_name. Qed.
Print Assumptions C09c_external_repeated_name.

(* The wrong behaviour that Judge/JC09.v pins for a KNOWN verdict of stream duplicate-headings
   (spelled out from Spec/DupHeadings.v alone) is the model's, for every sheet and every list of
   probed names: the exemption covers the behaviour of C09c_duplicate_headings and nothing else. *)
Theorem C09c_pinned_is_model : forall (phys : sheet) (probes : list key),
  SR.Judge.JC09.pinned_last_wins phys probes
  = SR.Judge.JC09.model_read (row_iter HeadingRow None phys) probes.
Proof. exact SR.Proofs.DupHeadingsJudgeP.pinned_is_model. Qed.
Print Assumptions C09c_pinned_is_model.

(* ------------------------------------------------------------------ non-vacuity *)
(* the hypothesis of C09c_duplicate_headings holds for the witness sheet, the last column headed id is
   column 2, the distinct names are id, name, and the heading row is a repeated one *)
Example C09c_example :
  row_iter HeadingRow None [w_head; w_row; [w_1; w_Ann]]
    = Ok (Some [mk_entry (str_of w_id) (Some 2); mk_entry (str_of w_name) (Some 1)], [w_row; [w_1; w_Ann]])
  /\ last_index key_eqb (str_of w_id) (map str_of w_head) = Some 2
  /\ first_names key_eqb (map str_of w_head) = [str_of w_id; str_of w_name]
  /\ last_wins_values key_eqb (map str_of w_head) w_row = [Some w_7; Some w_Ann]
  /\ last_wins_values key_eqb (map str_of w_head) [w_1; w_Ann] = [None; Some w_Ann]
  /\ repeated key_eqb (map str_of w_head) = true.
Proof. repeat split; vm_compute; reflexivity. Qed.

(* the hypothesis of C09c_by_name_needs_distinct is satisfiable: the heading row id, name *)
Example C09c_needs_distinct_example :
  forall (r : row) (i : nat) (c : cell), nth_error [w_id; w_name] i = Some c ->
    nav_name [mk_entry (str_of w_id) (Some 0); mk_entry (str_of w_name) (Some 1)] (str_of c) r = Ok (nth_error r i).
Proof.
  intros r [|[|i]] c H; cbn [nth_error] in H; try (destruct i; discriminate);
    injection H as <-; rewrite SR.Proofs.HeaderRowP.nav_name_unfold; vm_compute;
    [destruct r as [|a r]|destruct r as [|a [|b r]]]; reflexivity.
Qed.
