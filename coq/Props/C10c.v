(* C10, companion: the unconditional theorems of Props/C10.v (laziness, index commutation, raw containment) for
   COBOL-built schemas of record descriptions WITH OCCURS DEPENDING ON.  Only property theorems, each closed by an exact
   lemma of Proofs/LayoutValueOdoP.v; no engine of its own (./check C10 compiles and scans it with Props/C10.v).

   Props/C10.v: C10_cobol_like_built and the _cobol theorems assume C01's wf - no ODO anywhere in the tree.
   Here the hypothesis is
     wfo e [] t       (Proofs/LayoutOdoP.v) the well-formedness of C06_layout: an ODO table may stand anywhere a
                      non-repeated item may stand (in the record, in nested non-repeated groups, next to REDEFINES
                      unions); its counter is an EARLIER non-repeated elementary item that is in no union and no table;
                      an ODO item does not itself REDEFINE; items inside tables (fixed or ODO) and members of
                      REDEFINES unions are C01-well-formed (no ODO inside them); the REDEFINES rules of C01 hold.
                      wfo takes the count vector e only to compare the lengths of union members, exactly as wf does.
     NoDup (ids t)    item ids distinct.
   With ODO the location tree depends on the record, through the counter fields only (C10_tree_counters).  So laziness
   reads: two records that give every counter field the layout consults the same count - the condition of
   C10_tree_counters, word for word - and hold the same bytes in the range of the location reached, are navigated by
   the same path to the same location and give the same value there, error status included (C10c_lazy_odo).
   Index commutation and containment of an occurrence need no side condition either: under wfo no table has an ODO
   inside its items (C10c_items_odo_free), which is the trigger of the known finding K-index-odo-value
   (C10_index_odo_refuted: there the outer table is OCCURS 2 with an ODO table inside, which wfo excludes). *)
From Coq Require Import List Arith NArith ZArith Bool.
Import ListNotations.
Require Import SR.Base.Res SR.Spec.Layout SR.Model.Layout SR.Model.LayoutValue SR.Spec.Coherence.
Require Import SR.Proofs.LayoutP SR.Proofs.LayoutOdoP SR.Proofs.LayoutValueOdoP.
Open Scope nat_scope.

(* ---- what cobol_parser emits for such a record description is cobol_like, so every theorem of Props/C10.v that asks
   for cobol_like (C10_commute_index, C10_raw_name_all, C10_foot_inside, C10_lazy_cobol_like) applies to it *)
Theorem C10c_cobol_like_built_odo : forall (e : env) (avail : list id) (t : item),
  wfo e avail t = true -> NoDup (ids t) -> cobol_like (build t) = true.
Proof. exact cobol_like_build_o. Qed.
Print Assumptions C10c_cobol_like_built_odo.

(* ---- unpacker.nav does not raise on a record that carries a count vector (Holds: C06_layout's hypothesis), so the
   premise vnav_of ... = Ok v0 below is met by every such record *)
Theorem C10c_nav_exists_odo : forall (B : Type) (dcount : list B -> nat) (r : list B) (e : env) (t : item),
  wfo e [] t = true -> NoDup (ids t) -> Holds B dcount r e t 0 ->
  exists v0, vnav_of dcount r (build t) = Ok v0.
Proof. exact nav_exists_odo. Qed.
Print Assumptions C10c_nav_exists_odo.

(* ---- every table reached, fixed or ODO, has items without OCCURS DEPENDING ON *)
Theorem C10c_items_odo_free : forall (B : Type) (dcount : list B -> nat) (r : list B) (e : env) (t : item)
    (p : list wstep) (v0 v : vnav) st sz isz cnt it sch,
  wfo e [] t = true -> NoDup (ids t) ->
  vnav_of dcount r (build t) = Ok v0 -> vnav_path dcount r v0 p = Ok v ->
  vn_loc v = WArr st sz isz cnt it sch -> odo_free sch = true.
Proof. exact items_odo_free_odo. Qed.
Print Assumptions C10c_items_odo_free.

(* ---- index: whole and part.  The table may be an ODO table (cnt is then the count this record's counter field gives) *)
Theorem C10c_commute_index_odo : forall (B : Type) (dcount : list B -> nat) (A : Type) (dec : option key -> list B -> res A)
    (r : list B) (e : env) (t : item) (p : list wstep) (v0 v : vnav) st sz isz cnt it sch (xs : list (pv A)) i,
  wfo e [] t = true -> NoDup (ids t) ->
  vnav_of dcount r (build t) = Ok v0 -> vnav_path dcount r v0 p = Ok v ->
  vn_loc v = WArr st sz isz cnt it sch ->
  vnav_value r dec v = Some (Ok (PList xs)) -> i < cnt ->
  exists v' x, vnav_index dcount r v i = Ok v' /\ nth_error xs i = Some x /\ vnav_value r dec v' = Some (Ok x).
Proof. exact commute_index_odo. Qed.
Print Assumptions C10c_commute_index_odo.

(* ---- raw bytes: every child reached by name, members of REDEFINES unions included, lies inside its parent *)
Theorem C10c_raw_name_odo : forall (B : Type) (dcount : list B -> nat) (r : list B) (e : env) (t : item)
    (p : list wstep) (v0 v v' : vnav) k,
  wfo e [] t = true -> NoDup (ids t) ->
  vnav_of dcount r (build t) = Ok v0 -> vnav_path dcount r v0 p = Ok v -> vnav_name v k = Ok v' ->
  wstart (vn_loc v) <= wstart (vn_loc v') /\ wend (vn_loc v') <= wend (vn_loc v) /\
  vnav_raw r v' = slice (vnav_raw r v) (wstart (vn_loc v') - wstart (vn_loc v)) (wend (vn_loc v') - wstart (vn_loc v)).
Proof. exact raw_name_odo. Qed.
Print Assumptions C10c_raw_name_odo.

(* ---- raw bytes: occurrence i of a table, fixed or ODO, starts at start + i * item_size, has the item size, lies inside
   the table and its raw bytes are that slice of the table's *)
Theorem C10c_raw_index_odo : forall (B : Type) (dcount : list B -> nat) (r : list B) (e : env) (t : item)
    (p : list wstep) (v0 v v' : vnav) st sz isz cnt it sch i,
  wfo e [] t = true -> NoDup (ids t) ->
  vnav_of dcount r (build t) = Ok v0 -> vnav_path dcount r v0 p = Ok v ->
  vn_loc v = WArr st sz isz cnt it sch -> vnav_index dcount r v i = Ok v' ->
  wstart (vn_loc v') = st + isz * i /\ wsize (vn_loc v') = isz /\
  wstart (vn_loc v) <= wstart (vn_loc v') /\ wend (vn_loc v') <= wend (vn_loc v) /\
  vnav_raw r v' = slice (vnav_raw r v) (wstart (vn_loc v') - wstart (vn_loc v)) (wend (vn_loc v') - wstart (vn_loc v)).
Proof. exact raw_index_odo. Qed.
Print Assumptions C10c_raw_index_odo.

(* ---- value() of every location reached takes no slice outside the location's own range *)
Theorem C10c_foot_inside_odo : forall (B : Type) (dcount : list B -> nat) (r : list B) (e : env) (t : item)
    (p : list wstep) (v0 v : vnav),
  wfo e [] t = true -> NoDup (ids t) ->
  vnav_of dcount r (build t) = Ok v0 -> vnav_path dcount r v0 p = Ok v -> foot_inside v = true.
Proof. exact foot_inside_odo. Qed.
Print Assumptions C10c_foot_inside_odo.

(* ---- the counters decide the tree, and nothing else in the record does: a record r' that gives every counter field
   the ODO tables consult the same count as r (the condition of C10_tree_counters) is navigated by the same path to the
   same navigator, location and anchors alike *)
Theorem C10c_same_nav_odo : forall (B : Type) (dcount : list B -> nat) (r : list B) (e : env) (r' : list B) (t : item)
    (p : list wstep) (v0 v : vnav),
  wfo e [] t = true -> NoDup (ids t) ->
  vnav_of dcount r (build t) = Ok v0 -> vnav_path dcount r v0 p = Ok v ->
  (forall c a cst csz, In c (odo_keys (build t)) -> In (KName c, WAtom a cst csz) (vn_an v0) ->
     dcount (slice r cst (cst + csz)) = dcount (slice r' cst (cst + csz))) ->
  vnav_of dcount r' (build t) = Ok v0 /\ vnav_path dcount r' v0 p = Ok v.
Proof. exact same_nav_odo. Qed.
Print Assumptions C10c_same_nav_odo.

(* ---- laziness (non-interference), unconditionally: r and r' agree on the counters (as above) and on the bytes of the
   location reached in r.  Then the same path reaches the same location in r', and value() gives the same answer in
   both, the exception included: undecodable bytes anywhere else can neither raise nor change it. *)
Theorem C10c_lazy_odo : forall (B : Type) (dcount : list B -> nat) (A : Type) (dec : option key -> list B -> res A)
    (r : list B) (e : env) (r' : list B) (t : item) (p : list wstep) (v0 v : vnav),
  wfo e [] t = true -> NoDup (ids t) ->
  vnav_of dcount r (build t) = Ok v0 -> vnav_path dcount r v0 p = Ok v ->
  (forall c a cst csz, In c (odo_keys (build t)) -> In (KName c, WAtom a cst csz) (vn_an v0) ->
     dcount (slice r cst (cst + csz)) = dcount (slice r' cst (cst + csz))) ->
  vnav_raw r v = vnav_raw r' v ->
  vnav_of dcount r' (build t) = Ok v0 /\ vnav_path dcount r' v0 p = Ok v /\
  vnav_value r dec v = vnav_value r' dec v.
Proof. exact lazy_odo. Qed.
Print Assumptions C10c_lazy_odo.

(* ------------------------------------------------------------------ examples (non-vacuity)
   01 R. 05 N PIC 9. 05 T OCCURS DEPENDING ON N. 10 B PIC X. 10 C PIC X(2).
         05 D. 10 X PIC X(2). 10 Y PIC X. 05 E REDEFINES D PIC X(3). 05 F PIC X.
   ids: R=1 N=2 T=3 B=4 C=5 D=6 X=7 Y=8 E=9 F=10: an ODO table of groups next to a REDEFINES union.
   Bytes are numbers; the counter field holds its count; the decoder rejects a field containing 99. *)
Definition exo_tree : item :=
  Group 1%N Once None
    (ICons (Elem 2%N 1 Once None)
    (ICons (Group 3%N (Odo 2%N) None (ICons (Elem 4%N 1 Once None) (ICons (Elem 5%N 2 Once None) INil)))
    (ICons (Group 6%N Once None (ICons (Elem 7%N 2 Once None) (ICons (Elem 8%N 1 Once None) INil)))
    (ICons (Elem 9%N 3 Once (Some 6%N))
    (ICons (Elem 10%N 1 Once None) INil))))).
(* the count vector exo_r carries: Holds (C06_layout) asks it of every non-repeated elementary item outside the unions,
   each being a potential counter: N holds 2, F holds 20 *)
Definition exo_env : env := fun c => if N.eqb c 2%N then 2 else if N.eqb c 10%N then 20 else 0.
Definition exo_dec (a : option key) (bs : list nat) : res (list nat) :=
  if existsb (Nat.eqb 99) bs then Err ValueError else Ok bs.
Definition exo_dcount (bs : list nat) : nat := match bs with [n] => n | _ => 0 end.
(* N=2, T = (11, 12 13) (14, 15 16), D = E = 17 18 19, F = 20 *)
Definition exo_r : list nat := [2; 11; 12; 13; 14; 15; 16; 17; 18; 19; 20].
(* the same counter; an undecodable byte in C of the first occurrence and another in F *)
Definition exo_bad : list nat := [2; 11; 99; 13; 14; 15; 16; 17; 18; 19; 99].
(* another counter: one occurrence, everything after it moves *)
Definition exo_one : list nat := [1; 11; 12; 13; 17; 18; 19; 20].
Definition exo_nav (r : list nat) : res vnav := vnav_of exo_dcount r (build exo_tree).
Definition exo_at (r : list nat) (p : list wstep) : res vnav :=
  match exo_nav r with Ok v => vnav_path exo_dcount r v p | Err e => Err e end.
Definition exo_val (r : list nat) (p : list wstep) : vres (pv (list nat)) :=
  match exo_at r p with Ok v => vnav_value r exo_dec v | Err e => Some (Err e) end.
Definition exo_raw (r : list nat) (p : list wstep) : list nat :=
  match exo_at r p with Ok v => vnav_raw r v | Err _ => [] end.

(* the hypotheses on the tree hold, for any count vector; the schema consults the counter N *)
Example C10c_example_wfo :
  wfo exo_env [] exo_tree = true /\ wfo (fun _ => 0) [] exo_tree = true
  /\ SR.Proofs.LayoutP.wf exo_env exo_tree = false
  /\ cobol_like (build exo_tree) = true /\ odo_keys (build exo_tree) = [2%N].
Proof. vm_compute. repeat split; reflexivity. Qed.
Example C10c_example_ids : NoDup (ids exo_tree).
Proof. vm_compute. repeat constructor; simpl; intuition discriminate. Qed.

(* the whole record: the ODO table has the two occurrences the counter announces; the union shows D, then E *)
Example C10c_example_whole :
  exo_val exo_r [] = Some (Ok (PDict
    [(KName 2%N, PAtom [2]);
     (KName 3%N, PList [PDict [(KName 4%N, PAtom [11]); (KName 5%N, PAtom [12; 13])];
                        PDict [(KName 4%N, PAtom [14]); (KName 5%N, PAtom [15; 16])]]);
     (KRedef 6%N, PDict [(KName 7%N, PAtom [17; 18]); (KName 8%N, PAtom [19])]);
     (KName 6%N, PDict [(KName 7%N, PAtom [17; 18]); (KName 8%N, PAtom [19])]);
     (KName 9%N, PAtom [17; 18; 19]);
     (KName 10%N, PAtom [20])])).
Proof. vm_compute. reflexivity. Qed.

(* hypotheses and conclusion of C10c_commute_index_odo on the ODO table T, index 1; of C10c_raw_index_odo;
   of C10c_raw_name_odo on the union member E (a $ref placeholder) and on D.Y *)
Example C10c_example_index :
  match exo_at exo_r [SKey (KName 3%N)] with
  | Ok v =>
      match vn_loc v, vnav_value exo_r exo_dec v, vnav_index exo_dcount exo_r v 1 with
      | WArr st sz isz cnt _ sch, Some (Ok (PList [_; x1])), Ok v1 =>
          vnav_value exo_r exo_dec v1 = Some (Ok x1) /\ x1 = PDict [(KName 4%N, PAtom [14]); (KName 5%N, PAtom [15; 16])]
          /\ (st, sz, isz, cnt) = (1, 6, 3, 2) /\ odo_free sch = true
          /\ wstart (vn_loc v1) = 4 /\ wsize (vn_loc v1) = 3 /\ vnav_raw exo_r v1 = [14; 15; 16]
          /\ vnav_index exo_dcount exo_r v 2 = Err IndexError
      | _, _, _ => False
      end
  | Err _ => False
  end
  /\ exo_raw exo_r [SKey (KName 9%N)] = [17; 18; 19]
  /\ exo_raw exo_r [SKey (KName 6%N); SKey (KName 8%N)] = [19]
  /\ (match exo_at exo_r [] with Ok v => ref_prop v (KName 9%N) | Err _ => false end) = true.
Proof. vm_compute. repeat split; reflexivity. Qed.

(* hypotheses and conclusion of C10c_lazy_odo / C10c_same_nav_odo: exo_r and exo_bad agree on the counter field, so the
   same paths reach the same navigators; the whole value of exo_bad raises, and so does the first occurrence, but the
   second occurrence, the union and its members hold the same bytes in both records and read the same *)
Example C10c_example_lazy :
  exo_nav exo_bad = exo_nav exo_r
  /\ exo_at exo_bad [SKey (KName 3%N); SIdx 1] = exo_at exo_r [SKey (KName 3%N); SIdx 1]
  /\ exo_raw exo_bad [SKey (KName 3%N); SIdx 1] = exo_raw exo_r [SKey (KName 3%N); SIdx 1]
  /\ exo_val exo_bad [] = Some (Err ValueError)
  /\ exo_val exo_bad [SKey (KName 3%N)] = Some (Err ValueError)
  /\ exo_val exo_bad [SKey (KName 3%N); SIdx 0] = Some (Err ValueError)
  /\ exo_val exo_bad [SKey (KName 3%N); SIdx 1] = Some (Ok (PDict [(KName 4%N, PAtom [14]); (KName 5%N, PAtom [15; 16])]))
  /\ exo_val exo_bad [SKey (KName 3%N); SIdx 1] = exo_val exo_r [SKey (KName 3%N); SIdx 1]
  /\ exo_val exo_bad [SKey (KName 3%N); SIdx 0; SKey (KName 4%N)] = Some (Ok (PAtom [11]))
  /\ exo_val exo_bad [SKey (KName 9%N)] = Some (Ok (PAtom [17; 18; 19]))
  /\ exo_val exo_bad [SKey (KRedef 6%N)] = exo_val exo_r [SKey (KRedef 6%N)]
  /\ exo_val exo_bad [SKey (KName 10%N)] = Some (Err ValueError)
  /\ (match exo_at exo_r [SKey (KName 3%N)] with Ok v => foot_inside v | Err _ => false end) = true
  /\ (match exo_at exo_r [] with Ok v => foot_inside v | Err _ => false end) = true.
Proof. vm_compute. repeat split; reflexivity. Qed.

(* the condition on the counters cannot be dropped: exo_one holds another count, the table has one occurrence, the union
   and F start three bytes earlier - the navigator of exo_r is not the navigator of exo_one *)
Example C10c_example_counter_needed :
  exo_dcount (slice exo_r 0 1) = 2 /\ exo_dcount (slice exo_one 0 1) = 1
  /\ exo_at exo_one [SKey (KName 3%N); SIdx 1] = Err IndexError
  /\ (match exo_at exo_r [SKey (KName 9%N)], exo_at exo_one [SKey (KName 9%N)] with
      | Ok v, Ok v1 => (wstart (vn_loc v), wstart (vn_loc v1)) = (7, 4)
      | _, _ => False
      end)
  /\ exo_val exo_one [SKey (KName 9%N)] = Some (Ok (PAtom [17; 18; 19]))
  /\ exo_val exo_one [SKey (KName 3%N)] = Some (Ok (PList [PDict [(KName 4%N, PAtom [11]); (KName 5%N, PAtom [12; 13])]])).
Proof. vm_compute. repeat split; reflexivity. Qed.

(* C10c_nav_exists_odo: exo_r carries the count vector exo_env *)
Example C10c_example_holds : Holds nat exo_dcount exo_r exo_env exo_tree 0.
Proof. vm_compute. repeat (first [exact I | reflexivity | eexists | split]). Qed.
