(* C14, companion file - from a PATH to the class: how open_workbook takes the suffix out of the path.

   Props/C14.v speaks about an already extracted suffix.  Here the argument is the path string p of
   file_registry.open_workbook(Path(p)) on a POSIX system, and [suffix_of_path] (Model/RegistryPath.v) is
   pathlib's rule in CPython 3.12, the interpreter the library runs under:

     cut p at every slash; drop the empty pieces (leading, doubled and trailing slashes) and the pieces that
     are exactly a dot; a piece of two dots is kept and never resolved; the NAME is the last piece left (the
     empty string when none is left); the SUFFIX starts at the LAST dot of the name, unless that dot is the
     first or the last character of the name (then there is no suffix).  No case folding, no file system.

   Found by reading PurePath._parse_path / name / suffix and by experiment (Path(p).name, Path(p).suffix):
     p             name        suffix        p             name     suffix      p            name    suffix
     a.b           a.b         .b            (empty)       (empty)  (none)      a.b/         a.b     .b
     a.tar.gz      a.tar.gz    .gz           .             (empty)  (none)      a.b//        a.b     .b
     .bashrc       .bashrc     (none)        ..            ..       (none)      a.b/.        a.b     .b
     .bashrc.bak   .bashrc.bak .bak          /  //  ///    (empty)  (none)      a.b/./.      a.b     .b
     name.         name.       (none)        ...           ...      (none)      a.b/..       ..      (none)
     x..y          x..y        .y            ..a           ..a      .a          a.b/../      ..      (none)
     x...          x...        (none)        a/..b         ..b      .b          d.x/y        y       (none)
     a.b.          a.b.        (none)        a/b..         b..      (none)      d.x/.y       .y      (none)
     .a.           .a.         (none)        x.CSV         x.CSV    .CSV        dir.csv/NAME NAME    (none)
     /a.b //a.b ///a.b ./a.b   a.b  .b       a/.b.c        .b.c     .c          a.b/c.d/     c.d     .d
   harness/c14.py (streams path_fresh, path_global, path_exhaustive: wire kinds 5 and 6) compares name, suffix,
   the class of the workbook returned / the exception and the constructors run with this model on generated
   paths (many dots, leading dot, trailing dot, upper case, directories with dots, dot and dot-dot components,
   leading, doubled and trailing slashes) on fresh registries and on the registry of the source.

   Only the property theorems are here, each closed by an exact lemma of Proofs/RegistryPathP.v.
   Vocabulary (Model/RegistryPath.v, Model/Registry.v):
     open_path r p       open_workbook(Path(p)) on registry r: the result and the constructor calls made
     open_workbook r s   the same for an already extracted suffix s (the function of Props/C14.v)
     reg_style s         s is a dot followed by at least one character, none of them a dot or a slash
     trailing t          t is empty, or a slash followed only by empty and single-dot pieces (/, //, /., /./, //.//.)
     has_name p          some piece of p survives the cutting (p has a name of its own)
     dot = 46, slash = 47. *)
From Coq Require Import NArith List Bool.
Import ListNotations.
Require Import SR.Base.Res SR.Gen.RegistryParams SR.Spec.Lifecycle SR.Model.Registry SR.Model.RegistryPath.
Require Import SR.Proofs.RegistryPathP.
Open Scope N_scope.

(* Opening a path is opening its suffix: everything Props/C14.v proves about open_workbook on a suffix
   (later registration wins, histories, refusal) holds for the path with that suffix. *)
Theorem C14c_open_by_path : forall (r : registry) (p : list N),
  open_path r p = open_workbook r (suffix_of_path p).
Proof. exact open_path_is_open_suffix. Qed.
Print Assumptions C14c_open_by_path.

(* dir ++ stem ++ sfx has the suffix sfx: for EVERY dir (any directories, with or without dots, any
   slashes; even a dir that does not end in a slash, whose last piece then runs into the stem), every
   non-empty stem without a slash (dots allowed: a.tar ++ .gz) and every registered-style sfx. *)
Theorem C14c_suffix_of_registered_style : forall dir stem sfx : list N,
  stem <> [] -> ~ In slash stem -> reg_style sfx = true ->
  suffix_of_path (dir ++ stem ++ sfx) = sfx.
Proof. exact suffix_exact. Qed.
Print Assumptions C14c_suffix_of_registered_style.

(* The rule in full, both directions: a path has the (non-empty) suffix s EXACTLY WHEN it is some dir, then a
   non-empty slash-free stem, then s, then a trailing part, with s registered-style.  So the modelled function
   yields a suffix in these cases and in no other. *)
Theorem C14c_suffix_rule : forall p s : list N, s <> [] ->
  (suffix_of_path p = s <->
   exists dir stem t, p = dir ++ stem ++ s ++ t /\ stem <> [] /\ ~ In slash stem /\ reg_style s = true /\ trailing t = true).
Proof. exact suffix_rule. Qed.
Print Assumptions C14c_suffix_rule.

(* Hence: the path is opened with the class of the LAST registration that mentions sfx, by one constructor
   call, and refused when none does (last_mention: Spec/Lifecycle.v, the specification of Props/C14.v). *)
Theorem C14c_open_registered : forall (ds : list (list (list N) * N)) (dir stem sfx : list N),
  stem <> [] -> ~ In slash stem -> reg_style sfx = true ->
  open_path (register_all ds) (dir ++ stem ++ sfx) =
  match last_mention ds sfx with
  | Some c => (Ok c, [Construct c])
  | None => (Err NotImplementedError, [])
  end.
Proof. exact open_path_registered. Qed.
Print Assumptions C14c_open_registered.

(* ... in particular right after file_suffix(names)(c) with sfx among the names, whatever was registered before *)
Theorem C14c_open_after_registration :
  forall (pre : list (list (list N) * N)) (names : list (list N)) (c : N) (dir stem sfx : list N),
  stem <> [] -> ~ In slash stem -> reg_style sfx = true -> In sfx names ->
  open_path (register_all (pre ++ [(names, c)])) (dir ++ stem ++ sfx) = (Ok c, [Construct c]).
Proof. exact open_path_history. Qed.
Print Assumptions C14c_open_after_registration.

(* Case sensitivity (and every other near miss): the path is refused, with no constructor call, unless its
   suffix was registered LETTER FOR LETTER - whatever else is registered, e.g. the same letters in the other
   case.  See C14c_case_example: with .csv registered, REPORT.CSV is refused. *)
Theorem C14c_exact_spelling : forall (ds : list (list (list N) * N)) (dir stem sfx : list N),
  stem <> [] -> ~ In slash stem -> reg_style sfx = true ->
  (forall d, In d ds -> ~ In sfx (fst d)) ->
  open_path (register_all ds) (dir ++ stem ++ sfx) = (Err NotImplementedError, []).
Proof. exact open_path_exact_spelling. Qed.
Print Assumptions C14c_exact_spelling.

(* Refusal, in every registry state and for every path: the exception is NotImplementedError, no constructor
   (hence no open) has run, and the path's suffix is absent from the registry.  (C14_unknown_suffix_opens_nothing
   carried over to paths.) *)
Theorem C14c_refusal_opens_nothing : forall (r : registry) (p : list N) e tr,
  open_path r p = (Err e, tr) -> e = NotImplementedError /\ tr = [] /\ reg_get r (suffix_of_path p) = None.
Proof. exact open_path_refusal. Qed.
Print Assumptions C14c_refusal_opens_nothing.

(* An unknown suffix - one that no registration mentions, the empty one included - is refused. *)
Theorem C14c_unknown_suffix_refused : forall (ds : list (list (list N) * N)) (p : list N),
  (forall d, In d ds -> ~ In (suffix_of_path p) (fst d)) ->
  open_path (register_all ds) p = (Err NotImplementedError, []).
Proof. exact open_path_unknown. Qed.
Print Assumptions C14c_unknown_suffix_refused.

(* The registry of the source (registrations read from the decorators on every run): a path without a suffix is
   refused, and every suffix the source registers is registered-style, i.e. reachable by C14c_open_registered. *)
Theorem C14c_global_registry :
  (forall p, suffix_of_path p = [] -> open_path global_registry p = (Err NotImplementedError, []))
  /\ forallb (fun d => forallb reg_style (fst d)) registrations = true.
Proof. split; [exact global_refuses_no_suffix|exact global_suffixes_reg_style]. Qed.
Print Assumptions C14c_global_registry.

(* Which paths have NO suffix.  (1) a name that ends in a dot;  (2) a dot-file: the name's only dot is its first
   character;  (3) a final name without a dot, whatever dots the directories have;  (4) a path that ends in a
   dot-dot component. *)
Theorem C14c_no_suffix :
  (forall dir stem, stem <> [] -> ~ In slash stem -> suffix_of_path (dir ++ stem ++ [dot]) = [])
  /\ (forall dir e, dir = [] \/ (exists d, dir = d ++ [slash]) -> e <> [] -> ~ In dot e -> ~ In slash e ->
        suffix_of_path (dir ++ dot :: e) = [])
  /\ (forall dir name, name <> [] -> ~ In dot name -> ~ In slash name -> suffix_of_path (dir ++ slash :: name) = [])
  /\ (forall p, suffix_of_path (p ++ [slash; dot; dot]) = [] /\ suffix_of_path [dot; dot] = []).
Proof.
  split; [exact suffix_name_ends_in_dot|]. split; [exact suffix_dotfile|].
  split; [exact suffix_dirs_do_not_count|exact suffix_dotdot].
Qed.
Print Assumptions C14c_no_suffix.

(* Trailing slashes and trailing dot components do not count (apply repeatedly for a.b/././/). *)
Theorem C14c_trailing : forall p : list N,
  suffix_of_path (p ++ [slash]) = suffix_of_path p /\ suffix_of_path (p ++ [slash; dot]) = suffix_of_path p.
Proof. intros p. split; [apply suffix_trailing_slash|apply suffix_trailing_dot_component]. Qed.
Print Assumptions C14c_trailing.

(* What stands in front of a path that has a name of its own does not matter (the correspondence run opens
   the generated relative paths below a scratch directory and relies on this). *)
Theorem C14c_prefix_irrelevant : forall pre rel : list N,
  has_name rel = true ->
  path_name (pre ++ slash :: rel) = path_name rel /\ suffix_of_path (pre ++ slash :: rel) = suffix_of_path rel.
Proof. exact suffix_prefix_irrelevant. Qed.
Print Assumptions C14c_prefix_irrelevant.

(* All a path can yield is no suffix or a registered-style one: a key such as .tar.gz, csv or the bare dot can
   be stored by file_suffix but no path ever reaches it. *)
Theorem C14c_suffix_shape : forall p : list N,
  suffix_of_path p = [] \/ reg_style (suffix_of_path p) = true.
Proof. exact suffix_shape. Qed.
Print Assumptions C14c_suffix_shape.

(* ---- non-vacuity and the boundary, on concrete paths ---- *)
(* /data.d/v1.2/report.final.csv : dir = /data.d/v1.2/ , stem = report.final , sfx = .csv *)
Example C14c_example_hypotheses :
  let dir := [47; 100; 97; 116; 97; 46; 100; 47; 118; 49; 46; 50; 47] in
  let stem := [114; 101; 112; 111; 114; 116; 46; 102; 105; 110; 97; 108] in
  let sfx := [46; 99; 115; 118] in
  stem <> [] /\ ~ In slash stem /\ reg_style sfx = true
  /\ suffix_of_path (dir ++ stem ++ sfx) = sfx
  /\ path_name (dir ++ stem ++ sfx) = stem ++ sfx
  /\ has_name (stem ++ sfx) = true.
Proof.
  cbv zeta. split; [discriminate|]. split; [|vm_compute; repeat split].
  cbn [In]. unfold slash. intros H. repeat (destruct H as [H|H]; [discriminate H|]). exact H.
Qed.

(* .csv registered for class 1: report.csv is opened, REPORT.CSV, report.Csv, report.csv. (trailing dot),
   .csv (a dot-file), csv and dir.csv/report are refused; dir.CSV/report.csv and report.csv/ are opened *)
Example C14c_case_example :
  let r := register_all [([[46; 99; 115; 118]], 1)] in
  open_path r [114; 46; 99; 115; 118] = (Ok 1, [Construct 1])
  /\ open_path r [82; 46; 67; 83; 86] = (Err NotImplementedError, [])
  /\ open_path r [114; 46; 67; 115; 118] = (Err NotImplementedError, [])
  /\ open_path r [114; 46; 99; 115; 118; 46] = (Err NotImplementedError, [])
  /\ open_path r [46; 99; 115; 118] = (Err NotImplementedError, [])
  /\ open_path r [99; 115; 118] = (Err NotImplementedError, [])
  /\ open_path r [100; 46; 99; 115; 118; 47; 114] = (Err NotImplementedError, [])
  /\ open_path r [100; 46; 67; 83; 86; 47; 114; 46; 99; 115; 118] = (Ok 1, [Construct 1])
  /\ open_path r [114; 46; 99; 115; 118; 47] = (Ok 1, [Construct 1]).
Proof. vm_compute. repeat split. Qed.

(* the registry of the source: g.csv gives class 1 (CSV_Workbook), g.CSV and g.csv.bak are refused *)
Example C14c_global_example :
  open_path global_registry [103; 46; 99; 115; 118] = (Ok 1, [Construct 1])
  /\ open_path global_registry [103; 46; 67; 83; 86] = (Err NotImplementedError, [])
  /\ open_path global_registry [103; 46; 99; 115; 118; 46; 98; 97; 107] = (Err NotImplementedError, []).
Proof. vm_compute. repeat split. Qed.

(* trailing parts: the empty string, /, //./, /./.  - and not /.., /x, a bare dot *)
Example C14c_trailing_example :
  map trailing [[]; [47]; [47; 47; 46; 47]; [47; 46; 47; 46]; [47; 46; 46]; [47; 120]; [46]]
  = [true; true; true; true; false; false; false].
Proof. vm_compute. reflexivity. Qed.

(* keys that can be registered but never reached: .tar.gz, csv, the bare dot, the empty string *)
Example C14c_unreachable_keys :
  reg_style [46; 116; 97; 114; 46; 103; 122] = false /\ reg_style [99; 115; 118] = false
  /\ reg_style [46] = false /\ reg_style [] = false
  /\ suffix_of_path [97; 46; 116; 97; 114; 46; 103; 122] = [46; 103; 122].
Proof. vm_compute. repeat split. Qed.
