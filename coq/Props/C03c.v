(* C03, companion file - format transparency for EBCDIC files in RECFM V and VB.

   Props/C03.v (C03_fixed_ebcdic) covers COBOL_EBCDIC_File with the default reader RECFM_N and with RECFM_F.
   Here: the same table written with record descriptor words (RECFM=V) and with block and record descriptor
   words (RECFM=VB, EVERY grouping of the rows into blocks) and read through the same facade run
   COBOL_EBCDIC_File(path, recfm_class=RECFM_V | RECFM_VB, lrecl=...).sheet_iter() -> set_schema(schema) ->
   rows() -> name(c).value() gives back the padded table - with NO premise about anything outside the model.

   Spec/TransparencyV.v  [write_ebcdic_V T widths], [write_ebcdic_VB blocks widths]: the records of
                         Spec/Transparency.v framed by the writers of Spec/Recfm.v (write_V, write_VB);
                         [record_fits] / [block_fits]: the descriptor words fit 16 bits
   Model/WorkbookV.v     [read_ebcdic_v r kind wb_lrecl file layout probes]: the facade run with the reader
                         class r; the record length (the workbook's or the layout's) is handed to the reader,
                         which ignores it, so wb_lrecl is arbitrary in the theorems
   [kind] = which Python file object is the source (irrelevant: legal images never produce a negative read).

   Proof = C05's round trips (V_record_iter_ok, VB_record_iter_ok) composed with the per-record decoding
   already proved for RECFM N / F (cp037 decode after encode on the whole repertoire, C02's text theorem).
   Only the property theorems are here, each closed by an exact lemma of Proofs/WorkbookVP.v.

   Correspondence: no stream of its own.  V and VB files read through the workbook API
   (COBOL_EBCDIC_File(path, recfm_class=..., lrecl=...).sheet('').set_schema(...).rows()) are a stream of
   C06's run (harness/c06.py: recfm 1 = V, 2 = VB, flat and nested layouts, any blocking), and the readers
   RECFM_V / RECFM_VB themselves are tied by C05's run; the per-field decoding is tied by C03's EBCDIC stream. *)
From Coq Require Import NArith List Lia.
Import ListNotations.
Require Import SR.Base.Res SR.Spec.Transparency SR.Spec.TransparencyV SR.Spec.Recfm SR.Gen.RecfmParams.
Require Import SR.Model.HeaderRow SR.Model.Workbook SR.Model.WorkbookV.
Require Import SR.Proofs.WorkbookVP.

(* RECFM V: every table with distinct column names, one width >= 1 per column, cells no longer than their
   columns and in the CP037 repertoire; any lrecl argument; zero columns and zero rows included. *)
Theorem C03c_fixed_ebcdic_V : forall (kind : N) (wb_lrecl : option nat) (T : table) (widths : list nat),
  NoDup (t_header T) -> fits widths T = true -> repertoire_ok T = true ->
  read_ebcdic_v RECFM_V kind wb_lrecl (write_ebcdic_V T widths) (layout_of (t_header T) widths) (t_header T)
  = expected [([], pad_table widths T)].
Proof. exact ebcdic_V_ok. Qed.
Print Assumptions C03c_fixed_ebcdic_V.

(* RECFM VB: the rows grouped into blocks in ANY way (blocks of any number of rows, empty blocks too), every
   block within the 16-bit block length; zero columns included, as for V (since fix eee0fb2 RECFM_VB reads a
   record without data bytes wherever it stands in its block: Props/C05.v C05_VB; before it this theorem needed
   at least one column). *)
Theorem C03c_fixed_ebcdic_VB :
  forall (kind : N) (wb_lrecl : option nat) (T : table) (widths : list nat) (blocks : list (list (list text))),
  NoDup (t_header T) -> fits widths T = true -> repertoire_ok T = true ->
  concat blocks = t_rows T -> forallb (block_fits widths) blocks = true ->
  read_ebcdic_v RECFM_VB kind wb_lrecl (write_ebcdic_VB blocks widths) (layout_of (t_header T) widths) (t_header T)
  = expected [([], pad_table widths T)].
Proof. exact ebcdic_VB_ok. Qed.
Print Assumptions C03c_fixed_ebcdic_VB.

(* Hence the four RECFMs agree: the V file and every VB file of a table read exactly like its N / F file
   (Props/C03.v C03_fixed_ebcdic), whatever file-object kinds and lrecl arguments are used on either side. *)
Theorem C03c_recfm_agree :
  forall (r : recfm) (kind kind' : N) (wb_lrecl wb_lrecl' : option nat) (T : table) (widths : list nat)
         (blocks : list (list (list text))),
  NoDup (t_header T) -> fits widths T = true -> repertoire_ok T = true -> t_header T <> [] ->
  (r = RECFM_N -> list_sum widths <= N.to_nat buffer_size) ->
  wb_lrecl = None \/ wb_lrecl = Some (list_sum widths) ->
  concat blocks = t_rows T -> forallb (block_fits widths) blocks = true ->
  read_ebcdic_v RECFM_V kind' wb_lrecl' (write_ebcdic_V T widths) (layout_of (t_header T) widths) (t_header T)
  = read_ebcdic r kind wb_lrecl (write_ebcdic T widths) (layout_of (t_header T) widths) (t_header T)
  /\ read_ebcdic_v RECFM_VB kind' wb_lrecl' (write_ebcdic_VB blocks widths) (layout_of (t_header T) widths) (t_header T)
  = read_ebcdic r kind wb_lrecl (write_ebcdic T widths) (layout_of (t_header T) widths) (t_header T).
Proof. exact recfm_agree. Qed.
Print Assumptions C03c_recfm_agree.

(* The images the theorems speak about are files: every element is a byte, provided the descriptor words are
   representable (record length + 4 <= 65535 for V; the blocks as above for VB). *)
Theorem C03c_images_are_bytes :
  (forall T widths, fits widths T = true -> record_fits widths = true -> bytes_ok (write_ebcdic_V T widths) = true)
  /\ (forall T widths blocks, fits widths T = true -> concat blocks = t_rows T ->
        forallb (block_fits widths) blocks = true -> bytes_ok (write_ebcdic_VB blocks widths) = true).
Proof. split; [exact image_V_bytes|exact image_VB_bytes]. Qed.
Print Assumptions C03c_images_are_bytes.

(* The file presents one sheet named '' - whatever it holds. *)
Theorem C03c_single_sheet : forall r kind wb_lrecl file l probes,
  map fst (read_ebcdic_v r kind wb_lrecl file l probes) = [[]].
Proof. exact single_sheet_v. Qed.
Print Assumptions C03c_single_sheet.

(* ---- non-vacuity: two columns, three rows, blocked 2 + 0 + 1 ---- *)
Definition exv_T : table :=
  mk_table [[65]; [66; 50]]%N [[[97; 98]; [233]]; [[48; 48; 49]; [32]]; [[]; [122]]]%N.   (* A, B2 | ab, e-acute | 001, blank | empty, z *)

Definition exv_blocks : list (list (list text)) :=
  [[[[97; 98]; [233]]; [[48; 48; 49]; [32]]]; []; [[[]; [122]]]]%N.

Example C03c_example :
  NoDup (t_header exv_T) /\ fits [3; 2] exv_T = true /\ repertoire_ok exv_T = true /\ t_header exv_T <> []
  /\ concat exv_blocks = t_rows exv_T /\ forallb (block_fits [3; 2]) exv_blocks = true /\ record_fits [3; 2] = true
  /\ write_ebcdic_V exv_T [3; 2]
     = [0; 9; 0; 0; 129; 130; 64; 81; 64;  0; 9; 0; 0; 240; 240; 241; 64; 64;  0; 9; 0; 0; 64; 64; 64; 169; 64]%N
  /\ write_ebcdic_VB exv_blocks [3; 2]
     = [0; 22; 0; 0;  0; 9; 0; 0; 129; 130; 64; 81; 64;  0; 9; 0; 0; 240; 240; 241; 64; 64;
        0; 4; 0; 0;
        0; 13; 0; 0;  0; 9; 0; 0; 64; 64; 64; 169; 64]%N
  /\ read_ebcdic_v RECFM_VB 0 None (write_ebcdic_VB exv_blocks [3; 2]) (layout_of (t_header exv_T) [3; 2]) (t_header exv_T)
     = [([], Ok [[Ok (Some (Txt [97; 98; 32]%N)); Ok (Some (Txt [233; 32]%N))];
                 [Ok (Some (Txt [48; 48; 49]%N)); Ok (Some (Txt [32; 32]%N))];
                 [Ok (Some (Txt [32; 32; 32]%N)); Ok (Some (Txt [122; 32]%N))]])].
Proof.
  split. { cbn. constructor; [intros [H|[]]; discriminate H|]. constructor; [intros []|constructor]. }
  repeat split; try (vm_compute; reflexivity). discriminate.
Qed.

(* the former boundary of the VB theorem: a table without columns has records without data bytes.  Until fix eee0fb2
   RECFM_VB refused the last of them in each block (AssertionError in the walk over the block; Props/C05.v
   C05_VB_empty_last_old_refuted) while RECFM_V read the file; now both read it, in every blocking *)
Example C03c_VB_no_column :
  let T0 := mk_table [] [[]; []] in
  read_ebcdic_v RECFM_VB 0 None (write_ebcdic_VB [t_rows T0] []) (layout_of [] []) [] = [([], Ok [[]; []])]
  /\ read_ebcdic_v RECFM_VB 0 None (write_ebcdic_VB [[[]]; []; [[]]] []) (layout_of [] []) [] = [([], Ok [[]; []])]
  /\ read_ebcdic_v RECFM_V 0 None (write_ebcdic_V T0 []) (layout_of [] []) [] = [([], Ok [[]; []])].
Proof. vm_compute. repeat split; reflexivity. Qed.
