(* C06, fifth layer - OCCURS DEPENDING ON counters as they occur in practice, and as the code sees them.
   Companion of Props/C06.v (and C06c.v, C06d.v); only property theorems, each closed by an exact lemma of
   Proofs/CountersP.v / Proofs/CountersZP.v.  No engine of its own: the correspondence run is C06's
   (streams packed-counter, comp-counter, above-maximum, negative-counter of harness/c06.py; Judge/JC06.v).

   Props/C06c.v instantiates the counter decoder for UNSIGNED ZONED DISPLAY counters only.  The usual counters are
   PIC S9(4) COMP and PIC 9(3) COMP-3.  Here:

   (1) DECODERS (Model/Counters.v): zcount_zoned, zcount_packed, zcount_binary d = Model/Estruct.v's unpack for the
       counter's own usage composed with int() - the Python int the walk multiplies with, or the exception.  A field that
       STORES z under the specification's encoder (Spec/Counters.v: stores_zoned_z / stores_packed_z / stores_binary_z,
       any valid sign, negative values included) decodes to z.  dcount_packed / dcount_binary d / dcount_zoned are the
       natural-number completions Model/Layout.v takes.
   (2) C06_layout, C06_layout_flat, C06_frame and the five FILE theorems with those decoders, the hypothesis "the record
       stores the counts" written with the ENCODERS only: C06e_layout_packed_counter, C06e_layout_binary_counter (general
       family; Stored asks for an image of e(c) at the counters c that some table names and for NOTHING at the other
       items - Props/C06c.v's C06c_layout still needed Holds at every non-repeated elementary item), C06e_layout_flat ..
       C06e_stream_F for any decoder / encoder pair that round-trips (the three pairs: C06e_counter_pairs).
   (3) THE VALUE AS THE CODE SEES IT - a Z, not a nat.  Model/Counters.zwalk is LocationMaker.walk over Python's integers,
       Location.__init__'s  if end:  test included, and the sign test of the DependsOnArraySchema case
       ( if maxItems < 0: raise ValueError - the fix of finding K-negative-counter, read from the source by harness/t1_layout.py
       into Gen/LayoutParams.odo_negative_refused ) as a FLAG of the walk.  With the flag as the source has it now:
       C06e_walk_closed_form (flat family, EVERY count vector over Z: the navigator is a closed form of the vector, or
       ValueError when a table's counter is negative), C06e_negative_counter_refused (such a record is refused while the
       navigator is built, so no item is ever located before the table), C06e_item_after_table_proved (the property's
       sentence "every item after the table is found immediately after the last occupied element", kept for every counter
       value as C06e_item_after_table_statement: the record is refused or the sentence holds), C06e_item_after_table_nonneg.
       The behaviour the fix repaired is kept as statements about the walk WITHOUT the sign test (zwalk_with false):
       C06e_walk_closed_form_old, C06e_after_table_old, C06e_negative_counter_layout_old (for count c < 0 the item after the
       table started at table_start + c * item_size - BEFORE the table - and every index was refused),
       C06e_item_after_table_old_refuted, C06e_negative_witness_old (PIC S9 = F0 D2 = -2).
   (4) A count ABOVE the declared maximum: the property says "the number of elements read is the value of the
       controlling item", and that is what the code does - the declared maximum reaches neither the schema nor the walk
       (C06e_count_above_maximum; no finding).
   Also: PIC S9(4) COMP, the most usual counter of all, never decodes in this library (C06e_s94_comp_counter: finding
   K-signed-binary-size of C04 - calcsize reserves 4 bytes, the decoder wants 2 - seen from C06). *)
From Coq Require Import ZArith NArith List Bool Lia.
Import ListNotations.
Require Import SR.Base.Res SR.Gen.RecfmParams SR.Spec.Recfm SR.Model.Recfm.
Require Import SR.Spec.Encode SR.Model.Estruct SR.Model.ZonedCounter.
Require Import SR.Spec.Layout SR.Model.Layout SR.Spec.OdoStream SR.Model.OdoStream.
Require Import SR.Spec.LayoutWf SR.Spec.OdoWf SR.Props.C06.
Require Import SR.Spec.Counters SR.Model.Counters SR.Spec.CountersWf SR.Model.LayoutPartial SR.Proofs.CountersP SR.Proofs.CountersZP.
Open Scope nat_scope.

(* ================================================================== (1) decoders *)

Theorem C06e_zoned_counter_decodes : forall (bs : list N) (z : Z), stores_zoned_z bs z -> zcount_zoned bs = Ok z.
Proof. exact zcount_zoned_stored. Qed.
Print Assumptions C06e_zoned_counter_decodes.

Theorem C06e_packed_counter_decodes : forall (bs : list N) (z : Z), stores_packed_z bs z -> zcount_packed bs = Ok z.
Proof. exact zcount_packed_stored. Qed.
Print Assumptions C06e_packed_counter_decodes.

Theorem C06e_binary_counter_decodes : forall (d : nat) (bs : list N) (z : Z),
  stores_binary_z d bs z -> zcount_binary d bs = Ok z.
Proof. exact zcount_binary_stored. Qed.
Print Assumptions C06e_binary_counter_decodes.

(* the natural-number decoders return the count that was stored *)
Theorem C06e_counter_pairs :
  decodes_stored dcount_zoned stores_zoned_count
  /\ decodes_stored dcount_packed stores_packed_count
  /\ forall d, decodes_stored (dcount_binary d) (stores_binary_count d).
Proof. exact counter_pairs. Qed.
Print Assumptions C06e_counter_pairs.

(* every spelling of the usage reaches the same decoder, and the S of the picture is not looked at *)
Theorem C06e_usage_spellings : forall (u : N) (p : pic) (bs : list N),
  (In u packed_spellings -> unpack u p bs = unpack 8%N p bs)
  /\ (In u binary_spellings -> unpack u p bs = unpack 10%N p bs).
Proof. exact usage_spellings. Qed.
Print Assumptions C06e_usage_spellings.

(* PIC S9(4) COMP: the field is 4 bytes wide (calcsize counts the S), the decoder asks struct for 2: every record raises *)
Theorem C06e_s94_comp_counter :
  calcsize 10%N (binary_pic 4) = Ok 4%N
  /\ forall bs, length bs = 4 -> zcount_binary 4 bs = Err StructError.
Proof. exact s94_comp_counter. Qed.
Print Assumptions C06e_s94_comp_counter.

(* the exception-keeping decoders of Model/LayoutPartial.v (C10: a counter that does not decode) are these decoders followed
   by what the walk makes of the value (LayoutPartial.count_of_int): a negative one is refused with ValueError when the
   source has the sign test (as it has now), else clamped to 0 *)
Theorem C06e_partial_decoders : forall (bs : list N),
  dcountp_zoned bs = match zcount_zoned bs with Ok z => count_of_int z | Err e => Err e end
  /\ dcountp_packed bs = match zcount_packed bs with Ok z => count_of_int z | Err e => Err e end.
Proof. exact partial_decoders. Qed.
Print Assumptions C06e_partial_decoders.

Theorem C06e_negative_count_refused_now : forall (z : Z),
  count_of_int z = if (z <? 0)%Z then Err ValueError else Ok (Z.to_nat z).
Proof. exact count_of_int_now. Qed.
Print Assumptions C06e_negative_count_refused_now.

(* ================================================================== (2) the layout theorems with these decoders *)

(* general family (C06_layout), any round-tripping pair *)
Theorem C06e_layout_stored : forall (dc : list N -> nat) (stores : list N -> nat -> Prop) (r : list N) (e : env) (t : item),
  decodes_stored dc stores ->
  wfo e [] t = true -> NoDup (ids t) -> Stored stores (odo_counters t) r e t 0 ->
  exists v0, nav_of dc r (build t) = Ok v0
    /\ lstart (n_loc v0) = 0 /\ lend (n_loc v0) = extent e t
    /\ forall p v st, spec_nav e (VItem t) 0 p = inl (v, st) ->
         exists nv, nav_path dc r v0 p = Ok nv
           /\ lstart (n_loc nv) = st /\ lend (n_loc nv) = st + view_size e v
           /\ nav_raw r nv = slice r st (st + view_size e v)
           /\ (forall x, v = VItem x -> is_table x = true ->
                 forall i, count e (item_oc x) <= i -> nav_index dc r nv i = Err IndexError).
Proof. exact layout_stored. Qed.
Print Assumptions C06e_layout_stored.

(* COMP-3 / PACKED-DECIMAL counters *)
Theorem C06e_layout_packed_counter : forall (r : list N) (e : env) (t : item),
  wfo e [] t = true -> NoDup (ids t) -> Stored stores_packed_count (odo_counters t) r e t 0 ->
  exists v0, nav_of dcount_packed r (build t) = Ok v0
    /\ lstart (n_loc v0) = 0 /\ lend (n_loc v0) = extent e t
    /\ forall p v st, spec_nav e (VItem t) 0 p = inl (v, st) ->
         exists nv, nav_path dcount_packed r v0 p = Ok nv
           /\ lstart (n_loc nv) = st /\ lend (n_loc nv) = st + view_size e v
           /\ nav_raw r nv = slice r st (st + view_size e v)
           /\ (forall x, v = VItem x -> is_table x = true ->
                 forall i, count e (item_oc x) <= i -> nav_index dcount_packed r nv i = Err IndexError).
Proof. exact layout_packed_counter. Qed.
Print Assumptions C06e_layout_packed_counter.

(* COMP / BINARY counters of d digit positions (2, 4 or 8 bytes) *)
Theorem C06e_layout_binary_counter : forall (d : nat) (r : list N) (e : env) (t : item),
  wfo e [] t = true -> NoDup (ids t) -> Stored (stores_binary_count d) (odo_counters t) r e t 0 ->
  exists v0, nav_of (dcount_binary d) r (build t) = Ok v0
    /\ lstart (n_loc v0) = 0 /\ lend (n_loc v0) = extent e t
    /\ forall p v st, spec_nav e (VItem t) 0 p = inl (v, st) ->
         exists nv, nav_path (dcount_binary d) r v0 p = Ok nv
           /\ lstart (n_loc nv) = st /\ lend (n_loc nv) = st + view_size e v
           /\ nav_raw r nv = slice r st (st + view_size e v)
           /\ (forall x, v = VItem x -> is_table x = true ->
                 forall i, count e (item_oc x) <= i -> nav_index (dcount_binary d) r nv i = Err IndexError).
Proof. exact layout_binary_counter. Qed.
Print Assumptions C06e_layout_binary_counter.

(* signed zoned counters (PIC S9(k) DISPLAY with a positive zone C, F, A or E; -0 counts 0) *)
Theorem C06e_layout_zoned_counter : forall (r : list N) (e : env) (t : item),
  wfo e [] t = true -> NoDup (ids t) -> Stored stores_zoned_count (odo_counters t) r e t 0 ->
  exists v0, nav_of dcount_zoned r (build t) = Ok v0
    /\ lstart (n_loc v0) = 0 /\ lend (n_loc v0) = extent e t
    /\ forall p v st, spec_nav e (VItem t) 0 p = inl (v, st) ->
         exists nv, nav_path dcount_zoned r v0 p = Ok nv
           /\ lstart (n_loc nv) = st /\ lend (n_loc nv) = st + view_size e v
           /\ nav_raw r nv = slice r st (st + view_size e v)
           /\ (forall x, v = VItem x -> is_table x = true ->
                 forall i, count e (item_oc x) <= i -> nav_index dcount_zoned r nv i = Err IndexError).
Proof. exact layout_zoned_counter. Qed.
Print Assumptions C06e_layout_zoned_counter.

(* flat family: C06_layout_flat, C06_layout_flat_occurrence, C06_frame *)
Theorem C06e_layout_flat : forall (dc : list N -> nat) (stores : list N -> nat -> Prop), decodes_stored dc stores ->
  forall (t : item) (e : env) (r : list N),
  flat_odo t = true -> counters_stored_by stores e t r ->
  exists v, nav_of dc r (build t) = Ok v
    /\ lstart (n_loc v) = 0 /\ lend (n_loc v) = extent e t
    /\ forall k x, find_kid (item_kids t) k = Some x ->
       exists o vk, kid_start e (item_kids t) k = Some o
         /\ nav_name v (KName k) = Ok vk
         /\ lstart (n_loc vk) = o /\ lsize (n_loc vk) = extent e x
         /\ (is_table x = true ->
               (exists sub sch, n_loc vk = LArr o (extent e x) (ext1 e x) (count e (item_oc x)) sub sch)
               /\ (forall i, i < count e (item_oc x) ->
                     exists vi, nav_index dc r vk i = Ok vi
                       /\ lstart (n_loc vi) = o + i * ext1 e x /\ lsize (n_loc vi) = ext1 e x)
               /\ (forall i, count e (item_oc x) <= i -> nav_index dc r vk i = Err IndexError)).
Proof. exact layout_flat_pair. Qed.
Print Assumptions C06e_layout_flat.

Theorem C06e_layout_flat_occurrence : forall (dc : list N -> nat) (stores : list N -> nat -> Prop), decodes_stored dc stores ->
  forall (t : item) (e : env) (r : list N),
  flat_odo t = true -> counters_stored_by stores e t r ->
  exists v, nav_of dc r (build t) = Ok v
    /\ forall k x, find_kid (item_kids t) k = Some x -> is_table x = true ->
       exists o vk, kid_start e (item_kids t) k = Some o /\ nav_name v (KName k) = Ok vk
         /\ forall i, i < count e (item_oc x) ->
            exists vi, nav_index dc r vk i = Ok vi
              /\ match x with
                 | Elem n sz _ _ => exists vj, nav_name vi (KName n) = Ok vj /\ n_loc vj = LAtom (o + i * sz) sz
                 | Group _ _ _ gks =>
                     forall j y, find_kid gks j = Some y ->
                       exists oj vj, kid_start e gks j = Some oj /\ nav_name vi (KName j) = Ok vj
                         /\ n_loc vj = LAtom (o + i * ext1 e x + oj) (extent e y)
                 end.
Proof. exact layout_flat_occurrence_pair. Qed.
Print Assumptions C06e_layout_flat_occurrence.

Theorem C06e_frame : forall (dc : list N -> nat) (stores : list N -> nat -> Prop), decodes_stored dc stores ->
  forall (t : item) (e : env) (r more : list N),
  flat_odo t = true -> extent e t <= length r -> counters_stored_by stores e t r ->
  nav_of dc (r ++ more) (build t) = nav_of dc r (build t).
Proof. exact frame_pair. Qed.
Print Assumptions C06e_frame.

(* files: C06_stream_N, C06_stream_V, C06_stream_VB, C06_stream_F (any lrecl argument, as in Props/C06.v) *)
Theorem C06e_stream_N : forall (dc : list N -> nat) (stores : list N -> nat -> Prop), decodes_stored dc stores ->
  forall (kind : N) (lrecl : option nat) (t : item)
    (es : list env) (rs : list (list N)),
  flat_odo t = true ->
  Forall2 (fun e r => length r = extent e t /\ counters_stored_by stores e t r) es rs ->
  legal_N (N.to_nat buffer_size) rs = true ->
  exists rows s',
    rows_N dc kind lrecl (build t) (write_N rs) = Ok (rows, Done, s')
    /\ map (@row_buf N) rows = spec_bufs (N.to_nat buffer_size) (write_N rs) (map (@length N) rs)
    /\ heads (map (@length N) rs) (map (@row_buf N) rows) = rs
    /\ Forall2 (fun rw r => nav_of dc r (build t) = Ok (row_nav rw)) rows rs
    /\ Forall2 (fun rw e => lend (n_loc (row_nav rw)) = extent e t) rows es
    /\ buf s' = [] /\ rest s' = [].
Proof. exact stream_N_pair. Qed.
Print Assumptions C06e_stream_N.

Theorem C06e_stream_V : forall (dc : list N -> nat) (stores : list N -> nat -> Prop), decodes_stored dc stores ->
  forall (kind : N) (lrecl : option nat) (t : item)
    (es : list env) (rs : list (list N)),
  flat_odo t = true ->
  Forall2 (fun e r => length r = extent e t /\ counters_stored_by stores e t r) es rs ->
  legal_V rs = true ->
  exists rows,
    rows_V dc kind lrecl (build t) (write_V rs) = Ok (rows, Done)
    /\ map (@row_buf N) rows = rs
    /\ Forall2 (fun rw r => nav_of dc r (build t) = Ok (row_nav rw)) rows rs
    /\ Forall2 (fun rw e => lend (n_loc (row_nav rw)) = extent e t) rows es.
Proof. exact stream_V_pair. Qed.
Print Assumptions C06e_stream_V.

Theorem C06e_stream_VB : forall (dc : list N -> nat) (stores : list N -> nat -> Prop), decodes_stored dc stores ->
  forall (kind : N) (lrecl : option nat) (t : item)
    (ess : list (list env)) (blocks : list (list (list N))),
  flat_odo t = true ->
  Forall2 (Forall2 (fun e r => length r = extent e t /\ counters_stored_by stores e t r)) ess blocks ->
  legal_VB blocks = true ->
  exists rows,
    rows_VB dc kind lrecl (build t) (write_VB blocks) = Ok (rows, Done)
    /\ map (@row_buf N) rows = concat blocks
    /\ Forall2 (fun rw r => nav_of dc r (build t) = Ok (row_nav rw)) rows (concat blocks)
    /\ Forall2 (fun rw e => lend (n_loc (row_nav rw)) = extent e t) rows (concat ess).
Proof. exact stream_VB_pair. Qed.
Print Assumptions C06e_stream_VB.

Theorem C06e_stream_F : forall (dc : list N -> nat) (stores : list N -> nat -> Prop), decodes_stored dc stores ->
  forall (kind : N) (lrecl : nat) (t : item)
    (es : list env) (rs ps : list (list N)),
  flat_odo t = true ->
  Forall2 (fun e r => length r = extent e t /\ counters_stored_by stores e t r) es rs ->
  Forall2 (fun r p => exists more, p = r ++ more) rs ps ->
  legal_F lrecl ps = true ->
  exists rows,
    rows_F dc kind (Some lrecl) (build t) (write_F ps) = Ok (rows, Done)
    /\ map (@row_buf N) rows = ps
    /\ Forall2 (fun rw r => nav_of dc r (build t) = Ok (row_nav rw)) rows rs
    /\ Forall2 (fun rw e => lend (n_loc (row_nav rw)) = extent e t) rows es.
Proof. exact stream_F_pair. Qed.
Print Assumptions C06e_stream_F.

(* ================================================================== (3) the counter's value as the code sees it *)
Open Scope Z_scope.

(* flat family, EVERY count vector over Z, the walk as the source has it NOW (fix of finding K-negative-counter:
   if maxItems < 0: raise ValueError, read by harness/t1_layout.py into Gen/LayoutParams.odo_negative_refused): the navigator
   is the closed form Spec/CountersWf.zflat_nav - or, when some table's counter is negative, it is not built at all *)
Theorem C06e_walk_closed_form : forall (zdec : list N -> res Z) (ze : id -> Z) (t : item) (r : list N),
  flat_odo t = true -> zcounters_hold zdec ze t r ->
  znav_of zdec r (build t) = if has_neg ze (item_kids t) then Err ValueError else Ok (zflat_nav ze t).
Proof. exact znav_flat_now. Qed.
Print Assumptions C06e_walk_closed_form.

(* a record in which a table's counter holds a negative value is REFUSED while the locations are built: no item of it is
   ever located - before the table or anywhere else *)
Theorem C06e_negative_counter_refused : forall (zdec : list N -> res Z) (ze : id -> Z) (t : item) (r : list N),
  flat_odo t = true -> zcounters_hold zdec ze t r ->
  (exists x c, in_items x (item_kids t) /\ item_oc x = Odo c /\ ze c < 0) ->
  znav_of zdec r (build t) = Err ValueError.
Proof. exact negative_counter_refused. Qed.
Print Assumptions C06e_negative_counter_refused.

(* the property's sentence for EVERY count vector (Spec/CountersWf.C06e_item_after_table_statement): either the navigator
   is refused, or the item after a table starts where the last occupied element ends *)
Theorem C06e_item_after_table_proved : C06e_item_after_table_statement.
Proof. exact item_after_table_proved. Qed.
Print Assumptions C06e_item_after_table_proved.

(* no counter negative: the navigator exists and every item after a table follows the last occupied element *)
Theorem C06e_item_after_table_nonneg : forall (zdec : list N -> res Z) (ze : id -> Z) (t : item) (r : list N),
  flat_odo t = true -> zcounters_hold zdec ze t r ->
  (forall c, In c (counters_of (item_kids t)) -> 0 <= ze c) ->
  exists v, znav_of zdec r (build t) = Ok v
    /\ forall x y c, consecutive (item_kids t) x y -> item_oc x = Odo c ->
         exists vx vy, znav_name v (KName (item_id x)) = Ok vx /\ znav_name v (KName (item_id y)) = Ok vy
           /\ 0 <= zstart (zn_loc vx)
           /\ zstart (zn_loc vy) = zstart (zn_loc vx) + occupied (ze c) * item_bytes x.
Proof. exact item_after_table_nonneg. Qed.
Print Assumptions C06e_item_after_table_nonneg.

(* the witness of the former finding, now: 01 R. 05 N PIC S9. 05 T PIC X(2) OCCURS 0 TO 5 DEPENDING ON N. 05 Z PIC X(3).
   with N = F0 D2 (-2) is refused *)
Theorem C06e_negative_witness_refused : znav_of zcount_zoned neg_rec (build neg_tree) = Err ValueError.
Proof. exact neg_witness_refused. Qed.
Print Assumptions C06e_negative_witness_refused.

(* ---- what the fix repaired: the walk WITHOUT the sign test (Model/Counters.zwalk_with false ...), finding K-negative-counter *)

(* the closed form for every count vector, negative ones included *)
Theorem C06e_walk_closed_form_old : forall (zdec : list N -> res Z) (ze : id -> Z) (t : item) (r : list N),
  flat_odo t = true -> zcounters_hold zdec ze t r ->
  znav_of_with false zdec r (build t) = Ok (zflat_nav ze t).
Proof. exact znav_flat_old. Qed.
Print Assumptions C06e_walk_closed_form_old.

(* a table x DEPENDING ON c and the item y declared after it, whatever c holds:
     item_count = the value of c;   size = item_size * count, end = start + size - unless that end is 0: then size 0, end = start;
     y starts at start + size;      an index at or beyond the count is refused *)
Theorem C06e_after_table_old : forall (zdec : list N -> res Z) (ze : id -> Z) (t : item) (r : list N),
  flat_odo t = true -> zcounters_hold zdec ze t r ->
  exists v, znav_of_with false zdec r (build t) = Ok v
    /\ forall x y c, consecutive (item_kids t) x y -> item_oc x = Odo c ->
         exists vx vy st en sz isz sub sch,
           znav_name v (KName (item_id x)) = Ok vx /\ znav_name v (KName (item_id y)) = Ok vy
           /\ zn_loc vx = ZArr st en sz isz (ze c) sub sch
           /\ sz = (if st + isz * ze c =? 0 then 0 else isz * ze c)
           /\ en = (if st + isz * ze c =? 0 then st else st + isz * ze c)
           /\ zstart (zn_loc vy) = st + sz
           /\ (0 <= st -> isz = item_bytes x)
           /\ (forall i, ze c <= i -> znav_index_with false zdec r vx i = Err IndexError).
Proof. exact after_table_old. Qed.
Print Assumptions C06e_after_table_old.

(* a NEGATIVE counter was accepted: the table got a negative length; the item after it started at
   table_start + c * item_size, BEFORE the table (at the table's start in the one case where that sum is 0, which
   Location.__init__ takes for "no end given"); every index into the table was refused *)
Theorem C06e_negative_counter_layout_old : forall (zdec : list N -> res Z) (ze : id -> Z) (t : item) (r : list N),
  flat_odo t = true -> zcounters_hold zdec ze t r ->
  exists v, znav_of_with false zdec r (build t) = Ok v
    /\ forall x y c, consecutive (item_kids t) x y -> item_oc x = Odo c -> ze c < 0 ->
         exists vx vy st en sz isz sub sch,
           znav_name v (KName (item_id x)) = Ok vx /\ znav_name v (KName (item_id y)) = Ok vy
           /\ zn_loc vx = ZArr st en sz isz (ze c) sub sch
           /\ (0 <= st -> isz = item_bytes x)
           /\ (st + isz * ze c <> 0 ->
                 sz = isz * ze c /\ en = st + isz * ze c /\ zstart (zn_loc vy) = st + ze c * isz
                 /\ (0 < isz -> zstart (zn_loc vy) < st))
           /\ (st + isz * ze c = 0 -> sz = 0 /\ en = st /\ zstart (zn_loc vy) = st)
           /\ (forall i, znav_index_with false zdec r vx i = Err IndexError).
Proof. exact negative_counter_layout_old. Qed.
Print Assumptions C06e_negative_counter_layout_old.

(* so the property's sentence - even with "or the record is refused" - did not hold of that walk *)
Theorem C06e_item_after_table_old_refuted : ~ C06e_item_after_table_statement_old.
Proof. exact item_after_table_old_refuted. Qed.
Print Assumptions C06e_item_after_table_old_refuted.

(* the witness, in numbers, under the old walk: the record "ends" at 1, T is 2 .. -2 (size -4), Z is -2 .. 1 and reads no
   byte, T(0) is refused *)
Theorem C06e_negative_witness_old :
  exists v vt vz, znav_of_with false zcount_zoned neg_rec (build neg_tree) = Ok v
    /\ (zstart (zn_loc v), zend (zn_loc v), zsize (zn_loc v)) = (0, 1, 1)
    /\ znav_name v (KName 3%N) = Ok vt /\ (zstart (zn_loc vt), zend (zn_loc vt), zsize (zn_loc vt)) = (2, -2, -4)
    /\ znav_name v (KName 4%N) = Ok vz /\ (zstart (zn_loc vz), zend (zn_loc vz), zsize (zn_loc vz)) = (-2, 1, 3)
    /\ znav_raw neg_rec vz = [] /\ znav_index_with false zcount_zoned neg_rec vt 0 = Err IndexError.
Proof. exact neg_witness_layout_old. Qed.
Print Assumptions C06e_negative_witness_old.

(* ================================================================== (4) a count above the declared maximum *)
Open Scope nat_scope.

(* OCCURS m TO n DEPENDING ON c with c > n: "the number of elements read is the value of the controlling item" - and it
   is: the conclusion of C06_layout with e(c) elements, for ANY declared maxima (they reach neither Spec/Layout.v nor the
   schema: cobol_parser emits maxItemsDependsOn only, JOdo has no bound) *)
Theorem C06e_count_above_maximum : forall (declared_max : id -> nat) (dc : list N -> nat) (stores : list N -> nat -> Prop)
    (r : list N) (e : env) (t : item),
  decodes_stored dc stores ->
  wfo e [] t = true -> NoDup (ids t) -> Stored stores (odo_counters t) r e t 0 ->
  above_maximum declared_max e t ->
  exists v0, nav_of dc r (build t) = Ok v0
    /\ lstart (n_loc v0) = 0 /\ lend (n_loc v0) = extent e t
    /\ forall p v st, spec_nav e (VItem t) 0 p = inl (v, st) ->
         exists nv, nav_path dc r v0 p = Ok nv
           /\ lstart (n_loc nv) = st /\ lend (n_loc nv) = st + view_size e v
           /\ nav_raw r nv = slice r st (st + view_size e v)
           /\ (forall x, v = VItem x -> is_table x = true ->
                 forall i, count e (item_oc x) <= i -> nav_index dc r nv i = Err IndexError).
Proof. exact count_above_maximum. Qed.
Print Assumptions C06e_count_above_maximum.

(* ================================================================== non-vacuity *)

(* 00 3C stores 3 (COMP-3); 00 2D stores -2; 2C stores 2 in one byte; 00 07 stores 7 (COMP, 4 digits); FF FF stores -1;
   F0 D2 stores -2 (zoned, zone D); F0 C7 stores 7 *)
Example C06e_stores_examples :
  stores_packed_count [0; 60]%N 3 /\ stores_packed_z [0; 45]%N (-2) /\ stores_packed_count [44]%N 2
  /\ stores_binary_count 4 [0; 7]%N 7 /\ stores_binary_z 4 [255; 255]%N (-1)
  /\ stores_zoned_z [240; 210]%N (-2) /\ stores_zoned_count [240; 199]%N 7
  /\ zcount_packed [0; 45]%N = Ok (-2)%Z /\ zcount_binary 4 [255; 255]%N = Ok (-1)%Z /\ dcount_packed [0; 60]%N = 3.
Proof.
  assert (T : forall P Q : Prop, P -> Q -> P /\ Q) by (intros; split; assumption).
  repeat apply T; try reflexivity.
  - exists [0; 0; 3]%N, 12%N. repeat split; try reflexivity. cbn; lia.
  - exists [0; 0; 2]%N, 13%N. repeat split; try reflexivity. cbn; lia.
  - exists [2]%N, 12%N. repeat split; try reflexivity. cbn; lia.
  - exists 2. repeat split; try reflexivity; cbn; discriminate.
  - exists 2. repeat split; try reflexivity; cbn; discriminate.
  - exists [0; 2]%N, 13%N. repeat split; try reflexivity; [discriminate|cbn; lia].
  - exists [0; 7]%N, 12%N. repeat split; try reflexivity; [discriminate|cbn; lia].
Qed.

(* general family, COMP-3: the tree of C06_layout_example (Props/C06.v) with N PIC 9 COMP-3 = 2C; A and Z hold text *)
Definition odo_rec_packed : list N := ([44] ++ [193; 194] ++ [193; 194; 195; 196; 197; 198] ++ [231; 232] ++ [215; 216])%N.

Example C06e_layout_packed_example :
  wfo odo_env [] odo_tree = true /\ NoDup (ids odo_tree)
  /\ Stored stores_packed_count (odo_counters odo_tree) odo_rec_packed odo_env odo_tree 0
  /\ length odo_rec_packed = extent odo_env odo_tree.
Proof.
  split; [reflexivity|]. split; [cbn; repeat constructor; cbn; intuition discriminate|]. split; [|reflexivity].
  cbn -[stores_packed_count odo_rec_packed].
  repeat match goal with
         | |- _ /\ _ => split
         | |- exists _, _ => eexists; split; [reflexivity|]
         | |- True => exact I
         end; intros Hin.
  - exists [2]%N, 12%N. repeat split; try reflexivity. cbn; lia.
  - exfalso. destruct Hin as [E|[E|[]]]; discriminate.
  - exfalso. destruct Hin as [E|[E|[]]]; discriminate.
Qed.

(* COMP: 01 R. 05 N PIC 9(4) COMP. 05 T PIC X(3) OCCURS 0 TO 9 DEPENDING ON N. 05 Z PIC X(2).  with N = 00 02 *)
Definition bin_tree : item :=
  Group 1%N Once None (ICons (Elem 2%N 2 Once None) (ICons (Elem 3%N 3 (Odo 2%N) None) (ICons (Elem 4%N 2 Once None) INil))).
Definition bin_env : env := fun c => if N.eqb c 2 then 2 else 0.
Definition bin_rec : list N := ([0; 2] ++ [193; 194; 195; 196; 197; 198] ++ [231; 232])%N.

Example C06e_layout_binary_example :
  wfo bin_env [] bin_tree = true /\ NoDup (ids bin_tree) /\ flat_odo bin_tree = true
  /\ Stored (stores_binary_count 4) (odo_counters bin_tree) bin_rec bin_env bin_tree 0
  /\ counters_stored_by (stores_binary_count 4) bin_env bin_tree bin_rec
  /\ length bin_rec = extent bin_env bin_tree.
Proof.
  assert (S2 : stores_binary_count 4 [0; 2]%N 2) by (exists 2; repeat split; try reflexivity; cbn; discriminate).
  split; [reflexivity|]. split; [cbn; repeat constructor; cbn; intuition discriminate|]. split; [reflexivity|].
  split; [|split; [|reflexivity]].
  - cbn -[stores_binary_count bin_rec].
    repeat match goal with
           | |- _ /\ _ => split
           | |- exists _, _ => eexists; split; [reflexivity|]
           | |- True => exact I
           end; intros Hin.
    + exact S2.
    + exfalso. destruct Hin as [E|[]]; discriminate.
  - cbn [counters_stored_by bin_tree]. intros c sz o Hin Hf Hk. cbn in Hin. destruct Hin as [<-|[]].
    vm_compute in Hf. inversion Hf; subst. vm_compute in Hk. inversion Hk; subst. exact S2.
Qed.

(* above the maximum: OCCURS 0 TO 1 declared for T, the counter holds 2: two elements are read, Z follows the second *)
Example C06e_count_above_maximum_example :
  above_maximum (fun _ => 1) bin_env bin_tree
  /\ spec_nav bin_env (VItem bin_tree) 0 [PName 3%N; PIndex 1] = inl (VOcc (Elem 3%N 3 (Odo 2%N) None), 5)
  /\ spec_nav bin_env (VItem bin_tree) 0 [PName 4%N] = inl (VItem (Elem 4%N 2 Once None), 8).
Proof.
  split; [|split; reflexivity]. exists 3%N, 2%N. split; [left; reflexivity|]. cbn. auto.
Qed.

(* negative: the witness satisfies the hypotheses of C06e_negative_counter_refused / C06e_negative_counter_layout_old *)
Example C06e_negative_example :
  flat_odo neg_tree = true /\ zcounters_hold zcount_zoned neg_ze neg_tree neg_rec
  /\ consecutive (item_kids neg_tree) neg_table neg_next /\ item_oc neg_table = Odo 2%N /\ (neg_ze 2%N < 0)%Z
  /\ (exists x c, in_items x (item_kids neg_tree) /\ item_oc x = Odo c /\ (neg_ze c < 0)%Z).
Proof.
  destruct neg_witness_holds as [H1 H2]. split; [exact H1|]. split; [exact H2|].
  split; [right; left; split; reflexivity|]. split; [reflexivity|]. split; [reflexivity|].
  exists neg_table, 2%N. split; [right; left; reflexivity|]. split; reflexivity.
Qed.
