(* C01, companion - what the hypothesis [wf] of the layout theorems (C01_layout, C01c_layout, and through them C06 / C08 / C10 /
   C07c / C12d) EXCLUDES, exclusion by exclusion, and the one exclusion that hid a defect: a REDEFINES whose target is itself a
   redefining item.  Only property theorems, each closed by an exact lemma of Proofs/LayoutChainP.v.  No engine of its own: the model
   is C01's (Model/Layout.v, tied to /repo by the correspondence run of ./check C01, whose stream redefines-chain feeds such record
   descriptions to the real code and compares the emitted schema and every navigation path with the model).

   Property text: a REDEFINES item begins where the item it redefines begins and adds no length.

   [wf_base t] (Spec/LayoutChainWf.v) is the structural minimum: no OCCURS DEPENDING ON (C06's theorems), and every REDEFINES names
   a sibling declared BEFORE it - any earlier sibling.  [wf e t] implies it (C01d_wf_implies_base).  Under it, and with distinct
   sibling names, [wf] fails EXACTLY on four shapes (C01d_unions_ok_exact):

   1. a REDEFINES directly inside a repeated (OCCURS) group             Model/Layout.v build_raises
        known finding K-redef-in-occurs: schema generation raises KeyError.
   2. an elementary OCCURS item that is redefined or redefines           Judge/JLayoutCommon.v occurs_elem_in_union
        known finding K-occurs-elem-in-union: reached by name as its first element.
   3. a REDEFINES whose target is itself a redefiner                     Judge/JLayoutCommon.v chained_redef
        05 A PIC X(4).  05 B REDEFINES A PIC 9(4).  05 C REDEFINES B PIC XX.  05 D PIC X.
        Legal COBOL since the 2002 standard (COBOL 85 demanded the name of the original item) and accepted by /repo without an error.
        structure() overwrites B's REDEFINES clause with B's own name when it meets C, so build_json_schema files B and C under a NEW
        oneOf REDEFINES-B placed after REDEFINES-A: A 0-4, B 4-8, C 4-6, D 8-9, record length 9, where COBOL puts B and C at 0, D at 4
        and makes the record 5 long.  Known finding K-redefines-of-redefiner (judge code 5 of JC01); C01d_chain_full - the conclusion
        of C01c_layout with this exclusion dropped and the other three kept - is refuted by that witness (C01d_chain_full_refuted,
        C01d_refuted_5; three links and a chain in a nested group whose first member is a group: C01d_example_three_links,
        C01d_example_nested).
   4. a redefiner longer than the sibling it names                       Spec/LayoutChainWf.v longer_redefiner
        05 A PIC X(2).  05 B REDEFINES A PIC 9(4).  05 D PIC X.
        NOT a finding, and not proved either: by ISO COBOL this is no record description (COBOL 85: below level 01 the two items have
        the same size; COBOL 2002: the redefining item is not larger), so the property text, which gives a redefiner no length of its
        own, has nothing to say about where D begins; the one place the standard allows it, level 01, is a REDEFINES on the record
        itself, which build_json_schema ignores (no parent) and [wf] does not look at.  Compilers that accept the shape as an
        extension allocate the LARGEST alternative, and that is what the code does (max over the oneOf): A 0-2, B 0-4, D 4-5, length 5
        (C01d_example_longer_is_max; model and code were compared on such shapes by the second audit) - whereas Spec/Layout.v, written
        from "adds no length", would put D at 2.  A layout theorem for these shapes needs a second specification (storage of a union =
        its longest member); it is not written, and [wf] keeps the shape out of every layout theorem.

   Outside the four shapes the layout theorem holds (C01d_layout_outside: C01c_layout restated with the four exclusions spelled out
   instead of [wf]). *)
From Coq Require Import List Arith NArith Bool.
Import ListNotations.
Require Import SR.Base.Res SR.Spec.Layout SR.Model.Layout SR.Proofs.LayoutP SR.Proofs.LayoutNamesP.
Require Import SR.Spec.LayoutChainWf SR.Proofs.LayoutChainP.
Require SR.Judge.JLayoutCommon.

(* 1. what wf excludes, exactly *)
Theorem C01d_unions_ok_exact : forall (e : env) (t : item),
  wf_base t = true -> siblings_distinct t = true ->
  wf e t = negb (build_raises t || JLayoutCommon.occurs_elem_in_union t || JLayoutCommon.chained_redef t || longer_redefiner e t).
Proof. exact unions_ok_exact. Qed.
Print Assumptions C01d_unions_ok_exact.

Theorem C01d_wf_implies_base : forall (e : env) (t : item), wf e t = true -> wf_base t = true.
Proof. exact (fun e => proj1 (wf_wf_base e)). Qed.
Print Assumptions C01d_wf_implies_base.

(* 2. the layout theorem with the four exclusions spelled out *)
Theorem C01d_layout_outside : forall (B : Type) (dcount : list B -> nat) (r : list B) (e : env) (t : item),
  wf_base t = true -> build_raises t = false -> JLayoutCommon.occurs_elem_in_union t = false -> longer_redefiner e t = false ->
  JLayoutCommon.chained_redef t = false ->
  siblings_distinct t = true -> anchored_names_unique t = true ->
  exists v0, nav_of dcount r (build t) = Ok v0
    /\ lstart (n_loc v0) = 0 /\ lend (n_loc v0) = extent e t
    /\ forall p v st, spec_nav e (VItem t) 0 p = inl (v, st) ->
         exists nv, nav_path dcount r v0 p = Ok nv
           /\ lstart (n_loc nv) = st /\ lend (n_loc nv) = st + view_size e v
           /\ nav_raw r nv = slice r st (st + view_size e v).
Proof. exact layout_outside_chain. Qed.
Print Assumptions C01d_layout_outside.

(* 3. the same statement WITHOUT the exclusion of chained redefinition, kept visible; the faithful model refutes it *)
Definition C01d_chain_full : Prop :=
  forall (B : Type) (dcount : list B -> nat) (r : list B) (e : env) (t : item),
  wf_base t = true -> build_raises t = false -> JLayoutCommon.occurs_elem_in_union t = false -> longer_redefiner e t = false ->
  siblings_distinct t = true -> anchored_names_unique t = true ->
  exists v0, nav_of dcount r (build t) = Ok v0
    /\ lstart (n_loc v0) = 0 /\ lend (n_loc v0) = extent e t
    /\ forall p v st, spec_nav e (VItem t) 0 p = inl (v, st) ->
         exists nv, nav_path dcount r v0 p = Ok nv
           /\ lstart (n_loc nv) = st /\ lend (n_loc nv) = st + view_size e v
           /\ nav_raw r nv = slice r st (st + view_size e v).

Theorem C01d_chain_full_refuted : ~ C01d_chain_full.
Proof. exact chain_full_refuted. Qed.
Print Assumptions C01d_chain_full_refuted.

(* the witness of K-redefines-of-redefiner: 01 REC. 05 A PIC X(4). 05 B REDEFINES A PIC 9(4). 05 C REDEFINES B PIC XX. 05 D PIC X.
   (REC=1 A=2 B=3 C=4 D=5).  It satisfies every hypothesis of C01d_chain_full, the judge's trigger holds, [wf] fails; the schema is
   REDEFINES-A oneOf [A], A, REDEFINES-B oneOf [B, C], B, C, D; the COBOL rules put REC, A, B, C, D at 0-5, 0-4, 0-4, 0-2, 4-5 and
   navigation lands on 0-9, 0-4, 4-8, 4-6, 8-9. *)
Theorem C01d_refuted_5 :
  wf_base chain_tree = true /\ build_raises chain_tree = false /\ JLayoutCommon.occurs_elem_in_union chain_tree = false
  /\ longer_redefiner (fun _ => 0) chain_tree = false
  /\ siblings_distinct chain_tree = true /\ anchored_names_unique chain_tree = true
  /\ JLayoutCommon.chained_redef chain_tree = true /\ wf (fun _ => 0) chain_tree = false
  /\ build chain_tree =
       JObj (Some (KName 1%N))
         (PCons (KRedef 2%N) (JOne (Some (KRedef 2%N)) (ACons (JAtom (Some (KName 2%N)) 4) ANil))
         (PCons (KName 2%N) (JRef (KName 2%N))
         (PCons (KRedef 3%N) (JOne (Some (KRedef 3%N)) (ACons (JAtom (Some (KName 3%N)) 4) (ACons (JAtom (Some (KName 4%N)) 2) ANil)))
         (PCons (KName 3%N) (JRef (KName 3%N))
         (PCons (KName 4%N) (JRef (KName 4%N))
         (PCons (KName 5%N) (JAtom (Some (KName 5%N)) 1) PNil))))))
  /\ map (spec_range chain_tree) [[]; [PName 2%N]; [PName 3%N]; [PName 4%N]; [PName 5%N]]
     = [Some (0, 5); Some (0, 4); Some (0, 4); Some (0, 2); Some (4, 5)]
  /\ map (nav_range chain_tree) [[]; [PName 2%N]; [PName 3%N]; [PName 4%N]; [PName 5%N]]
     = [Some (0, 9); Some (0, 4); Some (4, 8); Some (4, 6); Some (8, 9)].
Proof. exact chain_facts. Qed.
Print Assumptions C01d_refuted_5.

(* three links A <- B <- C <- D: every redefined redefiner opens another union, each placed after the one before
   (REC, A, B, C, D, E: COBOL 0-5, 0-4, 0-4, 0-3, 0-2, 4-5; the code 0-12, 0-4, 4-8, 8-11, 8-10, 11-12) *)
Example C01d_example_three_links :
  wf_base chain3_tree = true /\ JLayoutCommon.chained_redef chain3_tree = true
  /\ map (spec_range chain3_tree) [[]; [PName 2%N]; [PName 3%N]; [PName 4%N]; [PName 5%N]; [PName 6%N]]
     = [Some (0, 5); Some (0, 4); Some (0, 4); Some (0, 3); Some (0, 2); Some (4, 5)]
  /\ map (nav_range chain3_tree) [[]; [PName 2%N]; [PName 3%N]; [PName 4%N]; [PName 5%N]; [PName 6%N]]
     = [Some (0, 12); Some (0, 4); Some (4, 8); Some (8, 11); Some (8, 10); Some (11, 12)].
Proof. exact chain3_facts. Qed.

(* the chain inside a nested group, its first member a group:
   01 REC. 05 H PIC X. 05 G. 10 A. 15 A1 PIC XX. 15 A2 PIC XX. 10 B REDEFINES A PIC 9(4). 10 C REDEFINES B PIC XX. 10 D PIC X. 05 T PIC X.
   paths REC, H, G, G.A, G.A.A2, G.B, G.C, G.D, T *)
Example C01d_example_nested :
  wf_base chain_nested_tree = true /\ JLayoutCommon.chained_redef chain_nested_tree = true
  /\ map (spec_range chain_nested_tree)
       [[]; [PName 2%N]; [PName 3%N]; [PName 3%N; PName 4%N]; [PName 3%N; PName 4%N; PName 6%N]; [PName 3%N; PName 7%N];
        [PName 3%N; PName 8%N]; [PName 3%N; PName 9%N]; [PName 10%N]]
     = [Some (0, 7); Some (0, 1); Some (1, 6); Some (1, 5); Some (3, 5); Some (1, 5); Some (1, 3); Some (5, 6); Some (6, 7)]
  /\ map (nav_range chain_nested_tree)
       [[]; [PName 2%N]; [PName 3%N]; [PName 3%N; PName 4%N]; [PName 3%N; PName 4%N; PName 6%N]; [PName 3%N; PName 7%N];
        [PName 3%N; PName 8%N]; [PName 3%N; PName 9%N]; [PName 10%N]]
     = [Some (0, 11); Some (0, 1); Some (1, 10); Some (1, 5); Some (3, 5); Some (5, 9); Some (5, 7); Some (9, 10); Some (10, 11)].
Proof. exact chain_nested_facts. Qed.

(* 4. a redefiner longer than its target: 01 REC. 05 A PIC X(2). 05 B REDEFINES A PIC 9(4). 05 D PIC X.   (REC=1 A=2 B=3 D=4)
   only this exclusion holds; the union is as long as its LONGEST alternative (REC 0-5, A 0-2, B 0-4, D 4-5), where Spec/Layout.v
   - a redefiner adds no length - would say REC 0-3 and D 2-3 *)
Example C01d_example_longer_is_max :
  wf_base longer_tree = true /\ longer_redefiner (fun _ => 0) longer_tree = true /\ JLayoutCommon.chained_redef longer_tree = false
  /\ wf (fun _ => 0) longer_tree = false
  /\ map (nav_range longer_tree) [[]; [PName 2%N]; [PName 3%N]; [PName 4%N]] = [Some (0, 5); Some (0, 2); Some (0, 4); Some (4, 5)]
  /\ map (spec_range longer_tree) [[]; [PName 2%N]; [PName 3%N]; [PName 4%N]] = [Some (0, 3); Some (0, 2); Some (0, 4); Some (2, 3)].
Proof. exact longer_facts. Qed.

(* 5. Non-vacuity.
   Each of the four exclusions occurs alone on a record description that satisfies the hypotheses of C01d_unions_ok_exact:
     01 R. 05 T OCCURS 2. 10 A PIC X. 10 B REDEFINES A PIC X.           (witness of K-redef-in-occurs)
     01 R. 05 A OCCURS 2 PIC XX. 05 B REDEFINES A PIC X(4).              (witness of K-occurs-elem-in-union)
     chain_tree, longer_tree *)
Definition ex_redef_in_occurs : item :=
  Group 1%N Once None (ICons (Group 2%N (Times 2) None (ICons (Elem 3%N 1 Once None) (ICons (Elem 4%N 1 Once (Some 3%N)) INil))) INil).
Definition ex_occurs_elem_in_union : item :=
  Group 1%N Once None (ICons (Elem 2%N 2 (Times 2) None) (ICons (Elem 3%N 4 Once (Some 2%N)) INil)).

Definition four (e : env) (t : item) : list bool :=
  [build_raises t; JLayoutCommon.occurs_elem_in_union t; JLayoutCommon.chained_redef t; longer_redefiner e t].

Example C01d_example_each_exclusion_alone :
  forallb (fun t => wf_base t && siblings_distinct t && negb (wf (fun _ => 0) t))
    [ex_redef_in_occurs; ex_occurs_elem_in_union; chain_tree; longer_tree] = true
  /\ four (fun _ => 0) ex_redef_in_occurs = [true; false; false; false]
  /\ four (fun _ => 0) ex_occurs_elem_in_union = [false; true; false; false]
  /\ four (fun _ => 0) chain_tree = [false; false; true; false]
  /\ four (fun _ => 0) longer_tree = [false; false; false; true].
Proof. vm_compute. repeat split; reflexivity. Qed.

(* the hypotheses of C01d_layout_outside are satisfiable: the record of C01_example
   01 R. 05 A X(3). 05 B X(4). 05 C REDEFINES B X(2). 05 T OCCURS 2. 10 U X(1). 10 V X(2). 05 D X(2). *)
Definition ex_plain : item :=
  Group 1%N Once None
    (ICons (Elem 2%N 3 Once None) (ICons (Elem 3%N 4 Once None) (ICons (Elem 4%N 2 Once (Some 3%N))
    (ICons (Group 5%N (Times 2) None (ICons (Elem 6%N 1 Once None) (ICons (Elem 7%N 2 Once None) INil)))
    (ICons (Elem 8%N 2 Once None) INil))))).

Example C01d_example_outside :
  wf_base ex_plain = true /\ four (fun _ => 0) ex_plain = [false; false; false; false]
  /\ siblings_distinct ex_plain = true /\ anchored_names_unique ex_plain = true /\ wf (fun _ => 0) ex_plain = true
  /\ spec_range ex_plain [PName 4%N] = Some (3, 5) /\ nav_range ex_plain [PName 4%N] = Some (3, 5)
  /\ spec_range ex_plain [PName 8%N] = Some (13, 15) /\ nav_range ex_plain [PName 8%N] = Some (13, 15).
Proof. vm_compute. repeat split; reflexivity. Qed.
