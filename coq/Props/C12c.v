(* C12, second layer - level renumbering and entries / clauses that do not affect storage.
   Only the property theorems, each closed by an exact lemma of Proofs/RenumberP.v, their
   non-vacuity examples and the witnesses that mark their boundary.  There is no engine of its own:
   the model is C07's (Model/Structure.v, tied to /repo by C07's correspondence run) and the
   metamorphic run of harness/c12.py (renumber, renumber_group, renumber_all, value, neutral, cond88)
   exercises the same statements on the real code.

   Vocabulary.
     structure l            the model of cobol_parser.structure on the entries l (C07)
     kept_of l              the DDE objects that become nodes: the first one, then those not of level 66/77/88
     levels_of              their level numbers;  spec_parents / spec_roots: Spec/Dde.v
     erase_e / erase_d / erase_t   overwrite the level field of an entry / DDE / whole tree with one
                            constant: "equal up to the level field" is equality after erasing
     same_shape f f'        map erase_t f = map erase_t f' (same trees, names, unique names, REDEFINES
                            marks, clauses; levels ignored)
     relevelled e e'        erase_e e = erase_e e', both kept or both 66/77/88, both or neither level 01
     npop x st              how many of the open entries st (innermost first) an arriving level x closes
     keeps_nesting K K'     boolean: same length and every entry closes the same number of open entries
     group_renumbering K K' boolean: siblings keep their order relation, every child stays above its parent
     relevel g e            g applied to the level number of a kept entry (66/77/88 untouched)
     ins_skipped l l'       l' = l with named 66/77/88 entries inserted anywhere

   Non-storage clauses.  VALUE, JUSTIFIED, BLANK WHEN ZERO and SYNCHRONIZED are not part of
   Spec/Layout.item (an item is its id, size, OCCURS and REDEFINES target), so spec_extent and the
   start of every item cannot depend on them; that the clause scanner hands the same size / occurs /
   redefines fields to the layout whatever such clauses are present is C12b_respelling (Props/C12b.v)
   and the metamorphic run.  What is not vacuous here is the 88 level: C12c_88_transparent. *)
From Coq Require Import NArith List Bool.
Import ListNotations.
Require Import SR.Base.Res SR.Spec.Dde SR.Model.Structure SR.Proofs.StructureP SR.Proofs.RenumberP.

(* ------------------------------------------------------------------ 1. same nesting, same forest *)

(* Entry lists that differ in their level numbers only (entry by entry: same clauses, both kept or
   both skipped, both or neither 01) and whose level sequences have the same nesting ACCORDING TO THE
   SPECIFICATION give forests of the same shape - same trees up to the level field, hence the same
   preorder of entries, the same parents and the same roots - and one raises exactly when the other
   does, with the same exception.  Equality of spec_roots need not be assumed: it follows from equality
   of spec_parents. *)
Theorem C12c_renumber_same_forest : forall l l' : list entry,
  Forall2 relevelled l l' ->
  Forall (fun e => two_digits (elv e) = true) l -> Forall (fun e => two_digits (elv e) = true) l' ->
  spec_parents (levels_of (kept_of l)) = spec_parents (levels_of (kept_of l')) ->
  (forall e, structure l = Err e <-> structure l' = Err e)
  /\ ((exists f, structure l = Ok f) <-> (exists f', structure l' = Ok f'))
  /\ (forall f f', structure l = Ok f -> structure l' = Ok f' ->
        same_shape f f'
        /\ map erase_d (preorder_f f) = map erase_d (preorder_f f')
        /\ parents f = parents f'
        /\ root_pos 0 f = root_pos 0 f').
Proof. exact renumber_same_forest. Qed.
Print Assumptions C12c_renumber_same_forest.

(* the relation spelled out field by field *)
Theorem C12c_relevelled_fields : forall e e' : entry, erase_e e = erase_e e' <->
  ename e = ename e' /\ efill e = efill e' /\ eredef e = eredef e' /\ epic e = epic e' /\ eocc e = eocc e'
  /\ etext e = etext e'.
Proof. exact relevelled_fields. Qed.
Print Assumptions C12c_relevelled_fields.

(* ------------------------------------------------------------------ 2. which renumberings keep the nesting *)

(* Any map that keeps the order relation of the level numbers that occur keeps the nesting. *)
Theorem C12c_order_keeps_nesting : forall (g : N -> N) (K : list N),
  (forall a b, In a K -> In b K -> (a <? b)%N = (g a <? g b)%N) ->
  spec_parents (map g K) = spec_parents K /\ spec_roots (map g K) = spec_roots K.
Proof. exact order_keeps_nesting. Qed.
Print Assumptions C12c_order_keeps_nesting.

(* In particular every map that is strictly monotone on a set of level numbers containing those of K
   (for one record: the levels 01..49 in use; a first entry of level 66/77/88 may be in the set too). *)
Theorem C12c_monotone_keeps_nesting : forall (dom : N -> Prop) (g : N -> N) (K : list N),
  (forall a b, dom a -> dom b -> (a < b)%N -> (g a < g b)%N) ->
  Forall dom K ->
  spec_parents (map g K) = spec_parents K /\ spec_roots (map g K) = spec_roots K.
Proof. exact monotone_keeps_nesting. Qed.
Print Assumptions C12c_monotone_keeps_nesting.

(* The same end to end, on the model: g strictly monotone on the level numbers in use (all within
   01..49), values within 01..49, 01 and only 01 mapped to 01; applied to every kept entry, 66/77/88
   entries untouched.  (On ALL of 01..49 only the identity is such a map, hence the set [used].) *)
Theorem C12c_monotone_renumber : forall (used : N -> Prop) (g : N -> N) (l : list entry),
  (forall a, used a -> in_range a) ->
  (forall a b, used a -> used b -> (a < b)%N -> (g a < g b)%N) ->
  (forall a, used a -> in_range (g a)) ->
  (forall a, used a -> (g a =? 1)%N = (a =? 1)%N) ->
  Forall (entry_in used) l ->
  let l' := map (relevel g) l in
  (forall e, structure l = Err e <-> structure l' = Err e)
  /\ ((exists f, structure l = Ok f) <-> (exists f', structure l' = Ok f'))
  /\ (forall f f', structure l = Ok f -> structure l' = Ok f' ->
        same_shape f f'
        /\ map erase_d (preorder_f f) = map erase_d (preorder_f f')
        /\ parents f = parents f'
        /\ root_pos 0 f = root_pos 0 f').
Proof. exact monotone_renumber_same_forest. Qed.
Print Assumptions C12c_monotone_renumber.

(* THE EXACT CONDITION.  spec_parent compares an arriving level only with the levels on the chain of
   still open entries; [npop x st] counts the open entries x closes, [keeps_nesting] says that every
   entry closes the same number in both sequences.  That is necessary and sufficient. *)
Theorem C12c_nesting_exact : forall K K' : list N,
  keeps_nesting K K' = true <-> spec_parents K = spec_parents K'.
Proof. exact nesting_exact. Qed.
Print Assumptions C12c_nesting_exact.

Theorem C12c_roots_follow : forall K K' : list N,
  spec_parents K = spec_parents K' -> spec_roots K = spec_roots K'.
Proof. exact roots_of_parents. Qed.
Print Assumptions C12c_roots_follow.

(* Why the count is the whole order relation: the open chain is strictly increasing inward (every
   chain built by [push] from the empty chain is [chain_sorted]), and on such a chain x is "not below"
   exactly the first [npop x st] open entries and "above" all the others. *)
Theorem C12c_count_is_order : forall (x : N) (st : list N),
  chain_sorted st ->
  chain_sorted (push x st)
  /\ map (fun y => (y <? x)%N) st = repeat false (npop x st) ++ repeat true (length st - npop x st).
Proof. exact count_is_order. Qed.
Print Assumptions C12c_count_is_order.

(* Every group renumbers its children on its own: whenever two entries have the same parent (or are
   both roots) their order relation is kept - i.e. each group applies ONE strictly monotone map to the
   levels of its children - and every child stays above its parent's new level.  Then the nesting is
   kept, whatever the maps of different groups have to do with each other. *)
Theorem C12c_group_keeps_nesting : forall K K' : list N,
  group_renumbering K K' = true ->
  spec_parents K' = spec_parents K /\ spec_roots K' = spec_roots K.
Proof. exact group_keeps_nesting. Qed.
Print Assumptions C12c_group_keeps_nesting.

(* ------------------------------------------------------------------ 3. the boundary *)

(* FULL (too strong): it is enough that within every group a later child is numbered not below an
   earlier one whenever it was so before, and that children stay above their parents. *)
Definition sibling_order_only (K K' : list N) : bool :=
  Nat.eqb (length K) (length K') &&
  forallb (fun i =>
    forallb (fun j => negb (Nat.ltb i j) || negb (opt_nat_eqb (spec_parent K i) (spec_parent K j))
                      || implb (nth i K 0 <=? nth j K 0)%N (nth i K' 0 <=? nth j K' 0)%N)
            (seq 0 (length K))
    && match spec_parent K i with Some p => (nth p K' 0 <? nth i K' 0)%N | None => true end)
  (seq 0 (length K)).
Definition C12c_sibling_order_full : Prop :=
  forall K K', sibling_order_only K K' = true -> spec_parents K' = spec_parents K.

(* REFUTED: 01 05 10 05 renumbered 01 05 10 07 - the second 05 becomes 07, above its elder brother
   and below that brother's child 10: it is now a child of the first 05. *)
Theorem C12c_sibling_order_refuted : ~ C12c_sibling_order_full.
Proof. intro H. specialize (H [1;5;10;5]%N [1;5;10;7]%N eq_refl). vm_compute in H. discriminate H. Qed.
Print Assumptions C12c_sibling_order_refuted.

(* the same witness against the exact condition and the group condition, and what happens instead *)
Theorem C12c_refuted_sibling_above :
  keeps_nesting [1;5;10;5]%N [1;5;10;7]%N = false
  /\ group_renumbering [1;5;10;5]%N [1;5;10;7]%N = false
  /\ spec_parents [1;5;10;5]%N = [None; Some 0; Some 1; Some 0]
  /\ spec_parents [1;5;10;7]%N = [None; Some 0; Some 1; Some 1].
Proof. repeat split; vm_compute; reflexivity. Qed.
Print Assumptions C12c_refuted_sibling_above.

(* a child renumbered down to its parent's level becomes its sibling: 01 05 10 -> 01 05 05 *)
Theorem C12c_refuted_child_not_above :
  keeps_nesting [1;5;10]%N [1;5;5]%N = false
  /\ spec_parents [1;5;10]%N = [None; Some 0; Some 1] /\ spec_parents [1;5;5]%N = [None; Some 0; Some 0].
Proof. repeat split; vm_compute; reflexivity. Qed.
Print Assumptions C12c_refuted_child_not_above.

(* two groups may use maps that contradict each other (10 -> 20 under the first 05, 10 -> 09 under the
   second), and within the exact condition siblings need not even keep
   their order: 01 05 05 -> 01 07 05 keeps the nesting although no map sends 05 to both 07 and 05 *)
Theorem C12c_group_not_necessary :
  group_renumbering [1;5;10;10;5;10]%N [1;5;20;20;5;9]%N = true
  /\ keeps_nesting [1;5;5]%N [1;7;5]%N = true /\ group_renumbering [1;5;5]%N [1;7;5]%N = false.
Proof. repeat split; vm_compute; reflexivity. Qed.
Print Assumptions C12c_group_not_necessary.

(* ------------------------------------------------------------------ witnesses on the model *)
Definition en (a b : N) (name : option str) (red : option str) (pic : bool) : entry :=
  {| elv := (a, b); ename := name; efill := None; eredef := red; epic := pic; eocc := false; etext := [] |}.
Definition nA : str := [65%N].
Definition nB : str := [66%N].
Definition nC : str := [67%N].
Definition nR : str := [82%N].

(* 01 R. 05 A. 10 B PIC. 05 C PIC.   and the same with the last level 07 *)
Definition w_sib : list entry :=
  [en 48 49 (Some nR) None false; en 48 53 (Some nA) None false; en 49 48 (Some nB) None true;
   en 48 53 (Some nC) None true]%N.
Definition w_sib' : list entry :=
  [en 48 49 (Some nR) None false; en 48 53 (Some nA) None false; en 49 48 (Some nB) None true;
   en 48 55 (Some nC) None true]%N.

(* on the model: entry by entry relevelled, but C moves from under R to under A *)
Theorem C12c_refuted_on_model :
  Forall2 relevelled w_sib w_sib'
  /\ (exists f f', structure w_sib = Ok f /\ structure w_sib' = Ok f'
                   /\ parents f = [None; Some 0; Some 1; Some 0] /\ parents f' = [None; Some 0; Some 1; Some 1]
                   /\ ~ same_shape f f').
Proof.
  split.
  - repeat constructor.
  - eexists. eexists. split; [vm_compute; reflexivity|]. split; [vm_compute; reflexivity|].
    split; [vm_compute; reflexivity|]. split; [vm_compute; reflexivity|].
    unfold same_shape. vm_compute. discriminate.
Qed.
Print Assumptions C12c_refuted_on_model.

(* Why [relevelled] asks for "both or neither level 01": 02 (unnamed) PIC. 02 (unnamed) PIC. has the
   same nesting as 01 (unnamed) PIC. 01 (unnamed) PIC. (two roots), the clauses are the same, but level
   01 restarts the FILLER numbering: FILLER-1, FILLER-2 against FILLER-1, FILLER-1. *)
Definition w_02 : list entry := [en 48 50 None None true; en 48 50 None None true]%N.
Definition w_01 : list entry := [en 48 49 None None true; en 48 49 None None true]%N.
Theorem C12c_refuted_level01 :
  Forall2 (fun e e' => erase_e e = erase_e e'
                       /\ kept_level (lvl_num (elv e)) = kept_level (lvl_num (elv e'))) w_02 w_01
  /\ spec_parents (levels_of (kept_of w_02)) = spec_parents (levels_of (kept_of w_01))
  /\ (exists f f', structure w_02 = Ok f /\ structure w_01 = Ok f'
                   /\ map du (preorder_f f) = [gen_name 1; gen_name 2]
                   /\ map du (preorder_f f') = [gen_name 1; gen_name 1]
                   /\ ~ same_shape f f').
Proof.
  split; [repeat constructor|]. split; [vm_compute; reflexivity|].
  eexists. eexists. split; [vm_compute; reflexivity|]. split; [vm_compute; reflexivity|].
  split; [vm_compute; reflexivity|]. split; [vm_compute; reflexivity|].
  unfold same_shape. vm_compute. discriminate.
Qed.
Print Assumptions C12c_refuted_level01.

(* ------------------------------------------------------------------ 4. 66 / 77 / 88 entries *)

(* Inserting any number of named 66/77/88-level entries anywhere after the first entry changes
   nothing at all: structure() returns the very same forest (or raises the same exception), so the
   preorder, the parents and the roots are unchanged, and the specification sees the same kept
   entries.  (After the FIRST entry, because structure() never filters its first node.) *)
Theorem C12c_88_transparent : forall (e : entry) (l l' : list entry),
  ins_skipped l l' ->
  structure (e :: l') = structure (e :: l)
  /\ kept_of (e :: l') = kept_of (e :: l)
  /\ (forall f f', structure (e :: l) = Ok f -> structure (e :: l') = Ok f' ->
        preorder_f f' = preorder_f f /\ parents f' = parents f /\ root_pos 0 f' = root_pos 0 f).
Proof. exact skipped_transparent_full. Qed.
Print Assumptions C12c_88_transparent.

(* Why "named": a DDE object is made for every sentence, skipped or not, and an unnamed one takes a
   FILLER number.  01 R. 05 (unnamed) PIC.  against  01 R. 88 (unnamed). 05 (unnamed) PIC. *)
Theorem C12c_refuted_unnamed_88 :
  exists f f',
    structure [en 48 49 (Some nR) None false; en 48 53 None None true]%N = Ok f
    /\ structure [en 48 49 (Some nR) None false; en 56 56 None None false; en 48 53 None None true]%N = Ok f'
    /\ map du (preorder_f f) = [nR; gen_name 1] /\ map du (preorder_f f') = [nR; gen_name 2].
Proof. eexists. eexists. repeat split; vm_compute; reflexivity. Qed.
Print Assumptions C12c_refuted_unnamed_88.

(* a FIRST entry of level 88 is a node (structure() does not filter it) *)
Theorem C12c_refuted_first_88 :
  exists f, structure [en 56 56 (Some nA) None false; en 48 49 (Some nR) None true]%N = Ok f
            /\ map du (preorder_f f) = [nA; nR] /\ parents f = [None; None].
Proof. eexists. repeat split; vm_compute; reflexivity. Qed.
Print Assumptions C12c_refuted_first_88.

(* ------------------------------------------------------------------ non-vacuity *)

(* 01 R. 05 A PIC. 05 (unnamed) PIC. 10 (unnamed) PIC. 88 B. 03 B REDEFINES A PIC. 01 (unnamed) PIC.
   renumbered 01 / 07 / 07 / 20 / 77 / 04 / 01: both return, REDEFINES resolved in both *)
Definition ex_l : list entry :=
  [en 48 49 (Some nR) None false; en 48 53 (Some nA) None true; en 48 53 None None true;
   en 49 48 None None true; en 56 56 (Some nB) None false; en 48 51 (Some nB) (Some nA) true;
   en 48 49 None None true]%N.
Definition ex_l' : list entry :=
  [en 48 49 (Some nR) None false; en 48 55 (Some nA) None true; en 48 55 None None true;
   en 50 48 None None true; en 55 55 (Some nB) None false; en 48 52 (Some nB) (Some nA) true;
   en 48 49 None None true]%N.

Example C12c_example_renumber :
  Forall2 relevelled ex_l ex_l'
  /\ Forall (fun e => two_digits (elv e) = true) ex_l /\ Forall (fun e => two_digits (elv e) = true) ex_l'
  /\ spec_parents (levels_of (kept_of ex_l)) = spec_parents (levels_of (kept_of ex_l'))
  /\ levels_of (kept_of ex_l) <> levels_of (kept_of ex_l')
  /\ (exists f f', structure ex_l = Ok f /\ structure ex_l' = Ok f'
                   /\ parents f = [None; Some 0; Some 0; Some 2; Some 0; None]).
Proof.
  split; [repeat constructor|]. split; [repeat constructor|]. split; [repeat constructor|].
  split; [vm_compute; reflexivity|]. split; [vm_compute; discriminate|].
  eexists. eexists. repeat split; vm_compute; reflexivity.
Qed.

(* both raise: 01 R. 05 B REDEFINES A PIC.  and  01 R. 09 B REDEFINES A PIC.  (no A) *)
Example C12c_example_renumber_error :
  let l := [en 48 49 (Some nR) None false; en 48 53 (Some nB) (Some nA) true]%N in
  let l' := [en 48 49 (Some nR) None false; en 48 57 (Some nB) (Some nA) true]%N in
  Forall2 relevelled l l'
  /\ spec_parents (levels_of (kept_of l)) = spec_parents (levels_of (kept_of l'))
  /\ structure l = Err ValueError /\ structure l' = Err ValueError.
Proof. cbn zeta. split; [repeat constructor|]. repeat split; vm_compute; reflexivity. Qed.

(* 05 -> 03, 10 -> 07, 15 -> 30 on the levels 01 05 10 15 10 05 *)
Definition ex_g (n : N) : N :=
  if (n =? 5)%N then 3%N else if (n =? 10)%N then 7%N else if (n =? 15)%N then 30%N else n.
Example C12c_example_monotone :
  let K := [1;5;10;15;10;5]%N in
  (forall a b, In a K -> In b K -> (a < b)%N -> (ex_g a < ex_g b)%N)
  /\ Forall (fun a => In a K) K
  /\ map ex_g K = [1;3;7;30;7;3]%N
  /\ spec_parents K = [None; Some 0; Some 1; Some 2; Some 1; Some 0].
Proof.
  cbn zeta. split.
  - intros a b Ha Hb. cbn [In] in Ha, Hb.
    repeat (destruct Ha as [<-|Ha]; [repeat (destruct Hb as [<-|Hb]; [vm_compute; intro H; (reflexivity || discriminate H)|]); destruct Hb|]).
    destruct Ha.
  - split; [repeat constructor; cbn [In]; tauto|]. split; vm_compute; reflexivity.
Qed.

(* the same map on entries: 01 R. 05 A. 10 B PIC. 88 C. 05 (unnamed) PIC. *)
Definition ex_used (n : N) : Prop := n = 1%N \/ n = 5%N \/ n = 10%N.
Definition ex_m : list entry :=
  [en 48 49 (Some nR) None false; en 48 53 (Some nA) None false; en 49 48 (Some nB) None true;
   en 56 56 (Some nC) None false; en 48 53 None None true]%N.
Example C12c_example_monotone_renumber :
  (forall a, ex_used a -> in_range a)
  /\ (forall a b, ex_used a -> ex_used b -> (a < b)%N -> (ex_g a < ex_g b)%N)
  /\ (forall a, ex_used a -> in_range (ex_g a))
  /\ (forall a, ex_used a -> (ex_g a =? 1)%N = (a =? 1)%N)
  /\ Forall (entry_in ex_used) ex_m
  /\ map elv (map (relevel ex_g) ex_m) = [(48, 49); (48, 51); (48, 55); (56, 56); (48, 51)]%N
  /\ (exists f, structure ex_m = Ok f).
Proof.
  unfold ex_used, in_range. split; [|split; [|split; [|split; [|split; [|split]]]]].
  - intros a [ -> | [ -> | -> ] ]; split; vm_compute; discriminate.
  - intros a b [ -> | [ -> | -> ] ] [ -> | [ -> | -> ] ]; vm_compute; intro H; (reflexivity || discriminate H).
  - intros a [ -> | [ -> | -> ] ]; split; vm_compute; discriminate.
  - intros a [ -> | [ -> | -> ] ]; vm_compute; reflexivity.
  - unfold ex_m. repeat (apply Forall_cons; [split; [reflexivity | vm_compute; intro H; try discriminate H; tauto]|]).
    apply Forall_nil.
  - vm_compute. reflexivity.
  - eexists. vm_compute. reflexivity.
Qed.

(* per-group renumbering: hypotheses satisfiable with maps that differ from group to group *)
Example C12c_example_group :
  group_renumbering [1;5;10;10;5;10]%N [1;5;20;20;5;9]%N = true
  /\ spec_parents [1;5;20;20;5;9]%N = [None; Some 0; Some 1; Some 1; Some 0; Some 4].
Proof. split; vm_compute; reflexivity. Qed.

(* 01 R. 05 A PIC. 05 B PIC.  with  88 C.  after A and  66 C. 77 C.  after B *)
Example C12c_example_88 :
  let e := en 48 49 (Some nR) None false in
  let l := [en 48 53 (Some nA) None true; en 48 53 (Some nB) None true]%N in
  let l' := [en 48 53 (Some nA) None true; en 56 56 (Some nC) None false; en 48 53 (Some nB) None true;
             en 54 54 (Some nC) None false; en 55 55 (Some nC) None false]%N in
  ins_skipped l l' /\ (exists f, structure (e :: l') = Ok f /\ parents f = [None; Some 0; Some 0]).
Proof.
  cbn zeta. split.
  - apply ins_s_keep. apply ins_s_add; [repeat split|]. apply ins_s_keep.
    apply ins_s_add; [repeat split|]. apply ins_s_add; [repeat split|]. apply ins_s_nil.
  - eexists. split; vm_compute; reflexivity.
Qed.
