(* C06, fourth layer - the FILE-level theorems of Props/C06.v (C06_frame, C06_stream_N_any_buffer, _N, _V, _VB, _F) lifted
   from the flat family (flat_odo) to the GENERAL OCCURS DEPENDING ON family of C06_layout (wfo, Proofs/LayoutOdoP.v):
   ODO tables - elementary or group - anywhere a non-repeated item may stand (in the record, in nested non-repeated
   groups, in sibling groups, next to REDEFINES unions), each counter an elementary non-repeated item outside every
   union and table that comes earlier in the record; names pairwise distinct.
   Companion of Props/C06.v; only property theorems, each closed by an exact lemma of Proofs/OdoStreamGeneralP.v.
   No engine of its own: the models (Model/Layout.v, Model/OdoStream.v, Model/Recfm.v) and the correspondence run are
   those of C06.

   Hypotheses, as in C06_layout, per record r with count vector e:
     wfo e [] t = true      t belongs to the family (e enters only through the lengths compared inside REDEFINES unions)
     NoDup (ids t)          names pairwise distinct
     Holds A dcount r e t 0 r carries e at the place of every non-repeated elementary item outside unions
     length r = extent e t  r is exactly as long as the description says for e
   [dcount] (decoding of a counter field) and, for RECFM N, the element type are arbitrary.

   How the proofs are organised (Proofs/OdoStreamGeneralP.v): the row loop and the record readers are proved ONCE for any
   schema, over the interface [framed dcount schema r v] = "on every buffer that begins with r the schema walk gives
   navigator v, and v ends at length r" (C06d_stream_any_family below); the flat family is an instance (the five
   theorems of Props/C06.v come out again word for word: flat_stream_*_again) and so is the general family, by
   C06_layout and the frame lemma C06d_frame. *)
From Coq Require Import ZArith NArith List.
Import ListNotations.
Require Import SR.Base.Res SR.Gen.RecfmParams SR.Spec.Recfm SR.Model.Recfm.
Require Import SR.Spec.Layout SR.Model.Layout SR.Spec.OdoStream SR.Model.OdoStream.
Require Import SR.Proofs.LayoutP SR.Proofs.LayoutOdoP SR.Proofs.OdoStreamGeneralP.
Open Scope nat_scope.

(* Frame, general family: the walk fetches counters only, each registered where it lies, and all of them lie inside
   the record; whatever follows the record in the buffer handed to Row() - the next records of the read-ahead buffer,
   the padding of a fixed-length record - does not change the navigator. *)
Theorem C06d_frame : forall (B : Type) (dcount : list B -> nat) (r more : list B) (e : env) (t : item),
  wfo e [] t = true -> NoDup (ids t) -> Holds B dcount r e t 0 -> extent e t <= length r ->
  nav_of dcount (r ++ more) (build t) = nav_of dcount r (build t).
Proof. exact nav_frame_general. Qed.
Print Assumptions C06d_frame.

(* the same without the record hypothesis: any walk of a member of the family that succeeds on r and ends inside r is
   the walk on every extension of r *)
Theorem C06d_frame_walk : forall (B : Type) (dcount : list B -> nat) (r more : list B) (e : env) (t : item) (v : nav),
  wfo e [] t = true -> NoDup (ids t) -> nav_of dcount r (build t) = Ok v -> lsize (n_loc v) <= length r ->
  nav_of dcount (r ++ more) (build t) = Ok v.
Proof. exact nav_frame_walk. Qed.
Print Assumptions C06d_frame_walk.

(* The row loop over RECFM N for ANY schema and any family of records, through the interface alone: records r_j with
   navigators v_j such that [framed dcount schema r_j v_j]. *)
Theorem C06d_stream_any_family : forall (A : Type) (dcount : list A -> nat) (schema : js) (B : nat), 0 < B ->
  forall (kind : N) (rs : list (list A)) (vs : list nav),
  Forall2 (framed dcount schema) rs vs -> legal_N B rs = true ->
  exists rows s',
    row_loop dcount (S (length (write_N rs))) 0 kind B schema (N_init B (write_N rs)) = (rows, Done, s')
    /\ map (@row_buf A) rows = spec_bufs B (write_N rs) (map (@length A) rs)
    /\ heads (map (@length A) rs) (map (@row_buf A) rows) = rs
    /\ map (@row_nav A) rows = vs
    /\ buf s' = [] /\ rest s' = [].
Proof. exact (@stream_N_any_buffer_abs). Qed.
Print Assumptions C06d_stream_any_family.

(* (2) A FILE of records without length headers (RECFM N), any buffer size B > 0, any element type.
   For every description of the general family, every sequence of count vectors e_1..e_k and records r_j of length
   extent e_j t (between 1 and B) carrying e_j: the row loop on the concatenation ends normally after exactly k rows,
   file and buffer empty; the buffer of row j is the file from the offset where record j-1 ended (cut at B elements),
   so its head is r_j; the navigator of row j is the one the schema walk gives on r_j alone - to which C06_layout
   applies: every navigation path lands on the bytes the COBOL rules assign for r_j's OWN counts - and it ends at
   extent e_j t = length r_j, which is what the loop announces to the reader. *)
Theorem C06d_stream_N_any_buffer : forall (A : Type) (dcount : list A -> nat) (B : nat) (kind : N) (t : item)
    (es : list env) (rs : list (list A)),
  0 < B -> NoDup (ids t) ->
  Forall2 (fun e r => wfo e [] t = true /\ length r = extent e t /\ Holds A dcount r e t 0) es rs ->
  legal_N B rs = true ->
  exists rows s',
    row_loop dcount (S (length (write_N rs))) 0 kind B (build t) (N_init B (write_N rs)) = (rows, Done, s')
    /\ map (@row_buf A) rows = spec_bufs B (write_N rs) (map (@length A) rs)
    /\ heads (map (@length A) rs) (map (@row_buf A) rows) = rs
    /\ Forall2 (fun rw r => nav_of dcount r (build t) = Ok (row_nav rw)) rows rs
    /\ Forall2 (fun rw e => lend (n_loc (row_nav rw)) = extent e t) rows es
    /\ buf s' = [] /\ rest s' = [].
Proof. exact (@general_stream_N_any_buffer). Qed.
Print Assumptions C06d_stream_N_any_buffer.

(* The same through set_schema and rows(), with the buffer size and the refill expression class read from the current
   source (Gen/RecfmParams.v), for ANY lrecl argument (None, 0, any number: set_schema never fails, RECFM_N ignores it). *)
Theorem C06d_stream_N : forall (A : Type) (dcount : list A -> nat) (kind : N) (lrecl : option nat) (t : item)
    (es : list env) (rs : list (list A)),
  NoDup (ids t) ->
  Forall2 (fun e r => wfo e [] t = true /\ length r = extent e t /\ Holds A dcount r e t 0) es rs ->
  legal_N (N.to_nat buffer_size) rs = true ->
  exists rows s',
    rows_N dcount kind lrecl (build t) (write_N rs) = Ok (rows, Done, s')
    /\ map (@row_buf A) rows = spec_bufs (N.to_nat buffer_size) (write_N rs) (map (@length A) rs)
    /\ heads (map (@length A) rs) (map (@row_buf A) rows) = rs
    /\ Forall2 (fun rw r => nav_of dcount r (build t) = Ok (row_nav rw)) rows rs
    /\ Forall2 (fun rw e => lend (n_loc (row_nav rw)) = extent e t) rows es
    /\ buf s' = [] /\ rest s' = [].
Proof. exact (@general_stream_N). Qed.
Print Assumptions C06d_stream_N.

(* RECFM V: the reader delivers exactly the records (C05_V); each row's navigator is the walk on its record.  Any lrecl. *)
Theorem C06d_stream_V : forall (dcount : list N -> nat) (kind : N) (lrecl : option nat) (t : item)
    (es : list env) (rs : list (list N)),
  NoDup (ids t) ->
  Forall2 (fun e r => wfo e [] t = true /\ length r = extent e t /\ Holds N dcount r e t 0) es rs ->
  legal_V rs = true ->
  exists rows,
    rows_V dcount kind lrecl (build t) (write_V rs) = Ok (rows, Done)
    /\ map (@row_buf N) rows = rs
    /\ Forall2 (fun rw r => nav_of dcount r (build t) = Ok (row_nav rw)) rows rs
    /\ Forall2 (fun rw e => lend (n_loc (row_nav rw)) = extent e t) rows es.
Proof. exact general_stream_V. Qed.
Print Assumptions C06d_stream_V.

(* RECFM VB: every legal blocking of the records (C05_VB).  Any lrecl. *)
Theorem C06d_stream_VB : forall (dcount : list N -> nat) (kind : N) (lrecl : option nat) (t : item)
    (ess : list (list env)) (blocks : list (list (list N))),
  NoDup (ids t) ->
  Forall2 (Forall2 (fun e r => wfo e [] t = true /\ length r = extent e t /\ Holds N dcount r e t 0)) ess blocks ->
  legal_VB blocks = true ->
  exists rows,
    rows_VB dcount kind lrecl (build t) (write_VB blocks) = Ok (rows, Done)
    /\ map (@row_buf N) rows = concat blocks
    /\ Forall2 (fun rw r => nav_of dcount r (build t) = Ok (row_nav rw)) rows (concat blocks)
    /\ Forall2 (fun rw e => lend (n_loc (row_nav rw)) = extent e t) rows (concat ess).
Proof. exact general_stream_VB. Qed.
Print Assumptions C06d_stream_VB.

(* RECFM F / FB: the variable-length records stored in a fixed-length file, every record followed by padding up to the
   LRECL (any padding bytes): the reader cuts the file at the LRECL (C05_F), each row's buffer is the stored record, and
   its navigator is the walk on the record itself - laid out by that record's own counters, ending at its own extent. *)
Theorem C06d_stream_F : forall (dcount : list N -> nat) (kind : N) (lrecl : nat) (t : item)
    (es : list env) (rs ps : list (list N)),
  NoDup (ids t) ->
  Forall2 (fun e r => wfo e [] t = true /\ length r = extent e t /\ Holds N dcount r e t 0) es rs ->
  Forall2 (fun r p => exists more, p = r ++ more) rs ps ->
  legal_F lrecl ps = true ->
  exists rows,
    rows_F dcount kind (Some lrecl) (build t) (write_F ps) = Ok (rows, Done)
    /\ map (@row_buf N) rows = ps
    /\ Forall2 (fun rw r => nav_of dcount r (build t) = Ok (row_nav rw)) rows rs
    /\ Forall2 (fun rw e => lend (n_loc (row_nav rw)) = extent e t) rows es.
Proof. exact general_stream_F. Qed.
Print Assumptions C06d_stream_F.

(* set_schema never raises, whatever the schema and the lrecl argument (the only failures of from_schema() are the
   ValueError of an ODO array without instance and of an empty oneOf, both caught since fix 64e9f81) *)
Theorem C06d_set_schema_total : forall (A : Type) (dcount : list A -> nat) (lrecl : option nat) (s : js),
  exists l, set_schema dcount lrecl s = Ok l.
Proof. exact (@set_schema_total_any). Qed.
Print Assumptions C06d_set_schema_total.

(* ---- non-vacuity: a description OUTSIDE the flat family - an ODO table inside a nested group, followed by an item of
   that group, by a group table inside a sibling group and by an item of the record - and two records of it with
   different counts (1 and 3) and different lengths (11 and 21).
   01 R.  05 N PIC 9.
          05 G.  10 A PIC X(2).  10 T PIC X(3) OCCURS 0 TO 9 DEPENDING ON N.  10 B PIC X.
          05 H.  10 U OCCURS 0 TO 9 DEPENDING ON N.  15 V PIC X.  15 W PIC X.
          05 Z PIC X(2).        (ids: R=1 N=2 G=3 A=4 T=5 B=6 H=7 U=8 V=9 W=10 Z=11) *)
Example C06d_family_example :
  NoDup (ids gen_tree) /\ wfo gen_e1 [] gen_tree = true /\ wfo gen_e2 [] gen_tree = true
  /\ flat_odo gen_tree = false /\ js_has_odo (build gen_tree) = true.
Proof. exact gen_family_ok. Qed.

Example C06d_record_example :
  (wfo gen_e1 [] gen_tree = true /\ length gen_r1 = extent gen_e1 gen_tree /\ Holds N gen_dcount gen_r1 gen_e1 gen_tree 0)
  /\ (wfo gen_e2 [] gen_tree = true /\ length gen_r2 = extent gen_e2 gen_tree /\ Holds N gen_dcount gen_r2 gen_e2 gen_tree 0)
  /\ length gen_r1 <> length gen_r2.
Proof. split; [exact gen_r1_ok|]. split; [exact gen_r2_ok|]. vm_compute. discriminate. Qed.

(* the hypotheses of the five stream theorems together: three records (counts 1, 3, 1) back to back, in two blocks, and
   padded to LRECL 24 *)
Example C06d_stream_example :
  Forall2 (fun e r => wfo e [] gen_tree = true /\ length r = extent e gen_tree /\ Holds N gen_dcount r e gen_tree 0)
    [gen_e1; gen_e2; gen_e1] [gen_r1; gen_r2; gen_r1]
  /\ length gen_r1 = 11 /\ length gen_r2 = 21
  /\ legal_N 32 [gen_r1; gen_r2; gen_r1] = true /\ legal_N (N.to_nat buffer_size) [gen_r1; gen_r2; gen_r1] = true
  /\ legal_V [gen_r1; gen_r2; gen_r1] = true /\ legal_VB [[gen_r1; gen_r2]; [gen_r1]] = true
  /\ Forall2 (fun r p => exists more, p = r ++ more) [gen_r1; gen_r2; gen_r1]
       [gen_r1 ++ repeat 0%N 13; gen_r2 ++ repeat 0%N 3; gen_r1 ++ repeat 64%N 13]
  /\ legal_F 24 [gen_r1 ++ repeat 0%N 13; gen_r2 ++ repeat 0%N 3; gen_r1 ++ repeat 64%N 13] = true.
Proof. exact gen_records_ok. Qed.

(* the conclusion computed on that file with a window of 32 elements: per row (length of the buffer handed to Row(),
   end of the navigator, start of G.T[2], of G.B, of Z): the second row starts where the first record ended and is laid
   out with three occurrences, the first and the third with one (T[2] refused) *)
Example C06d_run_example :
  map gen_row_view (fst (fst (row_loop gen_dcount 64 0 0 32 (build gen_tree) (N_init 32 (write_N [gen_r1; gen_r2; gen_r1])))))
  = [(32, 11, Err IndexError, Ok 6, Ok 9); (32, 21, Ok 9, Ok 12, Ok 19); (11, 11, Err IndexError, Ok 6, Ok 9)].
Proof. exact gen_run_ok. Qed.
