(* C17 - Cleaned names are always legal JSON Schema anchors.
   This file contains only the property theorems, each closed by an exact lemma.
   [clean] is the model of name_cleaner with the character classes and regex flags read
   from the current source (Gen/NameCleanerParams.v); [legal] is the anchor pattern of the
   JSON Schema meta-schema (Spec/Anchor.v).  [Some (Ok r)] = returned r;
   [Some (Err _)] = raised; [None] = loop did not end within [length s] iterations. *)
From Coq Require Import NArith List.
Import ListNotations.
Require Import SR.Base.Res SR.Spec.Anchor SR.Model.NameCleaner SR.Proofs.NameCleanerP.

(* For every string: cleaning terminates, never raises, and returns the empty string or a
   legal anchor. *)
Theorem C17_total_legal : forall s : list N,
  exists r, clean s = Some (Ok r) /\ (r = [] \/ legal r = true).
Proof. exact clean_total. Qed.
Print Assumptions C17_total_legal.

(* An already legal name (or the empty string) is returned unchanged. *)
Theorem C17_legal_unchanged : forall s : list N,
  (s = [] \/ legal s = true) -> clean s = Some (Ok s).
Proof. exact clean_fixed. Qed.
Print Assumptions C17_legal_unchanged.

(* Idempotent. *)
Theorem C17_idempotent : forall s r : list N, clean s = Some (Ok r) -> clean r = Some (Ok r).
Proof. exact clean_idempotent. Qed.
Print Assumptions C17_idempotent.

(* Non-vacuity: a heading with a blank, a line break and punctuation: 'a b\n!' gives 'a_b_' *)
Example C17_example :
  clean [97; 32; 98; 10; 33]%N = Some (Ok [97; 95; 98; 95]%N) /\ legal [97; 95; 98; 95]%N = true.
Proof. vm_compute. split; reflexivity. Qed.

(* The property's consequence for spreadsheets: EVERY non-empty heading - blank-only, line breaks included - is cleaned to
   a legal anchor (never to the empty string), so it can become a column of a heading-row schema that validates. *)
Theorem C17_heading_column : forall s r : list N, s <> [] -> clean s = Some (Ok r) -> legal r = true.
Proof. exact clean_nonempty_legal. Qed.
Print Assumptions C17_heading_column.

Example C17_blank_heading : clean [32; 10]%N = Some (Ok [95]%N).
Proof. vm_compute. reflexivity. Qed.
