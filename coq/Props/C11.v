(* C11 - Schemas are immutable and results do not depend on what was processed before.

   This file contains only the property theorems, each closed by an exact lemma.
   [step], [run], [outs], [out_of] are the state machine of Model/Globals.v over the process-wide state the
   code really has (DDE.filler_count, SchemaMaker.ATOMIC), with the two behaviours that decide the property
   read from the source on every run (Gen/GlobalsParams.v): does structure() reset the FILLER counter before
   it starts, does constructing the extended-vocabulary maker write to the shared ATOMIC set.
   [run init h] is the state after the calls of h; [outs g qs] the outputs of the calls qs made from state g.

   WHAT IS PROVED (second half of the property): every output - the names a parse assigns, whether a load is
   accepted, what a navigator reads - is the same after EVERY history of calls as in a fresh process; so
   parsing the same copybook again gives the same names.  All histories: induction over the list, no bound.

   (Added later: the first half now has a theorem of its own over an explicit heap model with object identity, relative to
   an effect summary of the source regenerated on every run - companion file Props/C11c.v.  What follows describes THIS
   file's model.)

   WHAT IS NOT PROVED, AND CANNOT BE IN THIS MODEL (first half: the JSON document and the loaded schema equal
   their initial state): a Gallina value cannot be written to, so in a functional model the statement is true
   by construction and a theorem about it would say nothing about Python aliasing.  NO theorem is claimed for
   it.  It rests entirely on the correspondence run of this check: every document and every loaded Schema used
   in a random history is fingerprinted before and after (serialised document with key order, identity of
   Schema.json() with the document, class / reference structure of the Schema tree), and the same probe is run in
   a fresh interpreter.  The same holds for the state that is per object in the code (JSONSchemaMaker.names,
   SchemaMaker.name_cache, LocationMaker.anchors): the model has no such state, the run checks it.
   Hence the suffix _partial on the main theorem. *)
From Coq Require Import NArith List Bool.
Import ListNotations.
Require Import SR.Base.Res SR.Model.Globals SR.Proofs.GlobalsP.
Require SR.Model.Structure.

(* The full property, as far as it can be written over this model: for the tree under test ... *)
Definition C11_statement : Prop :=
  forall (h qs : list op), outs (run init h) qs = outs init qs.

(* After every history h, every sequence of probes qs gives the outputs it gives in a fresh process. *)
Theorem C11_history_independent_partial : forall (h qs : list op), outs (run init h) qs = outs init qs.
Proof. exact gen_independent. Qed.
Print Assumptions C11_history_independent_partial.

(* The single-probe form. *)
Theorem C11_history_independent_probe : forall (h : list op) (q : op), out_of (run init h) q = out_of init q.
Proof. exact gen_independent_one. Qed.
Print Assumptions C11_history_independent_probe.

(* Parsing the same entries again, anywhere later in any history, assigns the same names. *)
Theorem C11_deterministic_parse : forall (h1 h2 : list op) (es : list entry),
  out_of (run init (h1 ++ ParseCopybook es :: h2)) (ParseCopybook es)
  = out_of (run init h1) (ParseCopybook es).
Proof. exact gen_deterministic_parse. Qed.
Print Assumptions C11_deterministic_parse.

(* ... and they are the names of a FILLER counter that starts at zero. *)
Theorem C11_parse_names : forall (h : list op) (es : list entry),
  out_of (run init h) (ParseCopybook es) = ONames (names_of 0 es).
Proof. exact gen_parse_names. Qed.
Print Assumptions C11_parse_names.

(* The standard loader never accepts the type decimal, whatever makers were constructed before. *)
Theorem C11_load_ignores_makers : forall (h : list op) (ts : list str),
  out_of (run init h) (LoadSchema ts) = OLoad (load false ts).
Proof. exact gen_load_decimal. Qed.
Print Assumptions C11_load_ignores_makers.

(* The property holds for exactly one choice of the two behaviours: the one the repaired tree has.
   (history_independent_for m := forall h qs, outs_m m (run_m m init h) qs = outs_m m init qs.) *)
Theorem C11_modes_characterised : forall m : modes,
  history_independent_for m <-> (m_reset m = true /\ m_ext_mutates m = false).
Proof. exact independent_iff. Qed.
Print Assumptions C11_modes_characterised.

(* The tree before commit 6cf36a5 (no reset at the start of structure()): the fragment
   05 FILLER PIC X. 05 FILLER PIC X.  parsed twice is named FILLER-1, FILLER-2 and then FILLER-3, FILLER-4. *)
Theorem C11_old_refuted_filler : forall ext : bool,
  outs_m {| m_reset := false; m_ext_mutates := ext |} init [ParseCopybook fragment; ParseCopybook fragment]
  = [ONames (Ok [fname 1; fname 2]); ONames (Ok [fname 3; fname 4])]
  /\ ~ history_independent_for {| m_reset := false; m_ext_mutates := ext |}.
Proof. intros ext. split; [exact (fragment_twice_old ext) | exact (no_reset_refuted ext)]. Qed.
Print Assumptions C11_old_refuted_filler.

(* The tree before commit 5271a92 (the extended maker adds decimal to the shared set): a document with a leaf
   of type decimal is rejected in a fresh process and accepted once an extended maker has been constructed. *)
Theorem C11_old_refuted_decimal : forall rs : bool,
  outs_m {| m_reset := rs; m_ext_mutates := true |} init [LoadSchema [decimal_name]] = [OLoad (Err ValueError)]
  /\ outs_m {| m_reset := rs; m_ext_mutates := true |} init [MakeExtendedMaker; LoadSchema [decimal_name]]
     = [OUnit; OLoad (Ok tt)]
  /\ ~ history_independent_for {| m_reset := rs; m_ext_mutates := true |}.
Proof.
  intros rs. split; [exact (decimal_alone_any _) | split; [exact (decimal_after_ext_old rs) | exact (ext_mutates_refuted rs)]].
Qed.
Print Assumptions C11_old_refuted_decimal.

(* Non-vacuity: the state machine distinguishes states (the counter does move, the history is not ignored by
   construction), and a probe has a non-trivial output: after parsing  01 x. 05 FILLER. 05 FILLER.  the counter
   is 2, yet the fragment is still named FILLER-1, FILLER-2. *)
Example C11_example :
  let rec01 := {| Structure.elv := Structure.L01; Structure.ename := Some [82]%N; Structure.efill := None;
                  Structure.eredef := None; Structure.epic := false; Structure.eocc := false;
                  Structure.etext := [82]%N |} in
  let h := [ParseCopybook (rec01 :: fragment); MakeExtendedMaker; LoadExtended [decimal_name]] in
  filler_count (run init h) = 2%N
  /\ out_of (run init h) (ParseCopybook fragment) = ONames (Ok [fname 1; fname 2])
  /\ out_of (run init h) (LoadSchema [decimal_name]) = OLoad (Err ValueError)
  /\ outs (run init h) [LoadExtended [decimal_name]] = [OLoad (Ok tt)].
Proof. vm_compute. repeat split; reflexivity. Qed.
