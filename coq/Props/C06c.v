(* C06, second layer - the theorems of Props/C06.v with the counter decoder the code really uses.
   Companion of Props/C06.v; only property theorems, each closed by an exact lemma of
   Proofs/OdoCounterP.v (which applies the lemmas behind Props/C06.v).  No engine of its own.

   Props/C06.v is stated for an ARBITRARY total [dcount : list B -> nat] and the hypothesis
   [counters_hold dcount e t r] (the bytes at each counter's place DECODE to e(counter)): true of any
   decoder, but silent about whether the one in the code turns the bytes a mainframe stores into the
   number that was stored.  Here
     dcount_zoned          (Model/ZonedCounter.v) int(estruct.unpack(<unsigned DISPLAY picture of the field's
                           length>, bytes)) - what LocationMaker.walk computes for a DependsOnArraySchema on an
                           EBCDIC record;
     stores_count bs k     (Spec/ZonedCounter.v) bs is the zoned-decimal image (Spec/Encode.v, enc_zoned) of a
                           digit string of 1..28 digits whose value is k, with a positive zone (F, C, A or E);
     counters_stored e t r the bytes the specification assigns to each counter of t store e(counter).
   By C02's zoned round trip (C02c_counter_roundtrip) [counters_stored] implies [counters_hold dcount_zoned],
   so each theorem below has a hypothesis about the ENCODER only and a conclusion about the model of the code
   with the real decoder: the number of occurrences is the number that was stored.

   Outside: a counter whose bytes are not digits (the code raises, the total model counts 0) and a negative
   counter (zone D or B: Python's int is negative); see Model/ZonedCounter.v.  C06c_layout (general form) keeps
   C06_layout's hypothesis [Holds], instantiated: every non-repeated elementary item - a potential counter -
   decodes under dcount_zoned to e(item). *)
From Coq Require Import ZArith NArith List.
Import ListNotations.
Require Import SR.Base.Res SR.Gen.RecfmParams SR.Spec.Recfm SR.Model.Recfm.
Require Import SR.Spec.Layout SR.Model.Layout SR.Spec.OdoStream SR.Model.OdoStream.
Require Import SR.Proofs.LayoutP SR.Proofs.LayoutOdoP SR.Props.C06.
Require Import SR.Spec.Encode SR.Model.ZonedCounter SR.Spec.ZonedCounter SR.Proofs.OdoCounterP.
Open Scope nat_scope.

(* a field that stores k decodes to k; a record that stores its count vector is one on which the counters hold *)
Theorem C06c_counter_decodes : forall (bs : list N) (k : nat), stores_count bs k -> dcount_zoned bs = k.
Proof. exact stores_count_decodes. Qed.
Print Assumptions C06c_counter_decodes.

Theorem C06c_counters_stored_hold : forall (e : env) (t : item) (r : list N),
  counters_stored e t r -> counters_hold dcount_zoned e t r.
Proof. exact counters_stored_hold. Qed.
Print Assumptions C06c_counters_stored_hold.

(* (1) ONE record: C06_layout_flat *)
Theorem C06c_layout_flat : forall (t : item) (e : env) (r : list N),
  flat_odo t = true -> counters_stored e t r ->
  exists v, nav_of dcount_zoned r (build t) = Ok v
    /\ lstart (n_loc v) = 0 /\ lend (n_loc v) = extent e t
    /\ forall k x, find_kid (item_kids t) k = Some x ->
       exists o vk, kid_start e (item_kids t) k = Some o
         /\ nav_name v (KName k) = Ok vk
         /\ lstart (n_loc vk) = o /\ lsize (n_loc vk) = extent e x
         /\ (is_table x = true ->
               (exists sub sch, n_loc vk = LArr o (extent e x) (ext1 e x) (count e (item_oc x)) sub sch)
               /\ (forall i, i < count e (item_oc x) ->
                     exists vi, nav_index dcount_zoned r vk i = Ok vi
                       /\ lstart (n_loc vi) = o + i * ext1 e x /\ lsize (n_loc vi) = ext1 e x)
               /\ (forall i, count e (item_oc x) <= i -> nav_index dcount_zoned r vk i = Err IndexError)).
Proof. exact layout_flat_zoned. Qed.
Print Assumptions C06c_layout_flat.

(* (1b) inside an occurrence: C06_layout_flat_occurrence *)
Theorem C06c_layout_flat_occurrence : forall (t : item) (e : env) (r : list N),
  flat_odo t = true -> counters_stored e t r ->
  exists v, nav_of dcount_zoned r (build t) = Ok v
    /\ forall k x, find_kid (item_kids t) k = Some x -> is_table x = true ->
       exists o vk, kid_start e (item_kids t) k = Some o /\ nav_name v (KName k) = Ok vk
         /\ forall i, i < count e (item_oc x) ->
            exists vi, nav_index dcount_zoned r vk i = Ok vi
              /\ match x with
                 | Elem n sz _ _ => exists vj, nav_name vi (KName n) = Ok vj /\ n_loc vj = LAtom (o + i * sz) sz
                 | Group _ _ _ gks =>
                     forall j y, find_kid gks j = Some y ->
                       exists oj vj, kid_start e gks j = Some oj /\ nav_name vi (KName j) = Ok vj
                         /\ n_loc vj = LAtom (o + i * ext1 e x + oj) (extent e y)
                 end.
Proof. exact layout_flat_occurrence_zoned. Qed.
Print Assumptions C06c_layout_flat_occurrence.

(* frame: C06_frame *)
Theorem C06c_frame : forall (t : item) (e : env) (r more : list N),
  flat_odo t = true -> extent e t <= length r -> counters_stored e t r ->
  nav_of dcount_zoned (r ++ more) (build t) = nav_of dcount_zoned r (build t).
Proof. exact frame_zoned. Qed.
Print Assumptions C06c_frame.

(* (2) files: C06_stream_N_any_buffer, C06_stream_N, C06_stream_V, C06_stream_VB, C06_stream_F *)
Theorem C06c_stream_N_any_buffer : forall (B : nat) (kind : N) (t : item) (es : list env) (rs : list (list N)),
  0 < B -> flat_odo t = true ->
  Forall2 (fun e r => length r = extent e t /\ counters_stored e t r) es rs ->
  legal_N B rs = true ->
  exists rows s',
    row_loop dcount_zoned (S (length (write_N rs))) 0 kind B (build t) (N_init B (write_N rs)) = (rows, Done, s')
    /\ map (@row_buf N) rows = spec_bufs B (write_N rs) (map (@length N) rs)
    /\ heads (map (@length N) rs) (map (@row_buf N) rows) = rs
    /\ Forall2 (fun rw r => nav_of dcount_zoned r (build t) = Ok (row_nav rw)) rows rs
    /\ Forall2 (fun rw e => lend (n_loc (row_nav rw)) = extent e t) rows es
    /\ buf s' = [] /\ rest s' = [].
Proof. exact stream_N_any_buffer_zoned. Qed.
Print Assumptions C06c_stream_N_any_buffer.

Theorem C06c_stream_N : forall (kind : N) (lrecl : nat) (t : item) (es : list env) (rs : list (list N)),
  0 < lrecl -> flat_odo t = true ->
  Forall2 (fun e r => length r = extent e t /\ counters_stored e t r) es rs ->
  legal_N (N.to_nat buffer_size) rs = true ->
  exists rows s',
    rows_N dcount_zoned kind (Some lrecl) (build t) (write_N rs) = Ok (rows, Done, s')
    /\ map (@row_buf N) rows = spec_bufs (N.to_nat buffer_size) (write_N rs) (map (@length N) rs)
    /\ heads (map (@length N) rs) (map (@row_buf N) rows) = rs
    /\ Forall2 (fun rw r => nav_of dcount_zoned r (build t) = Ok (row_nav rw)) rows rs
    /\ Forall2 (fun rw e => lend (n_loc (row_nav rw)) = extent e t) rows es
    /\ buf s' = [] /\ rest s' = [].
Proof. exact stream_N_zoned. Qed.
Print Assumptions C06c_stream_N.

Theorem C06c_stream_V : forall (kind : N) (lrecl : nat) (t : item) (es : list env) (rs : list (list N)),
  0 < lrecl -> flat_odo t = true ->
  Forall2 (fun e r => length r = extent e t /\ counters_stored e t r) es rs ->
  legal_V rs = true ->
  exists rows,
    rows_V dcount_zoned kind (Some lrecl) (build t) (write_V rs) = Ok (rows, Done)
    /\ map (@row_buf N) rows = rs
    /\ Forall2 (fun rw r => nav_of dcount_zoned r (build t) = Ok (row_nav rw)) rows rs
    /\ Forall2 (fun rw e => lend (n_loc (row_nav rw)) = extent e t) rows es.
Proof. exact stream_V_zoned. Qed.
Print Assumptions C06c_stream_V.

Theorem C06c_stream_VB : forall (kind : N) (lrecl : nat) (t : item) (ess : list (list env)) (blocks : list (list (list N))),
  0 < lrecl -> flat_odo t = true ->
  Forall2 (Forall2 (fun e r => length r = extent e t /\ counters_stored e t r)) ess blocks ->
  legal_VB blocks = true ->
  exists rows,
    rows_VB dcount_zoned kind (Some lrecl) (build t) (write_VB blocks) = Ok (rows, Done)
    /\ map (@row_buf N) rows = concat blocks
    /\ Forall2 (fun rw r => nav_of dcount_zoned r (build t) = Ok (row_nav rw)) rows (concat blocks)
    /\ Forall2 (fun rw e => lend (n_loc (row_nav rw)) = extent e t) rows (concat ess).
Proof. exact stream_VB_zoned. Qed.
Print Assumptions C06c_stream_VB.

Theorem C06c_stream_F : forall (kind : N) (lrecl : nat) (t : item) (es : list env) (rs ps : list (list N)),
  flat_odo t = true ->
  Forall2 (fun e r => length r = extent e t /\ counters_stored e t r) es rs ->
  Forall2 (fun r p => exists more, p = r ++ more) rs ps ->
  legal_F lrecl ps = true ->
  exists rows,
    rows_F dcount_zoned kind (Some lrecl) (build t) (write_F ps) = Ok (rows, Done)
    /\ map (@row_buf N) rows = ps
    /\ Forall2 (fun rw r => nav_of dcount_zoned r (build t) = Ok (row_nav rw)) rows rs
    /\ Forall2 (fun rw e => lend (n_loc (row_nav rw)) = extent e t) rows es.
Proof. exact stream_F_zoned. Qed.
Print Assumptions C06c_stream_F.

(* general form: C06_layout *)
Theorem C06c_layout : forall (r : list N) (e : env) (t : item),
  wfo e [] t = true -> NoDup (ids t) -> Holds N dcount_zoned r e t 0 ->
  exists v0, nav_of dcount_zoned r (build t) = Ok v0
    /\ lstart (n_loc v0) = 0 /\ lend (n_loc v0) = extent e t
    /\ forall p v st, spec_nav e (VItem t) 0 p = inl (v, st) ->
         exists nv, nav_path dcount_zoned r v0 p = Ok nv
           /\ lstart (n_loc nv) = st /\ lend (n_loc nv) = st + view_size e v
           /\ nav_raw r nv = slice r st (st + view_size e v)
           /\ (forall x, v = VItem x -> is_table x = true ->
                 forall i, count e (item_oc x) <= i -> nav_index dcount_zoned r nv i = Err IndexError).
Proof. exact layout_zoned. Qed.
Print Assumptions C06c_layout.

(* ---- non-vacuity ---- *)

(* F0 F7 stores 7; so does F0 C7 *)
Example C06c_stores_example :
  stores_count [240; 247]%N 7 /\ stores_count [240; 199]%N 7 /\ dcount_zoned [240; 247]%N = 7.
Proof.
  split; [|split; [|reflexivity]].
  - apply (stores_intro [0; 7]%N 15%N); try reflexivity; [discriminate|repeat constructor|cbn; auto].
  - apply (stores_intro [0; 7]%N 12%N); try reflexivity; [discriminate|repeat constructor|cbn; auto].
Qed.

(* the two records of Spec/OdoStream.v (counters F0 F2 / F1 and F0 F0 / F0) store their count vectors *)
Example C06c_record_example :
  counters_stored ex_e1 ex_tree ex_r1 /\ length ex_r1 = extent ex_e1 ex_tree
  /\ counters_stored ex_e2 ex_tree ex_r2 /\ length ex_r2 = extent ex_e2 ex_tree
  /\ length ex_r1 <> length ex_r2.
Proof. exact ex_records_stored. Qed.

Example C06c_stream_example :
  Forall2 (fun e r => length r = extent e ex_tree /\ counters_stored e ex_tree r) [ex_e1; ex_e2; ex_e1] [ex_r1; ex_r2; ex_r1]
  /\ Forall2 (Forall2 (fun e r => length r = extent e ex_tree /\ counters_stored e ex_tree r))
       [[ex_e1; ex_e2]; [ex_e1]] [[ex_r1; ex_r2]; [ex_r1]]
  /\ legal_N 32 [ex_r1; ex_r2; ex_r1] = true /\ legal_N (N.to_nat buffer_size) [ex_r1; ex_r2; ex_r1] = true
  /\ legal_V [ex_r1; ex_r2; ex_r1] = true /\ legal_VB [[ex_r1; ex_r2]; [ex_r1]] = true.
Proof. exact ex_stream_stored. Qed.

(* general form: the tree of C06_layout_example with N = 2 stored as F2, the other non-repeated elementary items
   (A, Z) blank (EBCDIC spaces decode to 0, which is what odo_env gives them) *)
Definition odo_rec : list N := ([242] ++ [64; 64] ++ [193; 194; 195; 196; 197; 198] ++ [231; 232] ++ [64; 64])%N.

Example C06c_layout_example :
  wfo odo_env [] odo_tree = true /\ NoDup (ids odo_tree)
  /\ Holds N dcount_zoned odo_rec odo_env odo_tree 0 /\ length odo_rec = extent odo_env odo_tree.
Proof.
  split; [reflexivity|]. split; [cbn; repeat constructor; cbn; intuition discriminate|]. split; [|reflexivity].
  cbn -[dcount_zoned odo_rec].
  repeat match goal with
         | |- _ /\ _ => split
         | |- exists _, _ => eexists; split; [reflexivity|]
         | |- True => exact I
         end; vm_compute; reflexivity.
Qed.
