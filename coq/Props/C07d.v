(* C07d - companion of Props/C07.v: the FIRST entry of a copybook is kept whatever its level
   (known finding C07-K8-first-entry-66-77-88, code 8 of Judge/JC07.v).
   Only the property theorems, each closed by an exact lemma of Proofs/FirstEntryP.v.

   The property reads "level 66, 77 and 88 entries contribute nothing" (Spec/Dde.v).  structure() takes its
   first node with next(node_iter) BEFORE the loop that skips those levels, so a copybook or copybook fragment
   that begins with  77 W PIC X.  /  88 FLAG VALUE 'Y'.  /  66 R RENAMES A THRU B.  gets a tree for that
   entry: a 77 item with a picture is emitted as a schema of its own titled W, an 88 or 66 entry (no picture)
   makes the schema maker raise ValueError on the first tree so that NO schema is emitted, the record that
   follows included, and a later entry with a larger two-character level is attached below it.
   C07_structure (Props/C07.v) already states the exact behaviour through kept_of (the first entry, then the
   later entries of another level); C07_structure_entries has the hypothesis "the first entry is not 66/77/88";
   C12c_refuted_first_88 (Props/C12c.v) is a witness.  Here: the statement without the hypothesis, its
   refutation, the exact trigger, and the positive statement about every LATER 66/77/88 entry
   (see also C12c_88_transparent: inserting named 66/77/88 entries after the first entry changes nothing).

   Spec/FirstEntryWf.v: [wanted l] = the entries of level other than 66/77/88, [first_entry_special l] = the
   first entry's level is 66, 77 or 88, [shape l] = names in preorder and parents of the forest,
   [titles l] = titles of the emitted schemas, and the witness entries (Layer B: the sentences after clause_dict;
   the clause pattern names  66 R RENAMES A THRU B  by its last name token, which plays no part here). *)
From Coq Require Import NArith List Bool.
Import ListNotations.
Require Import SR.Base.Res SR.Spec.Dde SR.Model.Structure SR.Spec.FirstEntryWf SR.Proofs.FirstEntryP.

(* ------------------------------------------------------------------ the full statement, refuted *)
(* C07_structure_entries without its hypothesis on the first entry: on every entry list with two-digit levels on
   which structure() returns, the forest holds exactly the entries of level other than 66/77/88, in source order *)
Definition C07d_full_statement : Prop := entries_unguarded.

(* Known finding 8.  The one-entry copybook 77 W PIC X. yields a forest holding W. *)
Theorem C07d_refuted_8 : ~ C07d_full_statement.
Proof. exact refuted_8. Qed.
Print Assumptions C07d_refuted_8.

(* ------------------------------------------------------------------ what holds for every copybook *)
(* Any first entry e, any later entries r (two-digit levels, structure() returns): the forest holds e followed
   by the later entries of level other than 66/77/88, and its first tree is rooted at e. *)
Theorem C07d_first_entry_kept : forall (e : entry) (r : list entry) (f : list tree),
  Forall (fun x => two_digits (elv x) = true) (e :: r) ->
  structure (e :: r) = Ok f ->
  map de (preorder_f f) = e :: wanted r
  /\ exists t f', f = t :: f' /\ de (troot t) = e.
Proof. exact first_entry_kept. Qed.
Print Assumptions C07d_first_entry_kept.

(* The positive half of the property: AFTER the first entry every 66/77/88 entry contributes nothing. *)
Theorem C07d_after_first_nothing : forall (e : entry) (r : list entry) (f : list tree),
  Forall (fun x => two_digits (elv x) = true) (e :: r) ->
  structure (e :: r) = Ok f ->
  tl (map de (preorder_f f)) = wanted r.
Proof. exact after_first_nothing. Qed.
Print Assumptions C07d_after_first_nothing.

(* The trigger is exact: the conclusion of the full statement fails for a copybook precisely when its first
   entry is a 66/77/88 level. *)
Theorem C07d_trigger_exact : forall (l : list entry) (f : list tree),
  Forall (fun x => two_digits (elv x) = true) l ->
  structure l = Ok f ->
  (map de (preorder_f f) = wanted l <-> first_entry_special l = false).
Proof. exact unguarded_iff. Qed.
Print Assumptions C07d_trigger_exact.

(* ------------------------------------------------------------------ what exactly comes out (witnesses) *)
(* 77 W PIC X. first, followed by nothing / 01 REC. 05 A PIC X. 05 B PIC 9. / 05 A PIC X. 05 B PIC 9.:
   W is a tree of its own and a schema titled W is emitted before the others; the 05 items that follow are
   roots too (05 <= 77 as strings). *)
Theorem C07d_first_77 :
  shape [e77] = Ok ([nW], [None]) /\ titles [e77] = Ok [Some nW]
  /\ shape (e77 :: rec01) = Ok ([nW; nREC; nA; nB], [None; None; Some 1; Some 1])
  /\ titles (e77 :: rec01) = Ok [Some nW; Some nREC]
  /\ shape (e77 :: items05) = Ok ([nW; nA; nB], [None; None; None])
  /\ titles (e77 :: items05) = Ok [Some nW; Some nA; Some nB].
Proof. exact first_77. Qed.
Print Assumptions C07d_first_77.

(* 88 FLAG VALUE 'Y'. first: FLAG is the first tree; it has no picture, so the schema maker raises ValueError on
   it and NO schema is emitted - although the 01 record alone yields its schema. *)
Theorem C07d_first_88 :
  shape [e88] = Ok ([nFLAG], [None]) /\ titles [e88] = Err ValueError
  /\ shape (e88 :: rec01) = Ok ([nFLAG; nREC; nA; nB], [None; None; Some 1; Some 1])
  /\ titles (e88 :: rec01) = Err ValueError /\ titles rec01 = Ok [Some nREC]
  /\ shape (e88 :: items05) = Ok ([nFLAG; nA; nB], [None; None; None])
  /\ titles (e88 :: items05) = Err ValueError.
Proof. exact first_88. Qed.
Print Assumptions C07d_first_88.

(* 66 R RENAMES A THRU B. first: the same as for 88. *)
Theorem C07d_first_66 :
  shape [e66] = Ok ([nR], [None]) /\ titles [e66] = Err ValueError
  /\ shape (e66 :: rec01) = Ok ([nR; nREC; nA; nB], [None; None; Some 1; Some 1])
  /\ titles (e66 :: rec01) = Err ValueError
  /\ shape (e66 :: items05) = Ok ([nR; nA; nB], [None; None; None])
  /\ titles (e66 :: items05) = Err ValueError.
Proof. exact first_66. Qed.
Print Assumptions C07d_first_66.

(* A later entry whose two-character level is larger is attached BELOW the 88 entry: 88 FLAG. 99 X PIC X. *)
Theorem C07d_first_88_is_a_parent :
  shape [e88; fe 57 57 nX true] = Ok ([nFLAG; nX], [None; Some 0]).
Proof. exact first_88_parent. Qed.
Print Assumptions C07d_first_88_is_a_parent.

(* ------------------------------------------------------------------ non-vacuity *)
(* the hypotheses of C07d_first_entry_kept / C07d_trigger_exact hold on 88 FLAG. 01 REC. 05 A. 05 B. (special first
   entry) and on 01 REC. 77 W. 88 FLAG. 66 R. 05 A. 05 B. (special entries later only: nothing of them is left) *)
Example C07d_example :
  Forall (fun x => two_digits (elv x) = true) (e88 :: rec01)
  /\ (exists f, structure (e88 :: rec01) = Ok f) /\ first_entry_special (e88 :: rec01) = true
  /\ Forall (fun x => two_digits (elv x) = true) (fe 48 49 nREC false :: e77 :: e88 :: e66 :: items05)
  /\ first_entry_special (fe 48 49 nREC false :: e77 :: e88 :: e66 :: items05) = false
  /\ shape (fe 48 49 nREC false :: e77 :: e88 :: e66 :: items05) = Ok ([nREC; nA; nB], [None; Some 0; Some 0]).
Proof.
  split; [repeat constructor|]. split; [eexists; vm_compute; reflexivity|]. split; [reflexivity|].
  split; [repeat constructor|]. split; [reflexivity|]. exact later_special_nothing.
Qed.
