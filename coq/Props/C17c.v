(* C17, companion: the property's last clause - "any non-empty spreadsheet heading, including one containing line breaks,
   can become a column of a heading-row schema that passes schema validation" - over the model of
   HeadingRowSchemaLoader.header (Model/HeaderRow.v; its keyword list, key expression and enumerate start are regenerated
   from the source on every run, Gen/HeaderRowParams.v) composed with the name_cleaner model.
   What validation demands of such a property beyond this ($anchor matching the anchor pattern, type a known type name,
   title any value, position an unknown keyword) is the real validator's business and is decided on every generated heading
   by the correspondence run of ./check C17 (Draft202012Validator.check_schema on the schema the real loader builds). *)
From Coq Require Import NArith List Bool.
Import ListNotations.
Require Import SR.Base.Res SR.Spec.Anchor SR.Model.NameCleaner SR.Model.HeaderRow SR.Proofs.HeaderRowP SR.Proofs.HeadingAnchorP.

(* For EVERY non-empty text heading, at any column, the loader's property carries the heading as title, type string, its
   column as position and a LEGAL $anchor, namely the cleaned heading. *)
Theorem C17c_heading_property_legal : forall (n : nat) (t : key) (f : key -> res (option cell)),
  t <> [] ->
  exists a,
    eval_props (mk_env (Some (Txt t)) n f) hdr_props
      = Ok [(k_title, V_cell (Some (Txt t))); (k_anchor, V_text a); (k_type, V_text k_string); (k_position, V_int n)]
    /\ anchor_of t = Ok a /\ legal a = true.
Proof. exact heading_keywords. Qed.
Print Assumptions C17c_heading_property_legal.

(* The hypothesis is needed: an empty heading cell is given the empty anchor, which is not legal. *)
Theorem C17c_empty_heading_refuted : forall (n : nat) (f : key -> res (option cell)),
  eval_props (mk_env (Some (Txt [])) n f) hdr_props
    = Ok [(k_title, V_cell (Some (Txt []))); (k_anchor, V_text []); (k_type, V_text k_string); (k_position, V_int n)]
  /\ legal [] = false.
Proof. exact heading_keywords_empty. Qed.
Print Assumptions C17c_empty_heading_refuted.

(* Non-vacuity: the heading  'ZIP' LF 'Code'  at column 2 gets the anchor ZIP_Code. *)
Example C17c_example :
  eval_props (mk_env (Some (Txt [90; 73; 80; 10; 67; 111; 100; 101]%N)) 2 (fun _ => Err OtherError)) hdr_props
  = Ok [(k_title, V_cell (Some (Txt [90; 73; 80; 10; 67; 111; 100; 101]%N)));
        (k_anchor, V_text [90; 73; 80; 95; 67; 111; 100; 101]%N); (k_type, V_text k_string); (k_position, V_int 2)].
Proof. vm_compute. reflexivity. Qed.
