(* C08c - companion of C08, first clause: "every schema produced from a copybook is a valid JSON Schema
   (2020-12 meta-schema)".  Props/C08.v proves a STRUCTURAL predicate on the model tree (C08_valid_shape); here the
   framework's model of the meta-schema, Spec/SchemaTruth.v [valid_schema] (tied to the real
   Draft202012Validator.check_schema on every run by C08's meta and meta-mutated streams), is applied to the
   DOCUMENT the generator emits.

   [build t]   Model/Layout.v: the structure build_json_schema makes of the record description t.
   [doc name_of title_of cobol_of kw_of s]   Model/SchemaDoc.v: the JSON document of s, every keyword the source
               emits in the order it emits them - title, $anchor, cobol, type, contentEncoding, conversion,
               maxLength, minLength, items, maxItems, maxItemsDependsOn {$ref}, properties (ordered), oneOf, $ref.
               The tree carries identifiers; the texts come from four tables: [name_of i] the unique name of entry i
               ($anchor, property name, target of references; a union is anchored REDEFINES-<name>), [title_of i] the
               data name as written, [cobol_of i] the text of the cobol keyword, [kw_of i] the (type,
               contentEncoding, conversion) codes json_type returned for elementary entry i.
               On every C08 run (stream meta) the judge compares this rendering of the model tree, member by member
               and in order, with the document schema_iter emitted - and likewise the extended generator's.
   [wf8 e t]   Proofs/JsonTypeP.v, as in C08_valid_shape: REDEFINES name an earlier non-redefining sibling and are
               no longer than it, none inside a repeated group.
   [legal]     Spec/Anchor.v: the meta-schema's pattern for $anchor.
   [elem_ids t], [idepth t]   the elementary entries of t; the number of levels of t (an elementary item is 1).
   Only property theorems here, each closed by an exact lemma of Proofs/SchemaDocP.v. *)
From Coq Require Import ZArith NArith List Bool.
Import ListNotations.
Require Import SR.Base.Res SR.Spec.Anchor SR.Spec.Layout SR.Model.Layout SR.Spec.SchemaTruth SR.Model.JsonType
  SR.Model.SchemaDoc SR.Spec.DigitNames SR.Proofs.JsonTypeP SR.Proofs.SchemaDocP
  SR.Proofs.SchemaDocNamesP.
Open Scope N_scope.

(* ---- VALID, the standard generator (the one schema_iter uses): for every well-formed record description with
   pairwise distinct names, every table of names that gives each entry a legal anchor, ANY titles and cobol texts,
   and keywords that json_type returns (for some USAGE and PICTURE text) for each elementary entry, the emitted
   document is a valid 2020-12 schema.  The fuel of valid_schema is the nesting it may descend: any amount from
   2 * levels + 1 on is enough (C08c_document_depth). *)
Theorem C08c_emitted_document_valid :
  forall (name_of title_of cobol_of : id -> list N) (kw_of : id -> N * N * N) (e : env) (t : item) (fuel : nat),
  wf8 e t = true -> NoDup (ids_of t) ->
  (forall i, In i (ids_of t) -> legal (name_of i) = true) ->
  (forall i, In i (elem_ids t) -> exists u txt, json_type u txt = Ok (kw_of i)) ->
  (2 * idepth t + 1 <= fuel)%nat ->
  valid_schema fuel (doc name_of title_of cobol_of kw_of (build t)) = true.
Proof. exact emitted_valid. Qed.
Print Assumptions C08c_emitted_document_valid.

(* what is used of json_type: computed from the tables regenerated from the source (Gen/JsonTypeParams.v), every
   type it can choose is one of the meta-schema's simpleTypes *)
Theorem C08c_json_type_simple : forall (u : N) (txt : list N) (k : N * N * N),
  json_type u txt = Ok k -> type_ok k = true.
Proof. exact json_type_simple. Qed.
Print Assumptions C08c_json_type_simple.

(* ... so the same holds for ANY keywords whose type the meta-schema accepts (both generators share
   build_json_schema; [type_ok]: type absent or a simple type) *)
Theorem C08c_emitted_document_valid_types :
  forall (name_of title_of cobol_of : id -> list N) (kw_of : id -> N * N * N) (e : env) (t : item) (fuel : nat),
  wf8 e t = true -> NoDup (ids_of t) ->
  (forall i, In i (ids_of t) -> legal (name_of i) = true) ->
  (forall i, In i (elem_ids t) -> type_ok (kw_of i) = true) ->
  (2 * idepth t + 1 <= fuel)%nat ->
  valid_schema fuel (doc name_of title_of cobol_of kw_of (build t)) = true.
Proof. exact emitted_valid_types. Qed.
Print Assumptions C08c_emitted_document_valid_types.

(* the nesting of the emitted document: at most two levels of sub-schemas per level of the description, plus one *)
Theorem C08c_document_depth : forall t : item, (jdepth (build t) <= 2 * idepth t + 1)%nat.
Proof. exact (proj1 build_depth). Qed.
Print Assumptions C08c_document_depth.

(* ---- the rendering of ANY structure tree (not only the ones build makes) is valid when every oneOf has an
   alternative ([shape_ok], Spec/SchemaTruth.v), every $anchor it bears is legal and every elementary sub-schema
   has an acceptable type: the three facts the theorems above establish for [build t] *)
Theorem C08c_document_valid_js :
  forall (name_of title_of cobol_of : id -> list N) (kw_of : id -> N * N * N) (s : js) (inner : bool) (fuel : nat),
  shape_ok s = true ->
  (forall k, In k (anchors_of s) -> legal (key_text name_of k) = true) ->
  (forall k, In k (atom_keys s) -> type_ok (kw_of (key_id k)) = true) ->
  (jdepth s <= fuel)%nat ->
  valid_schema fuel (doc_of name_of title_of cobol_of kw_of inner s) = true.
Proof. intros n ti c k. exact (proj1 (doc_valid_js n ti c k)). Qed.
Print Assumptions C08c_document_valid_js.

(* ---- the hypothesis on names is needed: a record whose own name is not a legal anchor has an invalid document,
   whatever the rest *)
Theorem C08c_name_needed :
  forall (name_of title_of cobol_of : id -> list N) (kw_of : id -> N * N * N) (i : id) (oc : occ) (rd : option id)
         (ks : items) (fuel : nat),
  legal (name_of i) = false ->
  valid_schema fuel (doc name_of title_of cobol_of kw_of (build (Group i oc rd ks))) = false.
Proof. exact root_name_needed. Qed.
Print Assumptions C08c_name_needed.

(* ---- the EXTENDED-VOCABULARY generator (same build_json_schema, json_type_ext's keywords).  Its type decimal is
   outside the standard meta-schema by design (property text), so the full statement is false; it holds for the
   descriptions in which no item is typed decimal. *)
Definition C08c_extended_document_valid_full : Prop :=
  forall (name_of title_of cobol_of : id -> list N) (kw_of : id -> N * N * N) (e : env) (t : item) (fuel : nat),
  wf8 e t = true -> NoDup (ids_of t) ->
  (forall i, In i (ids_of t) -> legal (name_of i) = true) ->
  (forall i, In i (elem_ids t) -> exists u txt, json_type_ext u txt = Ok (kw_of i)) ->
  (2 * idepth t + 1 <= fuel)%nat ->
  valid_schema fuel (doc name_of title_of cobol_of kw_of (build t)) = true.

Theorem C08c_extended_document_valid_partial :
  forall (name_of title_of cobol_of : id -> list N) (kw_of : id -> N * N * N) (e : env) (t : item) (fuel : nat),
  wf8 e t = true -> NoDup (ids_of t) ->
  (forall i, In i (ids_of t) -> legal (name_of i) = true) ->
  (forall i, In i (elem_ids t) -> (exists u txt, json_type_ext u txt = Ok (kw_of i)) /\ is_decimal_kw (kw_of i) = false) ->
  (2 * idepth t + 1 <= fuel)%nat ->
  valid_schema fuel (doc name_of title_of cobol_of kw_of (build t)) = true.
Proof. exact emitted_valid_ext. Qed.
Print Assumptions C08c_extended_document_valid_partial.

(* 01 R. 05 A PIC S9(3) COMP-3.  -  the extended generator types A decimal: {"type": "decimal"} is refused *)
Definition ext_tree : item := Group 1 Once None (ICons (Elem 2 2 Once None) INil).
Definition ext_name (i : id) : list N := if (i =? 1)%N then [82] else [65].
Definition ext_kw (i : id) : N * N * N := match json_type_ext 8 [83; 57; 40; 51; 41] with Ok k => k | Err _ => (0, 0, 0)%N end.
Theorem C08c_extended_refuted :
  json_type_ext 8 [83; 57; 40; 51; 41] = Ok (4, 0, 0)%N
  /\ valid_schema 5 (doc ext_name ext_name ext_name ext_kw (build ext_tree)) = false
  /\ ~ C08c_extended_document_valid_full.
Proof.
  split; [vm_compute; reflexivity|]. split; [vm_compute; reflexivity|].
  intros H. specialize (H ext_name ext_name ext_name ext_kw (fun _ => 0%nat) ext_tree 5%nat).
  assert (E : valid_schema 5 (doc ext_name ext_name ext_name ext_kw (build ext_tree)) = true).
  { apply H.
    - vm_compute; reflexivity.
    - vm_compute. repeat constructor; cbn; intuition discriminate.
    - intros i Hi. vm_compute in Hi. destruct Hi as [<-|[<-|[]]]; vm_compute; reflexivity.
    - intros i Hi. exists 8%N, [83; 57; 40; 51; 41]%N. vm_compute. reflexivity.
    - vm_compute. repeat constructor. }
  vm_compute in E. discriminate.
Qed.
Print Assumptions C08c_extended_refuted.

(* ---- non-vacuity ----
   The record description below, with a group, a REDEFINES union of three members (one of them a group), an
   elementary OCCURS table, a group OCCURS table, an elementary and a group OCCURS DEPENDING ON table, a FILLER,
   and DISPLAY text / DISPLAY numeric / packed / binary items:
     01 R.  05 C PIC 9.  05 A PIC X(4).  05 B REDEFINES A PIC S9(5) USAGE COMP-3.  05 G REDEFINES A.
     10 G1 PIC S9(3) USAGE BINARY.  10 G2 PIC S99 USAGE COMP.  05 E PIC X OCCURS 2 TIMES.  05 T OCCURS 3 TIMES.
     10 T1 PIC 999.  10 T2 PIC S99V9 USAGE PACKED-DECIMAL.  05 V PIC XX OCCURS 0 TO 5 TIMES DEPENDING ON C.
     05 W OCCURS 1 TO 4 TIMES DEPENDING ON C.  10 W1 PIC S9(5) USAGE COMP.  10 FILLER PIC X(2).
   [ex_document] is the document schema_iter of /repo emits for it, transcribed by a script (check_schema accepts
   it); the tables are what the copybook says. *)
Definition ex_tree : item :=
  Group 1 Once None
   (ICons (Elem 2 1 Once None)
   (ICons (Elem 3 4 Once None)
   (ICons (Elem 4 3 Once (Some 3%N))
   (ICons (Group 5 Once (Some 3%N) (ICons (Elem 6 2 Once None) (ICons (Elem 7 2 Once None) INil)))
   (ICons (Elem 8 1 (Times 2) None)
   (ICons (Group 9 (Times 3) None (ICons (Elem 10 3 Once None) (ICons (Elem 11 2 Once None) INil)))
   (ICons (Elem 12 2 (Odo 2) None)
   (ICons (Group 13 (Odo 2) None (ICons (Elem 14 4 Once None) (ICons (Elem 15 2 Once None) INil)))
    INil)))))))).
Definition ex_name (i : id) : list N :=
  match i with
  | 1 => [82]
  | 2 => [67]
  | 3 => [65]
  | 4 => [66]
  | 5 => [71]
  | 6 => [71; 49]
  | 7 => [71; 50]
  | 8 => [69]
  | 9 => [84]
  | 10 => [84; 49]
  | 11 => [84; 50]
  | 12 => [86]
  | 13 => [87]
  | 14 => [87; 49]
  | 15 => [70; 73; 76; 76; 69; 82; 45; 49]
  | _ => []
  end%N.
Definition ex_title (i : id) : list N :=
  match i with
  | 1 => [82]
  | 2 => [67]
  | 3 => [65]
  | 4 => [66]
  | 5 => [71]
  | 6 => [71; 49]
  | 7 => [71; 50]
  | 8 => [69]
  | 9 => [84]
  | 10 => [84; 49]
  | 11 => [84; 50]
  | 12 => [86]
  | 13 => [87]
  | 14 => [87; 49]
  | 15 => [70; 73; 76; 76; 69; 82]
  | _ => []
  end%N.
Definition ex_cobol (i : id) : list N :=
  match i with
  | 1 => [48; 49; 32; 82]
  | 2 => [48; 53; 32; 67; 32; 80; 73; 67; 32; 57]
  | 3 => [48; 53; 32; 65; 32; 80; 73; 67; 32; 88; 40; 52; 41]
  | 4 => [48; 53; 32; 66; 32; 82; 69; 68; 69; 70; 73; 78; 69; 83; 32; 65; 32; 80; 73; 67; 32; 83; 57; 40; 53; 41; 32; 85; 83; 65; 71; 69; 32; 67; 79; 77; 80; 45; 51]
  | 5 => [48; 53; 32; 71; 32; 82; 69; 68; 69; 70; 73; 78; 69; 83; 32; 65]
  | 6 => [49; 48; 32; 71; 49; 32; 80; 73; 67; 32; 83; 57; 40; 51; 41; 32; 85; 83; 65; 71; 69; 32; 66; 73; 78; 65; 82; 89]
  | 7 => [49; 48; 32; 71; 50; 32; 80; 73; 67; 32; 83; 57; 57; 32; 85; 83; 65; 71; 69; 32; 67; 79; 77; 80]
  | 8 => [48; 53; 32; 69; 32; 80; 73; 67; 32; 88; 32; 79; 67; 67; 85; 82; 83; 32; 50; 32; 84; 73; 77; 69; 83]
  | 9 => [48; 53; 32; 84; 32; 79; 67; 67; 85; 82; 83; 32; 51; 32; 84; 73; 77; 69; 83]
  | 10 => [49; 48; 32; 84; 49; 32; 80; 73; 67; 32; 57; 57; 57]
  | 11 => [49; 48; 32; 84; 50; 32; 80; 73; 67; 32; 83; 57; 57; 86; 57; 32; 85; 83; 65; 71; 69; 32; 80; 65; 67; 75; 69; 68; 45; 68; 69; 67; 73; 77; 65; 76]
  | 12 => [48; 53; 32; 86; 32; 80; 73; 67; 32; 88; 88; 32; 79; 67; 67; 85; 82; 83; 32; 48; 32; 84; 79; 32; 53; 32; 84; 73; 77; 69; 83; 32; 68; 69; 80; 69; 78; 68; 73; 78; 71; 32; 79; 78; 32; 67]
  | 13 => [48; 53; 32; 87; 32; 79; 67; 67; 85; 82; 83; 32; 49; 32; 84; 79; 32; 52; 32; 84; 73; 77; 69; 83; 32; 68; 69; 80; 69; 78; 68; 73; 78; 71; 32; 79; 78; 32; 67]
  | 14 => [49; 48; 32; 87; 49; 32; 80; 73; 67; 32; 83; 57; 40; 53; 41; 32; 85; 83; 65; 71; 69; 32; 67; 79; 77; 80]
  | 15 => [49; 48; 32; 70; 73; 76; 76; 69; 82; 32; 80; 73; 67; 32; 88; 40; 50; 41]
  | _ => []
  end%N.
Definition ex_pic (i : id) : list N :=
  match i with
  | 1 => []
  | 2 => [57]
  | 3 => [88; 40; 52; 41]
  | 4 => [83; 57; 40; 53; 41]
  | 5 => []
  | 6 => [83; 57; 40; 51; 41]
  | 7 => [83; 57; 57]
  | 8 => [88]
  | 9 => []
  | 10 => [57; 57; 57]
  | 11 => [83; 57; 57; 86; 57]
  | 12 => [88; 88]
  | 13 => []
  | 14 => [83; 57; 40; 53; 41]
  | 15 => [88; 40; 50; 41]
  | _ => []
  end%N.
Definition ex_usage (i : id) : N :=
  match i with
  | 1 => 11
  | 2 => 11
  | 3 => 11
  | 4 => 8
  | 5 => 11
  | 6 => 0
  | 7 => 10
  | 8 => 11
  | 9 => 11
  | 10 => 11
  | 11 => 12
  | 12 => 11
  | 13 => 11
  | 14 => 10
  | 15 => 11
  | _ => 11
  end%N.
Definition ex_document : jval :=
  VMap [([116; 105; 116; 108; 101], VText [82]);
    ([36; 97; 110; 99; 104; 111; 114], VText [82]);
    ([99; 111; 98; 111; 108], VText [48; 49; 32; 82]);
    ([116; 121; 112; 101], VText [111; 98; 106; 101; 99; 116]);
    ([112; 114; 111; 112; 101; 114; 116; 105; 101; 115], VMap [([67], VMap [([116; 105; 116; 108; 101], VText [67]);
        ([36; 97; 110; 99; 104; 111; 114], VText [67]);
        ([99; 111; 98; 111; 108], VText [48; 53; 32; 67; 32; 80; 73; 67; 32; 57]);
        ([116; 121; 112; 101], VText [115; 116; 114; 105; 110; 103]);
        ([99; 111; 110; 116; 101; 110; 116; 69; 110; 99; 111; 100; 105; 110; 103], VText [99; 112; 48; 51; 55]);
        ([99; 111; 110; 118; 101; 114; 115; 105; 111; 110], VText [100; 101; 99; 105; 109; 97; 108]);
        ([109; 97; 120; 76; 101; 110; 103; 116; 104], VNum 1);
        ([109; 105; 110; 76; 101; 110; 103; 116; 104], VNum 1)]);
      ([82; 69; 68; 69; 70; 73; 78; 69; 83; 45; 65], VMap [([111; 110; 101; 79; 102], VArr [VMap [([116; 105; 116; 108; 101], VText [65]);
            ([36; 97; 110; 99; 104; 111; 114], VText [65]);
            ([99; 111; 98; 111; 108], VText [48; 53; 32; 65; 32; 80; 73; 67; 32; 88; 40; 52; 41]);
            ([116; 121; 112; 101], VText [115; 116; 114; 105; 110; 103]);
            ([99; 111; 110; 116; 101; 110; 116; 69; 110; 99; 111; 100; 105; 110; 103], VText [99; 112; 48; 51; 55]);
            ([109; 97; 120; 76; 101; 110; 103; 116; 104], VNum 4);
            ([109; 105; 110; 76; 101; 110; 103; 116; 104], VNum 4)]
          ; VMap [([116; 105; 116; 108; 101], VText [66]);
            ([36; 97; 110; 99; 104; 111; 114], VText [66]);
            ([99; 111; 98; 111; 108], VText [48; 53; 32; 66; 32; 82; 69; 68; 69; 70; 73; 78; 69; 83; 32; 65; 32; 80; 73; 67; 32; 83; 57; 40; 53; 41; 32; 85; 83; 65; 71; 69; 32; 67; 79; 77; 80; 45; 51]);
            ([116; 121; 112; 101], VText [115; 116; 114; 105; 110; 103]);
            ([99; 111; 110; 116; 101; 110; 116; 69; 110; 99; 111; 100; 105; 110; 103], VText [112; 97; 99; 107; 101; 100; 45; 100; 101; 99; 105; 109; 97; 108]);
            ([99; 111; 110; 118; 101; 114; 115; 105; 111; 110], VText [100; 101; 99; 105; 109; 97; 108]);
            ([109; 97; 120; 76; 101; 110; 103; 116; 104], VNum 3);
            ([109; 105; 110; 76; 101; 110; 103; 116; 104], VNum 3)]
          ; VMap [([116; 105; 116; 108; 101], VText [71]);
            ([36; 97; 110; 99; 104; 111; 114], VText [71]);
            ([99; 111; 98; 111; 108], VText [48; 53; 32; 71; 32; 82; 69; 68; 69; 70; 73; 78; 69; 83; 32; 65]);
            ([116; 121; 112; 101], VText [111; 98; 106; 101; 99; 116]);
            ([112; 114; 111; 112; 101; 114; 116; 105; 101; 115], VMap [([71; 49], VMap [([116; 105; 116; 108; 101], VText [71; 49]);
                ([36; 97; 110; 99; 104; 111; 114], VText [71; 49]);
                ([99; 111; 98; 111; 108], VText [49; 48; 32; 71; 49; 32; 80; 73; 67; 32; 83; 57; 40; 51; 41; 32; 85; 83; 65; 71; 69; 32; 66; 73; 78; 65; 82; 89]);
                ([116; 121; 112; 101], VText [105; 110; 116; 101; 103; 101; 114]);
                ([99; 111; 110; 116; 101; 110; 116; 69; 110; 99; 111; 100; 105; 110; 103], VText [98; 105; 103; 101; 110; 100; 105; 97; 110; 45; 105; 110; 116]);
                ([109; 97; 120; 76; 101; 110; 103; 116; 104], VNum 2);
                ([109; 105; 110; 76; 101; 110; 103; 116; 104], VNum 2)]);
              ([71; 50], VMap [([116; 105; 116; 108; 101], VText [71; 50]);
                ([36; 97; 110; 99; 104; 111; 114], VText [71; 50]);
                ([99; 111; 98; 111; 108], VText [49; 48; 32; 71; 50; 32; 80; 73; 67; 32; 83; 57; 57; 32; 85; 83; 65; 71; 69; 32; 67; 79; 77; 80]);
                ([116; 121; 112; 101], VText [105; 110; 116; 101; 103; 101; 114]);
                ([99; 111; 110; 116; 101; 110; 116; 69; 110; 99; 111; 100; 105; 110; 103], VText [98; 105; 103; 101; 110; 100; 105; 97; 110; 45; 105; 110; 116]);
                ([109; 97; 120; 76; 101; 110; 103; 116; 104], VNum 2);
                ([109; 105; 110; 76; 101; 110; 103; 116; 104], VNum 2)])])]]);
        ([36; 97; 110; 99; 104; 111; 114], VText [82; 69; 68; 69; 70; 73; 78; 69; 83; 45; 65])]);
      ([65], VMap [([116; 105; 116; 108; 101], VText [65]);
        ([99; 111; 98; 111; 108], VText [48; 53; 32; 65; 32; 80; 73; 67; 32; 88; 40; 52; 41]);
        ([36; 114; 101; 102], VText [35; 65])]);
      ([66], VMap [([116; 105; 116; 108; 101], VText [66]);
        ([99; 111; 98; 111; 108], VText [48; 53; 32; 66; 32; 82; 69; 68; 69; 70; 73; 78; 69; 83; 32; 65; 32; 80; 73; 67; 32; 83; 57; 40; 53; 41; 32; 85; 83; 65; 71; 69; 32; 67; 79; 77; 80; 45; 51]);
        ([36; 114; 101; 102], VText [35; 66])]);
      ([71], VMap [([116; 105; 116; 108; 101], VText [71]);
        ([99; 111; 98; 111; 108], VText [48; 53; 32; 71; 32; 82; 69; 68; 69; 70; 73; 78; 69; 83; 32; 65]);
        ([36; 114; 101; 102], VText [35; 71])]);
      ([69], VMap [([116; 105; 116; 108; 101], VText [69]);
        ([99; 111; 98; 111; 108], VText [48; 53; 32; 69; 32; 80; 73; 67; 32; 88; 32; 79; 67; 67; 85; 82; 83; 32; 50; 32; 84; 73; 77; 69; 83]);
        ([116; 121; 112; 101], VText [97; 114; 114; 97; 121]);
        ([105; 116; 101; 109; 115], VMap [([116; 121; 112; 101], VText [111; 98; 106; 101; 99; 116]);
          ([112; 114; 111; 112; 101; 114; 116; 105; 101; 115], VMap [([69], VMap [([36; 97; 110; 99; 104; 111; 114], VText [69]);
              ([99; 111; 98; 111; 108], VText [48; 53; 32; 69; 32; 80; 73; 67; 32; 88; 32; 79; 67; 67; 85; 82; 83; 32; 50; 32; 84; 73; 77; 69; 83]);
              ([116; 121; 112; 101], VText [115; 116; 114; 105; 110; 103]);
              ([99; 111; 110; 116; 101; 110; 116; 69; 110; 99; 111; 100; 105; 110; 103], VText [99; 112; 48; 51; 55])])])]);
        ([109; 97; 120; 73; 116; 101; 109; 115], VNum 2)]);
      ([84], VMap [([116; 105; 116; 108; 101], VText [84]);
        ([99; 111; 98; 111; 108], VText [48; 53; 32; 84; 32; 79; 67; 67; 85; 82; 83; 32; 51; 32; 84; 73; 77; 69; 83]);
        ([116; 121; 112; 101], VText [97; 114; 114; 97; 121]);
        ([105; 116; 101; 109; 115], VMap [([116; 121; 112; 101], VText [111; 98; 106; 101; 99; 116]);
          ([112; 114; 111; 112; 101; 114; 116; 105; 101; 115], VMap [([84; 49], VMap [([116; 105; 116; 108; 101], VText [84; 49]);
              ([36; 97; 110; 99; 104; 111; 114], VText [84; 49]);
              ([99; 111; 98; 111; 108], VText [49; 48; 32; 84; 49; 32; 80; 73; 67; 32; 57; 57; 57]);
              ([116; 121; 112; 101], VText [115; 116; 114; 105; 110; 103]);
              ([99; 111; 110; 116; 101; 110; 116; 69; 110; 99; 111; 100; 105; 110; 103], VText [99; 112; 48; 51; 55]);
              ([99; 111; 110; 118; 101; 114; 115; 105; 111; 110], VText [100; 101; 99; 105; 109; 97; 108]);
              ([109; 97; 120; 76; 101; 110; 103; 116; 104], VNum 3);
              ([109; 105; 110; 76; 101; 110; 103; 116; 104], VNum 3)]);
            ([84; 50], VMap [([116; 105; 116; 108; 101], VText [84; 50]);
              ([36; 97; 110; 99; 104; 111; 114], VText [84; 50]);
              ([99; 111; 98; 111; 108], VText [49; 48; 32; 84; 50; 32; 80; 73; 67; 32; 83; 57; 57; 86; 57; 32; 85; 83; 65; 71; 69; 32; 80; 65; 67; 75; 69; 68; 45; 68; 69; 67; 73; 77; 65; 76]);
              ([116; 121; 112; 101], VText [115; 116; 114; 105; 110; 103]);
              ([99; 111; 110; 116; 101; 110; 116; 69; 110; 99; 111; 100; 105; 110; 103], VText [112; 97; 99; 107; 101; 100; 45; 100; 101; 99; 105; 109; 97; 108]);
              ([99; 111; 110; 118; 101; 114; 115; 105; 111; 110], VText [100; 101; 99; 105; 109; 97; 108]);
              ([109; 97; 120; 76; 101; 110; 103; 116; 104], VNum 2);
              ([109; 105; 110; 76; 101; 110; 103; 116; 104], VNum 2)])])]);
        ([109; 97; 120; 73; 116; 101; 109; 115], VNum 3);
        ([36; 97; 110; 99; 104; 111; 114], VText [84])]);
      ([86], VMap [([116; 105; 116; 108; 101], VText [86]);
        ([99; 111; 98; 111; 108], VText [48; 53; 32; 86; 32; 80; 73; 67; 32; 88; 88; 32; 79; 67; 67; 85; 82; 83; 32; 48; 32; 84; 79; 32; 53; 32; 84; 73; 77; 69; 83; 32; 68; 69; 80; 69; 78; 68; 73; 78; 71; 32; 79; 78; 32; 67]);
        ([116; 121; 112; 101], VText [97; 114; 114; 97; 121]);
        ([105; 116; 101; 109; 115], VMap [([116; 121; 112; 101], VText [111; 98; 106; 101; 99; 116]);
          ([112; 114; 111; 112; 101; 114; 116; 105; 101; 115], VMap [([86], VMap [([36; 97; 110; 99; 104; 111; 114], VText [86]);
              ([99; 111; 98; 111; 108], VText [48; 53; 32; 86; 32; 80; 73; 67; 32; 88; 88; 32; 79; 67; 67; 85; 82; 83; 32; 48; 32; 84; 79; 32; 53; 32; 84; 73; 77; 69; 83; 32; 68; 69; 80; 69; 78; 68; 73; 78; 71; 32; 79; 78; 32; 67]);
              ([116; 121; 112; 101], VText [115; 116; 114; 105; 110; 103]);
              ([99; 111; 110; 116; 101; 110; 116; 69; 110; 99; 111; 100; 105; 110; 103], VText [99; 112; 48; 51; 55])])])]);
        ([109; 97; 120; 73; 116; 101; 109; 115; 68; 101; 112; 101; 110; 100; 115; 79; 110], VMap [([36; 114; 101; 102], VText [35; 67])])]);
      ([87], VMap [([116; 105; 116; 108; 101], VText [87]);
        ([99; 111; 98; 111; 108], VText [48; 53; 32; 87; 32; 79; 67; 67; 85; 82; 83; 32; 49; 32; 84; 79; 32; 52; 32; 84; 73; 77; 69; 83; 32; 68; 69; 80; 69; 78; 68; 73; 78; 71; 32; 79; 78; 32; 67]);
        ([116; 121; 112; 101], VText [97; 114; 114; 97; 121]);
        ([105; 116; 101; 109; 115], VMap [([116; 121; 112; 101], VText [111; 98; 106; 101; 99; 116]);
          ([112; 114; 111; 112; 101; 114; 116; 105; 101; 115], VMap [([87; 49], VMap [([116; 105; 116; 108; 101], VText [87; 49]);
              ([36; 97; 110; 99; 104; 111; 114], VText [87; 49]);
              ([99; 111; 98; 111; 108], VText [49; 48; 32; 87; 49; 32; 80; 73; 67; 32; 83; 57; 40; 53; 41; 32; 85; 83; 65; 71; 69; 32; 67; 79; 77; 80]);
              ([116; 121; 112; 101], VText [105; 110; 116; 101; 103; 101; 114]);
              ([99; 111; 110; 116; 101; 110; 116; 69; 110; 99; 111; 100; 105; 110; 103], VText [98; 105; 103; 101; 110; 100; 105; 97; 110; 45; 105; 110; 116]);
              ([109; 97; 120; 76; 101; 110; 103; 116; 104], VNum 4);
              ([109; 105; 110; 76; 101; 110; 103; 116; 104], VNum 4)]);
            ([70; 73; 76; 76; 69; 82; 45; 49], VMap [([116; 105; 116; 108; 101], VText [70; 73; 76; 76; 69; 82]);
              ([36; 97; 110; 99; 104; 111; 114], VText [70; 73; 76; 76; 69; 82; 45; 49]);
              ([99; 111; 98; 111; 108], VText [49; 48; 32; 70; 73; 76; 76; 69; 82; 32; 80; 73; 67; 32; 88; 40; 50; 41]);
              ([116; 121; 112; 101], VText [115; 116; 114; 105; 110; 103]);
              ([99; 111; 110; 116; 101; 110; 116; 69; 110; 99; 111; 100; 105; 110; 103], VText [99; 112; 48; 51; 55]);
              ([109; 97; 120; 76; 101; 110; 103; 116; 104], VNum 2);
              ([109; 105; 110; 76; 101; 110; 103; 116; 104], VNum 2)])])]);
        ([109; 97; 120; 73; 116; 101; 109; 115; 68; 101; 112; 101; 110; 100; 115; 79; 110], VMap [([36; 114; 101; 102], VText [35; 67])]);
        ([36; 97; 110; 99; 104; 111; 114], VText [87])])])].

Definition ex_kw (i : id) : N * N * N :=
  match json_type (ex_usage i) (ex_pic i) with Ok k => k | Err _ => (0, 0, 0)%N end.

(* the hypotheses of C08c_emitted_document_valid hold of it ... *)
Example C08c_example_hypotheses :
  wf8 (fun _ => 0%nat) ex_tree = true /\ NoDup (ids_of ex_tree)
  /\ (forall i, In i (ids_of ex_tree) -> legal (ex_name i) = true)
  /\ (forall i, In i (elem_ids ex_tree) -> exists u txt, json_type u txt = Ok (ex_kw i))
  /\ idepth ex_tree = 3%nat /\ jdepth (build ex_tree) = 4%nat.
Proof.
  split; [vm_compute; reflexivity|]. split; [vm_compute; repeat constructor; cbn; intuition discriminate|].
  split; [intros i Hi; vm_compute in Hi; repeat (destruct Hi as [<-|Hi]; [vm_compute; reflexivity|]); destruct Hi|].
  split; [|split; vm_compute; reflexivity].
  intros i Hi. exists (ex_usage i), (ex_pic i).
  vm_compute in Hi. repeat (destruct Hi as [<-|Hi]; [vm_compute; reflexivity|]). destruct Hi.
Qed.

(* ... its rendering IS the document /repo emits, and the document is valid (by computation, and by the theorem) *)
Example C08c_example_rendering :
  doc ex_name ex_title ex_cobol ex_kw (build ex_tree) = ex_document
  /\ valid_schema 7 ex_document = true /\ valid_schema 4 ex_document = true /\ valid_schema 3 ex_document = false.
Proof. vm_compute. repeat split; reflexivity. Qed.

Example C08c_example_by_theorem : valid_schema 7 (doc ex_name ex_title ex_cobol ex_kw (build ex_tree)) = true.
Proof.
  destruct C08c_example_hypotheses as [A [B [C [D _]]]].
  apply (C08c_emitted_document_valid ex_name ex_title ex_cobol ex_kw (fun _ => 0%nat) ex_tree 7 A B C D).
  vm_compute. repeat constructor.
Qed.

(* the same description with the record named 1R (not a legal anchor): every other hypothesis holds, the document
   is invalid *)
Definition bad_name (i : id) : list N := if (i =? 1)%N then [49; 82] else ex_name i.
Example C08c_example_name_refuted :
  legal (bad_name 1) = false
  /\ (forall i, In i (ids_of ex_tree) -> i <> 1%N -> legal (bad_name i) = true)
  /\ valid_schema 7 (doc bad_name ex_title ex_cobol ex_kw (build ex_tree)) = false.
Proof.
  split; [vm_compute; reflexivity|]. split; [|vm_compute; reflexivity].
  intros i Hi Hne. vm_compute in Hi.
  destruct Hi as [<-|Hi]; [congruence|]. repeat (destruct Hi as [<-|Hi]; [vm_compute; reflexivity|]). destruct Hi.
Qed.

(* an inner name that is not a legal anchor (T1 named with a blank) is enough as well *)
Definition bad_inner (i : id) : list N := if (i =? 10)%N then [84; 32; 49] else ex_name i.
Example C08c_example_inner_name_refuted :
  valid_schema 7 (doc bad_inner ex_title ex_cobol ex_kw (build ex_tree)) = false.
Proof. vm_compute. reflexivity. Qed.

(* ==================================================================================================================
   KNOWN FINDING K-digit-first-name.  A COBOL data name needs one letter SOMEWHERE, not first: 05 9A PIC X. and
   05 1ST-NAME PIC X(10). are legal COBOL, the generator copies the name into $anchor unchanged, and the meta-schema's
   pattern for $anchor refuses a text that begins with a digit: Draft202012Validator.check_schema raises SchemaError on
   the emitted document.  [cobol_name], [digit_first]: Spec/DigitNames.v.

   The exact boundary: a valid document NEEDS every name of the description to be a legal anchor - for every
   description, all keywords and any fuel (this generalises C08c_name_needed from the record's own name to every
   name) ... *)
Theorem C08c_valid_needs_legal_names :
  forall (name_of title_of cobol_of : id -> list N) (kw_of : id -> N * N * N) (t : item) (fuel : nat),
  valid_schema fuel (doc name_of title_of cobol_of kw_of (build t)) = true ->
  forall i, In i (ids_of t) -> legal (name_of i) = true.
Proof. exact emitted_needs_legal. Qed.
Print Assumptions C08c_valid_needs_legal_names.

(* ... so under the other hypotheses of C08c_emitted_document_valid the emitted document is valid EXACTLY when every
   name is a legal anchor *)
Theorem C08c_valid_iff_names_legal :
  forall (name_of title_of cobol_of : id -> list N) (kw_of : id -> N * N * N) (e : env) (t : item) (fuel : nat),
  wf8 e t = true -> NoDup (ids_of t) ->
  (forall i, In i (elem_ids t) -> exists u txt, json_type u txt = Ok (kw_of i)) ->
  (2 * idepth t + 1 <= fuel)%nat ->
  (valid_schema fuel (doc name_of title_of cobol_of kw_of (build t)) = true
   <-> forall i, In i (ids_of t) -> legal (name_of i) = true).
Proof. exact emitted_valid_iff. Qed.
Print Assumptions C08c_valid_iff_names_legal.

(* the same for the rendering of ANY structure tree: valid exactly when every $anchor it bears is legal *)
Theorem C08c_document_valid_iff_anchors_legal :
  forall (name_of title_of cobol_of : id -> list N) (kw_of : id -> N * N * N) (s : js) (inner : bool) (fuel : nat),
  shape_ok s = true ->
  (forall k, In k (atom_keys s) -> type_ok (kw_of (key_id k)) = true) ->
  (jdepth s <= fuel)%nat ->
  (valid_schema fuel (doc_of name_of title_of cobol_of kw_of inner s) = true
   <-> forall k, In k (anchors_of s) -> legal (key_text name_of k) = true).
Proof. exact valid_iff_anchors. Qed.
Print Assumptions C08c_document_valid_iff_anchors_legal.

(* among COBOL data names the illegal anchors are exactly the names that begin with a digit ... *)
Theorem C08c_cobol_name_legal_iff : forall s : list N, cobol_name s = true -> legal s = negb (digit_first s).
Proof. exact cobol_name_legal. Qed.
Print Assumptions C08c_cobol_name_legal_iff.

(* ... so for copybooks (every name a COBOL data name) the emitted document is valid EXACTLY when no data name begins
   with a digit: the trigger set of K-digit-first-name is exact *)
Theorem C08c_valid_iff_no_digit_first :
  forall (name_of title_of cobol_of : id -> list N) (kw_of : id -> N * N * N) (e : env) (t : item) (fuel : nat),
  wf8 e t = true -> NoDup (ids_of t) ->
  (forall i, In i (ids_of t) -> cobol_name (name_of i) = true) ->
  (forall i, In i (elem_ids t) -> exists u txt, json_type u txt = Ok (kw_of i)) ->
  (2 * idepth t + 1 <= fuel)%nat ->
  (valid_schema fuel (doc name_of title_of cobol_of kw_of (build t)) = true
   <-> forall i, In i (ids_of t) -> digit_first (name_of i) = false).
Proof. exact emitted_valid_iff_cobol. Qed.
Print Assumptions C08c_valid_iff_no_digit_first.

(* The full validity statement - every well-formed record description with COBOL data names yields a valid schema,
   i.e. C08c_emitted_document_valid with "names are COBOL data names" in place of "names are legal anchors" - kept
   visible, and FALSE of the code as it is. *)
Definition C08c_emitted_document_valid_full : Prop :=
  forall (name_of title_of cobol_of : id -> list N) (kw_of : id -> N * N * N) (e : env) (t : item) (fuel : nat),
  wf8 e t = true -> NoDup (ids_of t) ->
  (forall i, In i (ids_of t) -> cobol_name (name_of i) = true) ->
  (forall i, In i (elem_ids t) -> exists u txt, json_type u txt = Ok (kw_of i)) ->
  (2 * idepth t + 1 <= fuel)%nat ->
  valid_schema fuel (doc name_of title_of cobol_of kw_of (build t)) = true.

(* 01 R.  05 9A PIC X.   [dg_document] is the document schema_iter of /repo emits for it, transcribed by a script;
   check_schema raises SchemaError: '9A' does not match the pattern of $anchor *)
Definition dg_tree : item := Group 1 Once None (ICons (Elem 2 1 Once None) INil).
Definition dg_name (i : id) : list N := if (i =? 1)%N then [82] else [57; 65].
Definition dg_cobol (i : id) : list N :=
  if (i =? 1)%N then [48; 49; 32; 82] else [48; 53; 32; 57; 65; 32; 80; 73; 67; 32; 88].
Definition dg_kw (i : id) : N * N * N := match json_type 11 [88] with Ok k => k | Err _ => (0, 0, 0)%N end.
Definition dg_document : jval :=
  VMap [([116; 105; 116; 108; 101], VText [82]);
    ([36; 97; 110; 99; 104; 111; 114], VText [82]);
    ([99; 111; 98; 111; 108], VText [48; 49; 32; 82]);
    ([116; 121; 112; 101], VText [111; 98; 106; 101; 99; 116]);
    ([112; 114; 111; 112; 101; 114; 116; 105; 101; 115], VMap [([57; 65], VMap [([116; 105; 116; 108; 101], VText [57; 65]);
        ([36; 97; 110; 99; 104; 111; 114], VText [57; 65]);
        ([99; 111; 98; 111; 108], VText [48; 53; 32; 57; 65; 32; 80; 73; 67; 32; 88]);
        ([116; 121; 112; 101], VText [115; 116; 114; 105; 110; 103]);
        ([99; 111; 110; 116; 101; 110; 116; 69; 110; 99; 111; 100; 105; 110; 103], VText [99; 112; 48; 51; 55]);
        ([109; 97; 120; 76; 101; 110; 103; 116; 104], VNum 1);
        ([109; 105; 110; 76; 101; 110; 103; 116; 104], VNum 1)])])].

Theorem C08c_digit_first_refuted :
  cobol_name [57; 65] = true /\ digit_first [57; 65] = true /\ legal [57; 65] = false
  /\ doc dg_name dg_name dg_cobol dg_kw (build dg_tree) = dg_document
  /\ (forall fuel, valid_schema fuel dg_document = false)
  /\ valid_schema 3 (fix_anchors 3 dg_document) = true
  /\ ~ C08c_emitted_document_valid_full.
Proof.
  split; [vm_compute; reflexivity|]. split; [vm_compute; reflexivity|]. split; [vm_compute; reflexivity|].
  assert (R : doc dg_name dg_name dg_cobol dg_kw (build dg_tree) = dg_document) by (vm_compute; reflexivity).
  assert (V : forall fuel, valid_schema fuel dg_document = false).
  { intros fuel. destruct (valid_schema fuel dg_document) eqn:E; [|reflexivity]. rewrite <- R in E.
    pose proof (C08c_valid_needs_legal_names dg_name dg_name dg_cobol dg_kw dg_tree fuel E 2%N) as L.
    assert (I : In 2%N (ids_of dg_tree)) by (vm_compute; auto). specialize (L I). vm_compute in L. discriminate. }
  split; [exact R|]. split; [exact V|]. split; [vm_compute; reflexivity|].
  intros H. specialize (H dg_name dg_name dg_cobol dg_kw (fun _ => 0%nat) dg_tree 5%nat).
  rewrite R, V in H. assert (E : false = true); [|discriminate]. apply H.
  - vm_compute; reflexivity.
  - vm_compute. repeat constructor; cbn; intuition discriminate.
  - intros i Hi. vm_compute in Hi. destruct Hi as [<-|[<-|[]]]; vm_compute; reflexivity.
  - intros i Hi. exists 11%N, [88]%N. vm_compute. reflexivity.
  - vm_compute. repeat constructor.
Qed.
Print Assumptions C08c_digit_first_refuted.

(* ---- non-vacuity, and every place a digit-first name can stand: the record, an elementary item, a group, a REDEFINES
   target and its redefiner, an OCCURS DEPENDING ON table and its counter:
     01 1REC.  05 9CNT PIC 9.  05 9A PIC X(4).  05 2B REDEFINES 9A PIC 9999.  05 3G.  10 1ST-NAME PIC X(10).
     05 4T PIC XX OCCURS 0 TO 5 TIMES DEPENDING ON 9CNT.  05 G5 OCCURS 2 TIMES.  10 X6 PIC S9(3) USAGE COMP-3.
   [dgx_document] is the document schema_iter of /repo emits for it, transcribed by a script (check_schema raises).
   The union is anchored REDEFINES-9A (legal); the references #9A, #2B, #9CNT are not constrained by the meta-schema. *)
Definition dgx_tree : item :=
  Group 1 Once None
   (ICons (Elem 2 1 Once None)
   (ICons (Elem 3 4 Once None)
   (ICons (Elem 4 4 Once (Some 3%N))
   (ICons (Group 5 Once None (ICons (Elem 6 10 Once None) INil))
   (ICons (Elem 7 2 (Odo 2) None)
   (ICons (Group 8 (Times 2) None (ICons (Elem 9 2 Once None) INil))
    INil)))))).
Definition dgx_name (i : id) : list N :=
  match i with
  | 1 => [49; 82; 69; 67]
  | 2 => [57; 67; 78; 84]
  | 3 => [57; 65]
  | 4 => [50; 66]
  | 5 => [51; 71]
  | 6 => [49; 83; 84; 45; 78; 65; 77; 69]
  | 7 => [52; 84]
  | 8 => [71; 53]
  | 9 => [88; 54]
  | _ => []
  end%N.
Definition dgx_cobol (i : id) : list N :=
  match i with
  | 1 => [48; 49; 32; 49; 82; 69; 67]
  | 2 => [48; 53; 32; 57; 67; 78; 84; 32; 80; 73; 67; 32; 57]
  | 3 => [48; 53; 32; 57; 65; 32; 80; 73; 67; 32; 88; 40; 52; 41]
  | 4 => [48; 53; 32; 50; 66; 32; 82; 69; 68; 69; 70; 73; 78; 69; 83; 32; 57; 65; 32; 80; 73; 67; 32; 57; 57; 57; 57]
  | 5 => [48; 53; 32; 51; 71]
  | 6 => [49; 48; 32; 49; 83; 84; 45; 78; 65; 77; 69; 32; 80; 73; 67; 32; 88; 40; 49; 48; 41]
  | 7 => [48; 53; 32; 52; 84; 32; 80; 73; 67; 32; 88; 88; 32; 79; 67; 67; 85; 82; 83; 32; 48; 32; 84; 79; 32; 53; 32; 84; 73; 77; 69; 83; 32; 68; 69; 80; 69; 78; 68; 73; 78; 71; 32; 79; 78; 32; 57; 67; 78; 84]
  | 8 => [48; 53; 32; 71; 53; 32; 79; 67; 67; 85; 82; 83; 32; 50; 32; 84; 73; 77; 69; 83]
  | 9 => [49; 48; 32; 88; 54; 32; 80; 73; 67; 32; 83; 57; 40; 51; 41; 32; 85; 83; 65; 71; 69; 32; 67; 79; 77; 80; 45; 51]
  | _ => []
  end%N.
Definition dgx_pic (i : id) : list N :=
  match i with
  | 1 => []
  | 2 => [57]
  | 3 => [88; 40; 52; 41]
  | 4 => [57; 57; 57; 57]
  | 5 => []
  | 6 => [88; 40; 49; 48; 41]
  | 7 => [88; 88]
  | 8 => []
  | 9 => [83; 57; 40; 51; 41]
  | _ => []
  end%N.
Definition dgx_usage (i : id) : N :=
  match i with
  | 1 => 11
  | 2 => 11
  | 3 => 11
  | 4 => 11
  | 5 => 11
  | 6 => 11
  | 7 => 11
  | 8 => 11
  | 9 => 8
  | _ => 11
  end%N.
Definition dgx_kw (i : id) : N * N * N :=
  match json_type (dgx_usage i) (dgx_pic i) with Ok k => k | Err _ => (0, 0, 0)%N end.
Definition dgx_document : jval :=
  VMap [([116; 105; 116; 108; 101], VText [49; 82; 69; 67]);
    ([36; 97; 110; 99; 104; 111; 114], VText [49; 82; 69; 67]);
    ([99; 111; 98; 111; 108], VText [48; 49; 32; 49; 82; 69; 67]);
    ([116; 121; 112; 101], VText [111; 98; 106; 101; 99; 116]);
    ([112; 114; 111; 112; 101; 114; 116; 105; 101; 115], VMap [([57; 67; 78; 84], VMap [([116; 105; 116; 108; 101], VText [57; 67; 78; 84]);
        ([36; 97; 110; 99; 104; 111; 114], VText [57; 67; 78; 84]);
        ([99; 111; 98; 111; 108], VText [48; 53; 32; 57; 67; 78; 84; 32; 80; 73; 67; 32; 57]);
        ([116; 121; 112; 101], VText [115; 116; 114; 105; 110; 103]);
        ([99; 111; 110; 116; 101; 110; 116; 69; 110; 99; 111; 100; 105; 110; 103], VText [99; 112; 48; 51; 55]);
        ([99; 111; 110; 118; 101; 114; 115; 105; 111; 110], VText [100; 101; 99; 105; 109; 97; 108]);
        ([109; 97; 120; 76; 101; 110; 103; 116; 104], VNum 1);
        ([109; 105; 110; 76; 101; 110; 103; 116; 104], VNum 1)]);
      ([82; 69; 68; 69; 70; 73; 78; 69; 83; 45; 57; 65], VMap [([111; 110; 101; 79; 102], VArr [VMap [([116; 105; 116; 108; 101], VText [57; 65]);
            ([36; 97; 110; 99; 104; 111; 114], VText [57; 65]);
            ([99; 111; 98; 111; 108], VText [48; 53; 32; 57; 65; 32; 80; 73; 67; 32; 88; 40; 52; 41]);
            ([116; 121; 112; 101], VText [115; 116; 114; 105; 110; 103]);
            ([99; 111; 110; 116; 101; 110; 116; 69; 110; 99; 111; 100; 105; 110; 103], VText [99; 112; 48; 51; 55]);
            ([109; 97; 120; 76; 101; 110; 103; 116; 104], VNum 4);
            ([109; 105; 110; 76; 101; 110; 103; 116; 104], VNum 4)]
          ; VMap [([116; 105; 116; 108; 101], VText [50; 66]);
            ([36; 97; 110; 99; 104; 111; 114], VText [50; 66]);
            ([99; 111; 98; 111; 108], VText [48; 53; 32; 50; 66; 32; 82; 69; 68; 69; 70; 73; 78; 69; 83; 32; 57; 65; 32; 80; 73; 67; 32; 57; 57; 57; 57]);
            ([116; 121; 112; 101], VText [115; 116; 114; 105; 110; 103]);
            ([99; 111; 110; 116; 101; 110; 116; 69; 110; 99; 111; 100; 105; 110; 103], VText [99; 112; 48; 51; 55]);
            ([99; 111; 110; 118; 101; 114; 115; 105; 111; 110], VText [100; 101; 99; 105; 109; 97; 108]);
            ([109; 97; 120; 76; 101; 110; 103; 116; 104], VNum 4);
            ([109; 105; 110; 76; 101; 110; 103; 116; 104], VNum 4)]]);
        ([36; 97; 110; 99; 104; 111; 114], VText [82; 69; 68; 69; 70; 73; 78; 69; 83; 45; 57; 65])]);
      ([57; 65], VMap [([116; 105; 116; 108; 101], VText [57; 65]);
        ([99; 111; 98; 111; 108], VText [48; 53; 32; 57; 65; 32; 80; 73; 67; 32; 88; 40; 52; 41]);
        ([36; 114; 101; 102], VText [35; 57; 65])]);
      ([50; 66], VMap [([116; 105; 116; 108; 101], VText [50; 66]);
        ([99; 111; 98; 111; 108], VText [48; 53; 32; 50; 66; 32; 82; 69; 68; 69; 70; 73; 78; 69; 83; 32; 57; 65; 32; 80; 73; 67; 32; 57; 57; 57; 57]);
        ([36; 114; 101; 102], VText [35; 50; 66])]);
      ([51; 71], VMap [([116; 105; 116; 108; 101], VText [51; 71]);
        ([36; 97; 110; 99; 104; 111; 114], VText [51; 71]);
        ([99; 111; 98; 111; 108], VText [48; 53; 32; 51; 71]);
        ([116; 121; 112; 101], VText [111; 98; 106; 101; 99; 116]);
        ([112; 114; 111; 112; 101; 114; 116; 105; 101; 115], VMap [([49; 83; 84; 45; 78; 65; 77; 69], VMap [([116; 105; 116; 108; 101], VText [49; 83; 84; 45; 78; 65; 77; 69]);
            ([36; 97; 110; 99; 104; 111; 114], VText [49; 83; 84; 45; 78; 65; 77; 69]);
            ([99; 111; 98; 111; 108], VText [49; 48; 32; 49; 83; 84; 45; 78; 65; 77; 69; 32; 80; 73; 67; 32; 88; 40; 49; 48; 41]);
            ([116; 121; 112; 101], VText [115; 116; 114; 105; 110; 103]);
            ([99; 111; 110; 116; 101; 110; 116; 69; 110; 99; 111; 100; 105; 110; 103], VText [99; 112; 48; 51; 55]);
            ([109; 97; 120; 76; 101; 110; 103; 116; 104], VNum 10);
            ([109; 105; 110; 76; 101; 110; 103; 116; 104], VNum 10)])])]);
      ([52; 84], VMap [([116; 105; 116; 108; 101], VText [52; 84]);
        ([99; 111; 98; 111; 108], VText [48; 53; 32; 52; 84; 32; 80; 73; 67; 32; 88; 88; 32; 79; 67; 67; 85; 82; 83; 32; 48; 32; 84; 79; 32; 53; 32; 84; 73; 77; 69; 83; 32; 68; 69; 80; 69; 78; 68; 73; 78; 71; 32; 79; 78; 32; 57; 67; 78; 84]);
        ([116; 121; 112; 101], VText [97; 114; 114; 97; 121]);
        ([105; 116; 101; 109; 115], VMap [([116; 121; 112; 101], VText [111; 98; 106; 101; 99; 116]);
          ([112; 114; 111; 112; 101; 114; 116; 105; 101; 115], VMap [([52; 84], VMap [([36; 97; 110; 99; 104; 111; 114], VText [52; 84]);
              ([99; 111; 98; 111; 108], VText [48; 53; 32; 52; 84; 32; 80; 73; 67; 32; 88; 88; 32; 79; 67; 67; 85; 82; 83; 32; 48; 32; 84; 79; 32; 53; 32; 84; 73; 77; 69; 83; 32; 68; 69; 80; 69; 78; 68; 73; 78; 71; 32; 79; 78; 32; 57; 67; 78; 84]);
              ([116; 121; 112; 101], VText [115; 116; 114; 105; 110; 103]);
              ([99; 111; 110; 116; 101; 110; 116; 69; 110; 99; 111; 100; 105; 110; 103], VText [99; 112; 48; 51; 55])])])]);
        ([109; 97; 120; 73; 116; 101; 109; 115; 68; 101; 112; 101; 110; 100; 115; 79; 110], VMap [([36; 114; 101; 102], VText [35; 57; 67; 78; 84])])]);
      ([71; 53], VMap [([116; 105; 116; 108; 101], VText [71; 53]);
        ([99; 111; 98; 111; 108], VText [48; 53; 32; 71; 53; 32; 79; 67; 67; 85; 82; 83; 32; 50; 32; 84; 73; 77; 69; 83]);
        ([116; 121; 112; 101], VText [97; 114; 114; 97; 121]);
        ([105; 116; 101; 109; 115], VMap [([116; 121; 112; 101], VText [111; 98; 106; 101; 99; 116]);
          ([112; 114; 111; 112; 101; 114; 116; 105; 101; 115], VMap [([88; 54], VMap [([116; 105; 116; 108; 101], VText [88; 54]);
              ([36; 97; 110; 99; 104; 111; 114], VText [88; 54]);
              ([99; 111; 98; 111; 108], VText [49; 48; 32; 88; 54; 32; 80; 73; 67; 32; 83; 57; 40; 51; 41; 32; 85; 83; 65; 71; 69; 32; 67; 79; 77; 80; 45; 51]);
              ([116; 121; 112; 101], VText [115; 116; 114; 105; 110; 103]);
              ([99; 111; 110; 116; 101; 110; 116; 69; 110; 99; 111; 100; 105; 110; 103], VText [112; 97; 99; 107; 101; 100; 45; 100; 101; 99; 105; 109; 97; 108]);
              ([99; 111; 110; 118; 101; 114; 115; 105; 111; 110], VText [100; 101; 99; 105; 109; 97; 108]);
              ([109; 97; 120; 76; 101; 110; 103; 116; 104], VNum 2);
              ([109; 105; 110; 76; 101; 110; 103; 116; 104], VNum 2)])])]);
        ([109; 97; 120; 73; 116; 101; 109; 115], VNum 2);
        ([36; 97; 110; 99; 104; 111; 114], VText [71; 53])])])].

(* every hypothesis of the full statement holds of it (COBOL data names all of them) ... *)
Example C08c_digit_example_hypotheses :
  wf8 (fun _ => 0%nat) dgx_tree = true /\ NoDup (ids_of dgx_tree)
  /\ (forall i, In i (ids_of dgx_tree) -> cobol_name (dgx_name i) = true)
  /\ (forall i, In i (elem_ids dgx_tree) -> exists u txt, json_type u txt = Ok (dgx_kw i))
  /\ idepth dgx_tree = 3%nat
  /\ map (fun i => digit_first (dgx_name i)) (ids_of dgx_tree) = [true; true; true; true; true; true; true; false; false].
Proof.
  split; [vm_compute; reflexivity|]. split; [vm_compute; repeat constructor; cbn; intuition discriminate|].
  split; [intros i Hi; vm_compute in Hi; repeat (destruct Hi as [<-|Hi]; [vm_compute; reflexivity|]); destruct Hi|].
  split; [|split; vm_compute; reflexivity].
  intros i Hi. exists (dgx_usage i), (dgx_pic i).
  vm_compute in Hi. repeat (destruct Hi as [<-|Hi]; [vm_compute; reflexivity|]). destruct Hi.
Qed.

(* ... its rendering IS the document /repo emits; the document is invalid; with the digit-first anchors prefixed by an
   underscore and nothing else changed it is valid: the anchors are all the meta-schema refuses *)
Example C08c_digit_example_rendering :
  doc dgx_name dgx_name dgx_cobol dgx_kw (build dgx_tree) = dgx_document
  /\ valid_schema 7 dgx_document = false
  /\ valid_schema 7 (fix_anchors 7 dgx_document) = true.
Proof. vm_compute. repeat split; reflexivity. Qed.

(* by the boundary theorem: the letter-first spelling of the same description is valid, the digit-first one is not *)
Example C08c_digit_example_by_theorem :
  valid_schema 7 (doc dgx_name dgx_name dgx_cobol dgx_kw (build dgx_tree)) = false
  /\ valid_schema 7 (doc (fun i => 78%N :: dgx_name i) dgx_name dgx_cobol dgx_kw (build dgx_tree)) = true.
Proof.
  destruct C08c_digit_example_hypotheses as [A [B [C [D _]]]].
  assert (F : (2 * idepth dgx_tree + 1 <= 7)%nat) by (vm_compute; repeat constructor).
  split.
  - destruct (valid_schema 7 (doc dgx_name dgx_name dgx_cobol dgx_kw (build dgx_tree))) eqn:E; [|reflexivity].
    pose proof (proj1 (C08c_valid_iff_no_digit_first dgx_name dgx_name dgx_cobol dgx_kw (fun _ => 0%nat) dgx_tree 7 A B C D F) E
                  1%N (or_introl eq_refl)) as E1.
    vm_compute in E1. discriminate.
  - apply (proj2 (C08c_valid_iff_names_legal (fun i => 78%N :: dgx_name i) dgx_name dgx_cobol dgx_kw (fun _ => 0%nat) dgx_tree 7 A B D F)).
    intros i Hi. vm_compute in Hi. repeat (destruct Hi as [<-|Hi]; [vm_compute; reflexivity|]). destruct Hi.
Qed.
