(* C04, second layer - the conjunction of C04_all taken apart, and the field width against the image.
   Companion of Props/C04.v; only property theorems, each closed by an exact lemma of
   Proofs/EstructWidthP.v.  No engine of its own: the model is C04's (Model/Estruct.v, tied to /repo by the
   exhaustive correspondence run of ./check C04, which observes each of the eight reports separately).

   Why.  C04_all is stated over [cfg_ok], ONE boolean for four reports, under [known_bad_C04], which
   excludes every packed spelling (Struct cannot size a packed item) and every float spelling.  Read
   alone, C04_all therefore says nothing at all about COMP-3 / PACKED-DECIMAL items - not even that the
   size function gives (digits / 2) + 1 or that the decoder accepts that many bytes, although both are
   true.  Here every report has its own statement and its own exception set, each proved exact
   (the statement holds on every configuration outside the set and fails on every one inside), over the
   same complete enumeration [cfgs] (13 spellings x signed x 189 digit pairs = 4914, C04_space_is_complete):

     statement (Spec/SizeSplit.v)                              exception set               findings
     size_and_decoder      calcsize = listed, decoder accepts  known_bad_size              1, 2
     size_is_listed        calcsize = listed width             known_bad_calcsize          1
     decoder_takes_listed  decoder accepts the listed width    known_bad_decoder           2
     struct_is_listed      Struct.calcsize = listed width      known_bad_struct            3
     struct_same_as_size   Struct.calcsize = calcsize          known_bad_struct_same       1, 3
     text_is_listed        text reader, DISPLAY items          none

   findings: 1 K-signed-binary-size (signed binary, 4 or 9 digits), 2 K-float-no-decoder, 3 K-struct-packed.
   C04c_split: the four conjuncts together are exactly [cfg_ok], so nothing was dropped.

   Second part.  "holds exactly the picture's digits": the width the layout uses is the LENGTH OF THE IMAGE
   the specification's encoder (Spec/Encode.v) produces for a value of the picture - for every digit count,
   not only the 4914 configurations.  The signed DISPLAY case is stated as it is: the project counts the S
   as a position, the field is one byte wider than the image (C02c / C18 say what the decoder does with it). *)
From Coq Require Import ZArith NArith List Bool.
Import ListNotations.
Require Import SR.Base.Res SR.Spec.Encode SR.Spec.Fits SR.Spec.SizeCfg SR.Spec.SizeSplit SR.Model.Estruct.
Require Import SR.Proofs.EstructP SR.Proofs.EstructWidthP.

(* ------------------------------------------------------------------ 1. size function and decoder *)

(* On every configuration outside K-signed-binary-size and the float spellings - in particular on EVERY packed
   configuration - the size function reports the listed width and the item's decoder accepts it. *)
Theorem C04c_size_and_decoder : forall c : cfg, In c cfgs -> known_bad_size c = None -> size_and_decoder c.
Proof. exact C04c_size_and_decoder_lemma. Qed.
Print Assumptions C04c_size_and_decoder.

(* ... and the set is exact: on every configuration in it the statement fails *)
Theorem C04c_size_and_decoder_refuted : forall (c : cfg) (k : Z),
  In c cfgs -> known_bad_size c = Some k -> ~ size_and_decoder c.
Proof. exact C04c_size_and_decoder_exact_lemma. Qed.
Print Assumptions C04c_size_and_decoder_refuted.

(* the two halves, each with its own exact set: the size function is wrong only on finding 1 ... *)
Theorem C04c_size : forall c : cfg, In c cfgs -> known_bad_calcsize c = None -> size_is_listed c.
Proof. exact C04c_size_lemma. Qed.
Print Assumptions C04c_size.

Theorem C04c_size_refuted : forall (c : cfg) (k : Z), In c cfgs -> known_bad_calcsize c = Some k -> ~ size_is_listed c.
Proof. exact C04c_size_exact_lemma. Qed.
Print Assumptions C04c_size_refuted.

(* ... and the decoder refuses the listed width only for the float spellings (it has no branch for them) *)
Theorem C04c_decoder : forall c : cfg, In c cfgs -> known_bad_decoder c = None -> decoder_takes_listed c.
Proof. exact C04c_decoder_lemma. Qed.
Print Assumptions C04c_decoder.

Theorem C04c_decoder_refuted : forall (c : cfg) (k : Z), In c cfgs -> known_bad_decoder c = Some k -> ~ decoder_takes_listed c.
Proof. exact C04c_decoder_exact_lemma. Qed.
Print Assumptions C04c_decoder_refuted.

(* ------------------------------------------------------------------ 2. the Struct report *)

(* the native-bytes reader reports the listed width for everything but packed decimal (which it refuses) -
   including signed binary items of 4 or 9 digits, where it is the size function that is off *)
Theorem C04c_struct_report : forall c : cfg, In c cfgs -> known_bad_struct c = None -> struct_is_listed c.
Proof. exact C04c_struct_lemma. Qed.
Print Assumptions C04c_struct_report.

Theorem C04c_struct_report_refuted : forall (c : cfg) (k : Z), In c cfgs -> known_bad_struct c = Some k -> ~ struct_is_listed c.
Proof. exact C04c_struct_exact_lemma. Qed.
Print Assumptions C04c_struct_report_refuted.

(* "the same number wherever reported": Struct against the size function *)
Theorem C04c_struct_same_as_size : forall c : cfg, In c cfgs -> known_bad_struct_same c = None -> struct_same_as_size c.
Proof. exact C04c_struct_same_lemma. Qed.
Print Assumptions C04c_struct_same_as_size.

Theorem C04c_struct_same_as_size_refuted : forall (c : cfg) (k : Z),
  In c cfgs -> known_bad_struct_same c = Some k -> ~ struct_same_as_size c.
Proof. exact C04c_struct_same_exact_lemma. Qed.
Print Assumptions C04c_struct_same_as_size_refuted.

(* ------------------------------------------------------------------ 3. the Text report *)

(* DISPLAY items (a text file holds nothing else): the listed width, no exception *)
Theorem C04c_text_report : forall c : cfg, In c cfgs -> text_is_listed c.
Proof. exact C04c_text_lemma. Qed.
Print Assumptions C04c_text_report.

(* what the text reader says for ANY usage and any picture: the DISPLAY width (positions, the S counted) *)
Theorem C04c_text_report_any_usage : forall (s : bool) (m n : nat),
  text_calcsize (mkpic s m n) = N.of_nat (spec_display_width s (m + n)).
Proof. exact text_reports_display_width. Qed.
Print Assumptions C04c_text_report_any_usage.

(* nothing was dropped in splitting *)
Theorem C04c_split : forall c : cfg, cfg_ok c = size_okb c && decoder_okb c && struct_okb c && text_okb c.
Proof. exact cfg_ok_split. Qed.
Print Assumptions C04c_split.

(* ------------------------------------------------------------------ 4. the field is as wide as the image *)

(* the images: whatever the digits, the sign nibble and the value are *)
Theorem C04c_packed_image_width : forall (ds : list N) (s : N),
  length (enc_packed ds s) = spec_packed_width (length ds).
Proof. exact length_enc_packed. Qed.
Print Assumptions C04c_packed_image_width.

Theorem C04c_zoned_image_width : forall (ds : list N) (z : N), length (enc_zoned ds z) = length ds.
Proof. exact length_enc_zoned. Qed.
Print Assumptions C04c_zoned_image_width.

Theorem C04c_binary_image_width : forall (w : nat) (v : Z), length (enc_be w v) = w.
Proof. exact length_enc_be. Qed.
Print Assumptions C04c_binary_image_width.

(* packed decimal, every spelling, signed or not, EVERY digit count (no upper bound) *)
Theorem C04c_packed_field : forall (u : N) (s : bool) (m n : nat) (ds : list N) (sg : N),
  In u packed_spellings -> (1 <= m + n)%nat -> length ds = (m + n)%nat ->
  calcsize u (mkpic s m n) = Ok (N.of_nat (length (enc_packed ds sg))).
Proof. exact packed_field. Qed.
Print Assumptions C04c_packed_field.

(* unsigned DISPLAY *)
Theorem C04c_display_unsigned_field : forall (m n : nat) (ds : list N) (z : N),
  (1 <= m + n)%nat -> length ds = (m + n)%nat ->
  calcsize display_spelling (mkpic false m n) = Ok (N.of_nat (length (enc_zoned ds z))).
Proof. exact display_unsigned_field. Qed.
Print Assumptions C04c_display_unsigned_field.

(* signed DISPLAY, as it is: ONE BYTE MORE than the image (the S is counted as a position; a mainframe stores
   S9(n) DISPLAY, sign in the zone of the last digit, in n bytes) *)
Theorem C04c_display_signed_field : forall (m n : nat) (ds : list N) (z : N),
  (1 <= m + n)%nat -> length ds = (m + n)%nat ->
  calcsize display_spelling (mkpic true m n) = Ok (N.of_nat (1 + length (enc_zoned ds z))).
Proof. exact display_signed_field. Qed.
Print Assumptions C04c_display_signed_field.

(* binary, outside K-signed-binary-size *)
Theorem C04c_binary_field : forall (u : N) (s : bool) (m n w : nat) (v : Z),
  In u binary_spellings -> spec_binary_width (m + n) = Some w ->
  s && ((m + n =? 4)%nat || (m + n =? 9)%nat) = false ->
  calcsize u (mkpic s m n) = Ok (N.of_nat (length (enc_be w v))).
Proof. exact binary_field. Qed.
Print Assumptions C04c_binary_field.

(* ... and inside it, symbolically (not only by enumeration): TWICE the image *)
Theorem C04c_binary_field_signed_4_9_refuted : forall (u : N) (m n w : nat) (v : Z),
  In u binary_spellings -> spec_binary_width (m + n) = Some w ->
  ((m + n =? 4)%nat || (m + n =? 9)%nat) = true ->
  calcsize u (mkpic true m n) = Ok (N.of_nat (2 * length (enc_be w v))).
Proof. exact binary_field_signed_4_9. Qed.
Print Assumptions C04c_binary_field_signed_4_9_refuted.

(* ------------------------------------------------------------------ non-vacuity *)

(* every exception set is inhabited inside [cfgs] and so is its complement; S9(5)V99 COMP-3 (usage 8) is outside
   known_bad_size although known_bad_C04 excludes it; the statement for it: 4 bytes, accepted. *)
Example C04c_examples_sets :
  In (8%N, true, 5%nat, 2%nat) cfgs
  /\ known_bad_C04 (8%N, true, 5%nat, 2%nat) = Some 3%Z /\ known_bad_size (8%N, true, 5%nat, 2%nat) = None
  /\ spec_size 8 true 5 2 = Some 4%N /\ calcsize 8 (mkpic true 5 2) = Ok 4%N /\ decoder_accepts 8 (mkpic true 5 2) 4 = true
  (* S9(4) COMP (usage 10): finding 1; the size function says 4, listed 2, Struct says 2 *)
  /\ In (10%N, true, 4%nat, 0%nat) cfgs
  /\ known_bad_size (10%N, true, 4%nat, 0%nat) = Some 1%Z /\ known_bad_calcsize (10%N, true, 4%nat, 0%nat) = Some 1%Z
  /\ known_bad_decoder (10%N, true, 4%nat, 0%nat) = None /\ known_bad_struct (10%N, true, 4%nat, 0%nat) = None
  /\ known_bad_struct_same (10%N, true, 4%nat, 0%nat) = Some 1%Z
  /\ calcsize 10 (mkpic true 4 0) = Ok 4%N /\ struct_calcsize 10 (mkpic true 4 0) = Ok 2%N
  (* COMP-1 (usage 6): finding 2; size 4 but no decoder *)
  /\ In (6%N, false, 7%nat, 0%nat) cfgs
  /\ known_bad_size (6%N, false, 7%nat, 0%nat) = Some 2%Z /\ known_bad_calcsize (6%N, false, 7%nat, 0%nat) = None
  /\ known_bad_decoder (6%N, false, 7%nat, 0%nat) = Some 2%Z
  /\ calcsize 6 (mkpic false 7 0) = Ok 4%N /\ decoder_accepts 6 (mkpic false 7 0) 4 = false
  (* packed: finding 3 for the Struct report only *)
  /\ known_bad_struct (8%N, true, 5%nat, 2%nat) = Some 3%Z /\ known_bad_struct_same (8%N, true, 5%nat, 2%nat) = Some 3%Z
  /\ struct_calcsize 8 (mkpic true 5 2) = Err ValueError
  (* S9(3)V99 DISPLAY (usage 11): clean everywhere, 6 bytes in every report *)
  /\ In (11%N, true, 3%nat, 2%nat) cfgs
  /\ known_bad_size (11%N, true, 3%nat, 2%nat) = None /\ known_bad_struct (11%N, true, 3%nat, 2%nat) = None
  /\ known_bad_struct_same (11%N, true, 3%nat, 2%nat) = None
  /\ calcsize 11 (mkpic true 3 2) = Ok 6%N /\ struct_calcsize 11 (mkpic true 3 2) = Ok 6%N /\ text_calcsize (mkpic true 3 2) = 6%N.
Proof. destruct cfgs_examples as (I1 & I2 & I3 & I4). repeat split; try assumption; vm_compute; reflexivity. Qed.

(* how many configurations each exception set holds: 4914 = 13 * 2 * 189; packed 3 * 378 = 1134 (all of them were
   outside C04_all); float 4 * 378 = 1512; signed binary 4/9: 5 spellings * (5 + 10 digit pairs) = 75 *)
Example C04c_examples_counts :
  length cfgs = 4914%nat
  /\ length (filter (fun c => negb (is_none (known_bad_C04 c))) cfgs) = 2721%nat
  /\ length (filter (fun c => negb (is_none (known_bad_size c))) cfgs) = 1587%nat
  /\ length (filter (fun c => negb (is_none (known_bad_calcsize c))) cfgs) = 75%nat
  /\ length (filter (fun c => negb (is_none (known_bad_decoder c))) cfgs) = 1512%nat
  /\ length (filter (fun c => negb (is_none (known_bad_struct c))) cfgs) = 1134%nat
  /\ length (filter (fun c => negb (is_none (known_bad_struct_same c))) cfgs) = 1209%nat.
Proof. vm_compute. repeat split; reflexivity. Qed.

(* field width = image width on concrete items: -123.45 in S9(3)V99 COMP-3 is 12 34 5D, three bytes;
   9(4) DISPLAY 0042 is F0 F0 F4 F2; S9(4) DISPLAY is laid out as FIVE bytes for the four-byte image F0 F0 F4 C2;
   S9(3)V99 COMP is four bytes; S9(4) COMP is laid out as four bytes for the two-byte image. *)
Example C04c_examples_fields :
  calcsize 8 (mkpic true 3 2) = Ok 3%N /\ enc_packed [1; 2; 3; 4; 5]%N 13 = [18; 52; 93]%N
  /\ calcsize 11 (mkpic false 4 0) = Ok 4%N /\ enc_zoned [0; 0; 4; 2]%N 15 = [240; 240; 244; 242]%N
  /\ calcsize 11 (mkpic true 4 0) = Ok 5%N /\ enc_zoned [0; 0; 4; 2]%N 12 = [240; 240; 244; 194]%N
  /\ calcsize 10 (mkpic true 3 2) = Ok 4%N /\ spec_binary_width (3 + 2) = Some 4%nat
  /\ (true && ((3 + 2 =? 4)%nat || (3 + 2 =? 9)%nat) = false)
  /\ calcsize 10 (mkpic true 4 0) = Ok 4%N /\ enc_be 2 (-2) = [255; 254]%N
  /\ ((4 + 0 =? 4)%nat || (4 + 0 =? 9)%nat) = true.
Proof. vm_compute. repeat split; reflexivity. Qed.
