(* C18, BINARY items - companion of Props/C18.v (whose full statement enumerates packed and DISPLAY items only).
   Only property theorems, each closed by an exact lemma of Proofs/EstructBinaryP.v.  No engine of its own: the model is
   Model/Estruct.v ([unpack], binary branch: struct.unpack of the format h, i or q chosen from the digit count), tied to
   /repo by the stream [binary] of ./check C18 (harness/c18.py, Judge/JC18.v kind 3).
   Definitions of the statements: Spec/FitsBinary.v, Spec/Fits.v, Spec/Encode.v.

   The property: whatever bytes a numeric field holds, the result fits its PICTURE or is an error - no more integer digits
   than declared and exactly the declared scale.  For a binary item PIC S?9(m)V9(n), 1 <= m+n <= 18, in a field of the
   width the digit count gives (2, 4, 8 bytes), this is [C18c_binary_full].  It is FALSE of the code as it is:

     USAGE COMP PIC 9(4),     7F FF        -> 32767         five digits in a four-digit field
     USAGE COMP PIC 9(4),     FF FF        -> -1            a negative number in a picture without S (the field holds 65535)
     USAGE COMP PIC S9(3)V99, 7F FF FF FF  -> 2147483647    ten digits in a five-digit field, and an int: no scale
     USAGE COMP PIC S9(3)V99, 00 00 30 39  -> 12345         the field stores 123.45; the result is the int 12345

   What IS true, exactly:
     C18c_binary_int_result        every buffer of the width decodes - never an error - to the int that is the
                                   two's-complement reading of the field, for every m and n
     C18c_binary_width_bound       that int lies in the two's-complement range of the WIDTH; C18c_binary_every_value_reached:
                                   every number of that range is reached - the width's bound is the only bound
     C18c_binary_fits_iff          the number the field stores (v * 10^-n) fits the picture exactly when
                                   -(10^(m+n)-1) <= v <= 10^(m+n)-1, from 0 for a picture without S: every buffer outside
                                   is a violation.  C18c_halfword_counts: of the 65536 halfwords, 55536 violate for 9(4),
                                   45537 for S9(4), 65526 for 9, 65517 for S9.
     C18c_binary_scale_never_applied   with n > 0 the result is an int (exponent 0) for EVERY buffer: no buffer at all yields
                                   a result of the declared scale (65536 of 65536 for 99V99); consistent with
                                   C02c_binary_ignores_scale / C02c_binary_scale_blind
     C18c_binary_result_fits_iff   the returned value fits exactly when n = 0 and v is in the picture's range
     C18c_binary_violation_set     so the violating buffers are exactly [binary_exceeds_picture], the trigger of the known
                                   finding K-binary-exceeds-picture (code 3 of Judge/JC18.v)
     C18c_binary                   the property, outside that set
     C18c_unsigned_reading         for a picture without S, "the signed reading is negative or too large" and "the unsigned
                                   reading of the field is too large" are the same buffers

   Width: the field width here is the decoder's own (digit count 1-4: 2 bytes, 5-9: 4, 10-18: 8 = Spec/Encode.v
   spec_binary_width).  estruct.calcsize gives a signed item of 4 or 9 digits the next width (C04's K-signed-binary-size); a
   buffer of THAT width is a struct.error for the decoder, which the property allows. *)
From Coq Require Import ZArith NArith List Bool.
Import ListNotations.
Require Import SR.Base.Res SR.Base.Dec SR.Spec.Encode SR.Spec.Fits SR.Spec.FitsBinary SR.Model.Estruct.
Require Import SR.Proofs.EstructBinaryP SR.Props.C18.
Open Scope Z_scope.

(* ------------------------------------------------------------------ the full statement, and its refutation *)

Definition C18c_binary_full : Prop :=
  forall (u : N) (p : pic) (w : nat) (buffer : list N),
    In u binary_spellings -> (1 <= p_int p + p_frac p <= 18)%nat ->
    spec_binary_width (p_int p + p_frac p) = Some w -> length buffer = w -> bytes_ok buffer = true ->
    (exists e, unpack u p buffer = Err e) \/
    (exists r, unpack u p buffer = Ok r /\ fits_result p r = true).

(* C18 for the three families of numeric items *)
Definition C18c_full_statement : Prop := C18_full_statement /\ C18c_binary_full.

Theorem C18c_binary_refuted : ~ C18c_binary_full.
Proof. exact binary_full_refuted. Qed.
Print Assumptions C18c_binary_refuted.

Theorem C18c_full_refuted : ~ C18c_full_statement.
Proof. exact (conj_refuted _ _ binary_full_refuted). Qed.
Print Assumptions C18c_full_refuted.

Theorem C18c_binary_witnesses :
  unpack 10 (mkpic false 4 0) [127; 255]%N = Ok (VInt 32767)
  /\ fits_result (mkpic false 4 0) (VInt 32767) = false
  /\ unpack 10 (mkpic false 4 0) [255; 255]%N = Ok (VInt (-1))
  /\ fits_result (mkpic false 4 0) (VInt (-1)) = false
  /\ unpack 10 (mkpic true 3 2) [127; 255; 255; 255]%N = Ok (VInt 2147483647)
  /\ fits_result (mkpic true 3 2) (VInt 2147483647) = false
  /\ unpack 10 (mkpic true 3 2) [0; 0; 48; 57]%N = Ok (VInt 12345)
  /\ fits_result (mkpic true 3 2) (VInt 12345) = false.
Proof. exact binary_witnesses. Qed.
Print Assumptions C18c_binary_witnesses.

(* ------------------------------------------------------------------ what the code guarantees *)

(* the result: the stored integer, for every buffer of the width, every digit count, every scale *)
Theorem C18c_binary_int_result : forall (u : N) (p : pic) (w : nat) (buffer : list N),
  In u binary_spellings -> spec_binary_width (p_int p + p_frac p) = Some w -> length buffer = w ->
  unpack u p buffer = Ok (VInt (signed_be w buffer)).
Proof. exact binary_value. Qed.
Print Assumptions C18c_binary_int_result.

(* (b) the only bound: the two's-complement range of the width ... *)
Theorem C18c_binary_width_bound : forall (u : N) (p : pic) (w : nat) (buffer : list N),
  In u binary_spellings -> spec_binary_width (p_int p + p_frac p) = Some w -> length buffer = w ->
  bytes_ok buffer = true ->
  exists v, unpack u p buffer = Ok (VInt v) /\ width_low w <= v <= width_high w.
Proof. exact binary_width_bound. Qed.
Print Assumptions C18c_binary_width_bound.

(* ... and all of it is reached *)
Theorem C18c_binary_every_value_reached : forall (u : N) (p : pic) (w : nat) (v : Z),
  In u binary_spellings -> spec_binary_width (p_int p + p_frac p) = Some w ->
  width_low w <= v <= width_high w ->
  exists buffer, length buffer = w /\ bytes_ok buffer = true /\ unpack u p buffer = Ok (VInt v).
Proof. exact binary_every_value_reached. Qed.
Print Assumptions C18c_binary_every_value_reached.

(* (a) the stored number fits the picture exactly when the field's integer is within the picture's digits *)
Theorem C18c_binary_fits_iff : forall (u : N) (p : pic) (w : nat) (buffer : list N),
  In u binary_spellings -> spec_binary_width (p_int p + p_frac p) = Some w -> length buffer = w ->
  exists v, unpack u p buffer = Ok (VInt v) /\ v = signed_be w buffer /\
    (fits_signed (p_signed p) (p_int p) (p_frac p) (stored_number (p_frac p) v) = true
     <-> picture_low (p_signed p) (p_int p + p_frac p) <= v <= picture_high (p_int p + p_frac p)).
Proof. exact binary_fits_iff. Qed.
Print Assumptions C18c_binary_fits_iff.

(* the returned value (an int) fits exactly when, besides, the picture has no fraction digits *)
Theorem C18c_binary_result_fits_iff : forall (u : N) (p : pic) (w : nat) (buffer : list N),
  In u binary_spellings -> spec_binary_width (p_int p + p_frac p) = Some w -> length buffer = w ->
  exists v, unpack u p buffer = Ok (VInt v) /\ v = signed_be w buffer /\
    (fits_result p (VInt v) = true
     <-> p_frac p = 0%nat /\ picture_low (p_signed p) (p_int p + p_frac p) <= v <= picture_high (p_int p + p_frac p)).
Proof. exact binary_result_fits_iff. Qed.
Print Assumptions C18c_binary_result_fits_iff.

(* (c) the declared scale is never applied: with fraction digits, no buffer whatever gives a result that fits *)
Theorem C18c_binary_scale_never_applied : forall (u : N) (p : pic) (w : nat) (buffer : list N),
  In u binary_spellings -> spec_binary_width (p_int p + p_frac p) = Some w -> length buffer = w ->
  (0 < p_frac p)%nat ->
  exists v, unpack u p buffer = Ok (VInt v) /\ fits_result p (VInt v) = false.
Proof. exact binary_scale_never_applied. Qed.
Print Assumptions C18c_binary_scale_never_applied.

(* the violating buffers are exactly the trigger set of the known finding *)
Theorem C18c_binary_violation_set : forall (u : N) (p : pic) (w : nat) (buffer : list N),
  In u binary_spellings -> spec_binary_width (p_int p + p_frac p) = Some w -> length buffer = w ->
  violates u p buffer = binary_exceeds_picture p buffer.
Proof. exact binary_violation_set. Qed.
Print Assumptions C18c_binary_violation_set.

(* the property, outside the finding *)
Theorem C18c_binary : forall (u : N) (p : pic) (w : nat) (buffer : list N),
  In u binary_spellings -> spec_binary_width (p_int p + p_frac p) = Some w -> length buffer = w ->
  binary_exceeds_picture p buffer = false ->
  exists r, unpack u p buffer = Ok r /\ fits_result p r = true.
Proof. exact binary_fits_outside_finding. Qed.
Print Assumptions C18c_binary.

(* a picture without S: the field read as the unsigned number it is holds at most the picture's digits exactly when the
   decoder's signed reading is in 0 .. 10^d - 1 *)
Theorem C18c_unsigned_reading : forall (d w : nat) (buffer : list N),
  spec_binary_width d = Some w -> length buffer = w -> bytes_ok buffer = true ->
  (Z.of_N (from_be buffer) <= picture_high d <-> 0 <= signed_be w buffer <= picture_high d).
Proof. exact unsigned_reading. Qed.
Print Assumptions C18c_unsigned_reading.

(* every buffer of two bytes is in the enumeration that is counted below *)
Theorem C18c_halfword_buffers_all : forall buffer : list N,
  length buffer = 2%nat -> bytes_ok buffer = true -> In buffer halfword_buffers.
Proof. exact halfword_buffers_all. Qed.
Print Assumptions C18c_halfword_buffers_all.

(* computed counts over all 65536 halfword buffers, USAGE COMP: 9(4), S9(4), 9, S9, 99V99 *)
Theorem C18c_halfword_counts :
  count_if (fun _ => true) halfword_buffers = 65536%N
  /\ count_if (violates 10 (mkpic false 4 0)) halfword_buffers = 55536%N
  /\ count_if (violates 10 (mkpic true 4 0)) halfword_buffers = 45537%N
  /\ count_if (violates 10 (mkpic false 1 0)) halfword_buffers = 65526%N
  /\ count_if (violates 10 (mkpic true 1 0)) halfword_buffers = 65517%N
  /\ count_if (violates 10 (mkpic false 2 2)) halfword_buffers = 65536%N.
Proof. exact halfword_counts. Qed.
Print Assumptions C18c_halfword_counts.

(* ------------------------------------------------------------------ non-vacuity *)

(* 9(4) COMP: 27 0F = 9999 fits, 27 10 = 10000 does not; S9(4): D8 F1 = -9999 fits, D8 F0 = -10000 does not; the ends of the
   halfword range are reached; the trigger predicate is false / true on those buffers; S9(3)V99 is a fullword. *)
Example C18c_examples :
  unpack 10 (mkpic false 4 0) [39; 15]%N = Ok (VInt 9999) /\ fits_result (mkpic false 4 0) (VInt 9999) = true
  /\ binary_exceeds_picture (mkpic false 4 0) [39; 15]%N = false
  /\ unpack 10 (mkpic false 4 0) [39; 16]%N = Ok (VInt 10000) /\ fits_result (mkpic false 4 0) (VInt 10000) = false
  /\ binary_exceeds_picture (mkpic false 4 0) [39; 16]%N = true
  /\ unpack 0 (mkpic true 4 0) [216; 241]%N = Ok (VInt (-9999)) /\ fits_result (mkpic true 4 0) (VInt (-9999)) = true
  /\ unpack 0 (mkpic true 4 0) [216; 240]%N = Ok (VInt (-10000)) /\ fits_result (mkpic true 4 0) (VInt (-10000)) = false
  /\ unpack 5 (mkpic true 4 0) [128; 0]%N = Ok (VInt (-32768)) /\ width_low 2 = -32768 /\ width_high 2 = 32767
  /\ spec_binary_width (3 + 2) = Some 4%nat /\ In 10%N binary_spellings
  /\ binary_exceeds_picture (mkpic true 3 2) [0; 0; 48; 57]%N = true
  /\ picture_low true 4 = -9999 /\ picture_low false 4 = 0 /\ picture_high 4 = 9999.
Proof. vm_compute. repeat split; try reflexivity. right. right. right. right. left. reflexivity. Qed.
