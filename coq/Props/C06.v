(* C06 - OCCURS DEPENDING ON: each record is laid out by its own counter value.
   Only the property theorems, each closed by an exact lemma (Proofs/OdoStreamP.v).

   Vocabulary.
     Spec/Layout.v     record descriptions (item), count vectors (env), extent / ext1 / count / kid_start / find_kid.
     Spec/OdoStream.v  flat_odo t: one 01 group whose children are, in any order and number, fixed elementary items
                       (the counters among them), elementary tables and tables of a one-level group of fixed elementary
                       items, each table OCCURS n or OCCURS DEPENDING ON an EARLIER fixed elementary child; names distinct;
                       no REDEFINES.  counters_hold dcount e t r: the bytes of r at each counter's specification offset
                       decode to e(counter).  spec_bufs B file lens: file[0:B], file[n1:n1+B], file[n1+n2:...], ...
     Model/Layout.v    build (copybook entry -> JSON schema), nav_of (LocationMaker.from_instance from offset 0),
                       nav_name / nav_index (NDNav.name / NDNav.index), locations (LArr start size item_size count ...).
     Model/OdoStream.v row_loop / rows_N / rows_V / rows_VB / rows_F: COBOL_EBCDIC_Sheet.set_schema + row_iter over the RECFM
                       readers of Model/Recfm.v; a row = (buffer handed to Row(), navigator built on it); the lrecl
                       argument is what the caller passed to COBOL_EBCDIC_File (None, Some 0, Some n).
   [dcount] (decoding of a counter field) and the element type of records are arbitrary.
   The flat family is proved completely, file framing included (theorems C06_stream_N, _V, _VB, _F).  The general nested shapes (ODO tables
   inside non-repeated groups, sibling groups, next to REDEFINES unions) have the layout theorem C06_layout at the end of
   this file (Proofs/LayoutOdoP.v, extending C01's development); their composition with the file readers, and ODO inside a
   table or a REDEFINES member, are covered by the correspondence run only. *)
From Coq Require Import ZArith NArith List.
Import ListNotations.
Require Import SR.Base.Res SR.Gen.RecfmParams SR.Spec.Recfm SR.Model.Recfm.
Require Import SR.Spec.Layout SR.Model.Layout SR.Spec.OdoStream SR.Model.OdoStream SR.Proofs.OdoStreamP.
Open Scope nat_scope.

(* (1) ONE record.  For every flat record description, every count vector and every record that carries it:
   the walk succeeds; the record ends at the specification's length; every child is found by name at the
   specification's start with the specification's size; a table has exactly e(counter) occurrences, occurrence i
   lies at start + i * (length of one occurrence), and an index at or beyond the count is refused with IndexError. *)
Theorem C06_layout_flat : forall (B : Type) (dcount : list B -> nat) (t : item) (e : env) (r : list B),
  flat_odo t = true -> counters_hold dcount e t r ->
  exists v, nav_of dcount r (build t) = Ok v
    /\ lstart (n_loc v) = 0 /\ lend (n_loc v) = extent e t
    /\ forall k x, find_kid (item_kids t) k = Some x ->
       exists o vk, kid_start e (item_kids t) k = Some o
         /\ nav_name v (KName k) = Ok vk
         /\ lstart (n_loc vk) = o /\ lsize (n_loc vk) = extent e x
         /\ (is_table x = true ->
               (exists sub sch, n_loc vk = LArr o (extent e x) (ext1 e x) (count e (item_oc x)) sub sch)
               /\ (forall i, i < count e (item_oc x) ->
                     exists vi, nav_index dcount r vk i = Ok vi
                       /\ lstart (n_loc vi) = o + i * ext1 e x /\ lsize (n_loc vi) = ext1 e x)
               /\ (forall i, count e (item_oc x) <= i -> nav_index dcount r vk i = Err IndexError)).
Proof. exact (@layout_flat). Qed.
Print Assumptions C06_layout_flat.

(* (1b) Inside occurrence i < e(counter) of a table: an elementary table's occurrence holds its element at
   start + i * width; a group table's occurrence holds every member at start + i * (length of one occurrence) + the
   member's specification offset inside the group. *)
Theorem C06_layout_flat_occurrence : forall (B : Type) (dcount : list B -> nat) (t : item) (e : env) (r : list B),
  flat_odo t = true -> counters_hold dcount e t r ->
  exists v, nav_of dcount r (build t) = Ok v
    /\ forall k x, find_kid (item_kids t) k = Some x -> is_table x = true ->
       exists o vk, kid_start e (item_kids t) k = Some o /\ nav_name v (KName k) = Ok vk
         /\ forall i, i < count e (item_oc x) ->
            exists vi, nav_index dcount r vk i = Ok vi
              /\ match x with
                 | Elem n sz _ _ => exists vj, nav_name vi (KName n) = Ok vj /\ n_loc vj = LAtom (o + i * sz) sz
                 | Group _ _ _ gks =>
                     forall j y, find_kid gks j = Some y ->
                       exists oj vj, kid_start e gks j = Some oj /\ nav_name vi (KName j) = Ok vj
                         /\ n_loc vj = LAtom (o + i * ext1 e x + oj) (extent e y)
                 end.
Proof. exact (@layout_flat_occurrence). Qed.
Print Assumptions C06_layout_flat_occurrence.

(* Frame: the walk reads the record only at its counter fields, which lie inside the record; whatever follows the
   record in the reader's buffer does not change the navigator. *)
Theorem C06_frame : forall (B : Type) (dcount : list B -> nat) (t : item) (e : env) (r more : list B),
  flat_odo t = true -> extent e t <= length r -> counters_hold dcount e t r ->
  nav_of dcount (r ++ more) (build t) = nav_of dcount r (build t).
Proof. exact (@nav_frame). Qed.
Print Assumptions C06_frame.

(* (2) A FILE of records without length headers (RECFM N), any buffer size B > 0, any element type.
   For every flat description, every sequence of count vectors e_1..e_k and records r_j of length extent e_j t
   (between 1 and B) carrying e_j: the row loop on the concatenation ends normally after exactly k rows, file and
   buffer empty; the buffer of row j is the file from the offset where record j-1 ended (cut at B elements), so
   its head is r_j; the navigator of row j is the one the schema walk gives on r_j alone (to which (1) applies) and
   it ends at extent e_j t = length r_j, which is what the loop announces to the reader. *)
Theorem C06_stream_N_any_buffer : forall (A : Type) (dcount : list A -> nat) (B : nat) (kind : N) (t : item)
    (es : list env) (rs : list (list A)),
  0 < B -> flat_odo t = true ->
  Forall2 (fun e r => length r = extent e t /\ counters_hold dcount e t r) es rs ->
  legal_N B rs = true ->
  exists rows s',
    row_loop dcount (S (length (write_N rs))) 0 kind B (build t) (N_init B (write_N rs)) = (rows, Done, s')
    /\ map (@row_buf A) rows = spec_bufs B (write_N rs) (map (@length A) rs)
    /\ heads (map (@length A) rs) (map (@row_buf A) rows) = rs
    /\ Forall2 (fun rw r => nav_of dcount r (build t) = Ok (row_nav rw)) rows rs
    /\ Forall2 (fun rw e => lend (n_loc (row_nav rw)) = extent e t) rows es
    /\ buf s' = [] /\ rest s' = [].
Proof. exact (@stream_N_any_buffer). Qed.
Print Assumptions C06_stream_N_any_buffer.

(* The same through set_schema and rows(), with the buffer size and the refill expression class read from the current
   source (Gen/RecfmParams.v), for ANY lrecl argument: None (what the docstring of COBOL_EBCDIC_File asks for with an
   OCCURS DEPENDING ON layout), 0, or any number (RECFM_N ignores it). *)
Theorem C06_stream_N : forall (A : Type) (dcount : list A -> nat) (kind : N) (lrecl : option nat) (t : item)
    (es : list env) (rs : list (list A)),
  flat_odo t = true ->
  Forall2 (fun e r => length r = extent e t /\ counters_hold dcount e t r) es rs ->
  legal_N (N.to_nat buffer_size) rs = true ->
  exists rows s',
    rows_N dcount kind lrecl (build t) (write_N rs) = Ok (rows, Done, s')
    /\ map (@row_buf A) rows = spec_bufs (N.to_nat buffer_size) (write_N rs) (map (@length A) rs)
    /\ heads (map (@length A) rs) (map (@row_buf A) rows) = rs
    /\ Forall2 (fun rw r => nav_of dcount r (build t) = Ok (row_nav rw)) rows rs
    /\ Forall2 (fun rw e => lend (n_loc (row_nav rw)) = extent e t) rows es
    /\ buf s' = [] /\ rest s' = [].
Proof. exact (@stream_N_any_lrecl). Qed.
Print Assumptions C06_stream_N.

(* RECFM V: the reader delivers exactly the records (C05_V); each row's navigator is the walk on its record.  Any lrecl. *)
Theorem C06_stream_V : forall (dcount : list N -> nat) (kind : N) (lrecl : option nat) (t : item)
    (es : list env) (rs : list (list N)),
  flat_odo t = true ->
  Forall2 (fun e r => length r = extent e t /\ counters_hold dcount e t r) es rs ->
  legal_V rs = true ->
  exists rows,
    rows_V dcount kind lrecl (build t) (write_V rs) = Ok (rows, Done)
    /\ map (@row_buf N) rows = rs
    /\ Forall2 (fun rw r => nav_of dcount r (build t) = Ok (row_nav rw)) rows rs
    /\ Forall2 (fun rw e => lend (n_loc (row_nav rw)) = extent e t) rows es.
Proof. exact stream_V_any_lrecl. Qed.
Print Assumptions C06_stream_V.

(* RECFM VB: every legal blocking of the records (C05_VB).  Any lrecl. *)
Theorem C06_stream_VB : forall (dcount : list N -> nat) (kind : N) (lrecl : option nat) (t : item)
    (ess : list (list env)) (blocks : list (list (list N))),
  flat_odo t = true ->
  Forall2 (Forall2 (fun e r => length r = extent e t /\ counters_hold dcount e t r)) ess blocks ->
  legal_VB blocks = true ->
  exists rows,
    rows_VB dcount kind lrecl (build t) (write_VB blocks) = Ok (rows, Done)
    /\ map (@row_buf N) rows = concat blocks
    /\ Forall2 (fun rw r => nav_of dcount r (build t) = Ok (row_nav rw)) rows (concat blocks)
    /\ Forall2 (fun rw e => lend (n_loc (row_nav rw)) = extent e t) rows (concat ess).
Proof. exact stream_VB_any_lrecl. Qed.
Print Assumptions C06_stream_VB.

(* RECFM F / FB: the variable-length records stored in a fixed-length file, every record followed by padding up to the
   LRECL (any padding bytes): the reader cuts the file at the LRECL (C05_F), each row's buffer is the stored record, and its
   navigator is the walk on the record itself - laid out by that record's own counters, ending at its own extent. *)
Theorem C06_stream_F : forall (dcount : list N -> nat) (kind : N) (lrecl : nat) (t : item)
    (es : list env) (rs ps : list (list N)),
  flat_odo t = true ->
  Forall2 (fun e r => length r = extent e t /\ counters_hold dcount e t r) es rs ->
  Forall2 (fun r p => exists more, p = r ++ more) rs ps ->
  legal_F lrecl ps = true ->
  exists rows,
    rows_F dcount kind (Some lrecl) (build t) (write_F ps) = Ok (rows, Done)
    /\ map (@row_buf N) rows = ps
    /\ Forall2 (fun rw r => nav_of dcount r (build t) = Ok (row_nav rw)) rows rs
    /\ Forall2 (fun rw e => lend (n_loc (row_nav rw)) = extent e t) rows es.
Proof. exact stream_F. Qed.
Print Assumptions C06_stream_F.

(* lrecl None (or 0) with an OCCURS DEPENDING ON layout, any schema s holding such a table and any file (fix 64e9f81;
   the rule is read from workbook.COBOL_EBCDIC_Sheet.set_schema into Gen/LayoutParams.v): from_schema() cannot compute a
   record length, set_schema keeps None, and RECFM N, V and VB - which never use the length - deliver exactly what they
   deliver with any positive lrecl; RECFM F has nothing to cut the file with and raises TypeError when the first row is
   asked for, before any row is delivered. *)
Theorem C06_lrecl_none : forall (dcount : list N -> nat) (kind : N) (lrecl : option nat) (n : nat) (s : js) (file : list N),
  lrecl = None \/ lrecl = Some 0 -> js_has_odo s = true ->
  rows_N dcount kind lrecl s file = rows_N dcount kind (Some (S n)) s file
  /\ rows_V dcount kind lrecl s file = rows_V dcount kind (Some (S n)) s file
  /\ rows_VB dcount kind lrecl s file = rows_VB dcount kind (Some (S n)) s file
  /\ rows_F dcount kind lrecl s file = Ok ([], Raised TypeError).
Proof. exact lrecl_none_bytes. Qed.
Print Assumptions C06_lrecl_none.

(* RECFM N over any element type *)
Theorem C06_lrecl_none_N : forall (A : Type) (dcount : list A -> nat) (kind : N) (lrecl : option nat) (n : nat) (s : js)
    (file : list A),
  lrecl = None \/ lrecl = Some 0 -> js_has_odo s = true ->
  rows_N dcount kind lrecl s file = rows_N dcount kind (Some (S n)) s file.
Proof. exact (@lrecl_none_N). Qed.
Print Assumptions C06_lrecl_none_N.

(* What fix 64e9f81 repaired (finding K-odo-lrecl-none): without the try around from_schema() - no exception caught -
   set_schema itself raises ValueError for every schema holding an ODO table, so no row is delivered whatever the
   file and the reader (rows_N / rows_V / rows_VB / rows_F all start with set_schema). *)
Theorem C06_lrecl_none_old_refuted : forall (A : Type) (dcount : list A -> nat) (s : js),
  js_has_odo s = true ->
  set_schema_with dcount [] 0 None s = Err ValueError /\ set_schema_with dcount [] 0 (Some 0) s = Err ValueError.
Proof. exact (@set_schema_old_refuted). Qed.
Print Assumptions C06_lrecl_none_old_refuted.

(* What fix fdac88e repaired, seen through the row loop: with the refill of the original tree (mode 1:
   read(K - used)) records are lost.  K = 8, three records of 5 elements (counter 1, one occurrence). *)
Theorem C06_stream_old_refuted :
  exists (B : nat) (t : item) (es : list env) (rs : list (list nat)),
    flat_odo t = true /\ legal_N B rs = true
    /\ Forall2 (fun e r => length r = extent e t /\ counters_hold (hd 0) e t r) es rs
    /\ heads (map (@length nat) rs)
         (map (@row_buf nat) (fst (fst (row_loop (hd 0) (S (length (write_N rs))) 1 0 B (build t) (N_init B (write_N rs))))))
       <> rs.
Proof. exact old_refill_refuted. Qed.
Print Assumptions C06_stream_old_refuted.

(* ---- non-vacuity: the hypotheses are satisfiable, with two tables, two counters and records of different length *)

(* 01 R.  05 C1 PIC 99.  05 A PIC X(5).  05 T1 PIC X(3) OCCURS 0 TO 9 DEPENDING ON C1.  05 M PIC X(4).
          05 C2 PIC 9.   05 G OCCURS 0 TO 3 DEPENDING ON C2.  10 G1 PIC XX.  10 G2 PIC X(3).   05 Z PIC X(6). *)
Example C06_family_example :
  flat_odo ex_tree = true /\ js_has_odo (build ex_tree) = true.
Proof. split; reflexivity. Qed.

Example C06_record_example :
  counters_hold ex_dcount ex_e1 ex_tree ex_r1 /\ length ex_r1 = extent ex_e1 ex_tree
  /\ counters_hold ex_dcount ex_e2 ex_tree ex_r2 /\ length ex_r2 = extent ex_e2 ex_tree
  /\ length ex_r1 <> length ex_r2.
Proof. exact ex_records_ok. Qed.

Example C06_stream_example :
  Forall2 (fun e r => length r = extent e ex_tree /\ counters_hold ex_dcount e ex_tree r) [ex_e1; ex_e2; ex_e1] [ex_r1; ex_r2; ex_r1]
  /\ legal_N 32 [ex_r1; ex_r2; ex_r1] = true /\ legal_N (N.to_nat buffer_size) [ex_r1; ex_r2; ex_r1] = true
  /\ legal_V [ex_r1; ex_r2; ex_r1] = true /\ legal_VB [[ex_r1; ex_r2]; [ex_r1]] = true.
Proof. exact ex_stream_ok. Qed.

(* ------------------------------------------------------------------------------------------------
   C06 in general form (Proofs/LayoutOdoP.v, extending C01's development): OCCURS DEPENDING ON tables -
   elementary or group - anywhere a non-repeated item may stand: in the record, in nested non-repeated
   groups, in sibling groups, next to REDEFINES unions; each counter an elementary non-repeated item
   outside every union and table that comes earlier in the record ([wfo]); names pairwise distinct.
   For EVERY such record description, EVERY count vector e and EVERY record r (over any element type)
   that carries e at the places of its non-repeated elementary items ([Holds]): every navigation path
   lands on the bytes the COBOL rules assign for THIS record's counts, the number of occurrences of a
   table is its counter's value, an index at or beyond it is IndexError, and the record ends at its
   extent. *)
Require Import SR.Proofs.LayoutP SR.Proofs.LayoutOdoP.

Theorem C06_layout : forall (B : Type) (dcount : list B -> nat) (r : list B) (e : env) (t : item),
  wfo e [] t = true -> NoDup (ids t) -> Holds B dcount r e t 0 ->
  exists v0, nav_of dcount r (build t) = Ok v0
    /\ lstart (n_loc v0) = 0 /\ lend (n_loc v0) = extent e t
    /\ forall p v st, spec_nav e (VItem t) 0 p = inl (v, st) ->
         exists nv, nav_path dcount r v0 p = Ok nv
           /\ lstart (n_loc nv) = st /\ lend (n_loc nv) = st + view_size e v
           /\ nav_raw r nv = slice r st (st + view_size e v)
           /\ (forall x, v = VItem x -> is_table x = true ->
                 forall i, count e (item_oc x) <= i -> nav_index dcount r nv i = Err IndexError).
Proof. exact layout_correct_odo. Qed.
Print Assumptions C06_layout.

(* Non-vacuity: 01 R. 05 N PIC 9. 05 G. 10 A PIC X(2). 10 T OCCURS 0 TO 9 DEPENDING ON N PIC X(3).
   05 S. 10 U OCCURS DEPENDING ON N. 15 V PIC X. 05 Z PIC X(2).  (ids R=1 N=2 G=3 A=4 T=5 S=6 U=7 V=8 Z=9)
   with N = 2 in a record whose first byte decodes to 2: T[1] is at 6-9, U[1].V at 10-11, Z at 11-13. *)
Definition odo_tree : item :=
  Group 1%N Once None
    (ICons (Elem 2%N 1 Once None)
    (ICons (Group 3%N Once None (ICons (Elem 4%N 2 Once None) (ICons (Elem 5%N 3 (Odo 2%N) None) INil)))
    (ICons (Group 6%N Once None (ICons (Group 7%N (Odo 2%N) None (ICons (Elem 8%N 1 Once None) INil)) INil))
    (ICons (Elem 9%N 2 Once None) INil)))).

Definition odo_env : env := fun c => if N.eqb c 2 then 2 else 0.

Example C06_layout_example :
  wfo odo_env [] odo_tree = true
  /\ extent odo_env odo_tree = 13
  /\ spec_nav odo_env (VItem odo_tree) 0 [PName 3%N; PName 5%N; PIndex 1] = inl (VOcc (Elem 5%N 3 (Odo 2%N) None), 6)
  /\ spec_nav odo_env (VItem odo_tree) 0 [PName 6%N; PName 7%N; PIndex 1; PName 8%N] = inl (VItem (Elem 8%N 1 Once None), 10)
  /\ spec_nav odo_env (VItem odo_tree) 0 [PName 9%N] = inl (VItem (Elem 9%N 2 Once None), 11).
Proof. vm_compute. repeat split; reflexivity. Qed.
