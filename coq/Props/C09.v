(* C09 - Header-row / external schemas: by-name access, any column order, no row skipped.
   Only the property theorems, each closed by an exact lemma of Proofs/HeaderRowP.v.

   Model/HeaderRow.v: [row_iter l preset sheet] = list(sheet.rows()) for a sheet with loader l and
   pre-bound schema [preset]: [Ok (schema afterwards, instances of the rows delivered)] or the
   exception; [nav_name s k r] = row.name(k).value(), [Ok None] being the list [None] that
   WBNav.name substitutes for a missing cell; [values s r] = row.values();
   [read_after bs sheet] = the same after the binding calls bs (set_schema / set_schema_loader) on a fresh Sheet;
   [ext_load_meta] = ExternalSchemaLoader(sheet).load() under the documented protocol;
   [hand_schema names] = {type: object, properties: {name: {type: string}, ...}}.
   Spec/Table.v: [data_rows], [cells_in_header_order], [with_positions], [first_cells].
   A sheet is any list of rows, a row any list of cells, of any lengths. *)
From Coq Require Import NArith List Permutation.
Import ListNotations.
Require Import SR.Base.Res SR.Spec.Table SR.Model.HeaderRow SR.Proofs.HeaderRowP.

(* Every sheet: reading never raises, and the rows delivered are exactly the physical rows
   after the first, each once, in order (whatever the lengths of the rows, whatever the header). *)
Theorem C09_rows : forall (sh : sheet) (pre : option schema),
  exists os, row_iter HeadingRow pre sh = Ok (os, data_rows sh).
Proof. exact rows_tl. Qed.
Print Assumptions C09_rows.

(* A sheet with no rows yields no rows (and binds no schema). *)
Theorem C09_empty : forall pre : option schema, row_iter HeadingRow pre [] = Ok (pre, []).
Proof. exact rows_empty. Qed.
Print Assumptions C09_empty.

(* Distinct header names: the i-th header names the i-th column.  For every row r whatsoever
   (shorter or longer than the header), asking for the name str(c) of the i-th header cell
   gives the i-th cell of r, or the absent marker when r has no i-th cell. *)
Theorem C09_by_name : forall (h : row) (body : sheet) pre os rows,
  row_iter HeadingRow pre (h :: body) = Ok (os, rows) ->
  NoDup (map str_of h) ->
  exists s, os = Some s /\
    forall (r : row) (i : nat) (c : cell),
      nth_error h i = Some c -> nav_name s (str_of c) r = Ok (nth_error r i).
Proof. exact by_name_table. Qed.
Print Assumptions C09_by_name.

(* The value list of a row is its cells in header order: the first |h| cells, missing ones
   reported absent at their own place, nothing shifted. *)
Theorem C09_values : forall (h : row) (body : sheet) pre os rows,
  row_iter HeadingRow pre (h :: body) = Ok (os, rows) ->
  NoDup (map str_of h) ->
  exists s, os = Some s /\
    forall r : row, values s r = Ok (cells_in_header_order (length h) r).
Proof. exact values_table. Qed.
Print Assumptions C09_values.

(* Permuting the columns of a file changes no value obtained by name.  pi is any permutation
   of the column numbers; the second table has header h' = h re-ordered by pi and every data
   row re-ordered the same way (cell i of r' is cell pi[i] of r, a missing cell staying
   missing; cells beyond the header are unconstrained).  Then the two tables deliver rows
   that agree, pairwise, on every header name. *)
Theorem C09_permutation : forall (h h' : row) (body body' : sheet) (pi : list nat) pre os os' rows rows',
  NoDup (map str_of h) ->
  Permutation pi (seq 0 (length h)) ->
  Forall2 (fun c' j => nth_error h j = Some c') h' pi ->
  Forall2 (fun r r' => forall i j, nth_error pi i = Some j -> nth_error r' i = nth_error r j) body body' ->
  row_iter HeadingRow pre (h :: body) = Ok (os, rows) ->
  row_iter HeadingRow pre (h' :: body') = Ok (os', rows') ->
  exists s s', os = Some s /\ os' = Some s' /\
    Forall2 (fun r r' => forall c, In c h -> nav_name s' (str_of c) r' = nav_name s (str_of c) r)
            rows rows'.
Proof. exact perm_table. Qed.
Print Assumptions C09_permutation.

(* External schema.  For every metadata sheet whose rows each start with a text cell, the
   names being distinct: the loaded schema has exactly those names as properties, in sheet
   order, with positions 0..n-1; a data sheet read with it delivers every row (no header row
   is taken); every by-name read equals the read through the hand-written schema with the
   same names (KeyError included), the i-th name reads the i-th cell, and the value lists of
   both are the cells in name order. *)
Theorem C09_external : forall (meta : sheet) (names : list key) (s : schema),
  first_cells meta = Some (map Txt names) -> NoDup names ->
  ext_load_meta meta = Ok s ->
  map (fun e => (e_key e, e_pos e)) s
    = map (fun p => (fst p, Some (snd p))) (with_positions names)
  /\ (forall data, row_iter NoLoader (Some s) data = Ok (Some s, data))
  /\ (forall k r, nav_name s k r = nav_name (hand_schema names) k r)
  /\ (forall i k r, nth_error names i = Some k -> nav_name s k r = Ok (nth_error r i))
  /\ (forall r, values s r = Ok (cells_in_header_order (length names) r)
             /\ values (hand_schema names) r = Ok (cells_in_header_order (length names) r)).
Proof. exact external. Qed.
Print Assumptions C09_external.

(* ... and under the same hypotheses the load does succeed. *)
Theorem C09_external_loads : forall (meta : sheet) (names : list key),
  first_cells meta = Some (map Txt names) -> NoDup names ->
  exists s, ext_load_meta meta = Ok s.
Proof. intros meta names H Hnd. eexists. exact (ext_load_nodup meta names H Hnd). Qed.
Print Assumptions C09_external_loads.

(* Binding calls on one Sheet object (set_schema, set_schema_loader, in any order and number)
   before rows(): the last call decides.  After any sequence ending in set_schema s the sheet
   is read by [row_iter NoLoader (Some s)] - every physical row is delivered and s is the
   schema, so C09_external applies whatever loader had been installed before; after any
   sequence ending in set_schema_loader(HeadingRowSchemaLoader()) it is read by
   [row_iter HeadingRow _] - the rows after the first are delivered and C09_by_name,
   C09_values, C09_permutation apply. *)
Theorem C09_binding_last_wins :
  (forall (bs : list binding) (s : schema) (data : sheet),
     read_after (bs ++ [SetSchema s]) data = row_iter NoLoader (Some s) data
     /\ read_after (bs ++ [SetSchema s]) data = Ok (Some s, data))
  /\ (forall (bs : list binding) (sh : sheet),
       (exists pre, read_after (bs ++ [SetLoader HeadingRow]) sh = row_iter HeadingRow pre sh)
       /\ (exists os, read_after (bs ++ [SetLoader HeadingRow]) sh = Ok (os, data_rows sh))).
Proof. exact binding_last_wins. Qed.
Print Assumptions C09_binding_last_wins.

(* Explicit positions.  A schema whose properties each declare a column position (a
   hand-written or external schema that lists the columns in another order than the file, or
   only some of them): whatever the order of the declarations and whatever the positions
   (position 0 included, wherever it is listed), a declared name reads the cell at ITS declared
   position (absent when the row is too short), any other name is a KeyError, and the value
   list is the cells at the declared positions in declaration order. *)
Theorem C09_explicit_positions : forall decl : list (key * nat),
  NoDup (map fst decl) ->
  (forall k r, nav_name (hand_schema_at decl) k r
               = match declared_cell key_eqb decl k r with Some v => Ok v | None => Err KeyError end)
  /\ (forall i k p r, nth_error decl i = Some (k, p) ->
                      nav_name (hand_schema_at decl) k r = Ok (nth_error r p))
  /\ (forall r, values (hand_schema_at decl) r = Ok (cells_at decl r)).
Proof. exact explicit_positions_hand. Qed.
Print Assumptions C09_explicit_positions.

(* ---- non-vacuity: the hypotheses of each implication are satisfiable ---- *)
Definition ex_a : cell := Txt [97; 32; 98]%N.          (* 'a b' *)
Definition ex_b : cell := Txt [49; 120]%N.             (* '1x' *)
Definition ex_1 : cell := Txt [49]%N.
Definition ex_2 : cell := Txt [50]%N.

Example ex_nodup : NoDup (map str_of [ex_a; ex_b]).
Proof.
  simpl. constructor; [|constructor; [intros []|constructor]].
  intros [H|[]]. discriminate.
Qed.

(* header 'a b','1x'; the short row ('1') reports its second cell absent *)
Example C09_by_name_example :
  row_iter HeadingRow None [[ex_a; ex_b]; [ex_1]]
    = Ok (Some [mk_entry [97; 32; 98]%N (Some 0); mk_entry [49; 120]%N (Some 1)], [[ex_1]])
  /\ NoDup (map str_of [ex_a; ex_b])
  /\ nav_name [mk_entry [97; 32; 98]%N (Some 0); mk_entry [49; 120]%N (Some 1)] [49; 120]%N [ex_1] = Ok None
  /\ values [mk_entry [97; 32; 98]%N (Some 0); mk_entry [49; 120]%N (Some 1)] [ex_1] = Ok [Some ex_1; None].
Proof. split; [vm_compute; reflexivity|]. split; [exact ex_nodup|]. split; vm_compute; reflexivity. Qed.

(* the two columns swapped *)
Example C09_permutation_hypotheses :
  NoDup (map str_of [ex_a; ex_b])
  /\ Permutation [1; 0] (seq 0 (length [ex_a; ex_b]))
  /\ Forall2 (fun c' j => nth_error [ex_a; ex_b] j = Some c') [ex_b; ex_a] [1; 0]
  /\ Forall2 (fun r r' : row => forall i j, nth_error [1; 0] i = Some j -> nth_error r' i = nth_error r j)
             [[ex_1; ex_2]] [[ex_2; ex_1]].
Proof.
  split; [exact ex_nodup|]. split; [simpl; apply perm_swap|].
  split; [repeat constructor|].
  constructor; [|constructor].
  intros [|[|i]] j H; simpl in H; try (injection H as <-; reflexivity).
  destruct i; discriminate.
Qed.

(* a metadata sheet with a full row and a row that has only a name *)
Example C09_external_example :
  first_cells [[ex_a; ex_1; ex_2]; [ex_b]] = Some (map Txt [[97; 32; 98]; [49; 120]]%N)
  /\ NoDup [[97; 32; 98]; [49; 120]]%N
  /\ ext_load_meta [[ex_a; ex_1; ex_2]; [ex_b]]
     = Ok [mk_entry [97; 32; 98]%N (Some 0); mk_entry [49; 120]%N (Some 1)].
Proof. split; [reflexivity|]. split; [exact ex_nodup|]. vm_compute. reflexivity. Qed.

(* ---- outside the domain (model facts, recorded so that the restrictions are visible) ----
   These agreed with the implementation on every generated case when the judge still compared
   them (70 repeated-heading tables, 31 metadata sheets); the registered judge no longer
   compares by-name reads outside the domain, so that a rewrite which resolves repeated
   names differently raises no alarm. *)

(* repeated header names collapse into one property that reads the LAST of the equal columns:
   [NoDup] cannot be dropped from C09_by_name / C09_values *)
Example C09_by_name_needs_distinct_headers :
  row_iter HeadingRow None [[ex_a; ex_a; ex_b]; [ex_1; ex_2; ex_1]]
    = Ok (Some [mk_entry [97; 32; 98]%N (Some 1); mk_entry [49; 120]%N (Some 2)], [[ex_1; ex_2; ex_1]])
  /\ nav_name [mk_entry [97; 32; 98]%N (Some 1); mk_entry [49; 120]%N (Some 2)] (str_of ex_a) [ex_1; ex_2; ex_1]
     = Ok (Some ex_2)
  /\ values [mk_entry [97; 32; 98]%N (Some 1); mk_entry [49; 120]%N (Some 2)] [ex_1; ex_2; ex_1]
     = Ok [Some ex_2; Some ex_1].
Proof. repeat split; vm_compute; reflexivity. Qed.

(* a metadata row with no first cell (a blank line of a CSV file) makes load() raise TypeError,
   and a repeated name leaves one property carrying the last position *)
Example C09_external_needs_named_distinct_rows :
  ext_load_meta [[ex_a]; []] = Err TypeError
  /\ ext_load_meta [[ex_a]; [ex_b]; [ex_a]]
     = Ok [mk_entry [97; 32; 98]%N (Some 2); mk_entry [49; 120]%N (Some 1)].
Proof. split; vm_compute; reflexivity. Qed.

(* position 0 declared second: the names read columns 1 and 0, the values come in that order *)
Example C09_explicit_positions_example :
  NoDup (map fst [([49; 120]%N, 1); ([97; 32; 98]%N, 0)])
  /\ nav_name (hand_schema_at [([49; 120]%N, 1); ([97; 32; 98]%N, 0)]) [97; 32; 98]%N [ex_1; ex_2] = Ok (Some ex_1)
  /\ values (hand_schema_at [([49; 120]%N, 1); ([97; 32; 98]%N, 0)]) [ex_1; ex_2] = Ok [Some ex_2; Some ex_1].
Proof.
  split; [|split; vm_compute; reflexivity].
  simpl. constructor; [|constructor; [intros []|constructor]]. intros [H|[]]. discriminate.
Qed.
