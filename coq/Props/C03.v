(* C03 - placeholder while the judge is being validated; replaced below. *)
From Coq Require Import List.
Require Import SR.Model.Workbook.
