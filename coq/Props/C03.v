(* C03 - Format transparency: the same table reads the same from every file format.  PARTIAL:
   the third-party parsers (csv, openpyxl, pyexcel, numbers_parser, xlrd, json) are OUTSIDE the model.
   They enter as the universally quantified functions [ext_write] / [ext_parse] with the hypothesis
   H_ext "what the parser delivers for the file the writer produced for W is the stored table" -
   ASSUMED, NOT PROVED; it is an explicit premise of every theorem that uses it.  The two formats
   the library decodes itself (fixed-width text, EBCDIC) are proved down to the file image, with no
   such premise.  Only the property theorems are here, each closed by an exact lemma of
   Proofs/WorkbookP.v.

   Spec/Transparency.v   [table] = header + rows of text cells, [workbook] = named sheets in order,
                         [cells_by_name], [pad_table], the writers [write_fixed_text] / [write_ebcdic],
                         [numbers_doc] / [flatten_numbers] (the documented sheet::table names)
   Model/Workbook.v      [open_read parse f img probes] = open_workbook(path) or the class for the format,
                         sheet_iter(), schema bound by set_schema_loader(HeadingRowSchemaLoader()) for
                         formats with a header row and by set_schema(...) for NDJSON, rows(),
                         row.name(c).value() for the column names: per sheet (name, result of reading);
                         [read_fixed] / [read_ebcdic] the same run for COBOL_Text_File / COBOL_EBCDIC_File
                         on a file image with the schema of a copybook of X(w) items ([layout_of]);
                         [phys f W] = the parser-level content of a file that stores W;
                         [expected W] = every sheet by name, every row in order, the str under every column.
   A value read is [Ok (Some (Txt s))] = the str s; [Err e] = the call raised. *)
From Coq Require Import NArith List Lia.
Import ListNotations.
Require Import SR.Base.Res SR.Spec.Transparency SR.Spec.Encode SR.Gen.RecfmParams SR.Model.HeaderRow SR.Model.Workbook.
Require Import SR.Proofs.WorkbookP.

(* The file suffix alone selects the reader: for every format with a registered suffix the registry
   (registrations read from the source on every run) hands the file to that format's class. *)
Theorem C03_suffix : forall f : fmt, reader_for f = Ok f.
Proof. exact reader_for_ok. Qed.
Print Assumptions C03_suffix.

(* Facade, both binding paths, UNDER H_ext.  For every workbook with distinct sheet names whose tables are
   rectangular with distinct column names, stored in any third-party format (one table under the empty
   name for the single-sheet formats): open -> sheet_iter -> rows -> name(c).value() returns exactly the
   sheets (names, order), the rows (count, order) and the cell under every column name.
   Header-row binding: CSV, TAB, XLSX, ODS, XLS (C09 lifted through sheet_iter); explicit schema: NDJSON. *)
Theorem C03_facade : forall (image : Type) (ext_write : fmt -> workbook -> image) (ext_parse : fmt -> image -> content),
  (forall f W, third_party f = true -> storable f W = true -> ext_parse f (ext_write f W) = phys f W) ->
  forall f W, third_party f = true -> storable f W = true -> wf_workbook W ->
    open_read ext_parse f (ext_write f W) (headers W) = Ok (expected W).
Proof. exact facade_ok. Qed.
Print Assumptions C03_facade.

(* [expected] is the spec's by-name association for every row, and has the workbook's sheets and row counts *)
Theorem C03_expected_by_name : forall T : table,
  rows_by_name (t_header T) (expected_rows T) = expected_by_name T.
Proof. exact expected_is_cells_by_name. Qed.
Print Assumptions C03_expected_by_name.

Theorem C03_expected_shape : forall W : workbook,
  map fst (expected W) = map fst W
  /\ Forall2 (fun o s => exists rows, snd o = Ok rows /\ length rows = length (t_rows (snd s))) (expected W) W.
Proof. exact expected_shape. Qed.
Print Assumptions C03_expected_shape.

(* Numbers, UNDER H_num: every table of every sheet is presented as a sheet named sheet::table, provided
   every (sheet, table) name pair splits back at the first separator (known finding 1 otherwise). *)
Theorem C03_facade_numbers : forall (image : Type) (ext_parse : fmt -> image -> content) (num_write : numbers_doc -> image),
  (forall d, ext_parse F_NUMBERS (num_write d) = phys_numbers d) ->
  forall d, wf_numbers d ->
    open_read ext_parse F_NUMBERS (num_write d) (headers (flatten_numbers d)) = Ok (expected (flatten_numbers d)).
Proof. intros image ext_parse num_write H d Hd. exact (facade_numbers_ok image ext_parse num_write H d Hd). Qed.
Print Assumptions C03_facade_numbers.

(* a sheet name without a colon always splits back *)
Theorem C03_numbers_names : forall s t : key,
  forallb (fun c => negb (c =? 58)%N) s = true -> partition_sep (s ++ name_sep ++ t) = (s, t).
Proof. exact partition_no_colon. Qed.
Print Assumptions C03_numbers_names.

(* known finding 1: a Numbers sheet named a::b holding table T cannot be read (KeyError) *)
Theorem C03_refuted_1 :
  NoDup (map fst bad_doc)
  /\ read_header (phys_numbers bad_doc) (headers (flatten_numbers bad_doc))
     = [([97; 58; 58; 98; 58; 58; 84]%N, Err KeyError)]
  /\ read_header (phys_numbers bad_doc) (headers (flatten_numbers bad_doc)) <> expected (flatten_numbers bad_doc).
Proof. exact numbers_refuted. Qed.
Print Assumptions C03_refuted_1.

(* Fixed-width text, NO hypothesis: reading the image the Coq writer produces, with the copybook layout of the
   widths, gives back the padded table - for every table with distinct column names, cells no longer than
   their columns and free of line breaks. *)
Theorem C03_fixed_text : forall (T : table) (widths : list nat),
  NoDup (t_header T) -> fits widths T = true -> line_safe T = true ->
  read_fixed (write_fixed_text T widths) (layout_of (t_header T) widths) (t_header T)
  = expected [([], pad_table widths T)].
Proof. exact fixed_text_ok. Qed.
Print Assumptions C03_fixed_text.

(* EBCDIC, NO hypothesis: RECFM N (records no longer than the reader's buffer) or F, lrecl not given or the
   record length, any Python file object kind; cells in the CP037 repertoire. *)
Theorem C03_fixed_ebcdic : forall (r : recfm) (kind : N) (wb_lrecl : option nat) (T : table) (widths : list nat),
  NoDup (t_header T) -> fits widths T = true -> repertoire_ok T = true -> t_header T <> [] ->
  (r = RECFM_N -> list_sum widths <= N.to_nat buffer_size) ->
  wb_lrecl = None \/ wb_lrecl = Some (list_sum widths) ->
  read_ebcdic r kind wb_lrecl (write_ebcdic T widths) (layout_of (t_header T) widths) (t_header T)
  = expected [([], pad_table widths T)].
Proof. exact ebcdic_ok. Qed.
Print Assumptions C03_fixed_ebcdic.

(* the repertoire of CP037 is Latin-1, decoding inverts encoding on it, and cells that fill their columns
   are not changed by padding *)
Theorem C03_repertoire :
  (forall c, (c < 256)%N -> in_repertoire c = true)
  /\ (forall c, in_repertoire c = true -> cp037 (encode_char c) = c)
  /\ (forall widths T, fits_exactly widths T = true -> pad_table widths T = T).
Proof. split; [exact latin1_in_repertoire|]. split; [exact decode_encode|exact pad_table_exact]. Qed.
Print Assumptions C03_repertoire.

(* Hence any two formats agree (UNDER H_ext): on sheets, rows and every cell by name ... *)
Theorem C03_agree : forall (image : Type) (ext_write : fmt -> workbook -> image) (ext_parse : fmt -> image -> content),
  (forall f W, third_party f = true -> storable f W = true -> ext_parse f (ext_write f W) = phys f W) ->
  forall f g W, third_party f = true -> third_party g = true ->
    storable f W = true -> storable g W = true -> wf_workbook W ->
    open_read ext_parse f (ext_write f W) (headers W) = open_read ext_parse g (ext_write g W) (headers W).
Proof. exact agree_ok. Qed.
Print Assumptions C03_agree.

(* ... and the fixed-width file of T reads like any third-party format's file of the padded T
   (of T itself when the cells fill their columns: C03_repertoire, third part). *)
Theorem C03_agree_fixed : forall (image : Type) (ext_write : fmt -> workbook -> image) (ext_parse : fmt -> image -> content),
  (forall f W, third_party f = true -> storable f W = true -> ext_parse f (ext_write f W) = phys f W) ->
  forall f T widths, third_party f = true -> NoDup (t_header T) -> fits widths T = true ->
    (line_safe T = true ->
       open_read ext_parse f (ext_write f [([], pad_table widths T)]) [t_header T]
       = Ok (read_fixed (write_fixed_text T widths) (layout_of (t_header T) widths) (t_header T)))
    /\ (forall r kind wb_lrecl, repertoire_ok T = true -> t_header T <> [] ->
          (r = RECFM_N -> list_sum widths <= N.to_nat buffer_size) ->
          wb_lrecl = None \/ wb_lrecl = Some (list_sum widths) ->
          open_read ext_parse f (ext_write f [([], pad_table widths T)]) [t_header T]
          = Ok (read_ebcdic r kind wb_lrecl (write_ebcdic T widths) (layout_of (t_header T) widths) (t_header T))).
Proof.
  intros image ext_write ext_parse H f T widths Htp Hnd Hfit. split.
  - intros Hsafe. exact (agree_fixed_text image ext_write ext_parse H f T widths Htp Hnd Hfit Hsafe).
  - intros r kind wb_lrecl Hrep Hne Hbuf Hl.
    exact (agree_ebcdic image ext_write ext_parse H f r kind wb_lrecl T widths Htp Hnd Hfit Hrep Hne Hbuf Hl).
Qed.
Print Assumptions C03_agree_fixed.

(* Single-sheet formats present one sheet named '' - whatever the file holds (no hypothesis). *)
Theorem C03_single_sheet :
  (forall rows, sheet_names (C_single rows) = [[]])
  /\ (forall docs, sheet_names (C_json docs) = [[]])
  /\ (forall f W, third_party f = true -> single_sheet f = true -> sheet_names (phys f W) = [[]])
  /\ (forall f c probes, third_party f = true -> single_sheet f = true -> sheet_names c = [[]] ->
        map fst (facade_read f c probes) = [[]])
  /\ (forall file l probes, map fst (read_fixed file l probes) = [[]])
  /\ (forall r kind wb_lrecl file l probes, map fst (read_ebcdic r kind wb_lrecl file l probes) = [[]]).
Proof. exact single_sheet_names. Qed.
Print Assumptions C03_single_sheet.

(* ---- non-vacuity: the hypotheses are satisfiable, on a table with two columns and two rows ---- *)
Definition ex_T : table :=
  mk_table [[65]; [66; 50]]%N [[[97; 98]; [233]]; [[48; 48; 49]; [32]]]%N.     (* A, B2 | ab, e-acute | 001, blank *)

Lemma ex_T_wf : wf_table ex_T.
Proof.
  split; [|reflexivity].
  cbn. constructor; [intros [H|[]]; discriminate H|]. constructor; [intros []|constructor].
Qed.

Example C03_example_wf : wf_workbook [([83]%N, ex_T); ([84]%N, ex_T)] /\ wf_workbook [([], ex_T)].
Proof.
  split; split.
  - cbn [map fst]. constructor; [intros [H|[]]; discriminate H|]. constructor; [intros []|constructor].
  - constructor; [exact ex_T_wf|]. constructor; [exact ex_T_wf|constructor].
  - cbn [map fst]. constructor; [intros []|constructor].
  - constructor; [exact ex_T_wf|constructor].
Qed.

(* the third-party premise has a model: parsers and writers that are inverse to each other *)
Example C03_example_H_ext :
  exists (ext_write : fmt -> workbook -> fmt * workbook) (ext_parse : fmt -> fmt * workbook -> content),
    forall f W, third_party f = true -> storable f W = true -> ext_parse f (ext_write f W) = phys f W.
Proof. exists (fun f W => (f, W)), (fun _ p => phys (fst p) (snd p)). reflexivity. Qed.

Example C03_example_fixed :
  fits [3; 2] ex_T = true /\ line_safe ex_T = true /\ repertoire_ok ex_T = true /\ t_header ex_T <> []
  /\ list_sum [3; 2] <= N.to_nat buffer_size
  /\ write_fixed_text ex_T [3; 2] = [97; 98; 32; 233; 32; 10; 48; 48; 49; 32; 32; 10]%N
  /\ write_ebcdic ex_T [3; 2] = [129; 130; 64; 81; 64; 240; 240; 241; 64; 64]%N
  /\ read_fixed (write_fixed_text ex_T [3; 2]) (layout_of (t_header ex_T) [3; 2]) (t_header ex_T)
     = [([], Ok [[Ok (Some (Txt [97; 98; 32]%N)); Ok (Some (Txt [233; 32]%N))];
                 [Ok (Some (Txt [48; 48; 49]%N)); Ok (Some (Txt [32; 32]%N))]])].
Proof.
  repeat split; try (vm_compute; reflexivity); try discriminate.
  change (list_sum [3; 2]) with 5. unfold buffer_size. lia.
Qed.

Example C03_example_numbers :
  wf_numbers [([83]%N, [([84; 49]%N, ex_T); ([84; 50]%N, ex_T)])]
  /\ map fst (flatten_numbers [([83]%N, [([84; 49]%N, ex_T); ([84; 50]%N, ex_T)])])
     = [[83; 58; 58; 84; 49]; [83; 58; 58; 84; 50]]%N.
Proof.
  split; [|reflexivity]. split; [|split].
  - cbn [map fst]. constructor; [intros []|constructor].
  - constructor; [|constructor]. split.
    + cbn [map fst snd]. constructor; [intros [H|[]]; discriminate H|]. constructor; [intros []|constructor].
    + constructor; [exact ex_T_wf|]. constructor; [exact ex_T_wf|constructor].
  - intros s t [<-|[]] [<-|[<-|[]]]; reflexivity.
Qed.

(* ================================================================================================================
   TEXT FORMATS: the premise H_ext DISCHARGED for CSV, tab-delimited text and NDJSON.
   Model/Csv.v      csv_write d rows = the characters csv.writer(f, delimiter=d) (excel dialect) writes for the rows;
                    csv_read d file = list(csv.reader(...)) over the file opened in mode r with the default newline
                    handling (universal newlines), Ok rows or the exception; csv_read_raw = the same over a file opened
                    with newline=''; lib_read = the one of the two that CSVUnpacker.open's open call selects, READ FROM
                    THE SOURCE on every run (Gen/CsvOpenParams.csv_newline_raw, harness/t1_c03b.py): csv_read_raw from
                    commit aa3b8fc on (fix: CSV files are opened with newline=''), csv_read before it.
   Model/Ndjson.v   ndjson_write ea docs = one json.dumps(dict, ensure_ascii=ea) per line; ndjson_read file = the
                    json.loads of every line as JSONUnpacker delivers them (Done docs / Raise e).
   Proofs/CsvP.v, Proofs/NdjsonP.v, Proofs/TextFormatsP.v hold the proofs.  Both models are tied to CPython and to the
   library on every run by the second engine of this property (harness/c03b.py, Judge/JC03b.v).
   ================================================================================================================ *)
Require SR.Model.Csv SR.Model.Ndjson SR.Proofs.CsvP SR.Proofs.NdjsonP.
Require Import SR.Proofs.TextFormatsP.

(* CSV: for EVERY delimiter other than the quote character, CR and LF, and EVERY list of rows (no rows, rows without
   cells, a single empty cell, ragged rows) whose cells are any code points except the carriage return and hold at most
   csv.field_size_limit() = 131072 characters, csv.reader over the file opened in mode r WITHOUT newline='' (the open
   call of the tree before aa3b8fc) returns exactly the rows the writer was given.
   delim_ok d  = negb (d =? 34) && negb (d =? 13) && negb (d =? 10)
   table_ok T  = forallb (forallb (fun c => forallb (fun x => negb (x =? 13)) c && (N.of_nat (length c) <=? 131072))) T *)
Theorem C03_csv_roundtrip : forall (delim : N) (T : list (list Csv.text)),
  Csv.delim_ok delim = true -> Csv.table_ok T = true -> Csv.csv_read delim (Csv.csv_write delim T) = Ok T.
Proof. exact CsvP.csv_roundtrip. Qed.
Print Assumptions C03_csv_roundtrip.

(* the same file read the way the csv documentation asks for and the library now opens it (newline=''): carriage
   returns come back too.  table_ok_raw T = forallb (forallb (fun c => N.of_nat (length c) <=? 131072)) T *)
Theorem C03_csv_roundtrip_raw : forall (delim : N) (T : list (list Csv.text)),
  Csv.delim_ok delim = true -> Csv.table_ok_raw T = true -> Csv.csv_read_raw delim (Csv.csv_write delim T) = Ok T.
Proof. exact CsvP.csv_roundtrip_raw. Qed.
Print Assumptions C03_csv_roundtrip_raw.

(* A text-mode open WITHOUT newline='' - what CSVUnpacker.open did in the tree before aa3b8fc (repaired finding
   K-csv-carriage-return) - does not read a carriage return back: it arrives as a line feed and CR LF as ONE line feed;
   with newline='' the same file gives the cell back.  This is a statement about csv_read (the text-mode reader), not
   about the library as it is now (lib_read, C03_text_premise). *)
Theorem C03_csv_text_mode_refuted :
  Csv.csv_read Csv.COMMA (Csv.csv_write Csv.COMMA [[[97; 13; 98]]]%N) = Ok [[[97; 10; 98]]]%N
  /\ Csv.csv_read Csv.COMMA (Csv.csv_write Csv.COMMA [[[97; 13; 10; 98]]]%N) = Ok [[[97; 10; 98]]]%N
  /\ Csv.csv_read_raw Csv.COMMA (Csv.csv_write Csv.COMMA [[[97; 13; 98]]]%N) = Ok [[[97; 13; 98]]]%N.
Proof. exact CsvP.csv_cr_lost. Qed.
Print Assumptions C03_csv_text_mode_refuted.

(* the library's reader, as CSVUnpacker.open opens the file NOW (read from the source): every table comes back *)
Theorem C03_csv_roundtrip_lib : forall (delim : N) (T : list (list Csv.text)),
  Csv.delim_ok delim = true -> Csv.table_ok_raw T = true -> Csv.lib_read delim (Csv.csv_write delim T) = Ok T.
Proof. exact CsvP.lib_roundtrip. Qed.
Print Assumptions C03_csv_roundtrip_lib.

(* delim_ok is exact: each of the three excluded delimiters loses a table even with newline='' *)
Theorem C03_csv_delimiters_exact :
  Csv.csv_read_raw 34 (Csv.csv_write 34 [[[97; 34]; [98]]]%N) <> Ok [[[97; 34]; [98]]]%N
  /\ Csv.csv_read_raw 13 (Csv.csv_write 13 [[[97]; [98]]]%N) <> Ok [[[97]; [98]]]%N
  /\ Csv.csv_read_raw 10 (Csv.csv_write 10 [[[97]; [98]]]%N) <> Ok [[[97]; [98]]]%N.
Proof. exact CsvP.csv_delim_refuted. Qed.
Print Assumptions C03_csv_delimiters_exact.

(* NDJSON: for both values of ensure_ascii and EVERY list of dicts with distinct keys, json.loads of every written
   line returns the dict.  With ensure_ascii the keys and values are code points (<= 0x10FFFF) without a high
   surrogate directly followed by a low surrogate; without it they are any text (CR, LF, U+0085, U+2028, U+2029,
   non-BMP and lone surrogate code points included).
   doc_ok ea d = distinct (map fst d) && forallb (fun kv => text_ok ea (fst kv) && text_ok ea (snd kv)) d
   text_ok ea s = if ea then forallb (fun c => c <=? 1114111) s && no_pair s else true *)
Theorem C03_ndjson_roundtrip : forall (ea : bool) (docs : list Ndjson.doc),
  forallb (Ndjson.doc_ok ea) docs = true -> Ndjson.ndjson_read (Ndjson.ndjson_write ea docs) = Ndjson.Done docs.
Proof. exact NdjsonP.ndjson_roundtrip. Qed.
Print Assumptions C03_ndjson_roundtrip.

(* text_ok is exact under ensure_ascii: two code points, a high and a low surrogate, come back as one *)
Theorem C03_ndjson_surrogates_exact :
  Ndjson.ndjson_read (Ndjson.ndjson_write true [[([97], [55296; 56320])]]%N) = Ndjson.Done [[([97], [65536])]]%N
  /\ Ndjson.ndjson_read (Ndjson.ndjson_write false [[([97], [55296; 56320])]]%N) = Ndjson.Done [[([97], [55296; 56320])]]%N
  /\ Ndjson.ndjson_read (Ndjson.ndjson_write true [[([97], [55296; 97; 56320])]]%N) = Ndjson.Done [[([97], [55296; 97; 56320])]]%N.
Proof. exact NdjsonP.ndjson_pair_joined. Qed.
Print Assumptions C03_ndjson_surrogates_exact.

(* The premise of C03_facade, PROVED for the three text formats: what the unpacker delivers for the file the
   harness's writer wrote for W is the stored table.
   text_parse reads CSV / TAB through lib_read, i.e. through the open call the source has now; the proof needs
   Gen/CsvOpenParams.csv_newline_raw = true and stops compiling when the fix aa3b8fc is reverted.
   text_storable ea f W: CSV / TAB = table_ok_raw (header row :: data rows) - cells of ANY code points, carriage returns
   included, within the field size limit; NDJSON = text_ok ea of every name and cell *)
Theorem C03_text_premise : forall (ea : bool) (f : fmt) (W : workbook),
  text_format f = true -> storable f W = true -> wf_workbook W -> text_storable ea f W = true ->
  text_parse f (text_write ea f W) = phys f W.
Proof. exact text_parse_write. Qed.
Print Assumptions C03_text_premise.

(* the facade theorem for CSV, TAB and NDJSON with NO premise about a parser *)
Theorem C03_facade_text : forall (ea : bool) (f : fmt) (W : workbook),
  text_format f = true -> storable f W = true -> wf_workbook W -> text_storable ea f W = true ->
  open_read text_parse f (text_write ea f W) (headers W) = Ok (expected W).
Proof. exact facade_text. Qed.
Print Assumptions C03_facade_text.

Corollary C03_facade_csv : forall (W : workbook),
  storable F_CSV W = true -> wf_workbook W -> text_storable true F_CSV W = true ->
  open_read text_parse F_CSV (text_write true F_CSV W) (headers W) = Ok (expected W).
Proof. intros W. exact (facade_text true F_CSV W eq_refl). Qed.
Print Assumptions C03_facade_csv.

Corollary C03_facade_tab : forall (W : workbook),
  storable F_TAB W = true -> wf_workbook W -> text_storable true F_TAB W = true ->
  open_read text_parse F_TAB (text_write true F_TAB W) (headers W) = Ok (expected W).
Proof. intros W. exact (facade_text true F_TAB W eq_refl). Qed.
Print Assumptions C03_facade_tab.

Corollary C03_facade_ndjson : forall (ea : bool) (W : workbook),
  storable F_NDJSON W = true -> wf_workbook W -> text_storable ea F_NDJSON W = true ->
  open_read text_parse F_NDJSON (text_write ea F_NDJSON W) (headers W) = Ok (expected W).
Proof. intros ea W. exact (facade_text ea F_NDJSON W eq_refl). Qed.
Print Assumptions C03_facade_ndjson.

(* the three text formats agree with each other (no premise) ... *)
Theorem C03_agree_text : forall (ea ea' : bool) (f g : fmt) (W : workbook),
  text_format f = true -> text_format g = true -> storable f W = true -> storable g W = true -> wf_workbook W ->
  text_storable ea f W = true -> text_storable ea' g W = true ->
  open_read text_parse f (text_write ea f W) (headers W) = open_read text_parse g (text_write ea' g W) (headers W).
Proof. exact agree_text. Qed.
Print Assumptions C03_agree_text.

(* ... and with every other third-party format, whose own premise stays assumed *)
Theorem C03_agree_text_ext : forall (image : Type) (ext_write : fmt -> workbook -> image) (ext_parse : fmt -> image -> content),
  (forall f W, third_party f = true -> storable f W = true -> ext_parse f (ext_write f W) = phys f W) ->
  forall ea f g W, text_format f = true -> third_party g = true ->
    storable f W = true -> storable g W = true -> wf_workbook W -> text_storable ea f W = true ->
    open_read text_parse f (text_write ea f W) (headers W) = open_read ext_parse g (ext_write g W) (headers W).
Proof. exact agree_text_ext. Qed.
Print Assumptions C03_agree_text_ext.

(* ---- non-vacuity of the text-format theorems ---- *)
Example C03_example_csv_domain :
  Csv.delim_ok Csv.COMMA = true /\ Csv.delim_ok Csv.TAB = true /\ Csv.delim_ok 32 = true /\ Csv.delim_ok 128512 = true
  /\ Csv.delim_ok 34 = false /\ Csv.delim_ok 13 = false /\ Csv.delim_ok 10 = false
  (* no rows; a row without cells; one empty cell; ragged rows; quote, delimiter, LF, blanks, NUL, U+2028, non-BMP *)
  /\ Csv.table_ok [] = true /\ Csv.table_ok [[]; [[]]; [[]; []]]%N = true
  /\ Csv.table_ok [[[34; 44; 10]; [32; 97; 32]]; [[0; 8232; 128512]]]%N = true
  /\ Csv.table_ok [[[97; 13]]]%N = false /\ Csv.table_ok_raw [[[97; 13]]]%N = true
  /\ Csv.csv_write Csv.COMMA [[]; [[]]; [[]; []]; [[34; 44; 10]; [32; 97; 32]]]%N
     = [13; 10; 34; 34; 13; 10; 44; 13; 10; 34; 34; 34; 44; 10; 34; 44; 32; 97; 32; 13; 10]%N.
Proof. repeat split; vm_compute; reflexivity. Qed.

Example C03_example_ndjson_domain :
  Ndjson.doc_ok true [([97], [34; 92; 10; 13; 133; 8232; 8233; 128512; 55296]); ([], [])]%N = true
  /\ Ndjson.doc_ok false [([97], [55296; 56320])]%N = true
  /\ Ndjson.doc_ok true [([97], [55296; 56320])]%N = false
  /\ Ndjson.doc_ok true [([97], [49]); ([97], [50])]%N = false
  /\ Ndjson.ndjson_write true [[([97], [34; 233; 128512])]; []]%N
     = [123; 34; 97; 34; 58; 32; 34; 92; 34; 92; 117; 48; 48; 101; 57; 92; 117; 100; 56; 51; 100; 92; 117; 100; 101; 48; 48;
        34; 125; 10; 123; 125; 10]%N.
Proof. repeat split; vm_compute; reflexivity. Qed.

(* a table with a quote, a delimiter, a line feed, a carriage return, CR LF, blanks, an empty cell, non-ASCII and
   non-BMP text is in the domain of all three formats *)
Example C03_example_text_formats :
  wf_workbook [([], ex_text_T)]
  /\ text_storable true F_CSV [([], ex_text_T)] = true /\ text_storable true F_TAB [([], ex_text_T)] = true
  /\ text_storable true F_NDJSON [([], ex_text_T)] = true /\ text_storable false F_NDJSON [([], ex_text_T)] = true.
Proof. exact ex_text_T_ok. Qed.
