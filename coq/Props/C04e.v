(* C04e - companion of C04: THE WIDTH AND THE DECODER OF AN ITEM COME FROM ITS OWN USAGE AND PICTURE CLAUSES, WHATEVER ITS NAME.
   Only property theorems, each closed by an exact lemma of Proofs/SecondParseP.v.  No engine of its own: the model is
   Model/Pipeline.v est_scan_b / calcsize_text (compared with schema_iter, SchemaMaker.from_json and EBCDIC().nav on raw copybook
   text by ./check C07, streams special / printed_* / text_nav), the names are exercised by ./check C04 (stream name_words and
   the data-name pool of every configuration), C01, C06, C08, C10 (harness/layout_common.py spell) and C07 / C12 (STEMS).

   The decoder does not get the clauses the parser recognised: estruct.calcsize / estruct.unpack parse the entry's TEXT a second
   time (the cobol keyword of the schema: level number, data name, every clause) with their own regular expression,
   estruct.clause_pattern.  Until the repair recorded as "fixed: property=C04 ... estruct's second parse found usage words and
   PIC inside data names" that pattern had no word boundary: 05 EMP-COMPANY PIC X(10) was sized 8 (usage COMP found inside
   the name), 05 WS-COMP-DATE PIC 9(8) 4, 05 TOT-BINARY-CT PIC 9(3) 2, and every later field of the record moved (finding
   K-name-contains-usage of DESIGN.md section 5, C01 / C04 / C08 / C12).  The repaired pattern asserts that a match is not
   preceded by a name character [A-Za-z0-9-] and that a usage word is not followed by one.  harness/t1_c07b.py reads both
   assertions (or their absence) from the source into Gen/PipelineParams.v; Model/Pipeline.v INTERPRETS them (est_before_ok,
   est_after_ok, the ordered alternation going on to the next usage word when the lookahead fails).  Here:

     C04e_pattern_boundaries          the closed form of the two assertions for the parameter values read from the source NOW: an
                                      edit of the lookbehind / lookahead (or their removal) changes the generated file and this
                                      file stops compiling
     C04e_match_starts_with_keyword   a match of the pattern begins with one of the seventeen words it looks for (13 usage words,
                                      PIC, PICTURE, USAGE, IS) and that word ENDS there - for every text and position
     C04e_scan_ignores_name           for every printed entry that begins with a data name and every other legal data name, the
                                      scan of the entry's text finds exactly what it finds under the other name
     C04e_domain_is_about_clauses     hence respelling_domain (Spec/Copybook.v: the decoder's second parse ends up with the
                                      entry's own USAGE and PICTURE) does not depend on the data name at all: it holds exactly
                                      when it holds for the same clauses under the neutral name FLD (clauses_in_domain).  The
                                      exclusion of keyword-bearing NAMES is gone from reparse_agrees / respelling_domain /
                                      bridge_domain; what they still exclude are clause spellings: a reserved word in lower
                                      case, a usage word or PIC inside a VALUE literal (K-C12-value-literal-reparsed)
     C04e_name_with_usage_word        for every printed entry whose data name holds a usage word, PIC or PICTURE anywhere and
                                      whose clauses are in the domain, the size and the decoder computed from the TEXT are those
                                      of its own USAGE / PICTURE clauses (own_size, own_kind: the size function and the shape
                                      classification applied to the usage number and the picture string of the entry's clause
                                      dictionary, nothing else of the text)
     C04e_plain_entry_in_domain       membership in the domain PROVED (not computed) for the entries the codec properties speak
                                      about: a data name - any legal one - followed by a PICTURE clause and possibly a USAGE
                                      clause, in either order, reserved words in upper case, blanks between the words
     C04e_text_gives_own_clauses      the same for EVERY entry of the respelling domain (audit: until now only respelling
                                      INVARIANCE connected two texts, so a uniformly wrong size would have been invisible)
     C04e_text_size_numeric / _kind_numeric / _size_alnum
                                      composed with the picture scanner (C13_printed_numeric / _text) and C04's size
                                      specification (C04c_size): for a picture S?9(m)V9(n) in any notation the size computed from
                                      the text IS Spec/Fits.v spec_size of the entry's own usage and digits (outside
                                      K-signed-binary-size) and the decoder kind is that of (usage, sign, m, n); an X(k) / A(k)
                                      DISPLAY item is k bytes wide.  The statement for every picture string the specification
                                      reads as numeric is kept as the Definition C04e_text_size_full (not proved: the picture
                                      lemmas of Proofs/PictureP.v do not relate the sign group to the specification's summary)
     C04e_name_with_usage_word_old_refuted / C04e_old_pattern_sizes
                                      with the parameter values of the pattern before the repair (est_bounds_old) the statement
                                      of C04e_name_with_usage_word is FALSE: 05 EMP-COMPANY PIC X(10) is sized 8, the other
                                      three examples 4, 2 and ValueError (10, 8, 3, 4 with the pattern as it is)

   Not covered: a data name that IS a reserved word, or that begins with a word the FIRST parse (cobol_parser.CLAUSES) accepts
   without a boundary (COMPANY, BINARYX: finding C07-K3, Spec/Clauses.v name_ok) - such entries are not printable (ce_ok) and
   the first parse cuts the name before the decoder sees it.  COMP-AMOUNT is refused by name_ok although the first parse reads
   it correctly (its usage alternative has a lookahead for the hyphen); the correspondence runs use such names, the theorems
   do not. *)
From Coq Require Import NArith List Bool.
Import ListNotations.
Require Import SR.Base.Res SR.Spec.Clauses SR.Model.Pipeline SR.Spec.Copybook SR.Proofs.PipelineP.
Require Import SR.Model.TextLayout SR.Proofs.TextLayoutP SR.Proofs.SecondParseP.
Require SR.Spec.SchemaTruth SR.Spec.Fits SR.Spec.SizeCfg SR.Spec.SizeSplit SR.Spec.PictureWf SR.Spec.Picture SR.Spec.Record.
Open Scope N_scope.

(* ---- the assertions of the pattern, as read from the source ---- *)
Theorem C04e_pattern_boundaries :
  est_bounds_now = {| eb_before := true; eb_before_class := [(65, 90); (97, 122); (48, 57); (45, 45)];
                      eb_after := true; eb_after_class := [(65, 90); (97, 122); (48, 57); (45, 45)] |}
  /\ (forall c, est_before_ok est_bounds_now (Some c) = negb (name_char c))
  /\ (forall c r, est_after_ok est_bounds_now (c :: r) = negb (name_char c)).
Proof. exact (conj bounds_now_eq (conj before_ok_now after_ok_now)). Qed.
Print Assumptions C04e_pattern_boundaries.

(* ---- a match begins with a trigger word, and the word ends there ---- *)
Theorem C04e_match_starts_with_keyword : forall prev s it r, est_token_at prev s = Some (it, r) ->
  exists w rest, In w est_trigger_words /\ s = w ++ rest /\ ends_word rest = true.
Proof. exact token_starts_with_trigger. Qed.
Print Assumptions C04e_match_starts_with_keyword.

(* ---- the data name plays no part in the second parse ---- *)
Theorem C04e_scan_ignores_name : forall e n cs n', ce_cs e = CName n :: cs -> ce_ok e = true -> name_ok n' = true ->
  est_items (ctext (spec_entry (with_name e n'))) = est_items (ctext (spec_entry e)).
Proof. exact items_name_irrelevant. Qed.
Print Assumptions C04e_scan_ignores_name.

Theorem C04e_domain_is_about_clauses : forall e n cs, ce_cs e = CName n :: cs -> ce_ok e = true ->
  respelling_domain e = clauses_in_domain e.
Proof. exact domain_is_about_clauses. Qed.
Print Assumptions C04e_domain_is_about_clauses.

(* ---- the size and the decoder taken from the TEXT are those of the entry's own clauses ---- *)
Theorem C04e_name_with_usage_word : forall e n cs, ce_cs e = CName n :: cs -> ce_ok e = true ->
  name_bears_keyword n = true -> clauses_in_domain e = true ->
  respelling_domain e = true
  /\ calcsize_text (ctext (spec_entry e)) = own_size e
  /\ kind_of_cobol (ctext (spec_entry e)) = own_kind e.
Proof. exact name_with_usage_word. Qed.
Print Assumptions C04e_name_with_usage_word.

Theorem C04e_text_gives_own_clauses : forall e, respelling_domain e = true ->
  calcsize_text (ctext (spec_entry e)) = own_size e /\ kind_of_cobol (ctext (spec_entry e)) = own_kind e.
Proof. exact text_gives_own_clauses. Qed.
Print Assumptions C04e_text_gives_own_clauses.

(* ---- a syntactic part of the domain: a data name, a PICTURE clause and possibly a USAGE clause, in either order, reserved words in
        upper case, blank separators (a comma or semicolon may follow the name) - EVERY legal data name, EVERY picture string of
        the printer's domain, EVERY usage spelling, PIC / PICTURE, with or without IS, USAGE / USAGE IS / nothing ---- *)
Theorem C04e_plain_entry_in_domain : forall e n cs, ce_cs e = CName n :: cs -> ce_ok e = true ->
  pic_usage_clauses cs = true -> plain_items cs (tl (ce_sps e)) = true -> respelling_domain e = true.
Proof. exact plain_entry_in_domain. Qed.
Print Assumptions C04e_plain_entry_in_domain.

(* ---- down to the size specification of C04, for the pictures C04 / C08 speak about ---- *)
Theorem C04e_text_size_numeric : forall e s m n ri rf, respelling_domain e = true ->
  i_pic (spec_info e) = Some (SR.Spec.SchemaTruth.pic_text (SR.Spec.SchemaTruth.PNum s m n ri rf)) -> (1 <= m + n)%nat ->
  In (usage_number (spec_info e), s, m, n) SR.Spec.SizeCfg.cfgs ->
  SR.Spec.SizeSplit.known_bad_calcsize (usage_number (spec_info e), s, m, n) = None ->
  exists sz, SR.Spec.Fits.spec_size (usage_number (spec_info e)) s m n = Some sz /\ calcsize_text (ctext (spec_entry e)) = ROk sz.
Proof. exact text_size_numeric. Qed.
Print Assumptions C04e_text_size_numeric.

Theorem C04e_text_kind_numeric : forall e s m n ri rf, respelling_domain e = true ->
  i_pic (spec_info e) = Some (SR.Spec.SchemaTruth.pic_text (SR.Spec.SchemaTruth.PNum s m n ri rf)) -> (1 <= m + n)%nat ->
  kind_of_cobol (ctext (spec_entry e)) = kind_of_shape (ShNum (usage_number (spec_info e)) s m n).
Proof. exact text_kind_numeric. Qed.
Print Assumptions C04e_text_kind_numeric.

Theorem C04e_text_size_alnum : forall e alpha k rep, respelling_domain e = true ->
  i_pic (spec_info e) = Some (SR.Spec.SchemaTruth.pic_text (SR.Spec.SchemaTruth.PText alpha k rep)) -> (1 <= k)%nat ->
  usage_number (spec_info e) = usage_DISPLAY ->
  calcsize_text (ctext (spec_entry e)) = ROk (N.of_nat k).
Proof. exact text_size_alnum. Qed.
Print Assumptions C04e_text_size_alnum.

(* the statement for every picture string the specification reads as a numeric picture (any notation, any mix of written-out and
   repeated symbols) - NOT PROVED, kept visible; C04e_text_size_numeric is the part that is *)
Definition C04e_text_size_full : Prop :=
  forall e p v, respelling_domain e = true -> ce_ok e = true ->
  i_pic (spec_info e) = Some p -> SR.Spec.PictureWf.kb_dec p = false ->
  SR.Spec.Picture.sp_parse p = Some v -> SR.Spec.Picture.numeric v = true ->
  In (usage_number (spec_info e), SR.Spec.Picture.signed v, SR.Spec.Picture.int_digits v, SR.Spec.Picture.frac_digits v) SR.Spec.SizeCfg.cfgs ->
  SR.Spec.SizeSplit.known_bad_calcsize
    (usage_number (spec_info e), SR.Spec.Picture.signed v, SR.Spec.Picture.int_digits v, SR.Spec.Picture.frac_digits v) = None ->
  exists sz, SR.Spec.Fits.spec_size (usage_number (spec_info e)) (SR.Spec.Picture.signed v) (SR.Spec.Picture.int_digits v)
                                   (SR.Spec.Picture.frac_digits v) = Some sz
             /\ calcsize_text (ctext (spec_entry e)) = ROk sz.

(* ---- the pattern before the repair ---- *)
Theorem C04e_old_pattern_sizes :
  map (calcsize_text_b est_bounds_old) [t_EMP_COMPANY; t_WS_COMP_DATE; t_TOT_BINARY_CT; t_ELEMENTARY_PIC]
  = [ROk 8; ROk 4; ROk 2; RErr ValueError]
  /\ map calcsize_text [t_EMP_COMPANY; t_WS_COMP_DATE; t_TOT_BINARY_CT; t_ELEMENTARY_PIC] = [ROk 10; ROk 8; ROk 3; ROk 4].
Proof. exact (conj old_pattern_sizes new_pattern_sizes). Qed.
Print Assumptions C04e_old_pattern_sizes.

(* the size part of C04e_name_with_usage_word as a statement about the pattern with the assertions b *)
Definition C04e_name_with_usage_word_for (b : est_bounds) : Prop :=
  forall e n cs, ce_cs e = CName n :: cs -> ce_ok e = true -> name_bears_keyword n = true -> clauses_in_domain e = true ->
  calcsize_text_b b (ctext (spec_entry e)) = own_size e.

Theorem C04e_name_with_usage_word_now : C04e_name_with_usage_word_for est_bounds_now.
Proof. exact name_with_usage_word_now. Qed.
Print Assumptions C04e_name_with_usage_word_now.

Theorem C04e_name_with_usage_word_old_refuted : ~ C04e_name_with_usage_word_for est_bounds_old.
Proof. exact name_with_usage_word_old_refuted. Qed.
Print Assumptions C04e_name_with_usage_word_old_refuted.

(* ------------------------------------------------------------------ non-vacuity *)
(* 05 EMP-COMPANY PIC X(10): every hypothesis of C04e_name_with_usage_word holds; the text, its size, its decoder *)
Example C04e_example_emp_company :
  ce_cs e_emp_company = [CName n_EMP_COMPANY; CPicture p_X_10] /\ ce_ok e_emp_company = true
  /\ name_bears_keyword n_EMP_COMPANY = true /\ clauses_in_domain e_emp_company = true
  /\ ctext (spec_entry e_emp_company) = t_EMP_COMPANY
  /\ calcsize_text (ctext (spec_entry e_emp_company)) = ROk 10 /\ own_size e_emp_company = ROk 10
  /\ kind_of_cobol (ctext (spec_entry e_emp_company)) = Some (SR.Spec.Record.KText 10).
Proof. vm_compute. repeat split; reflexivity. Qed.

(* 10  WS-COMP-DATE  PICTURE IS S9(5)V99 USAGE IS COMP-3  and  10 TOT-BINARY-CT BINARY PIC 9(3): names with a usage word in the
   middle, a USAGE clause of their own, the hypotheses of C04e_text_size_numeric *)
Definition n_WS_COMP_DATE : list N := [87; 83; 45; 67; 79; 77; 80; 45; 68; 65; 84; 69].
Definition n_TOT_BINARY_CT : list N := [84; 79; 84; 45; 66; 73; 78; 65; 82; 89; 45; 67; 84].
Definition p_S9_5_V99 : list N := [83; 57; 40; 53; 41; 86; 57; 57].
Definition p_9_3 : list N := [57; 40; 51; 41].
Definition e_ws_comp_date : centry :=
  {| ce_d1 := 49; ce_d2 := 48; ce_cs := [CName n_WS_COMP_DATE; CPicture p_S9_5_V99; CUsage 2];
     ce_sps := [({| ch := []; masks := []; seps := [] |}, [32; 32]); ({| ch := [1; 1]; masks := []; seps := [] |}, [32]);
                ({| ch := [2; 0]; masks := []; seps := [] |}, [])];
     ce_lead := [32; 32; 32; 32]; ce_gap := [32]; ce_term := 10 |}.
Definition e_tot_binary_ct : centry :=
  {| ce_d1 := 49; ce_d2 := 48; ce_cs := [CName n_TOT_BINARY_CT; CUsage 1; CPicture p_9_3];
     ce_sps := [({| ch := []; masks := []; seps := [] |}, [32]); ({| ch := [0; 2]; masks := []; seps := [] |}, [32]);
                ({| ch := [0; 0]; masks := []; seps := [] |}, [])];
     ce_lead := [32; 32; 32; 32]; ce_gap := [32]; ce_term := 10 |}.

Example C04e_example_numeric :
  ce_ok e_ws_comp_date = true /\ name_bears_keyword n_WS_COMP_DATE = true /\ respelling_domain e_ws_comp_date = true
  /\ i_pic (spec_info e_ws_comp_date) = Some (SR.Spec.SchemaTruth.pic_text (SR.Spec.SchemaTruth.PNum true 5 2 true false))
  /\ usage_number (spec_info e_ws_comp_date) = 8
  /\ In (8, true, 5%nat, 2%nat) SR.Spec.SizeCfg.cfgs /\ SR.Spec.SizeSplit.known_bad_calcsize (8, true, 5%nat, 2%nat) = None
  /\ calcsize_text (ctext (spec_entry e_ws_comp_date)) = ROk 4
  /\ kind_of_cobol (ctext (spec_entry e_ws_comp_date)) = Some (SR.Spec.Record.KPacked 8 true 5 2)
  /\ ce_ok e_tot_binary_ct = true /\ name_bears_keyword n_TOT_BINARY_CT = true /\ respelling_domain e_tot_binary_ct = true
  /\ calcsize_text (ctext (spec_entry e_tot_binary_ct)) = ROk 2
  /\ calcsize_text_b est_bounds_old (ctext (spec_entry e_tot_binary_ct)) = ROk 2
  /\ pic_usage_clauses (tl (ce_cs e_ws_comp_date)) = true /\ plain_items (tl (ce_cs e_ws_comp_date)) (tl (ce_sps e_ws_comp_date)) = true
  /\ pic_usage_clauses (tl (ce_cs e_tot_binary_ct)) = true /\ plain_items (tl (ce_cs e_tot_binary_ct)) (tl (ce_sps e_tot_binary_ct)) = true.
Proof.
  assert (I : In (8, true, 5%nat, 2%nat) SR.Spec.SizeCfg.cfgs).
  { assert (B : existsb (fun c => let '(u, s, m, n) := c in (u =? 8) && s && Nat.eqb m 5 && Nat.eqb n 2) SR.Spec.SizeCfg.cfgs = true)
      by (vm_compute; reflexivity).
    apply existsb_exists in B as ([[[u s] m] n] & I & H). repeat (apply andb_true_iff in H as [H ?]).
    apply N.eqb_eq in H. apply PeanoNat.Nat.eqb_eq in H1. apply PeanoNat.Nat.eqb_eq in H0. subst. exact I. }
  split; [vm_compute; reflexivity|]. split; [vm_compute; reflexivity|]. split; [vm_compute; reflexivity|].
  split; [vm_compute; reflexivity|]. split; [vm_compute; reflexivity|]. split; [exact I|].
  vm_compute. repeat split; reflexivity.
Qed.
