(* C04 - A field's width is what its decoder needs, and is the same wherever reported.
   The property's space is finite and is enumerated completely: [cfgs] (Spec/SizeCfg.v) is the list
   of all 13 x 2 x 189 = 4914 configurations and appears in the statements; [cfgs_complete] shows
   nothing is missing.  [cfg_ok] says: calcsize = the width the property lists, the item's own decoder
   accepts that width, the native-bytes reader and the text reader report the same. *)
From Coq Require Import ZArith NArith List Bool.
Import ListNotations.
Require Import SR.Base.Res SR.Spec.Encode SR.Spec.Fits SR.Spec.SizeCfg SR.Model.Estruct SR.Proofs.EstructP.

Theorem C04_space_is_complete : forall (u : N) (s : bool) (m n : nat),
  (u < 13)%N -> (1 <= m + n <= 18)%nat -> In (u, s, m, n) cfgs.
Proof. exact cfgs_complete. Qed.
Print Assumptions C04_space_is_complete.

Theorem C04_all : forall c : cfg, In c cfgs -> known_bad_C04 c = None -> cfg_ok c = true.
Proof. exact C04_all_lemma. Qed.
Print Assumptions C04_all.

(* the known-bad set is exact: every configuration in it really fails
   (findings K-signed-binary-size, K-float-no-decoder, K-struct-packed) *)
Theorem C04_refuted_known_bad : forall (c : cfg) (k : Z), In c cfgs -> known_bad_C04 c = Some k -> cfg_ok c = false.
Proof. exact C04_known_bad_lemma. Qed.
Print Assumptions C04_refuted_known_bad.

Example C04_examples :
  length cfgs = 4914%nat
  /\ calcsize 8 (mkpic true 5 2) = Ok 4%N /\ spec_size 8 true 5 2 = Some 4%N      (* S9(5)V99 COMP-3: 4 bytes *)
  /\ calcsize 8 (mkpic false 4 0) = Ok 3%N                                        (* 9(4) COMP-3: 3 bytes *)
  /\ calcsize 10 (mkpic true 4 0) = Ok 4%N /\ spec_size 10 true 4 0 = Some 2%N    (* S9(4) COMP: the finding *)
  /\ decoder_accepts 10 (mkpic true 4 0) 4 = false.
Proof. vm_compute. repeat split; reflexivity. Qed.
