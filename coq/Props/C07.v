(* C07 - Copybook to schema: every entry appears once, in place, and none is lost.
   Only the property theorems, each closed by an exact lemma of Proofs/StructureP.v,
   Proofs/StructureFullP.v (when structure raises), Proofs/SentenceValueP.v (text layer, finding 5),
   Proofs/OneDigitLevelP.v (text layer, finding 6) or Proofs/RedefinesCaseP.v (finding 7).

   [structure l] is the model of cobol_parser.structure run on the sentences l after clause_dict
   (Model/Structure.v: DDE naming with the FILLER counter, the stack walk with two-character string
   comparison of levels, the 66/77/88 skip, the unfiltered first node, the REDEFINES marking).
   [mk_ddes 0 l] are the DDE objects (entry + unique_name) in source order, [kept_of l] the first
   of them followed by the later ones whose level is not 66/77/88.
   [preorder_f f] lists the nodes of forest f in preorder, [parents f] gives for each of them the
   preorder index of its parent, [root_pos 0 f] the preorder indices of the tree roots.
   [spec_parents], [spec_roots], [kept_level], [lvl_num] come from Spec/Dde.v and know nothing of
   the implementation.  No well-nesting of the level sequence is assumed anywhere. *)
From Coq Require Import NArith List.
Import ListNotations.
Require Import SR.Base.Res SR.Spec.Dde SR.Model.Structure SR.Proofs.StructureP SR.Proofs.StructureFullP.
Require SR.Model.RefFormat SR.Proofs.SentenceValueP SR.Proofs.OneDigitLevelP SR.Proofs.RedefinesCaseP.

(* Every kept entry exactly once and in source order; the parent of each is the nearest preceding
   kept entry with a strictly smaller level number; the trees start exactly at the entries that
   have no such predecessor.  For every entry list with ASCII two-digit levels on which
   structure() returns. *)
Theorem C07_structure : forall (l : list entry) (f : list tree),
  Forall (fun e => two_digits (elv e) = true) l ->
  structure l = Ok f ->
  preorder_f f = kept_of l
  /\ parents f = spec_parents (levels_of (kept_of l))
  /\ root_pos 0 f = spec_roots (levels_of (kept_of l)).
Proof. exact structure_full. Qed.
Print Assumptions C07_structure.

(* When the first entry is not a 66/77/88 level the first node is nothing special:
   the forest holds exactly the entries of level other than 66/77/88, in source order. *)
Theorem C07_structure_entries : forall (l : list entry) (f : list tree),
  Forall (fun e => two_digits (elv e) = true) l ->
  match l with [] => True | e :: _ => kept_level (lvl_num (elv e)) = true end ->
  structure l = Ok f ->
  preorder_f f = filter keep (mk_ddes 0 l)
  /\ map de (preorder_f f) = filter (fun e => kept_level (lvl_num (elv e))) l.
Proof. exact structure_entries. Qed.
Print Assumptions C07_structure_entries.

(* Every level-01 entry starts a tree, provided no entry has level 00. *)
Theorem C07_level01_root : forall (K : list N) (k : nat),
  Forall (fun y => (1 <= y)%N) K -> nth_error K k = Some 1%N -> spec_parent K k = None.
Proof. exact level01_root. Qed.
Print Assumptions C07_level01_root.

(* structure() returns whenever no entry carries a REDEFINES clause (so the hypothesis of
   C07_structure is met by every such copybook). *)
Theorem C07_structure_total_without_redefines : forall l : list entry,
  l <> [] -> Forall (fun e => eredef e = None) l -> exists f, structure l = Ok f.
Proof. exact structure_no_redefines. Qed.
Print Assumptions C07_structure_total_without_redefines.

(* FILLER numbering.  Within one record (no level-01 entry after the first; c = any counter value
   left by what came before): if the user-given names are pairwise distinct and none has the form
   FILLER-n, all unique names are pairwise distinct. *)
Theorem C07_names_distinct : forall (c : N) (l : list entry),
  Forall no01 (tl l) -> NoDup (users l) -> Forall not_generated (users l) ->
  NoDup (map du (mk_ddes c l)).
Proof. exact names_distinct. Qed.
Print Assumptions C07_names_distinct.

(* A level-01 entry restarts the numbering: the names of a record do not depend on what precedes it. *)
Theorem C07_record_restart : forall (l1 : list entry) (c : N) (e : entry) (l2 : list entry),
  lvl_eqb (elv e) L01 = true ->
  mk_ddes c (l1 ++ e :: l2) = mk_ddes c l1 ++ mk_ddes 0 (e :: l2).
Proof. exact mk_ddes_app_01. Qed.
Print Assumptions C07_record_restart.

(* A named entry is titled with its data name; the generated numerals are injective. *)
Theorem C07_named_keep_name : forall (l : list entry) (c : N) (d : dde),
  In d (mk_ddes c l) -> is_filler (de d) = false -> du d = dde_name (de d).
Proof. exact mk_ddes_named. Qed.
Print Assumptions C07_named_keep_name.

Theorem C07_generated_names_injective : forall n m : N, gen_name n = gen_name m -> n = m.
Proof. exact gen_name_inj. Qed.
Print Assumptions C07_generated_names_injective.

(* REDEFINES errors, full strength, over the specification's notion of earlier siblings
   (Spec/Dde.v redefines_ok: entries before it whose nearest preceding entry with a strictly smaller
   level number is the same one; the first kept entry and every entry that starts a tree are exempt):
   on a non-empty list with ASCII two-digit levels structure() returns exactly when every REDEFINES
   clause of a non-root kept entry names exactly one earlier sibling, and raises ValueError otherwise.
   E is the copybook as the specification sees it: (level number, data name, REDEFINES target) of the
   kept entries.  Proved in Proofs/StructureFullP.v. *)
Theorem C07_redefines_error_full :
  forall l : list entry, l <> [] ->
  Forall (fun e => two_digits (elv e) = true) l ->
  let E := map (fun d => (lvl_num (dlv d), dde_name (de d), eredef (de d))) (kept_of l) in
  (redefines_ok E = true -> exists f, structure l = Ok f)
  /\ (redefines_ok E = false -> structure l = Err ValueError).
Proof. exact redefines_error_full. Qed.
Print Assumptions C07_redefines_error_full.

(* The two earlier partial statements (kept): the only exception of structure() on a non-empty list is ValueError ... *)
Theorem C07_redefines_error_partial : forall (l : list entry) (e : exn),
  structure l = Err e -> (l = [] /\ e = StopIter) \/ (l <> [] /\ e = ValueError).
Proof. exact structure_err. Qed.
Print Assumptions C07_redefines_error_partial.

(* ... and a step raises it exactly when a kept entry that lands below an open node b carries a
   redefines clause whose target is the name of zero or of several children of b so far
   (stated on the model's state, not on the specification's siblings). *)
Theorem C07_redefines_step_partial : forall (s : state) (d : dde) (e : exn),
  step s d = Err e <->
  e = ValueError /\ keep d = true /\
  exists b r' tgt, pop (dlv d) (cur s) (rest s) = inl (b, r') /\ eredef (de d) = Some tgt
                   /\ length (filter (name_is tgt) (fkids b)) <> 1.
Proof. exact step_err. Qed.
Print Assumptions C07_redefines_step_partial.

(* ------------------------------------------------------------------ witnesses *)
Definition mk (a b : N) (name : option str) (red : option str) (pic occ : bool) : entry :=
  {| elv := (a, b); ename := name; efill := None; eredef := red; epic := pic; eocc := occ; etext := [] |}.
Definition nA : str := [65%N].
Definition nB : str := [66%N].
Definition nR : str := [82%N].
Definition nT : str := [84%N].

(* Known finding 2 (refutes the clause of the property that a well-formed copybook never ends in an
   internal error): 01 R. 05 T OCCURS 2. 10 A PIC X. 10 B REDEFINES A PIC 9. builds a forest but
   the schema maker raises KeyError. *)
Definition witness2 : list entry :=
  [mk 48 49 (Some nR) None false false; mk 48 53 (Some nT) None false true;
   mk 49 48 (Some nA) None true false; mk 49 48 (Some nB) (Some nA) true false]%N.

Theorem C07_refuted_2 : (exists f, structure witness2 = Ok f) /\ schemas witness2 = Err KeyError.
Proof. split; [eexists|]; vm_compute; reflexivity. Qed.
Print Assumptions C07_refuted_2.

(* Known finding 5 (refutes "carrying its clause text"), on the text-layer model
   (Model/RefFormat.v: reference_format, dde_sentences, compact_source).  The copybook
          01 R.
            05 FLD-A PIC X(5) VALUE 'A. B'.
            05 FLD-B PIC X.
   comes back as three entries, the second with the text  FLD-A PIC X(5) VALUE 'A  : the sentence
   pattern ends the entry at the period inside the literal; no entry carries the text as written. *)
Theorem C07_refuted_5 :
  SentenceValueP.entry_texts SentenceValueP.witness5
  = Ok [([48; 49], [82]); ([48; 53], SentenceValueP.w5_got); ([48; 53], [70; 76; 68; 45; 66; 32; 80; 73; 67; 32; 88])]%N
  /\ SentenceValueP.w5_got <> SentenceValueP.w5_written
  /\ (forall got, SentenceValueP.entry_texts SentenceValueP.witness5 = Ok got ->
                  ~ In SentenceValueP.w5_written (map snd got)).
Proof. exact SentenceValueP.refuted_5. Qed.
Print Assumptions C07_refuted_5.

(* ... and in general: an entry  d1 d2 blank a . w b  whose text a holds no period-white-space pair
   (has_term a = false) comes back as (d1 d2, a) whatever follows the period and the white-space
   character w - in particular when a . w b is one VALUE literal. *)
Theorem C07_sentence_cut_at_period_ws :
  forall (d1 d2 c : N) (a : SR.Model.RefFormat.line) (w : N) (b : SR.Model.RefFormat.line),
  SR.Model.RefFormat.is_digit d1 = true -> SR.Model.RefFormat.is_digit d2 = true ->
  SR.Model.RefFormat.is_ws c = false ->
  SR.Spec.RefFormat.has_term (c :: a) = false -> SR.Model.RefFormat.is_ws w = true ->
  exists more,
    SR.Model.RefFormat.dde_sentences [[d1; d2; 32%N] ++ (c :: a) ++ 46%N :: w :: b] = ([d1; d2], c :: a) :: more.
Proof. exact SentenceValueP.sentence_cut. Qed.
Print Assumptions C07_sentence_cut_at_period_ws.

(* Known finding 6 (refutes "none is lost"), on the text-layer model.  The copybook
          1 R.
             5 A PIC X.
             10 B PIC X.
   (level numbers 01 and 05 written with one digit, as COBOL allows) comes back as the single entry
   10 B PIC X; with 01 and 05 written out all three come back; the first two lines alone yield nothing. *)
Theorem C07_refuted_6 :
  SentenceValueP.entry_texts OneDigitLevelP.witness6 = Ok [([49; 48], [66; 32; 80; 73; 67; 32; 88])]%N
  /\ SentenceValueP.entry_texts [OneDigitLevelP.w6_line1'; OneDigitLevelP.w6_line2'; OneDigitLevelP.w6_line3]
     = Ok [([48; 49], [82]); ([48; 53], [65; 32; 80; 73; 67; 32; 88]); ([49; 48], [66; 32; 80; 73; 67; 32; 88])]%N
  /\ SR.Model.RefFormat.dde_sentences [skipn 7 OneDigitLevelP.w6_line1; skipn 7 OneDigitLevelP.w6_line2] = [].
Proof. exact OneDigitLevelP.refuted_6. Qed.
Print Assumptions C07_refuted_6.

(* ... and in general: a text in which no two adjacent characters are digits yields no entry at all,
   whatever one-digit level numbers it holds. *)
Theorem C07_no_digit_pair_no_sentence : forall lines : list SR.Model.RefFormat.line,
  OneDigitLevelP.digit_pair (concat lines) = false -> SR.Model.RefFormat.dde_sentences lines = [].
Proof. exact OneDigitLevelP.no_pair_no_sentence. Qed.
Print Assumptions C07_no_digit_pair_no_sentence.

(* Known finding 7 (refutes the clause that a well-formed copybook never ends in an internal error):
   01 R. 05 fld-a PIC X. 05 B REDEFINES FLD-A PIC X.  COBOL words are not case-sensitive: with names
   and targets in upper case the REDEFINES clause names exactly one earlier sibling (up_spec); structure
   compares the spelling and raises ValueError; with the clause spelled like the declaration it returns. *)
Theorem C07_refuted_7 :
  Forall (fun e => two_digits (elv e) = true) RedefinesCaseP.witness7
  /\ redefines_ok (RedefinesCaseP.up_spec RedefinesCaseP.witness7) = true
  /\ structure RedefinesCaseP.witness7 = Err ValueError
  /\ (exists f, structure RedefinesCaseP.witness7_same_case = Ok f).
Proof. exact RedefinesCaseP.refuted_7. Qed.
Print Assumptions C07_refuted_7.

(* Non-vacuity: 01 R. 05 A PIC. 05 (unnamed) PIC. 10 (unnamed) PIC. 88 B. 03 B REDEFINES A PIC. 01 (unnamed) PIC.
   structure returns; preorder, parents and roots as the specification says; FILLER-1, FILLER-2, then
   FILLER-1 again in the second record. *)
Definition sample : list entry :=
  [mk 48 49 (Some nR) None false false; mk 48 53 (Some nA) None true false; mk 48 53 None None true false;
   mk 49 48 None None true false; mk 56 56 (Some nB) None false false; mk 48 51 (Some nB) (Some nA) true false;
   mk 48 49 None None true false]%N.

Example C07_example :
  Forall (fun e => two_digits (elv e) = true) sample
  /\ (exists f, structure sample = Ok f
                /\ parents f = [None; Some 0; Some 0; Some 2; Some 0; None]
                /\ root_pos 0 f = [0; 5]
                /\ map du (preorder_f f) = [nR; nA; gen_name 1; gen_name 2; nB; gen_name 1])
  /\ spec_parents (levels_of (kept_of sample)) = [None; Some 0; Some 0; Some 2; Some 0; None].
Proof.
  split; [repeat constructor|]. split; [eexists; split; [vm_compute; reflexivity|]|]; vm_compute; repeat split.
Qed.

Example C07_names_example :
  let l := [mk 48 49 (Some nR) None false false; mk 48 53 None None true false; mk 48 53 (Some nA) None true false;
            mk 48 53 None None true false]%N in
  Forall no01 (tl l) /\ NoDup (users l) /\ Forall not_generated (users l).
Proof.
  cbn zeta. split; [repeat constructor|]. split.
  - vm_compute. repeat constructor; cbn; intuition discriminate.
  - vm_compute. repeat constructor; intros n H; discriminate.
Qed.

(* non-vacuity of C07_redefines_error_full: the hypotheses hold on the sample (a REDEFINES that names
   one earlier sibling across an 88 level and a deeper group: redefines_ok = true) and on the two failing
   lists below (redefines_ok = false: no sibling, two siblings of that name) *)
Definition Espec (l : list entry) := map (fun d => (lvl_num (dlv d), dde_name (de d), eredef (de d))) (kept_of l).
Example C07_redefines_full_example :
  let none := [mk 48 49 (Some nR) None false false; mk 48 53 (Some nB) (Some nA) true false]%N in
  let two := [mk 48 49 (Some nR) None false false; mk 48 53 (Some nA) None true false;
              mk 48 53 (Some nA) None true false; mk 48 53 (Some nB) (Some nA) true false]%N in
  (* a cousin of that name is not a sibling: 01 R. 05 T. 10 A PIC. 05 U. 10 B REDEFINES A PIC. *)
  let cousin := [mk 48 49 (Some nR) None false false; mk 48 53 (Some nT) None false false;
                 mk 49 48 (Some nA) None true false; mk 48 53 (Some [85%N]) None false false;
                 mk 49 48 (Some nB) (Some nA) true false]%N in
  (sample <> [] /\ Forall (fun e => two_digits (elv e) = true) sample /\ redefines_ok (Espec sample) = true)
  /\ (Forall (fun e => two_digits (elv e) = true) none /\ redefines_ok (Espec none) = false)
  /\ (Forall (fun e => two_digits (elv e) = true) two /\ redefines_ok (Espec two) = false)
  /\ (Forall (fun e => two_digits (elv e) = true) cousin /\ redefines_ok (Espec cousin) = false
      /\ structure cousin = Err ValueError).
Proof.
  cbn zeta. repeat split; try discriminate; try (repeat constructor); vm_compute; reflexivity.
Qed.

(* zero matches and two matches *)
Example C07_redefines_example :
  structure [mk 48 49 (Some nR) None false false; mk 48 53 (Some nB) (Some nA) true false]%N = Err ValueError
  /\ structure [mk 48 49 (Some nR) None false false; mk 48 53 (Some nA) None true false;
                mk 48 53 (Some nA) None true false; mk 48 53 (Some nB) (Some nA) true false]%N = Err ValueError.
Proof. split; vm_compute; reflexivity. Qed.
