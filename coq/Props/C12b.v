(* C12b - the clause recogniser of cobol_parser (CLAUSES / clause_pattern / clause_dict): every entry the
   specification's printer can print is recognised, in every allowed spelling.  An additional engine for property C12
   (respelling a copybook changes nothing) that also closes the clause-recognition gap of C07.
   Only the property theorems, each closed by an exact lemma of Proofs/ClausesP.v.

   Model/Clauses.v   clause_dict s = what cobol_parser.clause_dict returns on the text s (the sentence between the level
                     number and the period), for EVERY string s: Some (Ok r) returned the dictionary r, Some (Err e) raised
                     e (only normalize_picture raises), None = the model ran out of fuel (never: the theorems conclude Some
                     or follow gen_normalize).  The pattern's variable parts are read from the source on every run
                     (Gen/ClausesParams.v): dropping a usage word, re-ordering alternatives or synonyms, making an optional
                     word mandatory, removing IGNORECASE or changing SPACE / NAME changes the model and breaks these proofs.
   Spec/Clauses.v    clause: the clauses of a data description entry (the data name or FILLER first); spelling: per clause
                     the optional words, synonyms, one letter-case mask per reserved word, one separator per joint, and the
                     separator after the clause; print_items cs sps: the text; expected cs sps: the dictionary a correct
                     recogniser returns (texts exactly as written); abstract cs: its spelling-independent content;
                     normal: from as-written to content; printable cs sps: the domain (one clause of each kind, name first,
                     well-formed names / numbers / pictures / literals / separators, and outside the trigger sets of the
                     known findings: ZERO not ZEROS, SIGN with SEPARATE, no KEY / INDEXED BY phrase, blanks after a picture
                     or an unquoted VALUE word, something after a JUSTIFIED without RIGHT).
   What the dictionary KEEPS AS WRITTEN (letter case and inner separators of the source): usage, filler, blank,
   justified, sign, sign_sep, synch; names, numbers, pictures and literals are kept verbatim.  EXTERNAL, GLOBAL,
   JUSTIFIED without RIGHT, SYNCHRONIZED without a side leave no key at all. *)
From Coq Require Import NArith List Bool Permutation.
Import ListNotations.
Require Import SR.Base.Res SR.Spec.Clauses SR.Model.Clauses SR.Proofs.ClausesP.
Open Scope N_scope.

(* ---- the main theorem: for every entry and every spelling in the domain, clause_dict returns exactly the expected
        dictionary with every text as written, and the picture goes through normalize_picture ---- *)
Theorem C12b_clause_dict_printer : forall (cs : list clause) (sps : spelling), printable cs sps = true ->
  clause_dict (print_items cs sps) = result_for (expected cs sps).
Proof. exact clause_dict_printer. Qed.
Print Assumptions C12b_clause_dict_printer.

(* the content of the expected dictionary does not depend on the spelling *)
Theorem C12b_expected_content : forall (cs : list clause) (sps : spelling), items_ok cs sps = true ->
  normal (expected cs sps) = abstract cs.
Proof. exact expected_content. Qed.
Print Assumptions C12b_expected_content.

(* ---- respelling: two printings of the same entry - clauses in any order (the data name first), any optional
        words, synonyms, separators and letter case - give dictionaries with the same content and the same parsed
        picture ---- *)
Theorem C12b_respelling : forall (cs cs' : list clause) (sps sps' : spelling) (r r' : clause_record),
  Permutation cs cs' -> printable cs sps = true -> printable cs' sps' = true ->
  clause_dict (print_items cs sps) = Some (Ok r) -> clause_dict (print_items cs' sps') = Some (Ok r') ->
  normal (codes (cr_dict r)) = normal (codes (cr_dict r')) /\ cr_parsed r = cr_parsed r'.
Proof. exact respelling. Qed.
Print Assumptions C12b_respelling.

(* the content is the abstract clause set of the entry *)
Theorem C12b_respelling_content : forall (cs : list clause) (sps sps' : spelling) (r r' : clause_record),
  printable cs sps = true -> printable cs sps' = true ->
  clause_dict (print_items cs sps) = Some (Ok r) -> clause_dict (print_items cs sps') = Some (Ok r') ->
  normal (codes (cr_dict r)) = abstract cs /\ normal (codes (cr_dict r')) = abstract cs /\ cr_parsed r = cr_parsed r'.
Proof. exact respelling_same_order. Qed.
Print Assumptions C12b_respelling_content.

(* the abstract clause set does not depend on the order of the clauses *)
Theorem C12b_abstract_order : forall cs cs' : list clause, Permutation cs cs' -> nodup_N (map kind cs) = true ->
  abstract cs = abstract cs'.
Proof. exact abstract_perm. Qed.
Print Assumptions C12b_abstract_order.

(* ---- C07: the recognised entry is named as the copybook says: the data name, or the generated FILLER-1 for the word
        FILLER (written in upper case) and for an entry without a name (DDE.__init__ with a fresh counter) ---- *)
Theorem C12b_naming : forall (cs : list clause) (sps : spelling) (r : clause_record), in_domain cs sps = true ->
  clause_dict (print_items cs sps) = Some (Ok r) -> dde_unique (cr_dict r) = spec_unique_name cs.
Proof. exact naming. Qed.
Print Assumptions C12b_naming.

(* ---- token level ---- *)
(* a reserved word of the pattern, printed in any letter case, is matched by its literal *)
Theorem C12b_keyword_any_case : forall (w : str) (m : list bool) (rest : list N), kword w = true ->
  lit w (cased m w ++ rest) = Some rest.
Proof. exact lit_cased. Qed.
Print Assumptions C12b_keyword_any_case.

(* every spelling of every usage family, in any letter case, is taken whole by the usage alternation *)
Theorem C12b_usage_word : forall (fam i : N) (m : list bool) (rest : list N), follow rest ->
  usage_at (cased m (usage_word fam i) ++ rest) = Some ([(KUsage, cased m (usage_word fam i))], rest).
Proof. intros. apply usage_at_printed; [apply usage_word_in|assumption]. Qed.
Print Assumptions C12b_usage_word.

(* a data name of the domain is matched by no keyword alternative *)
Theorem C12b_name_no_keyword : forall (n : str) (rest : list N), name_ok n = true -> follow rest ->
  forall id, In id keyword_alts -> alt id (n ++ rest) = ANo.
Proof. exact name_alts. Qed.
Print Assumptions C12b_name_no_keyword.

(* the KEY / INDEXED BY tail takes nothing when the next word is none of its words *)
Theorem C12b_key_tail_clean : forall rest : list N, tail_ok rest -> key_tail rest = Some rest.
Proof. exact key_tail_clean. Qed.
Print Assumptions C12b_key_tail_clean.

(* ---- refutations: outside the domain the faithful model returns something else; one witness per finding ---- *)
Definition name_of (o : option (res clause_record)) : option (list N) :=
  match o with Some (Ok r) => get KName (cr_dict r) | _ => None end.
Definition key_of (k : key) (o : option (res clause_record)) : option (list N) :=
  match o with Some (Ok r) => get k (cr_dict r) | _ => None end.

Definition sp0 : cspell := {| ch := []; masks := []; seps := [] |}.
Definition blank1 : str := [32].

(* 1  COMPANY PIC X(5): the name is cut to ANY, usage COMP appears *)
Definition w_keyword : list clause := [CName [67; 79; 77; 80; 65; 78; 89]; CPicture [88; 40; 53; 41]].
Theorem C12b_refuted_keyword_prefix :
  printable w_keyword [] = false /\
  name_of (clause_dict (print_items w_keyword [])) = Some [65; 78; 89] /\
  key_of KUsage (clause_dict (print_items w_keyword [])) = Some [67; 79; 77; 80] /\
  lookup 14 (expected w_keyword []) = Some [67; 79; 77; 80; 65; 78; 89] /\ lookup 11 (expected w_keyword []) = None.
Proof. vm_compute. repeat split; reflexivity. Qed.
Print Assumptions C12b_refuted_keyword_prefix.

(* 2  A PIC X(3); DISPLAY: the semicolon is read into the picture, normalize_picture raises ValueError *)
Definition w_glued : list clause := [CName [65]; CPicture [88; 40; 51; 41]; CUsage 0].
Definition s_glued : spelling := [(sp0, blank1); (sp0, [59; 32]); (sp0, [])].
Theorem C12b_refuted_separator_after_picture :
  printable w_glued s_glued = false /\ printable w_glued [] = true /\
  clause_dict (print_items w_glued s_glued) = Some (Err ValueError) /\
  exists r, clause_dict (print_items w_glued []) = Some (Ok r).
Proof. split; [vm_compute; reflexivity|]. split; [vm_compute; reflexivity|]. split; [vm_compute; reflexivity|]. eexists. vm_compute. reflexivity. Qed.
Print Assumptions C12b_refuted_separator_after_picture.

(* 3  T OCCURS 3 TIMES INDEXED BY I-1: the entry is named I-1 *)
Definition w_indexed : list clause :=
  [CName [84]; COccurs [51] (Some {| ip_key := None; ip_idx := [[73; 45; 49]] |})].
Definition s_indexed : spelling := [(sp0, blank1); ({| ch := [1; 0; 0; 0; 1]; masks := []; seps := [] |}, [])].
Theorem C12b_refuted_indexed_by :
  printable w_indexed s_indexed = false /\
  name_of (clause_dict (print_items w_indexed s_indexed)) = Some [73; 45; 49] /\
  lookup 14 (expected w_indexed s_indexed) = Some [84].
Proof. vm_compute. repeat split; reflexivity. Qed.
Print Assumptions C12b_refuted_indexed_by.

(* 3' A OCCURS 5 ASCENDING KEY IS K INDEXED BY I PIC X(3): the picture clause is swallowed as index names *)
Definition w_after_indexed : list clause :=
  [CName [65]; COccurs [53] (Some {| ip_key := Some (true, [75]); ip_idx := [[73]] |}); CPicture [88; 40; 51; 41]].
Definition s_after_indexed : spelling :=
  [(sp0, blank1); ({| ch := [0; 0; 1; 1; 1]; masks := []; seps := [] |}, blank1); (sp0, [])].
Theorem C12b_refuted_clause_after_indexed_by :
  printable w_after_indexed s_after_indexed = false /\
  key_of KPicture (clause_dict (print_items w_after_indexed s_after_indexed)) = None /\
  lookup 7 (expected w_after_indexed s_after_indexed) = Some [88; 40; 51; 41].
Proof. vm_compute. repeat split; reflexivity. Qed.
Print Assumptions C12b_refuted_clause_after_indexed_by.

(* 4  A PIC X BLANK WHEN ZEROS: blank is ZERO and the entry is named S *)
Definition w_zeros : list clause := [CName [65]; CPicture [88]; CBlank].
Definition s_zeros : spelling := [(sp0, blank1); (sp0, blank1); ({| ch := [1; 1]; masks := []; seps := [] |}, [])].
Theorem C12b_refuted_blank_zeros :
  printable w_zeros s_zeros = false /\
  name_of (clause_dict (print_items w_zeros s_zeros)) = Some [83] /\
  key_of KBlank (clause_dict (print_items w_zeros s_zeros)) = Some K_ZERO /\
  lookup 14 (expected w_zeros s_zeros) = Some [65] /\ lookup 1 (expected w_zeros s_zeros) = Some K_ZEROS.
Proof. vm_compute. repeat split; reflexivity. Qed.
Print Assumptions C12b_refuted_blank_zeros.

(* 5  A PIC X JUSTIFIED: the entry is named JUSTIFIED *)
Definition w_just : list clause := [CName [65]; CPicture [88]; CJust false].
Definition s_just : spelling := [(sp0, blank1); (sp0, blank1); (sp0, [])].
Theorem C12b_refuted_justified_last :
  printable w_just s_just = false /\
  name_of (clause_dict (print_items w_just s_just)) = Some K_JUSTIFIED /\
  lookup 14 (expected w_just s_just) = Some [65] /\
  (* with a blank before the period the same entry is in the domain *)
  printable w_just [(sp0, blank1); (sp0, blank1); (sp0, blank1)] = true.
Proof. vm_compute. repeat split; reflexivity. Qed.
Print Assumptions C12b_refuted_justified_last.

(* 6  A PIC S9 SIGN LEADING: the entry is named LEADING *)
Definition w_sign : list clause := [CName [65]; CPicture [83; 57]; CSign true false].
Definition s_sign : spelling := [(sp0, blank1); (sp0, blank1); ({| ch := [1]; masks := []; seps := [] |}, [])].
Theorem C12b_refuted_sign_without_separate :
  printable w_sign s_sign = false /\
  name_of (clause_dict (print_items w_sign s_sign)) = Some K_LEADING /\
  key_of KSign (clause_dict (print_items w_sign s_sign)) = None /\
  lookup 14 (expected w_sign s_sign) = Some [65] /\ lookup 8 (expected w_sign s_sign) = Some K_LEADING.
Proof. vm_compute. repeat split; reflexivity. Qed.
Print Assumptions C12b_refuted_sign_without_separate.

(* 7  filler PIC X: the dictionary is as expected (the word as written), but DDE.__init__ then names the item filler
      instead of FILLER-1 *)
Definition w_filler : list clause := [CFiller; CPicture [88]].
Definition s_filler : spelling := [({| ch := []; masks := [[true; true; true; true; true; true]]; seps := [] |}, blank1); (sp0, [])].
Theorem C12b_refuted_filler_case :
  printable w_filler s_filler = true /\ in_domain w_filler s_filler = false /\
  (exists r, clause_dict (print_items w_filler s_filler) = Some (Ok r) /\
             dde_unique (cr_dict r) = [102; 105; 108; 108; 101; 114]) /\
  spec_unique_name w_filler = K_FILLER ++ [45; 49].
Proof. split; [vm_compute; reflexivity|]. split; [vm_compute; reflexivity|]. split; [eexists; vm_compute; split; reflexivity|reflexivity]. Qed.
Print Assumptions C12b_refuted_filler_case.

(* so the main statement without its domain is false *)
Theorem C12b_unguarded_refuted :
  ~ (forall (cs : list clause) (sps : spelling), clause_dict (print_items cs sps) = result_for (expected cs sps)).
Proof.
  intros H. specialize (H w_keyword []). apply (f_equal name_of) in H. vm_compute in H. discriminate.
Qed.
Print Assumptions C12b_unguarded_refuted.

(* ---- non-vacuity: an entry with many clauses in a mixed spelling is in the domain; what is returned ---- *)
(* CUST-NO, pIc  iS S9(5)V99 usage IS comp-3 <newline> occurs 5 TIMES value 'A B'; global *)
Definition ex_cs : list clause :=
  [CName [67; 85; 83; 84; 45; 78; 79]; CPicture [83; 57; 40; 53; 41; 86; 57; 57]; CUsage 2; COccurs [53] None;
   CValue [39; 65; 32; 66; 39]; CGlobal].
Definition ex_sps : spelling :=
  [(sp0, [44; 10; 32; 32]);
   ({| ch := [0; 1]; masks := [[true; false; true]; [true; false]]; seps := [[32; 32]; [32]] |}, blank1);
   ({| ch := [2; 0]; masks := [[true; true; true; true; true]; []; [true; true; true; true; true; true]]; seps := [] |}, [10]);
   ({| ch := [1]; masks := [[true; true; true; true; true; true]]; seps := [] |}, blank1);
   ({| ch := []; masks := [[true; true; true; true; true]]; seps := [] |}, [59; 32]);
   ({| ch := []; masks := [[true; true; true; true; true; true]]; seps := [] |}, [])].
Example C12b_example :
  printable ex_cs ex_sps = true /\
  key_of KUsage (clause_dict (print_items ex_cs ex_sps)) = Some [99; 111; 109; 112; 45; 51] /\       (* comp-3, as written *)
  key_of KName (clause_dict (print_items ex_cs ex_sps)) = Some [67; 85; 83; 84; 45; 78; 79] /\
  key_of KOccurs (clause_dict (print_items ex_cs ex_sps)) = Some [53] /\
  key_of KValue (clause_dict (print_items ex_cs ex_sps)) = Some [39; 65; 32; 66; 39] /\
  lookup 11 (abstract ex_cs) = Some K_COMP_3.
Proof. vm_compute. repeat split; reflexivity. Qed.
