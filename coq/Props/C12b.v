(* C12b - under construction *)
From Coq Require Import NArith List.
Import ListNotations.
Require Import SR.Base.Res SR.Spec.Clauses SR.Model.Clauses SR.Proofs.ClausesP.
Open Scope N_scope.

Example C12b_example : exists r, clause_dict [65; 32; 80; 73; 67; 32; 88] = Some (Ok r).
Proof. eexists. vm_compute. reflexivity. Qed.
