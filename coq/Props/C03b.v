(* C03b - the text layer under C03 (second engine of the property): properties of the csv / json / UTF-8 models that
   the round-trip theorems of Props/C03.v (C03_csv_roundtrip, C03_ndjson_roundtrip, C03_facade_text) rest on and
   that harness/c03b.py ties to CPython and to the library on every run.  Only property theorems, each closed by an
   exact lemma of Proofs/CsvP.v / Proofs/NdjsonP.v. *)
From Coq Require Import NArith List Bool.
Import ListNotations.
Require Import SR.Base.Res.
Require SR.Model.Workbook SR.Model.Csv SR.Model.Ndjson SR.Proofs.CsvP SR.Proofs.NdjsonP.
Require Import SR.Model.Utf8 SR.Proofs.Utf8P SR.Proofs.TextFormatsP.

(* Reader_iternext over the lines of a file is ONE state machine over the characters and the line ends *)
Theorem C03b_reader_is_one_machine : forall (d : N) (lines : list Csv.text) (r : Csv.reader),
  Csv.read_records d r lines = CsvP.run d r (flat_map CsvP.line_events lines).
Proof. exact CsvP.read_records_run. Qed.
Print Assumptions C03b_reader_is_one_machine.

(* the file json.dumps wrote has exactly one line per dict, whatever the strings hold *)
Theorem C03b_ndjson_one_line_per_dict : forall (ea : bool) (docs : list Ndjson.doc),
  Ndjson.ndjson_lines (Ndjson.ndjson_write ea docs) = map (fun d => Ndjson.json_object ea d ++ [10%N]) docs.
Proof. exact NdjsonP.written_lines_lib. Qed.
Print Assumptions C03b_ndjson_one_line_per_dict.

(* scanstring inverts the escaper on every string of the domain, whatever follows the closing quote *)
Theorem C03b_scanstring_inverts_escape : forall (ea : bool) (s rest : Ndjson.text), Ndjson.text_ok ea s = true ->
  Ndjson.scan_string (Ndjson.escape ea s ++ 34%N :: rest) [] = Ok (s, rest).
Proof. exact NdjsonP.scan_json_string. Qed.
Print Assumptions C03b_scanstring_inverts_escape.

(* a key written twice (impossible for a dict) is read as one property holding the last value *)
Theorem C03b_duplicate_key :
  Ndjson.ndjson_read (Ndjson.ndjson_write false [[([97], [49]); ([97], [50])]]%N) = Ndjson.Done [[([97], [50])]]%N.
Proof. exact NdjsonP.ndjson_duplicate_key. Qed.
Print Assumptions C03b_duplicate_key.

(* the text layer of the csv model is Model/Workbook.v's (used for fixed-width text files), with a linear-time reversal *)
Theorem C03b_text_layer : forall s : Csv.text, Csv.text_lines s = Workbook.text_lines s.
Proof. exact CsvP.text_lines_same. Qed.
Print Assumptions C03b_text_layer.

(* within_limit is exact: an unquoted cell of more than csv.field_size_limit() characters makes the reader raise *)
Theorem C03b_csv_over_limit : forall (d : N) (cs : Csv.text),
  Csv.delim_ok d = true -> existsb (Csv.special d) cs = false -> (Csv.field_limit < N.of_nat (length cs))%N ->
  Csv.csv_read d (Csv.csv_write d [[cs]]) = Err OtherError.
Proof. exact CsvP.csv_over_limit. Qed.
Print Assumptions C03b_csv_over_limit.

(* UTF-8: decoding inverts encoding on every sequence of Unicode scalar values *)
Theorem C03b_utf8_roundtrip : forall s : list N, forallb scalar s = true ->
  utf8_decode (length (utf8 s)) (utf8 s) = Some s.
Proof. exact utf8_roundtrip. Qed.
Print Assumptions C03b_utf8_roundtrip.

(* from the BYTES on disk: the UTF-8 file csv.writer produced, decoded and read as the library reads it *)
Theorem C03b_csv_bytes : forall (d : N) (T : list (list Csv.text)),
  Csv.delim_ok d = true -> scalar d = true -> Csv.table_ok_raw T = true -> forallb (forallb (forallb scalar)) T = true ->
  from_bytes (Csv.lib_read d) (utf8 (Csv.csv_write d T)) = Some (Ok T).
Proof. exact csv_bytes_roundtrip. Qed.
Print Assumptions C03b_csv_bytes.

(* the same for the json.dumps lines; with ensure_ascii the file is ASCII whatever the strings hold (lone surrogates too) *)
Theorem C03b_ndjson_bytes : forall (ea : bool) (docs : list Ndjson.doc),
  forallb (Ndjson.doc_ok ea) docs = true -> forallb (forallb (NdjsonP.scalar_pair ea)) docs = true ->
  from_bytes Ndjson.ndjson_read (utf8 (Ndjson.ndjson_write ea docs)) = Some (Ndjson.Done docs).
Proof. exact ndjson_bytes_roundtrip. Qed.
Print Assumptions C03b_ndjson_bytes.

Example C03b_example_bytes :
  scalar 44 = true /\ scalar 128512 = true /\ scalar 55296 = false
  /\ utf8 [97; 233; 8232; 128512]%N = [97; 195; 169; 226; 128; 168; 240; 159; 152; 128]%N
  /\ NdjsonP.scalar_pair true ([97], [55296])%N = true /\ NdjsonP.scalar_pair false ([97], [55296])%N = false
  /\ existsb (Csv.special 44) [97; 32; 9; 0]%N = false.
Proof. repeat split; vm_compute; reflexivity. Qed.

Example C03b_example_text_ok :
  Ndjson.text_ok true [34; 92; 10; 233; 128512; 55296; 97; 56320]%N = true /\ Ndjson.text_ok true [55296; 56320]%N = false.
Proof. split; reflexivity. Qed.
