(* C08 - Generated schemas are valid, loadable and tell the truth about each field.
   Only property theorems here, each closed by an exact lemma of Proofs/JsonTypeP.v.

   Part 1, one elementary item.  [u] is the USAGE spelling (numbered as in Spec/Encode.v, all 13),
   [p : fpic] the picture: numeric S?9(m)V9(n) with each digit run written out or in repeat
   notation, or text X(k) / A(k).  [pic_text p] is the PICTURE character string;
   [emit_field u p] is the model of json_type + the elementary branch of build_json_schema
   (Model/JsonType.v; name sets, character set and emitted dicts regenerated from the source into
   Gen/JsonTypeParams.v), lengths through the model of estruct.calcsize (Model/Estruct.v);
   [delivered_type] is the type of CONVERSION[conversion](estruct.unpack(...)) (Model/Estruct.v,
   Model/Conversion.v).  [spec_field] is what the property demands (Spec/SchemaTruth.v), byte
   length = C04's [spec_size]; [valid_record] = the mainframe encodings of Spec/Encode.v.
   Codes: type 1 string 2 integer 3 number 4 decimal; contentEncoding 1 cp037 2 packed-decimal
   3 bigendian-int 4 bigendian-float 5 bigendian-double; conversion 0 absent 6 decimal;
   Python type 2 int 3 float 4 str 5 Decimal.

   Part 2, the schema tree.  [build t] is Model/Layout.v's model of build_json_schema's structure
   (compared with the emitted document on every C01 and C08 run). *)
From Coq Require Import ZArith NArith List Bool.
Import ListNotations.
Require Import SR.Base.Res SR.Spec.Encode SR.Spec.Fits SR.Spec.Layout SR.Model.Layout SR.Model.Estruct
  SR.Spec.SchemaTruth SR.Model.JsonType SR.Proofs.JsonTypeP.
Open Scope N_scope.

(* ---- TRUTHFUL: every spelling, every picture (1 <= m + n <= 18, any k >= 1), outside the two
   known-bad families: the emitted type / contentEncoding / conversion are the demanded ones,
   minLength = maxLength = the demanded byte length, the Python type the keywords declare is the
   demanded one ... *)
Theorem C08_truthful : forall (u : N) (p : fpic) (t e c sz : N) (py : Z),
  wf_pic p = true -> spec_field u p = Some (t, e, c, sz, py) -> known_bad_C08 u p = None ->
  emit_field u p = Ok (mkfield t e c sz sz) /\ declared_pytype t c = Some py.
Proof. exact truthful_keywords. Qed.
Print Assumptions C08_truthful.

(* ... and for EVERY item with a decoder (also the known-bad ones) every valid record delivers a
   value of the demanded Python type: Decimal for numeric DISPLAY and packed, int for binary,
   str for text.  [f] is whatever the generator emitted. *)
Theorem C08_truthful_delivered : forall (u : N) (p : fpic) (f : field) (buffer : list N) (t e c sz : N) (py : Z),
  wf_pic p = true -> spec_field u p = Some (t, e, c, sz, py) -> emit_field u p = Ok f ->
  valid_record u p buffer -> delivered_type u p (f_conv f) buffer = Ok py.
Proof. exact delivered. Qed.
Print Assumptions C08_truthful_delivered.

(* extended-vocabulary generator: vocabulary type, no contentEncoding / conversion, same lengths *)
Theorem C08_extended : forall (u : N) (p : fpic) (tx sz : N),
  wf_pic p = true -> spec_field_ext u p = Some (tx, sz) -> known_bad_C08 u p = None ->
  emit_field_ext u p = Ok (mkfield tx 0 0 sz sz).
Proof. exact extended_keywords. Qed.
Print Assumptions C08_extended.

(* The full statement without the guard is FALSE of the code as it is. *)
Definition C08_truthful_unguarded : Prop := forall (u : N) (p : fpic) (t e c sz : N) (py : Z),
  wf_pic p = true -> spec_field u p = Some (t, e, c, sz, py) ->
  emit_field u p = Ok (mkfield t e c sz sz) /\ declared_pytype t c = Some py.

(* Known finding K-repeat-not-decimal: PIC 9(3) DISPLAY is declared a plain string (no conversion;
   the keywords declare str) while PIC 999, the same item, is declared decimal - and both deliver
   a Decimal (zoned F1 F2 F3 -> 123). *)
Theorem C08_refuted_9_3 :
  pic_text (PNum false 3 0 true false) = [57; 40; 51; 41]
  /\ spec_field 11 (PNum false 3 0 true false) = Some (1, 1, 6, 3, 5%Z)
  /\ emit_field 11 (PNum false 3 0 true false) = Ok (mkfield 1 1 0 3 3)
  /\ emit_field 11 (PNum false 3 0 false false) = Ok (mkfield 1 1 6 3 3)
  /\ declared_pytype 1 0 = Some 4%Z
  /\ delivered_type 11 (PNum false 3 0 true false) 0 (enc_zoned [1; 2; 3] 15) = Ok 5%Z
  /\ emit_field_ext 11 (PNum false 3 0 true false) = Ok (mkfield 1 0 0 3 3)
  /\ ~ C08_truthful_unguarded.
Proof.
  repeat split; try (vm_compute; reflexivity).
  intros H. specialize (H 11 (PNum false 3 0 true false) 1 1 6 3 5%Z eq_refl eq_refl).
  destruct H as [H _]. vm_compute in H. discriminate.
Qed.
Print Assumptions C08_refuted_9_3.

(* Known finding (C04's K-signed-binary-size seen through the schema): S9(4) COMP is declared 4 bytes long. *)
Theorem C08_refuted_signed_binary :
  spec_field 10 (PNum true 4 0 false false) = Some (2, 3, 0, 2, 2%Z)
  /\ emit_field 10 (PNum true 4 0 false false) = Ok (mkfield 2 3 0 4 4).
Proof. vm_compute. split; reflexivity. Qed.
Print Assumptions C08_refuted_signed_binary.

(* Known finding (C04's K-float-no-decoder): COMP-1 / COMP-2 items are declared as the property says
   (covered by C08_truthful) but nothing is ever delivered for them. *)
Theorem C08_refuted_float : forall u s m n ri rf conv buffer,
  is_float_spelling u = true -> delivered_type u (PNum s m n ri rf) conv buffer = Err RuntimeError.
Proof. exact float_no_decoder. Qed.
Print Assumptions C08_refuted_float.

(* ---- REFERENCES RESOLVE: for every record description whose DEPENDING ON counters are names of the
   description, every $ref and every maxItemsDependsOn of the generated schema names an $anchor of
   the generated schema.  (Neither distinct names nor well-formed REDEFINES are needed for this.) *)
Theorem C08_refs_resolve : forall t : item,
  build_raises t = false -> incl (counters_of t) (ids_of t) ->
  incl (refs_of (build t)) (anchors_of (build t)).
Proof. exact refs_resolve. Qed.
Print Assumptions C08_refs_resolve.

(* every name of the description is an anchor *)
Theorem C08_names_anchored : forall (t : item) (i : id), In i (ids_of t) -> In (KName i) (anchors_of (build t)).
Proof. exact names_anchored. Qed.
Print Assumptions C08_names_anchored.

(* ---- VALID (structure): with pairwise distinct names, every oneOf of the generated schema has at
   least one alternative and the member names of every properties object are distinct. *)
Theorem C08_valid_shape_partial : forall t : item,
  NoDup (ids_of t) -> build_raises t = false -> shape_ok (build t) = true.
Proof. exact valid_shape_partial. Qed.
Print Assumptions C08_valid_shape_partial.

(* ---- VALID (structure), full: additionally no $anchor is declared twice.  [wf8 e t] (Proofs/JsonTypeP.v):
   among the children of every non-repeated group a REDEFINES names an earlier sibling that is not itself
   a redefiner, is no longer than it, and elementary OCCURS items are not union members (C01's [unions_ok]);
   no REDEFINES inside a repeated group (there the generator raises); OCCURS DEPENDING ON anywhere. *)
Theorem C08_valid_shape : forall (e : env) (t : item),
  NoDup (ids_of t) -> wf8 e t = true -> valid_2020_12_shape (build t) = true.
Proof. exact valid_shape_full. Qed.
Print Assumptions C08_valid_shape.

Theorem C08_anchors_distinct : forall (e : env) (t : item),
  NoDup (ids_of t) -> wf8 e t = true -> NoDup (anchors_of (build t)).
Proof. exact anchors_distinct. Qed.
Print Assumptions C08_anchors_distinct.

(* a well-formed description is one the generator does not refuse *)
Theorem C08_wf_not_refused : forall (e : env) (t : item), wf8 e t = true -> build_raises t = false.
Proof. intros e. exact (proj1 (wf8_not_raises e)). Qed.
Print Assumptions C08_wf_not_refused.

(* ---- LOADABLE, REFERENCES BOUND: the model of SchemaMaker.from_json (Model/JsonType.v [load]: name_cache keyed
   by $anchor else title, $ref bound at once or deferred, maxItemsDependsOn bound at once or ValueError) run on
   the generated schema of a well-formed description returns, and EVERY reference site ([site_keys]: each $ref
   and each maxItemsDependsOn, in document order) is bound to an object whose $anchor is the name referred to -
   with C08_anchors_distinct: to THE sub-schema bearing that name.  [filler i] says item i is a FILLER (its
   title is not its name).  [odo_ok [] t] (Spec/SchemaTruth.v): every DEPENDING ON names a counter declared
   earlier in the description, a counter being an elementary item without OCCURS outside every REDEFINES union;
   a DEPENDING ON inside a redefining item must name a counter declared earlier inside that item (conservative:
   COBOL allows no OCCURS DEPENDING ON under REDEFINES at all). *)
Theorem C08_loadable : forall (filler : id -> bool) (e : env) (t : item),
  NoDup (ids_of t) -> wf8 e t = true -> odo_ok [] t = true ->
  exists l, load filler (build t) = Ok l /\ map fst l = site_keys (build t)
            /\ forall k d, In (k, d) l -> snd d = Some k.
Proof. exact load_build. Qed.
Print Assumptions C08_loadable.

(* ---- non-vacuity ---- *)
(* S9(3)V99 COMP-3, written out: string / packed-decimal / decimal / 3 bytes; 12 34 5D -> a Decimal *)
Example C08_example_field :
  wf_pic (PNum true 3 2 false false) = true /\ known_bad_C08 8 (PNum true 3 2 false false) = None
  /\ spec_field 8 (PNum true 3 2 false false) = Some (1, 2, 6, 3, 5%Z)
  /\ emit_field 8 (PNum true 3 2 false false) = Ok (mkfield 1 2 6 3 3)
  /\ enc_packed [1; 2; 3; 4; 5] 13 = [18; 52; 93]
  /\ delivered_type 8 (PNum true 3 2 false false) 6 [18; 52; 93] = Ok 5%Z
  /\ spec_field 11 (PText false 3 true) = Some (1, 1, 0, 3, 4%Z) /\ pic_text (PText false 3 true) = [88; 40; 51; 41].
Proof. vm_compute. repeat split; reflexivity. Qed.

Example C08_example_record : valid_record 8 (PNum true 3 2 false false) [18; 52; 93].
Proof. right. left. split; [cbn; auto|]. exists [1; 2; 3; 4; 5], 13. repeat split. Qed.

(* 01 R. 05 C PIC 9. 05 A PIC X(2). 05 B REDEFINES A PIC X(2). 05 T OCCURS 0 TO 3 DEPENDING ON C PIC X. *)
Definition example_tree : item :=
  Group 1 Once None
    (ICons (Elem 2 1 Once None) (ICons (Elem 3 2 Once None) (ICons (Elem 4 2 Once (Some 3%N))
      (ICons (Elem 5 1 (Odo 2) None) INil)))).
Example C08_example_tree :
  build_raises example_tree = false /\ incl (counters_of example_tree) (ids_of example_tree)
  /\ refs_of (build example_tree) = [KName 3; KName 4; KName 2]
  /\ anchors_of (build example_tree) = [KName 1; KName 2; KRedef 3; KName 3; KName 4; KName 5]
  /\ valid_2020_12_shape (build example_tree) = true.
Proof.
  repeat split; try (vm_compute; reflexivity).
  intros x Hx. vm_compute in Hx. destruct Hx as [Hx|[]]. subst x. vm_compute. auto.
Qed.
Example C08_example_tree_wf :
  wf8 (fun _ => 0%nat) example_tree = true /\ odo_ok [] example_tree = true
  /\ site_keys (build example_tree) = [KName 3; KName 4; KName 2]
  /\ load (fun _ => false) (build example_tree)
     = Ok [(KName 3, (CAtomic, Some (KName 3))); (KName 4, (CAtomic, Some (KName 4))); (KName 2, (CAtomic, Some (KName 2)))].
Proof. vm_compute. repeat split; reflexivity. Qed.
Example C08_example_tree_nodup : NoDup (ids_of example_tree).
Proof. vm_compute. repeat constructor; cbn; intuition discriminate. Qed.
