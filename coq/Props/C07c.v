(* C07c - companion of C07 / C07b: FROM RAW COPYBOOK TEXT TO BYTE RANGES AND DECODED VALUES.
   Only property theorems, each closed by an exact lemma of Proofs/TextLayoutP.v.  No engine of its own: the models are
   C07b's (Model/Pipeline.v: the whole parser on raw text, compared with schema_iter on every run of ./check C07) and C01's /
   C10's (Model/Layout.v, Model/LayoutValue.v: LocationMaker.walk, NDNav, value(); ./check C01, C10).

   What was missing.  C07b_end_to_end ends at the JSON DOCUMENTS (Model/Pipeline.v jdoc: strings, every keyword);
   C01c_layout / C06_layout / C01b_stored_is_read start from a record description t : item (Spec/Layout.v: identifiers,
   every elementary item carrying its WIDTH) and speak about build t : js.  Nothing said that the documents computed from the
   text are such built trees, with which names and which widths.

   Vocabulary (Model/TextLayout.v, no proofs there).
     name_id s          the identifier of the data name s - an injective numbering of strings (C07c_names_are_faithful), so a
                        path of Spec/Layout.v steps IS a path of names and indices (steps_of)
     layout_of_doc d    the tree js the loader and LocationMaker read off a document, object by object in the order of the
                        loader's tests: $ref, oneOf, type array (maxItems / maxItemsDependsOn.$ref), type object (properties in
                        document order), anything else atomic.  The WIDTH of an atomic object is calcsize_text of its OWN cobol
                        keyword - estruct's second parse of the entry text through Model/Estruct.v calcsize, which is what
                        EBCDIC.calcsize does - not maxLength (the item of an elementary OCCURS has none).  $anchor is kept; a
                        key or anchor REDEFINES-x is the key of the union of x.
     item_of t          the record description of a tree t of the annotated forest xf (the forest of C07_structure with the
                        clause values of the entries attached, C07b_end_to_end): names by name_id of the unique name (FILLER-n
                        for fillers), OCCURS n / DEPENDING ON c from the clause values, the REDEFINES target of the entry, every
                        elementary width calcsize_text of the entry's cobol text
     bridge_ok t        the DECIDABLE domain of the bridge: no name starts with REDEFINES-; json_type, calcsize_text and the
                        item count of every item exist; an elementary OCCURS item has no subordinate entries; the children of a
                        group differ in name; a child is marked as redefined exactly when a later sibling names it, is then no
                        FILLER and does not itself redefine; a redefiner names an earlier marked sibling; nothing is redefined
                        below an OCCURS group (known finding C07-K2: KeyError there)
     forest_of_entries es, records_of_entries es   the annotated forest / the record descriptions of the entries es
     bridge_domain es   structure() accepts the entries, names_wf (C07b_end_to_end's hypothesis) and bridge_ok of every tree
     text_layout_ok es  bridge_domain es and, for every record, the hypotheses of C01c_layout (wf: no OCCURS DEPENDING ON, COBOL's
                        own demands on REDEFINES, the two known-bad shapes excluded; siblings_distinct; anchored_names_unique)
     layouts_of_text text   schemas_of_text text followed by layout_of_doc: the layouts computed from raw text
     located text k dcount r p   where navigation along p ends in record k of the text on the record instance r
     kind_of_cobol c, kinds_of t, unpack_cobol c   USAGE / PICTURE of an item as estruct.unpack sees them in its cobol text
                        (the scan of calcsize again: est_loop over est_items), as the field kind of Spec/Record.v
     text_values_ok es  text_layout_ok es, every elementary item has a kind, all names of a record differ (C01b's hypothesis)
   Every hypothesis of the text theorems is copybook_ok (the printable domain of C07b) or one boolean on the entries es.

   What is proved.
     C07c_documents_are_built_trees        A, per tree: on bridge_ok the document doc_r t exists and layout_of_doc of it IS
                                           Model/Layout.v build (item_of t): same nesting, same property order, same $anchor /
                                           $ref / oneOf / maxItems / maxItemsDependsOn, same widths.  OCCURS DEPENDING ON included.
     C07c_text_documents_are_built_trees   A, from the text: for every printed copybook of the domain the documents computed
                                           from the text are the built trees of the forest C07_structure characterises
     C07c_text_to_layout                   B, IN FULL (REDEFINES included): the schema computed from the text, navigated by the
                                           model of LocationMaker / NDNav, lands for every record instance and every path on the
                                           bytes the COBOL rules (Spec/Layout.v) assign to the item the path names
     C07c_text_to_layout_odo               the same through C06_layout for copybooks with OCCURS DEPENDING ON (the hypotheses on
                                           the count vector and the record are C06's: they speak about the record, not the text)
     C07c_text_to_values                   B composed with C01b: what the specification's encoders store for an assignment of
                                           values is what value() returns, every atom decoded by its own cobol text
     C07c_decoder_of_the_text              the decoder of the kind taken from a cobol text is estruct.unpack on that text
   Boundary (witnesses): REDEFINES below an OCCURS group and two siblings of one name are outside bridge_domain. *)
From Coq Require Import NArith ZArith List Bool.
Import ListNotations.
Require Import SR.Base.Res SR.Base.Dec SR.Model.RefFormat SR.Spec.RefFormat SR.Spec.Clauses.
Require SR.Model.Structure SR.Proofs.LayoutP SR.Proofs.LayoutNamesP SR.Proofs.LayoutOdoP.
Require Import SR.Model.Pipeline SR.Spec.Copybook SR.Proofs.PipelineP.
Require Import SR.Spec.Layout SR.Model.Layout.
Require Import SR.Spec.Encode SR.Spec.Record SR.Model.Estruct SR.Model.LayoutValue SR.Model.RecordValue.
Require Import SR.Model.TextLayout SR.Proofs.TextLayoutP.
Require SR.Props.C07b.

(* ---- names: the numbering of data names loses nothing ---- *)
Theorem C07c_names_are_faithful : forall s s' : list N, name_id s = name_id s' -> s = s'.
Proof. exact name_id_inj. Qed.
Print Assumptions C07c_names_are_faithful.

Theorem C07c_keys_are_faithful : forall a b : list N, key_of a = key_of b -> a = b.
Proof. exact key_of_inj. Qed.
Print Assumptions C07c_keys_are_faithful.

(* ---- A. the bridge, per tree of the forest ---- *)
Theorem C07c_documents_are_built_trees : forall t : xtree, bridge_ok t = true ->
  exists doc, doc_r t = ROk doc /\ layout_of_doc doc = Some (build (item_of t)).
Proof. exact documents_are_built_trees. Qed.
Print Assumptions C07c_documents_are_built_trees.

(* ---- A. from the text: [f] is the forest of structure() (C07_structure: every kept entry once, in source order, below the
        nearest preceding entry with a smaller level number), [xf] is f with the clause values attached (C07b_end_to_end) ---- *)
Theorem C07c_text_documents_are_built_trees : forall es tail seqs,
  copybook_ok es tail seqs = true -> bridge_domain es = true ->
  exists f xf docs,
    SR.Model.Structure.structure (map spec_entry es) = Ok f
    /\ annot_forest f (kept_infos (map spec_info es)) = Some xf /\ map SR.Proofs.PipelineP.erase xf = f
    /\ concat (map xpre xf) = kept_infos (map spec_info es)
    /\ schemas_of_text (print_copybook es tail seqs) = Done (Ok docs)
    /\ Forall2 (fun doc t => layout_of_doc doc = Some (build (item_of t))) docs xf
    /\ layouts_of_text (print_copybook es tail seqs) = Some (map (fun t => build (item_of t)) xf).
Proof. exact text_documents_are_built. Qed.
Print Assumptions C07c_text_documents_are_built_trees.

(* ---- B. from the text to byte ranges.  For every printed copybook of the domain, record number k of the text: its schema
        [s] (computed FROM THE TEXT) is the built tree of the k-th tree [t] of the forest, and for every record instance r over
        any element type and every path p (names through name_id, indices): navigation succeeds exactly where the COBOL rules
        place an item and ends on the specification's bytes; the record has the specification's length. ---- *)
Theorem C07c_text_to_layout : forall es tail seqs,
  copybook_ok es tail seqs = true -> text_layout_ok es = true ->
  exists f xf schemas,
    SR.Model.Structure.structure (map spec_entry es) = Ok f
    /\ annot_forest f (kept_infos (map spec_info es)) = Some xf /\ map SR.Proofs.PipelineP.erase xf = f
    /\ concat (map xpre xf) = kept_infos (map spec_info es)
    /\ layouts_of_text (print_copybook es tail seqs) = Some schemas /\ length schemas = length xf
    /\ forall k s t, nth_error schemas k = Some s -> nth_error xf k = Some t ->
         s = build (item_of t)
         /\ forall (B : Type) (dcount : list B -> nat) (r : list B),
            exists v0, nav_of dcount r s = Ok v0
              /\ lstart (n_loc v0) = 0%nat /\ lend (n_loc v0) = extent no_counters (item_of t)
              /\ forall p v st, spec_nav no_counters (VItem (item_of t)) 0 p = inl (v, st) ->
                   exists nv, nav_path dcount r v0 p = Ok nv
                     /\ lstart (n_loc nv) = st /\ lend (n_loc nv) = (st + view_size no_counters v)%nat
                     /\ nav_raw r nv = slice r st (st + view_size no_counters v).
Proof. exact text_to_layout. Qed.
Print Assumptions C07c_text_to_layout.

(* ---- ... and with OCCURS DEPENDING ON (C06_layout): [e] is the count vector of the record, wfo C06's family, Holds says
        that the record carries e at the place of every counter ---- *)
Theorem C07c_text_to_layout_odo : forall es tail seqs,
  copybook_ok es tail seqs = true -> bridge_domain es = true ->
  exists xf schemas,
    forest_of_entries es = Some xf
    /\ layouts_of_text (print_copybook es tail seqs) = Some schemas /\ length schemas = length xf
    /\ forall k s t, nth_error schemas k = Some s -> nth_error xf k = Some t ->
         s = build (item_of t)
         /\ forall (B : Type) (dcount : list B -> nat) (r : list B) (e : env),
            SR.Proofs.LayoutOdoP.wfo e [] (item_of t) = true -> NoDup (SR.Proofs.LayoutP.ids (item_of t)) ->
            SR.Proofs.LayoutOdoP.Holds B dcount r e (item_of t) 0 ->
            exists v0, nav_of dcount r s = Ok v0
              /\ lstart (n_loc v0) = 0%nat /\ lend (n_loc v0) = extent e (item_of t)
              /\ forall p v st, spec_nav e (VItem (item_of t)) 0 p = inl (v, st) ->
                   exists nv, nav_path dcount r v0 p = Ok nv
                     /\ lstart (n_loc nv) = st /\ lend (n_loc nv) = (st + view_size e v)%nat
                     /\ nav_raw r nv = slice r st (st + view_size e v)
                     /\ (forall x, v = VItem x -> is_table x = true ->
                           forall i, (count e (item_oc x) <= i)%nat -> nav_index dcount r nv i = Err IndexError).
Proof. exact text_to_layout_odo. Qed.
Print Assumptions C07c_text_to_layout_odo.

(* ---- B composed with C01b: decoded values.  kinds_of t gives every elementary item the kind estruct.unpack reads in its own
        cobol text; record_ok (Spec/Record.v): the widths the text gives are the widths the kinds demand and the assigned values
        fit; the record is built by the SPECIFICATION's encoders and layout; value() of the navigator on the schema computed
        from the text is the assigned value (exact Decimal / int / text). ---- *)
Theorem C07c_text_to_values : forall es tail seqs,
  copybook_ok es tail seqs = true -> text_values_ok es = true ->
  exists xf schemas,
    forest_of_entries es = Some xf
    /\ layouts_of_text (print_copybook es tail seqs) = Some schemas /\ length schemas = length xf
    /\ forall k s t, nth_error schemas k = Some s -> nth_error xf k = Some t ->
       forall (dcount : list N -> nat) (vals : assignment),
         record_ok (kinds_of t) vals no_counters (item_of t) = true ->
         forall p i sz st, elem_at no_counters (item_of t) p = Some (i, sz, st) ->
           own_storage no_counters (VItem (item_of t)) 0 p = true ->
           value_at (kinds_of t) dcount (spec_record (kinds_of t) vals no_counters (item_of t)) s p
           = Some (Ok (PAtom (py_of (stored (kinds_of t i) (vals p))))).
Proof. exact text_to_values. Qed.
Print Assumptions C07c_text_to_values.

(* the per-atom decoder value_at uses for a kind taken from a cobol text is the decoder's own treatment of that text *)
Theorem C07c_decoder_of_the_text : forall (c : list N) (k : fkind), kind_of_cobol c = Some k ->
  forall bs, dec_kind k bs = unpack_cobol c bs.
Proof. exact dec_kind_cobol. Qed.
Print Assumptions C07c_decoder_of_the_text.

Theorem C07c_field_decoder : forall (kd : kinds) (i : id) (bs : list N), field_dec kd (Some (KName i)) bs = dec_kind (kd i) bs.
Proof. exact field_dec_kind. Qed.
Print Assumptions C07c_field_decoder.

(* ------------------------------------------------------------------ non-vacuity *)
Import SR.Props.C07b.
Open Scope N_scope.

(* a copybook with groups, an elementary and a group OCCURS table, a REDEFINES union, FILLERs and COMP-3 items

       01 CUST-REC .
           05 CUST-NO PIC 9(5) .
           05 NAME-G .
               10 FIRST PIC X(3) .
               10 FILLER PIC X(2) .
           05 PHONE PIC X(4) .
           05 PHONE-R REDEFINES PHONE .
               10 AREA-C PIC XX .
               10 REST-P PIC XX .
           05 AMT PIC S9(3) COMP-3 OCCURS 3 .
           05 LINE-T OCCURS 2 .
               10 QTY PIC S9(5) COMP-3 .
               10 FILLER PIC X .                                                  *)
Definition ind8 : line := [32; 32; 32; 32; 32; 32; 32; 32].
Definition n_NAME_G : line := [78; 65; 77; 69; 45; 71].
Definition n_FIRST : line := [70; 73; 82; 83; 84].
Definition n_PHONE : line := [80; 72; 79; 78; 69].
Definition n_PHONE_R : line := [80; 72; 79; 78; 69; 45; 82].
Definition n_AREA_C : line := [65; 82; 69; 65; 45; 67].
Definition n_REST_P : line := [82; 69; 83; 84; 45; 80].
Definition n_AMT : line := [65; 77; 84].
Definition n_LINE_T : line := [76; 73; 78; 69; 45; 84].
Definition n_QTY : line := [81; 84; 89].
Definition n_FILLER_1 : line := SR.Model.Structure.gen_name 1.
Definition n_FILLER_2 : line := SR.Model.Structure.gen_name 2.
Definition p_XX : line := [88; 88].
Definition p_X_2 : line := [88; 40; 50; 41].
Definition p_X_4 : line := [88; 40; 52; 41].
Definition p_S9_5 : line := [83; 57; 40; 53; 41].

Definition ex_full : list centry :=
  [mkce 48 49 [CName n_CUST_REC] [] [] [32];
   mkce 48 53 [CName n_CUST_NO; CPicture p_9_5] [] ind4 [32];
   mkce 48 53 [CName n_NAME_G] [] ind4 [32];
   mkce 49 48 [CName n_FIRST; CPicture p_X_3] [] ind8 [32];
   mkce 49 48 [CFiller; CPicture p_X_2] [] ind8 [32];
   mkce 48 53 [CName n_PHONE; CPicture p_X_4] [] ind4 [32];
   mkce 48 53 [CName n_PHONE_R; CRedefines n_PHONE] [] ind4 [32];
   mkce 49 48 [CName n_AREA_C; CPicture p_XX] [] ind8 [32];
   mkce 49 48 [CName n_REST_P; CPicture p_XX] [] ind8 [32];
   mkce 48 53 [CName n_AMT; CPicture p_S9_3; CUsage 2; COccurs [51] None] [] ind4 [32];
   mkce 48 53 [CName n_LINE_T; COccurs [50] None] [] ind4 [32];
   mkce 49 48 [CName n_QTY; CPicture p_S9_5; CUsage 2] [] ind8 [32];
   mkce 49 48 [CFiller; CPicture [88]] [] ind8 [32]].

Definition ex_full_text : list N := print_copybook ex_full [] [].

(* it is in every domain of this file *)
Example C07c_example_domain :
  copybook_ok ex_full [] [] = true /\ bridge_domain ex_full = true /\ text_layout_ok ex_full = true /\ text_values_ok ex_full = true.
Proof. vm_compute. repeat split; reflexivity. Qed.

(* its record description, read off the forest: widths 5 3 2 4 2 2 from the DISPLAY pictures, 2 and 3 bytes for the packed items *)
Definition nid (s : line) : id := name_id s.
Example C07c_example_record :
  records_of_entries ex_full =
  Some [Group (nid n_CUST_REC) Once None
         (ICons (Elem (nid n_CUST_NO) 5 Once None)
         (ICons (Group (nid n_NAME_G) Once None (ICons (Elem (nid n_FIRST) 3 Once None) (ICons (Elem (nid n_FILLER_1) 2 Once None) INil)))
         (ICons (Elem (nid n_PHONE) 4 Once None)
         (ICons (Group (nid n_PHONE_R) Once (Some (nid n_PHONE))
                   (ICons (Elem (nid n_AREA_C) 2 Once None) (ICons (Elem (nid n_REST_P) 2 Once None) INil)))
         (ICons (Elem (nid n_AMT) 2 (Times 3) None)
         (ICons (Group (nid n_LINE_T) (Times 2) None (ICons (Elem (nid n_QTY) 3 Once None) (ICons (Elem (nid n_FILLER_2) 1 Once None) INil)))
          INil))))))].
Proof. vm_compute. reflexivity. Qed.

(* A on it: the one document computed from the text, read by layout_of_doc, is build of that description - with the union
   REDEFINES-PHONE -> oneOf [PHONE, PHONE-R] where PHONE stands and the two reference placeholders *)
Example C07c_example_bridge :
  exists t doc, forest_of_entries ex_full = Some [t] /\ bridge_ok t = true
    /\ schemas_of_text ex_full_text = Done (Ok [doc])
    /\ layout_of_doc doc = Some (build (item_of t))
    /\ exists u a b rest, build (item_of t) = Layout.JObj (Some (KName (nid n_CUST_REC)))
         (PCons (KName (nid n_CUST_NO)) u (PCons (KName (nid n_NAME_G)) a
           (PCons (KRedef (nid n_PHONE)) (JOne (Some (KRedef (nid n_PHONE))) (ACons (JAtom (Some (KName (nid n_PHONE))) 4) (ACons b ANil)))
             (PCons (KName (nid n_PHONE)) (JRef (KName (nid n_PHONE))) (PCons (KName (nid n_PHONE_R)) (JRef (KName (nid n_PHONE_R))) rest))))).
Proof.
  eexists. eexists. split; [vm_compute; reflexivity|]. split; [vm_compute; reflexivity|]. split; [vm_compute; reflexivity|].
  split; [vm_compute; reflexivity|]. do 4 eexists. vm_compute. reflexivity.
Qed.

(* B on it: where the schema computed from the text puts the items (the real LocationMaker agrees: 0-28, 0-5, 8-10, 12-14,
   18-20, 24-27, 27-28); an index beyond the table is refused *)
Definition ex_loc (p : list nstep) : option (res (nat * nat)) := located ex_full_text 0 (fun _ : list unit => O) [] (steps_of p).
Example C07c_example_located :
  ex_loc [] = Some (Ok (0, 28)%nat)
  /\ ex_loc [NName n_CUST_NO] = Some (Ok (0, 5)%nat)
  /\ ex_loc [NName n_NAME_G; NName n_FILLER_1] = Some (Ok (8, 10)%nat)
  /\ ex_loc [NName n_PHONE] = Some (Ok (10, 14)%nat)
  /\ ex_loc [NName n_PHONE_R; NName n_REST_P] = Some (Ok (12, 14)%nat)
  /\ ex_loc [NName n_AMT; NIndex 2; NName n_AMT] = Some (Ok (18, 20)%nat)
  /\ ex_loc [NName n_LINE_T; NIndex 1; NName n_QTY] = Some (Ok (24, 27)%nat)
  /\ ex_loc [NName n_LINE_T; NIndex 1; NName n_FILLER_2] = Some (Ok (27, 28)%nat)
  /\ ex_loc [NName n_LINE_T; NIndex 2] = Some (Err IndexError).
Proof. vm_compute. repeat split; reflexivity. Qed.

(* ... and that is what the COBOL rules say (the hypothesis of C07c_text_to_layout's inner implication is satisfiable) *)
Example C07c_example_spec :
  exists t, forest_of_entries ex_full = Some [t]
    /\ extent no_counters (item_of t) = 28%nat
    /\ spec_nav no_counters (VItem (item_of t)) 0 (steps_of [NName n_PHONE_R; NName n_REST_P])
       = inl (VItem (Elem (nid n_REST_P) 2 Once None), 12%nat)
    /\ spec_nav no_counters (VItem (item_of t)) 0 (steps_of [NName n_LINE_T; NIndex 1; NName n_QTY])
       = inl (VItem (Elem (nid n_QTY) 3 Once None), 24%nat).
Proof. eexists. split; [vm_compute; reflexivity|]. vm_compute. repeat split; reflexivity. Qed.

(* values on it: the kinds estruct reads in the cobol texts; a record built by the specification's encoders for
   CUST-NO = 123, FIRST = Abc, FILLER = two blanks, PHONE = 1234, AMT = (-12, 345, 7), LINE-T = ((-12345, x), (42, y));
   every elementary occurrence that owns storage reads back what was assigned, the redefining group reads PHONE's bytes *)
Definition ex_tree : xtree :=
  match forest_of_entries ex_full with
  | Some (t :: _) => t
  | _ => XNode {| SR.Model.Structure.de := spec_entry (mkce 48 49 [] [] [] []); SR.Model.Structure.du := [] |} false
               (spec_info (mkce 48 49 [] [] [] [])) XNil
  end.

Example C07c_example_kinds :
  map snd (kind_table ex_tree)
  = [KZoned false 5 0; KText 3; KText 2; KText 4; KText 2; KText 2; KPacked 8 true 3 0; KPacked 8 true 5 0; KText 1].
Proof. vm_compute. reflexivity. Qed.

Definition ex_assign : list fval :=
  [FNum [1; 2; 3] 15; FTxt [65; 98; 99]; FTxt [64; 64]; FTxt [49; 50; 51; 52];
   FNum [1; 2] 13; FNum [3; 4; 5] 12; FNum [7] 12;
   FNum [1; 2; 3; 4; 5] 13; FTxt [120]; FNum [4; 2] 12; FTxt [121]].
Definition step_eqb (a b : step) : bool :=
  match a, b with PName x, PName y => N.eqb x y | PIndex x, PIndex y => Nat.eqb x y | _, _ => false end.
Fixpoint path_eqb (a b : list step) : bool :=
  match a, b with [], [] => true | x :: a', y :: b' => step_eqb x y && path_eqb a' b' | _, _ => false end.
Definition ex_vals : assignment := fun p =>
  match find (fun e => path_eqb (fst e) p) (combine (storage_paths no_counters (item_of ex_tree)) ex_assign) with
  | Some e => snd e
  | None => FInt 0
  end.
Definition ex_record : list N := spec_record (kinds_of ex_tree) ex_vals no_counters (item_of ex_tree).
Definition ex_value (p : list step) : vres (pv pyval) :=
  match layouts_of_text ex_full_text with
  | Some (s :: _) => value_at (kinds_of ex_tree) (fun _ => O) ex_record s p
  | _ => None
  end.

Example C07c_example_values :
  record_ok (kinds_of ex_tree) ex_vals no_counters (item_of ex_tree) = true
  /\ length (storage_paths no_counters (item_of ex_tree)) = 11%nat /\ length ex_record = 28%nat
  /\ map ex_value (storage_paths no_counters (item_of ex_tree))
     = [Some (Ok (PAtom (VDec (mkdec false 123 0)))); Some (Ok (PAtom (VStr [65; 98; 99]))); Some (Ok (PAtom (VStr [64; 64])));
        Some (Ok (PAtom (VStr [49; 50; 51; 52])));
        Some (Ok (PAtom (VDec (mkdec true 12 0)))); Some (Ok (PAtom (VDec (mkdec false 345 0)))); Some (Ok (PAtom (VDec (mkdec false 7 0))));
        Some (Ok (PAtom (VDec (mkdec true 12345 0)))); Some (Ok (PAtom (VStr [120])));
        Some (Ok (PAtom (VDec (mkdec false 42 0)))); Some (Ok (PAtom (VStr [121])))]
  /\ ex_value (steps_of [NName n_PHONE_R; NName n_REST_P]) = Some (Ok (PAtom (VStr [51; 52]))).
Proof. vm_compute. repeat split; reflexivity. Qed.

(* the example copybooks of Props/C07b.v are in the domain too: the record with a FILLER and a COMP-3 table in its two spellings,
   and the record with a REDEFINES in its two spellings *)
Example C07c_example_c07b :
  text_values_ok ex_es = true /\ text_values_ok ex_es' = true /\ text_values_ok ex_redef = true /\ text_values_ok ex_redef' = true
  /\ located (print_copybook ex_es [] ex_seqs) 0 (fun _ : list unit => O) [] (steps_of [NName [84]; NIndex 2; NName [84]]) = Some (Ok (12, 14)%nat)
  /\ located (print_copybook ex_redef [] []) 0 (fun _ : list unit => O) [] (steps_of [NName [66]]) = Some (Ok (0, 3)%nat)
  /\ located (print_copybook ex_redef [] []) 0 (fun _ : list unit => O) [] (steps_of [NName [67]]) = Some (Ok (3, 4)%nat).
Proof. vm_compute. repeat split; reflexivity. Qed.

(* OCCURS DEPENDING ON (C07c_text_to_layout_odo):   01 R .  05 N PIC 9 .  05 T OCCURS 1 TO 5 DEPENDING N PIC XX .  05 Z PIC X .
   is in the bridge domain (not in text_layout_ok: C01c's family has no DEPENDING ON); on the record  F2 C1 C2 C3 C4 E9  whose
   counter holds 2 the schema computed from the text puts T(1) at 3-5 and Z at 5-6 and refuses T(2); wfo and Holds are satisfiable
   (Holds asks the count vector to agree with the record at every non-repeated elementary item: N = 2, Z = 9) *)
Definition ex_odo : list centry :=
  [mkce 48 49 [CName [82]] [] [] [32];
   mkce 48 53 [CName [78]; CPicture [57]] [] ind4 [32];
   mkce 48 53 [CName [84]; COdo (Some [49]) [53] [78] None; CPicture p_XX] [] ind4 [32];
   mkce 48 53 [CName [90]; CPicture [88]] [] ind4 [32]].
Definition ex_dcount (bs : list N) : nat := N.to_nat (SR.Base.Dec.val (map (fun b => (b mod 16)%N) bs)).
Definition ex_odo_record : list N := [242; 193; 194; 195; 196; 233].
Definition ex_odo_env : env := fun c => if (c =? name_id [78])%N then 2%nat else if (c =? name_id [90])%N then 9%nat else O.
Definition ex_odo_item : item :=
  Group (name_id [82]) Once None
    (ICons (Elem (name_id [78]) 1 Once None) (ICons (Elem (name_id [84]) 2 (Odo (name_id [78])) None) (ICons (Elem (name_id [90]) 1 Once None) INil))).

Example C07c_example_odo :
  copybook_ok ex_odo [] [] = true /\ bridge_domain ex_odo = true /\ text_layout_ok ex_odo = false
  /\ records_of_entries ex_odo = Some [ex_odo_item]
  /\ SR.Proofs.LayoutOdoP.wfo ex_odo_env [] ex_odo_item = true
  /\ SR.Proofs.LayoutNamesP.nodupb (SR.Proofs.LayoutP.ids ex_odo_item) = true
  /\ located (print_copybook ex_odo [] []) 0 ex_dcount ex_odo_record (steps_of [NName [84]; NIndex 1; NName [84]]) = Some (Ok (3, 5)%nat)
  /\ located (print_copybook ex_odo [] []) 0 ex_dcount ex_odo_record (steps_of [NName [90]]) = Some (Ok (5, 6)%nat)
  /\ located (print_copybook ex_odo [] []) 0 ex_dcount ex_odo_record (steps_of [NName [84]; NIndex 2]) = Some (Err IndexError).
Proof. vm_compute. repeat split; reflexivity. Qed.

Example C07c_example_odo_holds : SR.Proofs.LayoutOdoP.Holds N ex_dcount ex_odo_record ex_odo_env ex_odo_item 0.
Proof.
  unfold ex_odo_item. cbn [SR.Proofs.LayoutOdoP.Holds SR.Proofs.LayoutOdoP.HoldsKids].
  repeat split; try exact I;
    (match goal with |- if ?b then _ else _ => let v := eval vm_compute in b in change b with v; cbv iota end);
    eexists; (split; [lazy; reflexivity|first [exact I|vm_compute; reflexivity]]).
Qed.

(* ------------------------------------------------------------------ the boundary of the domain: witnesses *)
(* REDEFINES below an OCCURS group (known finding C07-K2, C07b_refuted_k2: KeyError) and two siblings of one name
   (C07b_refuted_duplicate_sibling: the first entry is lost) are outside bridge_domain *)
Example C07c_outside_domain :
  copybook_ok ex_k2 [] [] = true /\ bridge_domain ex_k2 = false /\ layouts_of_text (print_copybook ex_k2 [] []) = None
  /\ copybook_ok ex_dup [] [] = true /\ bridge_domain ex_dup = false.
Proof. vm_compute. repeat split; reflexivity. Qed.
