(* C03, companion file - two call sequences the property covers and Props/C03.v does not:
   (a) the rows of the SAME Sheet object asked for a second time, and
   (b) an EBCDIC RECFM F file read with an explicit lrecl= larger than the layout.

   (a) SECOND PASSES.  "the same table ... yields, through the same sequence of calls, the same sheets, the same number of
   rows in the same order and the same text under every column name."  A sequence of calls may contain sheet.rows() more than
   once on one Sheet: a complete pass list(sheet.rows()), or a pass abandoned after k rows (islice).  The stored table does
   not change, so every pass must show the table's rows from the first on, whatever the format
   (Spec/TransparencyPasses.v [take_rows], [demanded]; Model/WorkbookPasses.v [expected_passes]).
     Model/WorkbookPasses.v   [facade_passes f content probes pat] / [open_passes], [read_fixed_passes], [read_ebcdic_passes]:
                              the passes [pat] (None = complete, Some k = the first k rows, then abandoned) on the Sheet that
                              sheet_iter yielded, the schema bound once; per sheet the list of what each pass read, by name.
   What the code does: XLS / XLSX / ODS / Numbers unpackers look the sheet up in the parsed document on every instance_iter
   call - every pass sees the whole sheet (C03e_second_pass_in_memory, under the same parser premise as C03_facade).  CSV,
   tab-delimited text, NDJSON, fixed-width text and EBCDIC unpackers build a new reader over the SAME OPEN FILE, which stands
   where the pass before left it: a later pass delivers rows of what is left unread (C03e_second_pass_file_backed) - nothing
   after a complete pass; after an abandoned pass the remaining rows, the first of them consumed as a NEW heading row by the
   heading-row loader, so that even the column names change; for RECFM_N nothing at all, because the reader of the abandoned
   pass took the file into its own buffer.  The statement that every format shows the table on a second pass is therefore
   REFUTED by the faithful model (C03e_second_pass_refuted; known finding K-second-pass-differs, code 2 of Judge/JC03.v).

   (b) PADDED RECORDS.  COBOL_EBCDIC_File(path, recfm_class=RECFM_F, lrecl=n) with n beyond the end of the layout: the explicit
   lrecl decides the framing (COBOL_EBCDIC_Sheet.set_schema: if wb.lrecl: self.lrecl = wb.lrecl; Model/Workbook.v
   [sheet_lrecl]), the layout decides what is read from each record.  Spec/TransparencyPasses.v [write_ebcdic_padded T widths
   fill]: every record followed by its filler, ANY bytes.  C03e_fixed_ebcdic_padded: the padded table comes back, with no
   premise about anything outside the model.

   Only the property theorems are here, each closed by an exact lemma of Proofs/WorkbookPassesP.v. *)
From Coq Require Import NArith List Lia.
Import ListNotations.
Require Import SR.Base.Res SR.Spec.Transparency SR.Spec.TransparencyPasses SR.Gen.RecfmParams.
Require Import SR.Model.HeaderRow SR.Model.Workbook SR.Model.WorkbookPasses.
Require Import SR.Proofs.WorkbookP SR.Proofs.WorkbookPassesP.

(* ---------------------------------------------------------------- (a) in-memory formats *)
(* XLSX, ODS, XLS (in_memory_book) and Numbers: for EVERY workbook with distinct sheet names whose tables are rectangular with
   distinct column names, and EVERY list of passes - complete ones and ones abandoned after any number of rows, in any order -
   every pass delivers the table's rows from the first on (all of them, or the first k), under every column name; UNDER the
   premise of C03_facade / C03_facade_numbers that the third-party parser returns what its writer was given.
   expected_passes W pat = map (fun s => (fst s, map (fun k => take_obs k (expected_rows (snd s))) pat)) W *)
Theorem C03e_second_pass_in_memory :
  forall (image : Type) (ext_write : fmt -> workbook -> image) (ext_parse : fmt -> image -> content),
  (forall f W, third_party f = true -> storable f W = true -> ext_parse f (ext_write f W) = phys f W) ->
  (forall f W pat, in_memory_book f = true -> wf_workbook W ->
     open_passes ext_parse f (ext_write f W) (headers W) pat = Ok (expected_passes W pat))
  /\ (forall (num_write : numbers_doc -> image),
        (forall d, ext_parse F_NUMBERS (num_write d) = phys_numbers d) ->
        forall d pat, wf_numbers d ->
          open_passes ext_parse F_NUMBERS (num_write d) (headers (flatten_numbers d)) pat
          = Ok (expected_passes (flatten_numbers d) pat)).
Proof. exact passes_in_memory. Qed.
Print Assumptions C03e_second_pass_in_memory.

(* [expected_passes] is the spec's demand: for every pass the first rows of the table ([demanded]), by name *)
Theorem C03e_expected_passes : forall (T : table) (pat : passes),
  map (fun k => take_obs k (expected_rows T)) pat
  = map (fun rows => expected_rows (mk_table (t_header T) rows)) (demanded pat (t_rows T)).
Proof. exact expected_passes_demanded. Qed.
Print Assumptions C03e_expected_passes.

(* ---------------------------------------------------------------- (a) the full statement, and its refutation *)
(* every format delivers on a second complete pass what it delivered on the first *)
Definition C03e_second_pass_full : Prop :=
  forall (f : fmt) (W : workbook), third_party f = true -> storable f W = true -> wf_workbook W ->
    facade_passes f (phys f W) (headers W) [None; None] = expected_passes W [None; None].

(* REFUTED (known finding K-second-pass-differs): one column a, one row x.  CSV, TAB, NDJSON, fixed text, EBCDIC RECFM F and N
   deliver the row on the first complete pass and NOTHING on the second.  With three rows x, y, z, one row taken and the pass
   abandoned: CSV takes y for a new heading row and the name asked for is no longer a column (KeyError); NDJSON and RECFM_F go
   on with y and z; RECFM_N has nothing left; XLSX delivers the whole table again. *)
Theorem C03e_second_pass_refuted :
  ~ C03e_second_pass_full
  /\ third_party F_CSV = true /\ storable F_CSV [([], one_row)] = true /\ wf_workbook [([], one_row)]
  /\ expected_passes [([], one_row)] [None; None]
     = [([], [Ok [[Ok (Some (Txt [120]%N))]]; Ok [[Ok (Some (Txt [120]%N))]]])]
  /\ facade_passes F_CSV (phys F_CSV [([], one_row)]) [[[97]%N]] [None; None]
     = [([], [Ok [[Ok (Some (Txt [120]%N))]]; Ok []])]
  /\ facade_passes F_TAB (phys F_TAB [([], one_row)]) [[[97]%N]] [None; None]
     = [([], [Ok [[Ok (Some (Txt [120]%N))]]; Ok []])]
  /\ facade_passes F_NDJSON (phys F_NDJSON [([], one_row)]) [[[97]%N]] [None; None]
     = [([], [Ok [[Ok (Some (Txt [120]%N))]]; Ok []])]
  /\ read_fixed_passes (write_fixed_text one_row [1]) (layout_of [[97]%N] [1]) [[97]%N] [None; None]
     = [([], [Ok [[Ok (Some (Txt [120]%N))]]; Ok []])]
  /\ read_ebcdic_passes RECFM_F 0 None (write_ebcdic one_row [1]) (layout_of [[97]%N] [1]) [[97]%N] [None; None]
     = [([], [Ok [[Ok (Some (Txt [120]%N))]]; Ok []])]
  /\ read_ebcdic_passes RECFM_N 0 None (write_ebcdic one_row [1]) (layout_of [[97]%N] [1]) [[97]%N] [None; None]
     = [([], [Ok [[Ok (Some (Txt [120]%N))]]; Ok []])]
  /\ facade_passes F_CSV (phys F_CSV [([], three_rows)]) [[[97]%N]] [Some 1; None]
     = [([], [Ok [[Ok (Some (Txt [120]%N))]]; Ok [[Err KeyError]]])]
  /\ facade_passes F_NDJSON (phys F_NDJSON [([], three_rows)]) [[[97]%N]] [Some 1; None]
     = [([], [Ok [[Ok (Some (Txt [120]%N))]]; Ok [[Ok (Some (Txt [121]%N))]; [Ok (Some (Txt [122]%N))]]])]
  /\ read_ebcdic_passes RECFM_F 0 None (write_ebcdic three_rows [1]) (layout_of [[97]%N] [1]) [[97]%N] [Some 1; None]
     = [([], [Ok [[Ok (Some (Txt [120]%N))]]; Ok [[Ok (Some (Txt [121]%N))]; [Ok (Some (Txt [122]%N))]]])]
  /\ read_ebcdic_passes RECFM_N 0 None (write_ebcdic three_rows [1]) (layout_of [[97]%N] [1]) [[97]%N] [Some 1; None]
     = [([], [Ok [[Ok (Some (Txt [120]%N))]]; Ok []])]
  /\ facade_passes F_XLSX (phys F_XLSX [([], three_rows)]) [[[97]%N]] [Some 1; None]
     = expected_passes [([], three_rows)] [Some 1; None].
Proof. exact second_pass_refuted. Qed.
Print Assumptions C03e_second_pass_refuted.

(* ---------------------------------------------------------------- (a) file-backed formats: exactly what they deliver *)
(* No premise about a parser: the statements are about what the unpackers do with the content they were handed / the file image.
   continuation left pat rows   every pass delivers take_rows k of what the passes before left (Spec/TransparencyPasses.v)
   left_rows k rows             = [] after a complete pass, skipn k rows after k rows were taken
   left_swallowed k rows        = [] after any pass that started (k <> 0)
   left_header k rem            = [] after a complete pass, skipn (S k) rem after k rows were taken (the heading row is gone too)
   expected_pieces hs pieces    = map (fun rows => expected_rows (mk_table hs rows)) pieces
   1. CSV, TAB - ANY physical rows, ANY names asked for: pass i is a FIRST pass (Model/Workbook.v read_sheet_header, the run
      C03_facade speaks about) over the physical rows left by the passes before it - so its first row is the heading row.
   2. NDJSON, 3. fixed-width text, 4. EBCDIC: every table in the domain of C03_facade / C03_fixed_text / C03_fixed_ebcdic; the
      passes deliver, by name and unchanged, the rows of the continuation - for RECFM_F (lrecl not given or the record length)
      from the file position, for RECFM_N (file no longer than the reader's buffer) nothing once a pass has started. *)
Theorem C03e_second_pass_file_backed :
  (forall (f : fmt) (rows : sheet) (probes : list key) (pat : passes), text_rows_format f = true ->
     facade_passes f (C_single rows) [probes] pat
     = [([], map (fun kr => take_obs (fst kr) (read_sheet_header (C_single (snd kr)) [] probes))
                 (combine pat (remainders left_header pat rows)))])
  /\ (forall (T : table) (pat : passes), wf_table T ->
        facade_passes F_NDJSON (phys F_NDJSON [([], T)]) [t_header T] pat
        = [([], expected_pieces (t_header T) (continuation left_rows pat (t_rows T)))])
  /\ (forall (T : table) (widths : list nat) (pat : passes),
        NoDup (t_header T) -> fits widths T = true -> line_safe T = true ->
        read_fixed_passes (write_fixed_text T widths) (layout_of (t_header T) widths) (t_header T) pat
        = [([], expected_pieces (t_header T) (continuation left_rows pat (t_rows (pad_table widths T))))])
  /\ (forall (r : recfm) (kind : N) (wb_lrecl : option nat) (T : table) (widths : list nat) (pat : passes),
        NoDup (t_header T) -> fits widths T = true -> repertoire_ok T = true -> t_header T <> [] ->
        (r = RECFM_N -> length (t_rows T) * list_sum widths <= N.to_nat buffer_size) ->
        (r = RECFM_F -> wb_lrecl = None \/ wb_lrecl = Some (list_sum widths)) ->
        read_ebcdic_passes r kind wb_lrecl (write_ebcdic T widths) (layout_of (t_header T) widths) (t_header T) pat
        = [([], expected_pieces (t_header T)
                  (continuation (match r with RECFM_F => left_rows | RECFM_N => left_swallowed end) pat
                                (t_rows (pad_table widths T))))]).
Proof.
  split; [exact passes_header_file|]. split; [exact facade_passes_ndjson|]. split; [exact fixed_passes_ok|].
  exact ebcdic_passes_ok.
Qed.
Print Assumptions C03e_second_pass_file_backed.

(* a continuing reader after a complete pass: every later pass is empty, where the property demands the rows again *)
Theorem C03e_after_complete_pass : forall (X : Type) (rows : list X) (pat : passes),
  continuation left_rows (None :: pat) rows = rows :: map (fun _ => []) pat
  /\ continuation left_swallowed (None :: pat) rows = rows :: map (fun _ => []) pat
  /\ demanded (None :: pat) rows = rows :: map (fun k => take_rows k rows) pat.
Proof. intros X. exact (@after_complete_pass X). Qed.
Print Assumptions C03e_after_complete_pass.

(* ---------------------------------------------------------------- (b) explicit lrecl larger than the layout *)
(* For every table with distinct column names, one width >= 1 per column, cells no longer than their columns and in the CP037
   repertoire, every pad >= 0 and EVERY choice of filler bytes (one filler of pad bytes per row, arbitrary N values): reading the
   padded image with RECFM F and lrecl = sum widths + pad gives back the padded table - the statement shape of C03_fixed_ebcdic.
   fill_ok pad T fill = (length fill =? length (t_rows T)) && forallb (fun f => length f =? pad) fill *)
Theorem C03e_fixed_ebcdic_padded :
  forall (kind : N) (T : table) (widths : list nat) (pad : nat) (fill : list (list N)),
  NoDup (t_header T) -> fits widths T = true -> repertoire_ok T = true -> t_header T <> [] ->
  fill_ok pad T fill = true ->
  read_ebcdic RECFM_F kind (Some (list_sum widths + pad)) (write_ebcdic_padded T widths fill)
              (layout_of (t_header T) widths) (t_header T)
  = expected [([], pad_table widths T)].
Proof. exact padded_ok. Qed.
Print Assumptions C03e_fixed_ebcdic_padded.

(* hence the file with the reserved area reads like the file without it, whatever reader reads the latter *)
Theorem C03e_padded_agrees :
  forall (kind kind' : N) (r : recfm) (wb_lrecl : option nat) (T : table) (widths : list nat) (pad : nat) (fill : list (list N)),
  NoDup (t_header T) -> fits widths T = true -> repertoire_ok T = true -> t_header T <> [] ->
  fill_ok pad T fill = true ->
  (r = RECFM_N -> list_sum widths <= N.to_nat buffer_size) ->
  wb_lrecl = None \/ wb_lrecl = Some (list_sum widths) ->
  read_ebcdic RECFM_F kind (Some (list_sum widths + pad)) (write_ebcdic_padded T widths fill)
              (layout_of (t_header T) widths) (t_header T)
  = read_ebcdic r kind' wb_lrecl (write_ebcdic T widths) (layout_of (t_header T) widths) (t_header T).
Proof. exact padded_agrees. Qed.
Print Assumptions C03e_padded_agrees.

(* the judge recognises a padded image by the fillers it finds in it: they are the writer's *)
Theorem C03e_fillers_found : forall (T : table) (widths : list nat) (pad : nat) (fill : list (list N)),
  fits widths T = true -> t_header T <> [] -> fill_ok pad T fill = true ->
  fillers_of (list_sum widths + pad) (list_sum widths) (write_ebcdic_padded T widths fill) = fill.
Proof. exact fillers_found. Qed.
Print Assumptions C03e_fillers_found.

(* ---------------------------------------------------------------- non-vacuity *)
Definition exe_T : table :=
  mk_table [[65]; [66; 50]]%N [[[97; 98]; [233]]; [[48; 48; 49]; [32]]; [[122]; [122]]]%N.   (* A, B2 | ab, e-acute | 001, blank | z, z *)

Lemma exe_T_wf : wf_table exe_T.
Proof.
  split; [|reflexivity].
  cbn. constructor; [intros [H|[]]; discriminate H|]. constructor; [intros []|constructor].
Qed.

(* the premises are satisfiable; the passes full + take 1 + full over two sheets of an in-memory book *)
Example C03e_example_in_memory :
  wf_workbook [([83]%N, exe_T); ([84]%N, exe_T)] /\ in_memory_book F_XLSX = true /\ in_memory_book F_ODS = true
  /\ in_memory_book F_XLS = true
  /\ (exists (ext_write : fmt -> workbook -> fmt * workbook) (ext_parse : fmt -> fmt * workbook -> content),
        forall f W, third_party f = true -> storable f W = true -> ext_parse f (ext_write f W) = phys f W)
  /\ facade_passes F_ODS (phys F_ODS [([83]%N, exe_T); ([84]%N, exe_T)]) [t_header exe_T; t_header exe_T] [None; Some 1; None]
     = expected_passes [([83]%N, exe_T); ([84]%N, exe_T)] [None; Some 1; None]
  /\ map (fun s => map (fun o => match o with Ok rows => length rows | Err _ => 99 end) (snd s))
         (expected_passes [([83]%N, exe_T); ([84]%N, exe_T)] [None; Some 1; None]) = [[3; 1; 3]; [3; 1; 3]].
Proof.
  split.
  { split.
    - cbn [map fst]. constructor; [intros [H|[]]; discriminate H|]. constructor; [intros []|constructor].
    - constructor; [exact exe_T_wf|]. constructor; [exact exe_T_wf|constructor]. }
  split; [reflexivity|]. split; [reflexivity|]. split; [reflexivity|].
  split; [exists (fun f W => (f, W)), (fun _ p => phys (fst p) (snd p)); reflexivity|].
  split; vm_compute; reflexivity.
Qed.

(* file-backed: the continuation on the same table, and a CSV file whose third physical row repeats the heading row *)
Example C03e_example_file_backed :
  continuation left_rows [Some 1; None; None] [1; 2; 3] = [[1]; [2; 3]; []]
  /\ continuation left_swallowed [Some 1; None; None] [1; 2; 3] = [[1]; []; []]
  /\ demanded [Some 1; None; None] [1; 2; 3] = [[1]; [1; 2; 3]; [1; 2; 3]]
  /\ remainders left_header [Some 1; None] [0; 1; 2; 3] = [[0; 1; 2; 3]; [2; 3]]
  /\ fits [3; 2] exe_T = true /\ line_safe exe_T = true /\ repertoire_ok exe_T = true /\ t_header exe_T <> []
  /\ length (t_rows exe_T) * list_sum [3; 2] <= N.to_nat buffer_size
  /\ read_ebcdic_passes RECFM_F 0 None (write_ebcdic exe_T [3; 2]) (layout_of (t_header exe_T) [3; 2]) (t_header exe_T) [Some 1; None]
     = [([], [Ok [[Ok (Some (Txt [97; 98; 32]%N)); Ok (Some (Txt [233; 32]%N))]];
              Ok [[Ok (Some (Txt [48; 48; 49]%N)); Ok (Some (Txt [32; 32]%N))];
                  [Ok (Some (Txt [122; 32; 32]%N)); Ok (Some (Txt [122; 32]%N))]]])]
  /\ facade_passes F_CSV (C_single [[Txt [97]%N]; [Txt [120]%N]; [Txt [97]%N]; [Txt [122]%N]]) [[[97]%N]] [Some 1; None]
     = [([], [Ok [[Ok (Some (Txt [120]%N))]]; Ok [[Ok (Some (Txt [122]%N))]]])].
Proof.
  repeat split; try (vm_compute; reflexivity); try discriminate.
  change (length (t_rows exe_T) * list_sum [3; 2]) with 15. unfold buffer_size. lia.
Qed.

(* padded records: pad 3, fillers of arbitrary bytes (0, 255, a blank, the EBCDIC letters) *)
Example C03e_example_padded :
  NoDup (t_header exe_T) /\ fits [3; 2] exe_T = true /\ repertoire_ok exe_T = true /\ t_header exe_T <> []
  /\ fill_ok 3 exe_T [[0; 255; 64]; [193; 194; 195]; [7; 7; 7]]%N = true
  /\ fill_ok 0 exe_T [[]; []; []] = true
  /\ write_ebcdic_padded exe_T [3; 2] [[0; 255; 64]; [193; 194; 195]; [7; 7; 7]]%N
     = [129; 130; 64; 81; 64; 0; 255; 64;  240; 240; 241; 64; 64; 193; 194; 195;  169; 64; 64; 169; 64; 7; 7; 7]%N
  /\ read_ebcdic RECFM_F 0 (Some 8) (write_ebcdic_padded exe_T [3; 2] [[0; 255; 64]; [193; 194; 195]; [7; 7; 7]]%N)
                 (layout_of (t_header exe_T) [3; 2]) (t_header exe_T)
     = [([], Ok [[Ok (Some (Txt [97; 98; 32]%N)); Ok (Some (Txt [233; 32]%N))];
                 [Ok (Some (Txt [48; 48; 49]%N)); Ok (Some (Txt [32; 32]%N))];
                 [Ok (Some (Txt [122; 32; 32]%N)); Ok (Some (Txt [122; 32]%N))]])]
  (* a reader that framed by the layout instead of the explicit lrecl would read the fillers as data *)
  /\ read_ebcdic RECFM_F 0 None (write_ebcdic_padded exe_T [3; 2] [[0; 255; 64]; [193; 194; 195]; [7; 7; 7]]%N)
                 (layout_of (t_header exe_T) [3; 2]) (t_header exe_T)
     <> expected [([], pad_table [3; 2] exe_T)].
Proof.
  split. { cbn. constructor; [intros [H|[]]; discriminate H|]. constructor; [intros []|constructor]. }
  repeat split; try (vm_compute; reflexivity); try discriminate.
Qed.
