(* C18 - Whatever bytes a numeric field holds, the result fits its PICTURE or is an error.
   Only property theorems here.  [unpack] = model of estruct.unpack (Model/Estruct.v);
   [fits m n d] = exactly scale n and fewer than 10^(m+n) in magnitude (Spec/Fits.v).
   The statement holds for EVERY buffer of the field's width (no validity assumed) outside two
   families that remain known findings: the pad nibble of an even-digit packed item and the
   sign-position byte of a signed DISPLAY item (the width counts the S).
   [C18_full_statement] enumerates packed and DISPLAY items.  BINARY items (COMP, COMP-4, BINARY, COMPUTATIONAL,
   COMPUTATIONAL-4) are the companion file Props/C18c.v: [C18c_binary_full], refuted (7F FF in 9(4) COMP is 32767; the
   implied scale is never applied), the exact positive theorems, and [C18c_full_statement] for all three families. *)
From Coq Require Import ZArith NArith List Bool.
Import ListNotations.
Require Import SR.Base.Res SR.Base.Dec SR.Spec.Encode SR.Spec.Fits SR.Model.Estruct SR.Proofs.EstructP.
Open Scope N_scope.

Definition C18_full_statement : Prop :=
  forall (u : N) (p : pic) (buffer : list N),
    (In u packed_spellings /\ length buffer = spec_packed_width (p_int p + p_frac p) \/
     u = display_spelling /\ length buffer = spec_display_width (p_signed p) (p_int p + p_frac p)) ->
    (1 <= p_int p + p_frac p <= 27)%nat ->
    (exists e, unpack u p buffer = Err e) \/
    (exists d, unpack u p buffer = Ok (VDec d) /\ fits (p_int p) (p_frac p) d = true).

Theorem C18_packed : forall (u : N) (p : pic) (buffer : list N),
  In u packed_spellings -> (1 <= p_int p + p_frac p <= 28)%nat ->
  length buffer = spec_packed_width (p_int p + p_frac p) ->
  pad_nibble_set p buffer = false ->
  (exists e, unpack u p buffer = Err e) \/
  (exists d, unpack u p buffer = Ok (VDec d) /\ fits (p_int p) (p_frac p) d = true).
Proof. exact C18_packed_lemma. Qed.
Print Assumptions C18_packed.

Theorem C18_zoned : forall (p : pic) (buffer : list N),
  (1 <= p_int p + p_frac p <= 27)%nat ->
  length buffer = spec_display_width (p_signed p) (p_int p + p_frac p) ->
  sign_position_set p buffer = false ->
  (exists e, unpack display_spelling p buffer = Err e) \/
  (exists d, unpack display_spelling p buffer = Ok (VDec d) /\ fits (p_int p) (p_frac p) d = true).
Proof. exact C18_zoned_lemma. Qed.
Print Assumptions C18_zoned.

(* The full statement is false of the faithful model: the two residual families. *)
Theorem C18_refuted_pad_nibble : ~ C18_full_statement.
Proof. exact C18_pad_nibble_witness. Qed.

Theorem C18_refuted_sign_position :
  exists p buffer, length buffer = spec_display_width (p_signed p) (p_int p + p_frac p) /\
    exists d, unpack display_spelling p buffer = Ok (VDec d) /\ fits (p_int p) (p_frac p) d = false.
Proof. exact C18_sign_position_witness. Qed.

(* Non-vacuity: corrupt nibbles are an error, valid ones fit. 1A 3C in S9(3) COMP-3; F1 FA in 99. *)
Example C18_examples :
  unpack 8 (mkpic true 3 0) [26; 60] = Err ValueError
  /\ unpack 11 (mkpic false 2 0) [241; 250] = Err ValueError
  /\ pad_nibble_set (mkpic true 3 0) [26; 60] = false
  /\ unpack 8 (mkpic true 3 0) [18; 60] = Ok (VDec (mkdec false 123 0)).
Proof. vm_compute. repeat split; reflexivity. Qed.
