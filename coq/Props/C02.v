(* C02 - Mainframe encodings decode to exactly the value that was stored.
   Only property theorems here, each closed by an exact lemma.
   [unpack usage pic buffer] is the model of estruct.unpack for numeric pictures S?9(m)V9(n)
   (Model/Estruct.v, constants regenerated from the source into Gen/EstructParams.v);
   [enc_packed], [enc_zoned], [enc_be] are the mainframe encodings (Spec/Encode.v);
   usage spellings are numbered as in Spec/Encode.v. *)
From Coq Require Import ZArith NArith List Bool.
Import ListNotations.
Require Import SR.Base.Res SR.Base.Dec SR.Gen.Cp037 SR.Spec.Encode SR.Model.Estruct SR.Proofs.EstructP.
Open Scope N_scope.

(* Packed decimal: every spelling, every picture, every digit string of up to 28 digits, every
   valid sign nibble (C F A E positive, D B negative): the exact decimal with the picture's scale. *)
Theorem C02_packed_roundtrip : forall (u : N) (p : pic) (ds : list N) (s : N),
  In u packed_spellings -> forallb is_digit ds = true -> valid_sign s = true -> (length ds <= 28)%nat ->
  unpack u p (enc_packed ds s) = Ok (VDec (mkdec (is_neg_sign s) (val ds) (- Z.of_nat (p_frac p)))).
Proof. exact C02_packed. Qed.
Print Assumptions C02_packed_roundtrip.

(* Zoned decimal, sign in the zone of the last digit. *)
Theorem C02_zoned_roundtrip : forall (p : pic) (ds : list N) (z : N),
  ds <> [] -> forallb is_digit ds = true -> valid_sign z = true -> (length ds <= 28)%nat ->
  unpack display_spelling p (enc_zoned ds z) = Ok (VDec (mkdec (is_neg_sign z) (val ds) (- Z.of_nat (p_frac p)))).
Proof. exact C02_zoned. Qed.
Print Assumptions C02_zoned_roundtrip.

(* Binary: 2/4/8 bytes for 1-4/5-9/10-18 digits (integer + fraction), big-endian two's
   complement, every value of the width, an int. *)
Theorem C02_binary_roundtrip : forall (u : N) (p : pic) (w : nat) (v : Z),
  In u binary_spellings -> spec_binary_width (p_int p + p_frac p) = Some w ->
  (- 2 ^ (8 * Z.of_nat w - 1) <= v < 2 ^ (8 * Z.of_nat w - 1))%Z ->
  unpack u p (enc_be w v) = Ok (VInt v).
Proof. exact C02_binary. Qed.
Print Assumptions C02_binary_roundtrip.

(* Text: every byte string of the item's length decodes to its code page 037 characters ... *)
Theorem C02_text : forall (k : nat) (buffer : list N),
  length buffer = k -> unpack_x display_spelling k buffer = Ok (VStr (map cp037 buffer)).
Proof. exact C02_text. Qed.
Print Assumptions C02_text.

(* ... and distinct byte strings decode to distinct text (the 256-entry table has no duplicate). *)
Theorem C02_text_injective : forall x y : list N,
  forallb (fun b => b <? 256) x = true -> forallb (fun b => b <? 256) y = true ->
  map cp037 x = map cp037 y -> x = y.
Proof. exact cp037_list_injective. Qed.
Print Assumptions C02_text_injective.

(* Known finding K-packed-prec: beyond 28 significant digits the decoder rounds. *)
Theorem C02_packed_29_refuted :
  exists (p : pic) (ds : list N) (s : N),
    forallb is_digit ds = true /\ valid_sign s = true /\ length ds = 29%nat /\
    unpack 8 p (enc_packed ds s) <> Ok (VDec (mkdec (is_neg_sign s) (val ds) (- Z.of_nat (p_frac p)))).
Proof.
  exists (mkpic false 0 29), (repeat 9 29), 10.
  repeat split. vm_compute. discriminate.
Qed.

(* Non-vacuity: -123.45 in S9(3)V99 COMP-3 is 12 34 5D; +12 in zoned S99 with zone C is F1 C2;
   -2 as a halfword is FF FE. *)
Example C02_examples :
  unpack 8 (mkpic true 3 2) [18; 52; 93] = Ok (VDec (mkdec true 12345 (-2)))
  /\ enc_packed [1; 2; 3; 4; 5] 13 = [18; 52; 93]
  /\ unpack 11 (mkpic true 2 0) (enc_zoned [1; 2] 12) = Ok (VDec (mkdec false 12 0))
  /\ enc_zoned [1; 2] 12 = [241; 194]
  /\ unpack 10 (mkpic true 4 0) (enc_be 2 (-2)) = Ok (VInt (-2)) /\ enc_be 2 (-2) = [255; 254].
Proof. vm_compute. repeat split; reflexivity. Qed.
