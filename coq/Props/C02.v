(* C02 - Mainframe encodings decode to exactly the value that was stored.
   Only property theorems here, each closed by an exact lemma.
   [unpack usage pic buffer] is the model of estruct.unpack for numeric pictures S?9(m)V9(n)
   (Model/Estruct.v, constants regenerated from the source into Gen/EstructParams.v);
   [enc_packed], [enc_zoned], [enc_be] are the mainframe encodings (Spec/Encode.v);
   usage spellings are numbered as in Spec/Encode.v. *)
From Coq Require Import ZArith NArith List Bool.
Import ListNotations.
Require Import SR.Base.Res SR.Base.Dec SR.Gen.Cp037 SR.Spec.Encode SR.Model.Estruct SR.Proofs.EstructP.
Open Scope N_scope.

(* Packed decimal: every spelling, every picture, every digit string of up to 28 digits, every
   valid sign nibble (C F A E positive, D B negative): the exact decimal with the picture's scale. *)
Theorem C02_packed_roundtrip : forall (u : N) (p : pic) (ds : list N) (s : N),
  In u packed_spellings -> forallb is_digit ds = true -> valid_sign s = true -> (length ds <= 28)%nat ->
  unpack u p (enc_packed ds s) = Ok (VDec (mkdec (is_neg_sign s) (val ds) (- Z.of_nat (p_frac p)))).
Proof. exact C02_packed. Qed.
Print Assumptions C02_packed_roundtrip.

(* Zoned decimal, sign in the zone of the last digit. *)
Theorem C02_zoned_roundtrip : forall (p : pic) (ds : list N) (z : N),
  ds <> [] -> forallb is_digit ds = true -> valid_sign z = true -> (length ds <= 28)%nat ->
  unpack display_spelling p (enc_zoned ds z) = Ok (VDec (mkdec (is_neg_sign z) (val ds) (- Z.of_nat (p_frac p)))).
Proof. exact C02_zoned. Qed.
Print Assumptions C02_zoned_roundtrip.

(* Binary: 2/4/8 bytes for 1-4/5-9/10-18 digits (integer + fraction), big-endian two's
   complement, every value of the width, an int. *)
Theorem C02_binary_roundtrip : forall (u : N) (p : pic) (w : nat) (v : Z),
  In u binary_spellings -> spec_binary_width (p_int p + p_frac p) = Some w ->
  (- 2 ^ (8 * Z.of_nat w - 1) <= v < 2 ^ (8 * Z.of_nat w - 1))%Z ->
  unpack u p (enc_be w v) = Ok (VInt v).
Proof. exact C02_binary. Qed.
Print Assumptions C02_binary_roundtrip.

(* Text: every byte string of the item's length decodes to its code page 037 characters ... *)
Theorem C02_text : forall (k : nat) (buffer : list N),
  length buffer = k -> unpack_x display_spelling k buffer = Ok (VStr (map cp037 buffer)).
Proof. exact C02_text. Qed.
Print Assumptions C02_text.

(* ... and distinct byte strings decode to distinct text (the 256-entry table has no duplicate). *)
Theorem C02_text_injective : forall x y : list N,
  forallb (fun b => b <? 256) x = true -> forallb (fun b => b <? 256) y = true ->
  map cp037 x = map cp037 y -> x = y.
Proof. exact cp037_list_injective. Qed.
Print Assumptions C02_text_injective.

(* Known finding K-packed-prec: beyond 28 significant digits the decoder rounds. *)
Theorem C02_packed_29_refuted :
  exists (p : pic) (ds : list N) (s : N),
    forallb is_digit ds = true /\ valid_sign s = true /\ length ds = 29%nat /\
    unpack 8 p (enc_packed ds s) <> Ok (VDec (mkdec (is_neg_sign s) (val ds) (- Z.of_nat (p_frac p)))).
Proof.
  exists (mkpic false 0 29), (repeat 9 29), 10.
  repeat split. vm_compute. discriminate.
Qed.

(* Non-vacuity: -123.45 in S9(3)V99 COMP-3 is 12 34 5D; +12 in zoned S99 with zone C is F1 C2;
   -2 as a halfword is FF FE. *)
Example C02_examples :
  unpack 8 (mkpic true 3 2) [18; 52; 93] = Ok (VDec (mkdec true 12345 (-2)))
  /\ enc_packed [1; 2; 3; 4; 5] 13 = [18; 52; 93]
  /\ unpack 11 (mkpic true 2 0) (enc_zoned [1; 2] 12) = Ok (VDec (mkdec false 12 0))
  /\ enc_zoned [1; 2] 12 = [241; 194]
  /\ unpack 10 (mkpic true 4 0) (enc_be 2 (-2)) = Ok (VInt (-2)) /\ enc_be 2 (-2) = [255; 254].
Proof. vm_compute. repeat split; reflexivity. Qed.

(* ======================================================================================
   ADDITIONS: the text branch for EVERY picture, the text unpacker.  (Nothing above is changed.)
   [dec_parse s] is the decoder-side scanner and Representation.parse on the PICTURE string s
   (Model/Picture.v, C13); [unpack_any usage s buffer] is estruct.unpack on a clause with that
   usage and that picture: for DISPLAY, zoned decimal when zoned_decimal says so, else the text
   branch for whatever elements the scanner produced (Model/Estruct.v, second half);
   [text_pattern] lists the lexemes of Representation.pattern, one per character position;
   [fits_classes ts text] says: as many characters as positions, and each character is in the
   class of its position, where the class of each picture symbol is ([sym_class], [atom_ok]):
       A           \w : letters, digits and the underscore (Unicode; spelled out below 256)
       X           any character
       9  Z  0     \d : a decimal digit (so a Z position holding the blank COBOL stores for a
                   suppressed zero does NOT fit, and a 0 position admits any digit)
       B           \s : white space
       $ , / * .   that character itself          V  no position
       - DB CR     those characters themselves
       S           a blank, a plus or a minus sign, and the position may be missing altogether
       +           (no class in the implementation: a quantifier; see C02_text_plus_refuted)
   ====================================================================================== *)
Require Import SR.Model.Picture SR.Proofs.EstructTextP.

(* Every picture string the scanner accepts as DISPLAY text (not zoned decimal) has one lexeme per
   position; if it holds no + then for every buffer of that many bytes: characters that fit decode to
   exactly their code page 037 text; without an S, characters that do not fit are refused with
   ValueError; and in every case the result is that text or ValueError - never another string. *)
Theorem C02_text_any_picture : forall (s : list N) (r : parsed),
  dec_parse s = Some (Ok r) -> p_zoned r = false ->
  exists ts : list rtok,
    text_pattern (p_elems r) = Ok ts /\ length ts = p_size r /\
    (has_plus ts = false -> forall buffer : list N, length buffer = p_size r ->
       let result := unpack_any display_spelling s buffer in
       let decoded := VStr (map cp037 buffer) in
       (fits_classes ts (map cp037 buffer) = true -> result = Some (Ok decoded))
       /\ (has_optsign ts = false -> fits_classes ts (map cp037 buffer) = false -> result = Some (Err ValueError))
       /\ (result = Some (Ok decoded) \/ result = Some (Err ValueError))).
Proof. exact C02_text_any_picture_lemma. Qed.
Print Assumptions C02_text_any_picture.

(* Whatever the picture (a + included) and whatever the length of the buffer: the CP037 text of the
   buffer, ValueError, or re.error (wire code 7) - a different string is never returned. *)
Theorem C02_text_never_another_string : forall (s : list N) (r : parsed) (buffer : list N),
  dec_parse s = Some (Ok r) -> p_zoned r = false ->
  let result := unpack_any display_spelling s buffer in
  result = Some (Ok (VStr (map cp037 buffer))) \/ result = Some (Err ValueError) \/ result = Some (Err StructError).
Proof. exact C02_text_never_another_string_lemma. Qed.
Print Assumptions C02_text_never_another_string.

(* re.match is anchored at the start only: surplus bytes after a fitting field are decoded and returned
   with it; a buffer shorter than the picture (no S in it) is refused. *)
Theorem C02_text_surplus_short : forall (s : list N) (r : parsed) (ts : list rtok),
  dec_parse s = Some (Ok r) -> p_zoned r = false -> text_pattern (p_elems r) = Ok ts -> has_plus ts = false ->
  (forall buffer extra, fits_classes ts (map cp037 buffer) = true ->
     unpack_any display_spelling s (buffer ++ extra) = Some (Ok (VStr (map cp037 (buffer ++ extra)))))
  /\ (has_optsign ts = false -> forall buffer, (length buffer < p_size r)%nat ->
     unpack_any display_spelling s buffer = Some (Err ValueError)).
Proof. exact C02_text_surplus_short_lemma. Qed.
Print Assumptions C02_text_surplus_short.

(* The statement without the premise "no +" is false of the faithful model (known finding
   K-text-plus-sign): PIC +99 holding +12 raises re.error; PIC 9+9 holding 1+2 raises ValueError. *)
Definition C02_text_any_picture_full : Prop :=
  forall (s : list N) (r : parsed) (ts : list rtok) (buffer : list N),
    dec_parse s = Some (Ok r) -> p_zoned r = false -> text_pattern (p_elems r) = Ok ts ->
    length buffer = p_size r -> fits_classes ts (map cp037 buffer) = true ->
    unpack_any display_spelling s buffer = Some (Ok (VStr (map cp037 buffer))).

Theorem C02_text_plus_refuted : ~ C02_text_any_picture_full.
Proof. exact C02_text_plus_refuted_lemma. Qed.
Print Assumptions C02_text_plus_refuted.

Theorem C02_text_plus_inner_refuted :
  exists s r ts buffer, dec_parse s = Some (Ok r) /\ p_zoned r = false /\ text_pattern (p_elems r) = Ok ts
    /\ length buffer = p_size r /\ fits_classes ts (map cp037 buffer) = true
    /\ unpack_any display_spelling s buffer = Some (Err ValueError).
Proof. exact plus_inner_witness. Qed.

(* "Characters that do not fit are refused" is false as soon as the picture holds an S: the sign is
   optional in the expression and the match is a prefix match, so PIC S99.99 accepts 12.345. *)
Definition C02_text_refusal_full : Prop :=
  forall (s : list N) (r : parsed) (ts : list rtok) (buffer : list N),
    dec_parse s = Some (Ok r) -> p_zoned r = false -> text_pattern (p_elems r) = Ok ts -> has_plus ts = false ->
    length buffer = p_size r -> fits_classes ts (map cp037 buffer) = false ->
    unpack_any display_spelling s buffer = Some (Err ValueError).

Theorem C02_text_optsign_refuted : ~ C02_text_refusal_full.
Proof. exact C02_text_optsign_refuted_lemma. Qed.
Print Assumptions C02_text_optsign_refuted.

(* TextUnpacker: a text record  pad ++ field ++ tail  whose field (located by its offset and width, as
   AtomicLocation.value slices it) holds the decimal text of a value - blanks, optional sign, integer
   digits, optional full stop and fraction digits, blanks - declared with conversion "decimal" (key 6 of
   the CONVERSION table read from the source) yields exactly that value: sign, every digit, scale. *)
Theorem C02_textunpacker_numeric : forall (sgn : N) (ids fds : list N) (point : bool) (lp rp : nat) (pad tail : list N),
  decimal_text_ok ids fds point = true -> (sgn < 3)%N ->
  let field := decimal_text sgn ids fds point lp rp in
  text_unpacker_value 6 (py_slice (length pad) (length field) (pad ++ field ++ tail))
  = Some (Ok (VDec (decimal_text_value sgn ids fds))).
Proof. exact C02_textunpacker_numeric_lemma. Qed.
Print Assumptions C02_textunpacker_numeric.

(* ... and a string field (key 5) yields exactly the characters stored. *)
Theorem C02_textunpacker_string : forall (pad field tail : list N),
  text_unpacker_value 5 (py_slice (length pad) (length field) (pad ++ field ++ tail)) = Some (Ok (VStr field)).
Proof. exact C02_textunpacker_string_lemma. Qed.
Print Assumptions C02_textunpacker_string.

(* Non-vacuity.  PIC ZZ9.99CR (8 positions, expression \d\d\d\.\d\dCR) holding 001.50CR decodes to that
   text; holding "  1.50CR" (blank-suppressed zeros, what COBOL stores) it is refused.  -12.34 in a six
   character field at offset 3 of the record abc-12.34xyz is Decimal('-12.34'). *)
Example C02_text_examples :
  match dec_parse [90; 90; 57; 46; 57; 57; 67; 82] with
  | Some (Ok r) =>
      p_zoned r = false /\ p_size r = 8%nat
      /\ match text_pattern (p_elems r) with
         | Ok ts =>
             has_plus ts = false /\ has_optsign ts = false
             /\ pattern_string ts = [92; 100; 92; 100; 92; 100; 92; 46; 92; 100; 92; 100; 67; 82]
             /\ fits_classes ts (map cp037 [240; 240; 241; 75; 245; 240; 195; 217]) = true
         | Err _ => False
         end
  | _ => False
  end
  /\ unpack_any display_spelling [90; 90; 57; 46; 57; 57; 67; 82] [240; 240; 241; 75; 245; 240; 195; 217]
     = Some (Ok (VStr [48; 48; 49; 46; 53; 48; 67; 82]))
  /\ unpack_any display_spelling [90; 90; 57; 46; 57; 57; 67; 82] [64; 64; 241; 75; 245; 240; 195; 217]
     = Some (Err ValueError).
Proof. vm_compute. repeat split; reflexivity. Qed.

Example C02_textunpacker_examples :
  decimal_text 2 [1; 2] [3; 4] true 0 0 = [45; 49; 50; 46; 51; 52]
  /\ decimal_text_ok [1; 2] [3; 4] true = true
  /\ text_unpacker_value 6 (py_slice 3 6 [97; 98; 99; 45; 49; 50; 46; 51; 52; 120; 121; 122])
     = Some (Ok (VDec (mkdec true 1234 (-2))))
  /\ text_unpacker_value 6 [49; 50; 97] = Some (Err DecimalInvalid).
Proof. vm_compute. repeat split; reflexivity. Qed.
