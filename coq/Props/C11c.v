(* C11c - the FIRST half of C11: loading and using a schema never changes it.  After any number of library calls the JSON
   Schema document and the loaded schema equal their initial state.  (Companion of Props/C11.v, which proves the second half -
   results do not depend on what was processed before - and says that the first half cannot be stated over a functional model.)

   Here object identity and mutation are modelled explicitly (Model/Heap.v): a heap of objects with identity whose slots may hold
   references; regions RDoc (the caller's document: the root and all that is reachable from it), RNode (the loaded schema:
   Schema wrappers, which hold the document BY REFERENCE in _attributes, and the containers of their children), RLib (unpackers,
   sheets, SchemaMaker.name_cache / fixup_list, LocationMaker.anchors, Location trees, navigators), RClass (class attributes,
   module variables); and what a library call does as a list of actions Read / Alloc / Write(site) / Release, where every write
   must be a MUTATION SITE of the summary of the function that performs it, aimed at an object that lies where the site's root
   class says (root_ok).  The action lists are universally quantified: EVERY behaviour that respects the summaries is covered,
   for every initial heap, every history (list of calls) of any length.

   WHAT IS PROVED
     C11c_document_unchanged         if no function that runs during the history has an ALIAS-rooted, SCHEMANODE-rooted or deeper
                                     write in its summary, every document object is, after the history, the object it was
     C11c_document_value_unchanged   ... hence the document as a VALUE (the JSON tree rendered from any document object, to any
                                     depth) is what it was
     C11c_loaded_schema_unchanged    ... and every Schema node keeps its class and every slot other than ref_to (the slot the
                                     fix-up pass of SchemaMaker.resolve writes)
     C11c_current_source             the summaries read from the CURRENT source (Gen/EffectParams.v, regenerated on every run by
                                     harness/t1_c11heap.py) have no such write: all three statements hold for every history over them
     C11c_entry_points_summarised    every entry point of the property (from_json / walk_schema / resolve, Schema.json / print /
                                     dump_iter, the unpackers' nav / calcsize / value, LocationMaker.from_instance / from_schema /
                                     walk, NDNav / DNav / WBNav name / index / value / raw / dump, Row.name / values, Sheet.set_schema /
                                     row_iter, the schema loaders, schema_iter) has a summary in the generated table, and it is clean
     C11c_classlevel_sites_are_modelled   the CLASSLEVEL sites of the current source are exactly the process-wide writes that
                                     Model/Globals.v accounts for under the two behaviours read from the source (Gen/GlobalsParams.v):
                                     DDE.filler_count in DDE.__init__, in structure() iff reset_at_start, SchemaMaker.ATOMIC in the
                                     extended maker iff ext_mutates_atomic.  A new class attribute or module variable written by
                                     any scanned function breaks this theorem (and thereby tells that C11's state machine is short
                                     of a component).
     C11c_totals_consistent          the per-module totals of the generated file are those of its table
     C11c_alias_write_refuted, C11c_deep_write_refuted, C11c_schemanode_write_refuted
                                     the hypothesis is needed: ONE write through self._attributes, ONE write one dereference below
                                     an OWN container, ONE attribute hung on a Schema node - each changes a protected object
   A source edit that adds such a write (a cache in self._attributes, schema.attributes[..] = .. in LocationMaker.walk) changes
   Gen/EffectParams.v, Proofs/HeapEffectsP.v stops compiling, and the check searches its histories (documents and loaded schemas
   fingerprinted before and after) for the failing one, as for any broken proof.

   WHAT IS TRUSTED (beyond the kernel) - the tie between the summaries and the Python code:
     * the classification pass harness/t1_c11heap.py (fail closed: shapes it does not understand fall back to the pinned file and
       the run relies on the fingerprints), i.e. that it finds every mutation site of the four scanned modules (schema_instance,
       workbook, implementations, the use-side and all class-level writes of cobol_parser) and that the object a site mutates
       lies in the region its class denotes;
     * CPython semantics of the constructs the pass recognises: a literal, a comprehension, a constructor call of a class without
       __new__, a builtin constructor / copy and the result of an operator are NEW objects; typing.cast is the identity; assignment
       to an attribute never changes a dict or a list; comprehension variables are local; parameter annotations int / str are
       believed for  x += e  on a bare name; a parameter of a PRIVATE helper only receives what the call sites in the scanned
       modules pass;
     * functions outside the scanned modules (standard library, stingray.estruct, the spreadsheet packages, jsonschema) do not
       mutate the arguments the library hands them;
     * the PRODUCER pipeline of cobol_parser (text -> DDE tree -> document under construction) is outside this theorem except for
       its class-level writes: its heap is the subject of C07b_emission_redefines, and documents of earlier parses are
       fingerprinted by the correspondence run;
     * ref_to: the theorem exempts the slot, it does not show that only from_json's own fresh nodes are fixed up (a long-lived
       SchemaMaker whose walk_schema / resolve are called twice directly does re-point earlier forward references - see the
       report of the builder). *)
From Coq Require Import String List Bool Arith ZArith.
Import ListNotations.
Require Import SR.Model.HeapRule SR.Model.Heap SR.Proofs.HeapP SR.Proofs.HeapEffectsP.
Require Import SR.Gen.EffectParams SR.Gen.GlobalsParams.
Open Scope string_scope.
Open Scope list_scope.

(* The frame property: for EVERY table of summaries T, every initial heap, every history h whose calls only run functions with
   clean summaries: a document object is unchanged. *)
Theorem C11c_document_unchanged : forall (T : table) (h : list call) (s0 s1 : st),
  forallb (call_clean T) h = true -> run T s0 h = Some s1 ->
  forall o ob, hget o (hp s0) = Some ob -> o_reg ob = RDoc -> hget o (hp s1) = Some ob.
Proof. exact document_unchanged. Qed.
Print Assumptions C11c_document_unchanged.

(* ... the JSON value rendered from a document object is unchanged (DOC closed under reachability). *)
Theorem C11c_document_value_unchanged : forall (T : table) (h : list call) (s0 s1 : st),
  forallb (call_clean T) h = true -> run T s0 h = Some s1 -> doc_closed (hp s0) ->
  forall n o ob, hget o (hp s0) = Some ob -> o_reg ob = RDoc ->
  render n (hp s1) (VRef o) = render n (hp s0) (VRef o).
Proof. exact document_value_unchanged. Qed.
Print Assumptions C11c_document_value_unchanged.

(* ... every object of the loaded schema keeps its region, its kind and every slot other than ref_to. *)
Theorem C11c_loaded_schema_unchanged : forall (T : table) (h : list call) (s0 s1 : st),
  forallb (call_clean T) h = true -> run T s0 h = Some s1 ->
  forall o ob, hget o (hp s0) = Some ob -> o_reg ob = RNode ->
  exists ob', hget o (hp s1) = Some ob' /\ o_reg ob' = RNode /\ o_kind ob' = o_kind ob
              /\ forall k, k <> k_ref_to -> dget k (o_slots ob') = dget k (o_slots ob).
Proof. exact loaded_schema_unchanged. Qed.
Print Assumptions C11c_loaded_schema_unchanged.

(* The summaries of the current source are clean, so the three statements hold for EVERY history over them. *)
Theorem C11c_current_source : forall (h : list call) (s0 s1 : st), run effects s0 h = Some s1 ->
  (forall o ob, hget o (hp s0) = Some ob -> o_reg ob = RDoc -> hget o (hp s1) = Some ob)
  /\ (forall o ob, hget o (hp s0) = Some ob -> o_reg ob = RNode ->
      exists ob', hget o (hp s1) = Some ob' /\ o_reg ob' = RNode /\ o_kind ob' = o_kind ob
                  /\ forall k, k <> k_ref_to -> dget k (o_slots ob') = dget k (o_slots ob))
  /\ (doc_closed (hp s0) -> forall n o ob, hget o (hp s0) = Some ob -> o_reg ob = RDoc ->
      render n (hp s1) (VRef o) = render n (hp s0) (VRef o)).
Proof. exact current_source_frame. Qed.
Print Assumptions C11c_current_source.

Theorem C11c_entry_points_summarised : forall f : fname, In f entry_points ->
  has_summary effects f = true /\ fn_clean effects f = true.
Proof. exact entry_points_summarised. Qed.
Print Assumptions C11c_entry_points_summarised.

(* (function, slot) of every write to process-wide state in the scanned modules = what Model/Globals.v models *)
Theorem C11c_classlevel_sites_are_modelled : forall x : fname * string,
  In x (classlevel_sites effects) <-> In x (globals_classlevel reset_at_start ext_mutates_atomic).
Proof. exact classlevel_modelled. Qed.
Print Assumptions C11c_classlevel_sites_are_modelled.

Theorem C11c_totals_consistent : forall (m : string) (t : totals), In (m, t) module_totals -> totals_of effects m = t.
Proof. exact totals_consistent. Qed.
Print Assumptions C11c_totals_consistent.

(* ---- the hypothesis is needed.  ex_s0 (Model/Heap.v): objects 0-3 a document, 6-9 the schema loaded from it.
   Schema.json with  self._attributes.setdefault(_size, ..) : the ALIAS write lands in document object 2 *)
Theorem C11c_alias_write_refuted :
  exists s1, run bad_alias_table ex_s0 bad_alias_history = Some s1
             /\ hget 2 (hp ex_s0) = Some (Obj RDoc KDict [("title", VStr "A"); ("$anchor", VStr "A"); ("type", VStr "string")])
             /\ hget 2 (hp s1) = Some (Obj RDoc KDict [("title", VStr "A"); ("$anchor", VStr "A"); ("type", VStr "string"); ("_size", VInt 3)]).
Proof. eexists. vm_compute. repeat split; reflexivity. Qed.
Print Assumptions C11c_alias_write_refuted.

(* a write ONE dereference below a container the library owns: the fresh dict {A: -> 2} holds a reference to the document *)
Theorem C11c_deep_write_refuted :
  exists s1, run bad_deep_table ex_s0 bad_deep_history = Some s1 /\ hget 2 (hp s1) <> hget 2 (hp ex_s0).
Proof. eexists. vm_compute. split; [reflexivity | discriminate]. Qed.
Print Assumptions C11c_deep_write_refuted.

(* an attribute hung on a loaded Schema node *)
Theorem C11c_schemanode_write_refuted :
  exists s1 ob', run bad_node_table ex_s0 bad_node_history = Some s1 /\ hget 6 (hp s1) = Some ob'
                 /\ dget "_size" (o_slots ob') = Some (VInt 3)
                 /\ (exists ob, hget 6 (hp ex_s0) = Some ob /\ o_reg ob = RNode /\ dget "_size" (o_slots ob) = None).
Proof. eexists. eexists. vm_compute. repeat split; try reflexivity. eexists. repeat split; reflexivity. Qed.
Print Assumptions C11c_schemanode_write_refuted.

(* ---- non-vacuity.  A history that loads the document again (a maker, two Schema nodes, a forward reference fixed up),
   builds a navigator and opens a file on the long-lived unpacker: it RUNS under a table of the generated shape (18 objects
   afterwards), every call is clean, the library's own objects did change (anchors, name_cache, the unpacker, the fresh
   RefToSchema's ref_to), the document is closed, and all ten objects of the document and of the schema loaded before are
   what they were. *)
Example C11c_example :
  forallb (call_clean ex_table) ex_history = true
  /\ doc_closedb ex_heap = true
  /\ exists s1, run ex_table ex_s0 ex_history = Some s1
     /\ length (hp s1) = 18
     /\ firstn 5 (hp s1) = firstn 5 ex_heap
     /\ firstn 4 (skipn 6 (hp s1)) = firstn 4 (skipn 6 ex_heap)
     /\ hget 5 (hp s1) = Some (Obj RLib (KInst "EBCDIC") [("the_file", VInt 3)])
     /\ hget 14 (hp s1) = Some (Obj RNode (KInst "RefToSchema") [("_attributes", VRef 3); ("ref_to", VRef 13)])
     /\ hget 16 (hp s1) = Some (Obj RLib KDict [("A", VRef 17)])
     /\ render 5 (hp s1) (VRef 0) = render 5 ex_heap (VRef 0)
     /\ render 5 ex_heap (VRef 0)
        = JObj KDict [("type", JStr "object");
                      ("properties", JObj KDict [("A", JObj KDict [("title", JStr "A"); ("$anchor", JStr "A"); ("type", JStr "string")]);
                                                 ("R", JObj KDict [("title", JStr "R"); ("$ref", JStr "#A")])])].
Proof. split; [vm_compute; reflexivity|]. split; [vm_compute; reflexivity|]. eexists. vm_compute. repeat split; reflexivity. Qed.

(* the premise of C11c_document_value_unchanged is satisfiable: the example document is closed *)
Example C11c_example_closed : doc_closed (hp ex_s0).
Proof. apply doc_closedb_sound. vm_compute. reflexivity. Qed.

(* the GENERATED table is exercised too: its first OWN site performs a write on the long-lived unpacker and the run goes through
   (so C11c_current_source is not about a table under which nothing can happen) *)
Example C11c_current_source_runs :
  match pick OWN effects with
  | Some (f, s) =>
      exists s1, run effects ex_s0 [Call f [AWrite f s 5 [] "slot" (Some (VInt 1))]] = Some s1
                 /\ hget 5 (hp s1) = Some (Obj RLib (KInst "EBCDIC") [("slot", VInt 1)])
  | None => False
  end.
Proof. vm_compute. eexists. split; reflexivity. Qed.

(* ... and the same write aimed at a document object is refused by the model: OWN means library-owned *)
Example C11c_current_source_own_cannot_reach_document :
  match pick OWN effects with
  | Some (f, s) => run effects ex_s0 [Call f [AWrite f s 2 [] "slot" (Some (VInt 1))]] = None
  | None => False
  end.
Proof. vm_compute. reflexivity. Qed.

(* the class-level sites of the current source, spelled out *)
Example C11c_classlevel_now :
  reset_at_start = true -> ext_mutates_atomic = false ->
  forall x, In x (classlevel_sites effects)
            <-> x = ("cobol_parser.DDE.__init__", "DDE.filler_count=") \/ x = ("cobol_parser.structure", "DDE.filler_count=").
Proof.
  intros Hr He x. rewrite C11c_classlevel_sites_are_modelled. rewrite Hr, He. cbn. intuition.
Qed.
