(* C15 - JSON Schema is mirrored one-to-one; JSON instances navigate like plain indexing.
   Only the property theorems, each closed by an exact lemma of Proofs/SchemaMakerP.v.

   [load]      model of SchemaMaker.from_json (Model/SchemaMaker.v): Ok graph | Err exception class
   [mirrors]   Spec/JsonDoc.v: every loaded node holds its sub-document as attributes (json() is the
               document), has the kind its keywords determine ([shape_kw], priority oneOf, $ref, atomic
               type, array/items, object/properties), children in document order with the same names
   [stargets]  every reference of the loaded graph: (name, path of the node pointed at)
   [refs_resolved d s]  each of them is Some t with t = find_anchor d name (the sub-schema whose
               $anchor is that name)
   [wf]        the supported grammar; [uniq_anchors] no two sub-schemas share an $anchor;
   [shadowed]  trigger of known finding K-title-shadows-anchor: a sub-schema without $anchor has a
               title (or the UNNAMED default) that some reference names
   [nav_value root v p]  model of DNav(root, v).name/index ... .value(); [index_json v p] plain indexing *)
From Coq Require Import ZArith NArith List Bool.
Import ListNotations.
Require Import SR.Base.Res SR.Spec.JsonDoc SR.Model.SchemaMaker SR.Proofs.SchemaMakerP.

(* ---- mirror: for EVERY document (in the grammar or not) a successful load mirrors it ---- *)
Theorem C15_mirror : forall d s, load d = Ok s -> mirrors s d = true.
Proof. exact load_mirrors. Qed.
Print Assumptions C15_mirror.

(* Schema.json() of the loaded root is the document *)
Theorem C15_json_roundtrip : forall d s, load d = Ok s -> attrs s = d.
Proof. exact load_attrs. Qed.
Print Assumptions C15_json_roundtrip.

(* what [mirrors] says at a node (and, by its definition, recursively at every child): the
   attributes ARE the sub-document and the class is the one the keywords determine *)
Theorem C15_mirror_meaning : forall s d,
  mirrors s d = true -> attrs s = d /\ kind_of s = shape_of_keywords d.
Proof. exact mirrors_meaning. Qed.
Print Assumptions C15_mirror_meaning.

(* on the grammar the loader either succeeds or reports ValueError, nothing else *)
Theorem C15_grammar_total : forall d, wf d = true -> (exists s, load d = Ok s) \/ load d = Err ValueError.
Proof. exact load_total. Qed.
Print Assumptions C15_grammar_total.

(* ... and it succeeds when nothing dangles (documents without maxItemsDependsOn) *)
Theorem C15_loads : forall d,
  wf d = true -> has_depends d = false -> has_dangling d = false -> exists s, load d = Ok s.
Proof. exact load_succeeds. Qed.
Print Assumptions C15_loads.

(* ---- references: backward or forward, each resolves to the sub-schema bearing the anchor ---- *)
Theorem C15_refs : forall d s,
  uniq_anchors d = true -> shadowed d = false -> load d = Ok s ->
  refs_resolved d s = true /\ map fst (stargets s) = refnames d.
Proof. exact load_refs. Qed.
Print Assumptions C15_refs.

(* the path [find_anchor] yields is the path of a sub-schema of the document bearing that anchor *)
Theorem C15_find_anchor_bears : forall d x t,
  find_anchor d x = Some t -> exists sc k, In (t, sc, k) (all_nodes d) /\ k_anchor sc = Some x.
Proof. exact find_anchor_bears. Qed.
Print Assumptions C15_find_anchor_bears.

(* a dangling reference is a ValueError *)
Theorem C15_dangling : forall d,
  wf d = true -> uniq_anchors d = true -> shadowed d = false -> has_dangling d = true ->
  load d = Err ValueError.
Proof. exact load_dangling. Qed.
Print Assumptions C15_dangling.

(* without the guard [shadowed d = false] both statements are FALSE of the code as it is
   (known finding K-title-shadows-anchor); witnesses in Proofs/SchemaMakerP.v *)
Theorem C15_refs_refuted_title :
  ~ (forall d s, wf d = true -> uniq_anchors d = true -> load d = Ok s -> refs_resolved d s = true).
Proof. exact refs_unguarded_refuted. Qed.
Print Assumptions C15_refs_refuted_title.

Theorem C15_dangling_refuted_title :
  ~ (forall d, wf d = true -> uniq_anchors d = true -> has_dangling d = true -> load d = Err ValueError).
Proof. exact dangling_unguarded_refuted. Qed.
Print Assumptions C15_dangling_refuted_title.

(* ---- navigation ---- *)
(* whatever a navigation returns is what plain indexing returns: every graph, instance, path *)
Theorem C15_dnav_value : forall root v p x, nav_value root v p = Ok x -> index_json v p = Ok x.
Proof. exact nav_value_sound. Qed.
Print Assumptions C15_dnav_value.

(* for an instance that has the structure of its schema, navigation and plain indexing coincide *)
Theorem C15_dnav : forall root v p x,
  conforms root root v = true -> (nav_value root v p = Ok x <-> index_json v p = Ok x).
Proof. exact nav_value_conforming. Qed.
Print Assumptions C15_dnav.

(* a name on a non-object and an index on a non-array are refused with TypeError *)
Theorem C15_dnav_name_refused : forall root s v k t,
  stype root s = Ok t -> str_eqb t s_object = false -> nav_step root s v (SName k) = Err TypeError.
Proof. exact nav_name_refused. Qed.
Print Assumptions C15_dnav_name_refused.

Theorem C15_dnav_index_refused : forall root s v z t,
  stype root s = Ok t -> str_eqb t s_array = false -> nav_step root s v (SIndex z) = Err TypeError.
Proof. exact nav_index_refused. Qed.
Print Assumptions C15_dnav_index_refused.

(* ---- non-vacuity: a document with a forward and two backward references, maxItemsDependsOn and a
   oneOf satisfies every hypothesis above, loads, and a conforming instance navigates ---- *)
Example C15_example :
  wf example_doc = true /\ uniq_anchors example_doc = true /\ shadowed example_doc = false /\
  has_dangling example_doc = false /\ refnames example_doc = [nY; nX; nX] /\
  match load example_doc with
  | Ok s => mirrors s example_doc = true /\ refs_resolved example_doc s = true /\
            stargets s = [(nY, Some [3; 1]%nat); (nX, Some [1%nat]); (nX, Some [1%nat])] /\
            conforms s s example_instance = true /\
            nav_value s example_instance [SName kv; SIndex (-1)] = Ok (JInt 8) /\
            nav_value s example_instance [SName kr; SName ka] = Ok JNull /\
            nav_value s example_instance [SName kw; SIndex 0] = Err TypeError
  | Err _ => False
  end.
Proof. exact example_doc_facts. Qed.

(* the hypotheses of C15_dangling / C15_loads are satisfiable *)
Example C15_example_dangling :
  wf example_dangling = true /\ uniq_anchors example_dangling = true /\ shadowed example_dangling = false /\
  has_dangling example_dangling = true /\ has_depends example_dangling = false.
Proof. exact example_dangling_facts. Qed.

(* the witnesses of the two refutations *)
Example C15_witness_shadow :
  wf witness_shadow = true /\ uniq_anchors witness_shadow = true /\ shadowed witness_shadow = true /\
  match load witness_shadow with Ok s => refs_resolved witness_shadow s = false | Err _ => False end.
Proof. exact witness_shadow_facts. Qed.

Example C15_witness_title_only :
  wf witness_title_only = true /\ uniq_anchors witness_title_only = true /\
  shadowed witness_title_only = true /\ has_dangling witness_title_only = true /\
  is_ok (load witness_title_only) = true.
Proof. exact witness_title_only_facts. Qed.
