(* C12d - companion of C12: RESPELLING A COPYBOOK CHANGES NEITHER THE LAYOUT NOR THE DECODED VALUES.
   Only property theorems, each closed by an exact lemma of Proofs/TextLayoutP.v.  No engine of its own (models: Model/Pipeline.v,
   compared with schema_iter on raw text by ./check C07; Model/Clauses.v / Model/RefFormat.v, ./check C12; Model/Layout.v and
   Model/LayoutValue.v, ./check C01 and C10).

   The property: "the layout and decoded values obtained from a copybook depend only on its data description entries".  Until
   now it was proved up to the emitted DOCUMENTS (C07b_respelling: two printings of the same entries give the same outcome up to
   the cobol keyword).  That stops short of the property for two reasons: the documents are not yet a layout, and the one
   keyword left out of the comparison - cobol - is exactly what the decoder re-parses to find the WIDTH and the DECODER of every
   elementary item.  Props/C07c.v connects documents and layouts (layout_of_doc, item_of, text_layout_ok); here:

     C12d_respelling_size      the size estruct computes from the cobol text of an entry is the same for every spelling of the
                               entry inside the respelling domain (from C12b's printer theorem and the usage-family tables)
     C12d_respelling_decoder   ... and so is the field kind (USAGE family, sign, digits) estruct.unpack reads in that text
     C12d_respelling_layout    the two TEXTS give the same record descriptions and the same layouts: layouts_of_text of the one
                               text IS layouts_of_text of the other (identical schema trees, not only equal offsets), and the
                               second copybook is in the domain of C07c_text_to_layout as soon as the first one is
     C12d_respelling_located   hence, for every record instance, every record of the copybook and every path, navigation ends at
                               the same (start, end) or in the same exception; the empty path gives the record length
     C12d_respelling_values    the same decoders for every elementary item, and the same value() - including the error status -
                               for every path on every record instance (any bytes at all, not only well-formed records)

   Hypotheses: exactly those of C07b_respelling on the two printings - Forall2 same_clauses es es' (the same level numbers and
   the same clauses in any order; optional words, synonyms, separators, letter case of reserved words and the whole line layout
   are free), copybook_ok of both, respelling_domain of both - and text_layout_ok (text_values_ok) of the FIRST only; that the
   second satisfies it too is part of the conclusion.  C07b_respelling's hypothesis on names follows from text_layout_ok.

   What respelling_domain excludes are the known findings of C12, whose refutations stay where they are (Props/C12b.v,
   Judge/JC12.v): a reserved word PIC / PICTURE / USAGE / IS or a usage word in lower case (K-C12-lowercase: the decoder's
   pattern is case-sensitive), a usage word or PIC inside a VALUE literal (K-C12-value-literal-reparsed), FILLER in another
   letter case.  A usage word or PIC inside a DATA NAME is NOT excluded any more: that was the decoder-side finding
   K-name-contains-usage (estruct.clause_pattern searched without word boundaries: EMP-COMPANY, WS-COMP-DATE, TOT-BINARY-CT),
   now repaired; Props/C04e.v proves that respelling_domain does not depend on the data name (C04e_domain_is_about_clauses) and
   keeps the refutation for the pre-repair pattern.  It is a different defect from C07-K3 (keyword-PREFIXED names such as COMPANY,
   cut by the FIRST parse, cobol_parser.CLAUSES): those names are not printable (ce_ok = false) and stay outside copybook_ok, not
   outside respelling_domain.  A picture STRING in another letter case (X(3) / x(3)) or followed by a separator
   (K-C12-separator-after-picture) is not a respelling in the sense of same_clauses at all: the picture text is part of the
   clause content.  C12d_outside_domain shows one entry of each kind. *)
From Coq Require Import NArith ZArith List Bool Permutation.
Import ListNotations.
Require Import SR.Base.Res SR.Model.RefFormat SR.Spec.RefFormat SR.Spec.Clauses.
Require SR.Model.Structure.
Require Import SR.Model.Pipeline SR.Spec.Copybook SR.Proofs.PipelineP.
Require Import SR.Spec.Layout SR.Model.Layout.
Require Import SR.Spec.Record SR.Model.Estruct SR.Model.LayoutValue SR.Model.RecordValue.
Require Import SR.Model.TextLayout SR.Proofs.TextLayoutP.
Require SR.Props.C07b SR.Props.C07c.

(* ---- the decoder's second parse of an entry: [ctext (spec_entry e)] is the cobol keyword of the entry (level number, blank,
        clause text with single blanks) ---- *)
Theorem C12d_respelling_size : forall e e', same_clauses e e' -> ce_ok e = true -> ce_ok e' = true ->
  respelling_domain e = true -> respelling_domain e' = true ->
  calcsize_text (ctext (spec_entry e)) = calcsize_text (ctext (spec_entry e')).
Proof. exact respelling_size. Qed.
Print Assumptions C12d_respelling_size.

Theorem C12d_respelling_decoder : forall e e', same_clauses e e' -> ce_ok e = true -> ce_ok e' = true ->
  respelling_domain e = true -> respelling_domain e' = true ->
  kind_of_cobol (ctext (spec_entry e)) = kind_of_cobol (ctext (spec_entry e')).
Proof. exact respell_kind. Qed.
Print Assumptions C12d_respelling_decoder.

(* ---- the layouts computed from the two texts ---- *)
Theorem C12d_respelling_layout : forall es tail seqs es' tail' seqs',
  Forall2 same_clauses es es' ->
  copybook_ok es tail seqs = true -> copybook_ok es' tail' seqs' = true ->
  forallb respelling_domain es = true -> forallb respelling_domain es' = true ->
  text_layout_ok es = true ->
  text_layout_ok es' = true
  /\ records_of_entries es = records_of_entries es'
  /\ exists schemas, layouts_of_text (print_copybook es tail seqs) = Some schemas
                     /\ layouts_of_text (print_copybook es' tail' seqs') = Some schemas.
Proof. exact respelling_layout. Qed.
Print Assumptions C12d_respelling_layout.

(* ---- the same (start, end) for every path, the same record length (p = []), the same refusals ---- *)
Theorem C12d_respelling_located : forall es tail seqs es' tail' seqs',
  Forall2 same_clauses es es' ->
  copybook_ok es tail seqs = true -> copybook_ok es' tail' seqs' = true ->
  forallb respelling_domain es = true -> forallb respelling_domain es' = true ->
  text_layout_ok es = true ->
  forall (B : Type) (dcount : list B -> nat) (r : list B) (k : nat) (p : list step),
    located (print_copybook es tail seqs) k dcount r p = located (print_copybook es' tail' seqs') k dcount r p.
Proof. exact respelling_located. Qed.
Print Assumptions C12d_respelling_located.

(* ---- the same decoded values.  value_in_text text xf k dcount r p = value() of the navigator reached by p in record k of the
        text on the record instance r, every atom decoded by the kind estruct.unpack reads in its own cobol text
        (kinds_of, C07c_decoder_of_the_text). ---- *)
Theorem C12d_respelling_values : forall es tail seqs es' tail' seqs',
  Forall2 same_clauses es es' ->
  copybook_ok es tail seqs = true -> copybook_ok es' tail' seqs' = true ->
  forallb respelling_domain es = true -> forallb respelling_domain es' = true ->
  text_values_ok es = true ->
  text_values_ok es' = true
  /\ exists xf xf', forest_of_entries es = Some xf /\ forest_of_entries es' = Some xf'
       /\ map kinds_of xf = map kinds_of xf'
       /\ forall (k : nat) (dcount : list N -> nat) (r : list N) (p : list step),
            value_in_text (print_copybook es tail seqs) xf k dcount r p
            = value_in_text (print_copybook es' tail' seqs') xf' k dcount r p.
Proof. exact respelling_values. Qed.
Print Assumptions C12d_respelling_values.

(* ------------------------------------------------------------------ non-vacuity, on the copybooks of Props/C07b.v *)
Import SR.Props.C07b.
Open Scope N_scope.

(* ex_es / ex_es' are two spellings of one record (clause order, PIC for PICTURE IS, no USAGE IS, PACKED-DECIMAL for COMP-3,
   lower-case times, semicolons, sequence areas, indentation, a line break inside an entry): every hypothesis holds, the texts
   differ, the layouts computed from them are the same and they are layouts (Some) *)
Example C12d_example_hypotheses :
  Forall2 same_clauses ex_es ex_es'
  /\ copybook_ok ex_es [] ex_seqs = true /\ copybook_ok ex_es' [] [] = true
  /\ forallb respelling_domain ex_es = true /\ forallb respelling_domain ex_es' = true
  /\ text_layout_ok ex_es = true /\ text_values_ok ex_es = true
  /\ print_copybook ex_es [] ex_seqs <> print_copybook ex_es' [] [].
Proof.
  split; [exact (proj1 C07b_example_respelling)|]. split; [vm_compute; reflexivity|]. split; [vm_compute; reflexivity|].
  split; [vm_compute; reflexivity|]. split; [vm_compute; reflexivity|]. split; [vm_compute; reflexivity|]. split; [vm_compute; reflexivity|].
  vm_compute. discriminate.
Qed.

Example C12d_example_layouts :
  layouts_of_text (print_copybook ex_es [] ex_seqs) = layouts_of_text (print_copybook ex_es' [] [])
  /\ (exists s, layouts_of_text (print_copybook ex_es [] ex_seqs) = Some [s])
  /\ located (print_copybook ex_es [] ex_seqs) 0 (fun _ : list unit => O) [] [] = Some (Ok (0, 14)%nat)
  /\ located (print_copybook ex_es' [] []) 0 (fun _ : list unit => O) [] [] = Some (Ok (0, 14)%nat)
  /\ located (print_copybook ex_es' [] []) 0 (fun _ : list unit => O) [] (steps_of [NName [84]; NIndex 1; NName [84]]) = Some (Ok (10, 12)%nat).
Proof.
  split; [vm_compute; reflexivity|]. split; [eexists; vm_compute; reflexivity|]. vm_compute. repeat split; reflexivity.
Qed.

(* the cobol keywords differ (COMP-3 / PACKED-DECIMAL, clause order), the size and the decoder read from them do not *)
Example C12d_example_size :
  exists e e', nth_error ex_es 3 = Some e /\ nth_error ex_es' 3 = Some e'
    /\ ctext (spec_entry e) <> ctext (spec_entry e')
    /\ calcsize_text (ctext (spec_entry e)) = ROk 2 /\ calcsize_text (ctext (spec_entry e')) = ROk 2
    /\ kind_of_cobol (ctext (spec_entry e)) = Some (KPacked 8 true 3 0)
    /\ kind_of_cobol (ctext (spec_entry e')) = Some (KPacked 8 true 3 0).
Proof.
  eexists. eexists. split; [reflexivity|]. split; [reflexivity|]. split; [vm_compute; discriminate|]. vm_compute. repeat split; reflexivity.
Qed.

(* the same decoded values on a record of arbitrary bytes (the third occurrence of T holds a digit above 9: ValueError in both) *)
Definition ex_bytes : list N := [240; 241; 242; 243; 244; 193; 194; 195; 1; 45; 18; 60; 250; 252].
Definition ex_xf (es : list centry) : list xtree := match forest_of_entries es with Some xf => xf | None => [] end.
Example C12d_example_values :
  map (fun p => value_in_text (print_copybook ex_es [] ex_seqs) (ex_xf ex_es) 0 (fun _ => O) ex_bytes (steps_of p))
      [[NName n_CUST_NO]; [NName [84]; NIndex 0; NName [84]]; [NName [84]; NIndex 1; NName [84]]; [NName [84]; NIndex 2; NName [84]]]
  = [Some (Some (Ok (PAtom (VDec (SR.Base.Dec.mkdec false 1234 0))))); Some (Some (Ok (PAtom (VDec (SR.Base.Dec.mkdec true 12 0)))));
     Some (Some (Ok (PAtom (VDec (SR.Base.Dec.mkdec false 123 0))))); Some (Some (Err ValueError))]
  /\ map (fun p => value_in_text (print_copybook ex_es' [] []) (ex_xf ex_es') 0 (fun _ => O) ex_bytes (steps_of p))
      [[NName n_CUST_NO]; [NName [84]; NIndex 0; NName [84]]; [NName [84]; NIndex 1; NName [84]]; [NName [84]; NIndex 2; NName [84]]]
  = [Some (Some (Ok (PAtom (VDec (SR.Base.Dec.mkdec false 1234 0))))); Some (Some (Ok (PAtom (VDec (SR.Base.Dec.mkdec true 12 0)))));
     Some (Some (Ok (PAtom (VDec (SR.Base.Dec.mkdec false 123 0))))); Some (Some (Err ValueError))].
Proof. vm_compute. split; reflexivity. Qed.

(* with REDEFINES: ex_redef / ex_redef' (clause order of the redefining entry, PICTURE IS for PIC, other layout) *)
Example C12d_example_redefines :
  Forall2 same_clauses ex_redef ex_redef'
  /\ copybook_ok ex_redef [] [] = true /\ copybook_ok ex_redef' [] [] = true
  /\ forallb respelling_domain ex_redef = true /\ forallb respelling_domain ex_redef' = true
  /\ text_values_ok ex_redef = true
  /\ layouts_of_text (print_copybook ex_redef [] []) = layouts_of_text (print_copybook ex_redef' [] [])
  /\ located (print_copybook ex_redef' [] []) 0 (fun _ : list unit => O) [] (steps_of [NName [66]]) = Some (Ok (0, 3)%nat)
  /\ located (print_copybook ex_redef' [] []) 0 (fun _ : list unit => O) [] [] = Some (Ok (0, 4)%nat).
Proof.
  split; [exact (proj1 C07b_example_respelling_redefines)|]. vm_compute. repeat split; reflexivity.
Qed.

(* the larger record of Props/C07c.v (groups, tables, a union, FILLERs, COMP-3) against a respelling of it: the union's
   redefiner with its clauses in the other order is the same entry list here, so only the layout of the cards changes *)
Example C12d_example_relayout :
  text_layout_ok SR.Props.C07c.ex_full = true
  /\ layouts_of_text (print_copybook SR.Props.C07c.ex_full [] [])
     = layouts_of_text (print_copybook SR.Props.C07c.ex_full [32; 10] [[57; 57; 57; 57; 57; 57]]).
Proof. vm_compute. split; reflexivity. Qed.

(* ------------------------------------------------------------------ what respelling_domain excludes: one entry of each kind *)
(*   05 A pic X(3).                  a reserved word in lower case: printable, outside the respelling domain
     05 COMPANY PIC X(3) .          a data name that begins with a usage word (C07-K3, the FIRST parse): not printable; the
                                    decoder's second parse has no objection since its pattern has word boundaries
                                    (respelling_domain = true; it was false before the repair of K-name-contains-usage)
     05 A PIC X(3) VALUE 'PIC 9' .  PIC inside a VALUE literal: printable, outside the respelling domain (the decoder takes the
                                    literal's 9 and the apostrophe for the picture: ValueError instead of the size 3) *)
Definition e_lower : centry :=
  mkce 48 53 [CName [65]; CPicture p_X_3] [(sp0, [32]); ({| ch := [0]; masks := [[true; true; true]]; seps := [] |}, [])] ind4 [32].
Definition e_company : centry := mkce 48 53 [CName [67; 79; 77; 80; 65; 78; 89]; CPicture p_X_3] [] ind4 [32].
Definition e_value : centry := mkce 48 53 [CName [65]; CPicture p_X_3; CValue [39; 80; 73; 67; 32; 57; 39]] [] ind4 [32].

Example C12d_outside_domain :
  ce_ok e_lower = true /\ respelling_domain e_lower = false
  /\ ce_ok e_company = false /\ respelling_domain e_company = true
  /\ ce_ok e_value = true /\ respelling_domain e_value = false
  /\ calcsize_text (ctext (spec_entry e_value)) = RErr ValueError.
Proof. vm_compute. repeat split; reflexivity. Qed.
