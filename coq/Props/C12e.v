(* C12e - companion of C12 / C07: THE TEXT LAYER'S THEOREMS COMPOSED WITH THE WHOLE-PARSER MODEL.
   Only property theorems, each closed by an exact lemma of Proofs/TextNoiseP.v; vocabulary in Spec/TextNoiseWf.v.  No engine of
   its own: the models are Model/RefFormat.v (compared with reference_format / dde_sentences by ./check C12) and Model/Pipeline.v,
   Model/TextLayout.v (compared with schema_iter on raw text by ./check C07; LocationMaker / NDNav by ./check C01, C10).

   What was missing.  Props/C12.v (layer A) proves for reference_format ALONE that sequence numbers (columns 1-6), identification
   text (columns 73-80), inserted comment / blank / bare EJECT-SKIP lines and continuation change nothing.  Props/C07b.v / C07c.v /
   C12d.v prove schemas, layout and values for the texts of print_copybook under copybook_ok - a domain without comment, blank or
   directive lines, with nothing in columns 73-80 and code lines of at most 64 characters.  Nothing said that a copybook as it is
   found in a library - numbered, commented, with EJECT lines and a deck name in columns 73-80 - gets the same schemas and layout.

   What is proved.
     C12e_factorisation_*     Model/Pipeline.v and Model/TextLayout.v depend on the text ONLY through the value
                              reference_format (lines_of_text text) []: sentences, schemas, entries, forest, layouts, located,
                              value_in_text are functions of that value (schemas_of_rf, layouts_of_rf); two texts with the same
                              value agree on all of them.  Even less matters: when nothing is a COPY statement, only the code
                              areas one after the other (C12e_code_areas_only) - not how they are cut into lines or joined into
                              continuation groups (a minus in column 7 or not).
     C12e_noise_schemas, C12e_noise_all, C12e_seq_area_schemas, C12e_comments_schemas, C12e_noise_lines
                              for EVERY source text src (inside or outside any printer domain; any outcome, exceptions included)
                              and every src' obtained from it by the changes of C12_seq_area_partial / C12_comments_partial, with
                              their side conditions, any number of times, lines added or taken away (decorated): the same schemas,
                              entries, layouts, the same (start, end) for every path, the same decoded values.
     C12e_printed_reads_as, C12e_decorated_reads_as, C12e_deck_reads_as
                              reads_as text es: the sentences of the text are those of the entries es.  It holds for every printed
                              copybook (C07b_sentences), is preserved by decoration, and holds for every CARD DECK whose code
                              areas spell the entries: columns 1-6 anything, blank indicator, a code area of UP TO 65 characters
                              (the full columns 8-72), anything in columns 73 onwards behind a full code area.
     C12e_reading_*           the theorems C07b_entries, C07b_layer_b, C07b_end_to_end, C07c_text_documents_are_built_trees,
                              C07c_text_to_layout, C07c_text_to_layout_odo, C07c_text_to_values, C12d_respelling_layout /
                              _located / _values with  print_copybook es tail seqs + copybook_ok  replaced by ANY text that reads as
                              the entries: their proofs never used more of the text.
     C12e_decorated_copybook_to_layout, C12e_decorated_copybook_respelling, C12e_decorated_copybook_values
                              the conclusions of C07c_text_to_layout, C12d_respelling_layout / _located, C12d_respelling_values for
                              DECORATED printed copybooks.
     C12e_deck_same_core      a card deck (decorated or not) and the printed copybook of the same entries up to layout: the same
                              outcome, whatever it is.
     C12e_noise_replacing, C12e_replacing_schemas
                              REPLACING.  schema_iter calls reference_format(source) WITHOUT a REPLACING list (it even ignores its
                              deformat argument), and so does Model/Pipeline.v sentences_of_text: C12_replacing cannot be composed
                              with the pipeline model as it is.  For a caller that chains the functions by hand -
                              structure(dde_sentences(reference_format(source, replacing))) = schemas_of_rf of that call - noise
                              changes nothing with any REPLACING list, and with a list without an empty search string the result
                              is that of the substituted code areas (C12_replacing).
   What stays outside: the two known findings of layer A - a NUMBERED or identified EJECT / SKIPn line and a comment line with
   indicator slash are code for the parser (C12_comments_refuted_1 / _2) - are not [plain_noise] and therefore not covered here
   either; the examples below use a bare EJECT line. *)
From Coq Require Import String Ascii.
From Coq Require Import NArith ZArith List Bool Permutation.
Import ListNotations.
Require Import SR.Base.Res SR.Model.RefFormat SR.Spec.RefFormat SR.Spec.Clauses.
Require SR.Model.Structure SR.Proofs.LayoutP SR.Proofs.LayoutOdoP.
Require Import SR.Model.Pipeline SR.Spec.Copybook SR.Proofs.PipelineP.
Require Import SR.Spec.Layout SR.Model.Layout.
Require Import SR.Spec.Encode SR.Spec.Record SR.Model.Estruct SR.Model.LayoutValue SR.Model.RecordValue.
Require Import SR.Model.TextLayout SR.Proofs.TextLayoutP SR.Proofs.TextNoiseP.
Require SR.Props.C07b SR.Props.C07c SR.Props.C12d.

Local Notation text := SR.Model.Pipeline.str.

(* ------------------------------------------------------------------ 1. factorisation *)
Theorem C12e_factorisation_schemas : forall t : text,
  schemas_of_text t = schemas_of_rf (reference_format (lines_of_text t) []).
Proof. exact schemas_factor. Qed.
Print Assumptions C12e_factorisation_schemas.

Theorem C12e_factorisation_layouts : forall t : text,
  layouts_of_text t = layouts_of_rf (reference_format (lines_of_text t) []).
Proof. exact layouts_factor. Qed.
Print Assumptions C12e_factorisation_layouts.

Theorem C12e_factorisation : forall a b : text,
  reference_format (lines_of_text a) [] = reference_format (lines_of_text b) [] ->
  sentences_of_text a = sentences_of_text b
  /\ schemas_of_text a = schemas_of_text b
  /\ entries_of_text a = entries_of_text b
  /\ forest_of_text a = forest_of_text b
  /\ layouts_of_text a = layouts_of_text b
  /\ (forall (B : Type) (k : nat) (dcount : list B -> nat) (r : list B) (p : list step),
        located a k dcount r p = located b k dcount r p)
  /\ (forall (xf : list xtree) (k : nat) (dcount : list N -> nat) (r : list N) (p : list step),
        value_in_text a xf k dcount r p = value_in_text b xf k dcount r p).
Proof. exact factorisation. Qed.
Print Assumptions C12e_factorisation.

(* when both texts are accepted (no COPY statement, some code line): only the code areas, one after the other, matter *)
Theorem C12e_code_areas_only : forall (a b : text) ga gb,
  reference_format (lines_of_text a) [] = Ok ga -> reference_format (lines_of_text b) [] = Ok gb ->
  code_of (lines_of_text a) = code_of (lines_of_text b) ->
  sentences_of_text a = sentences_of_text b /\ schemas_of_text a = schemas_of_text b /\ layouts_of_text a = layouts_of_text b.
Proof. exact code_areas_only. Qed.
Print Assumptions C12e_code_areas_only.

(* ------------------------------------------------------------------ 2. card-image noise: every text, every outcome *)
Theorem C12e_noise_schemas : forall src src' : text, text_decorated src src' -> schemas_of_text src' = schemas_of_text src.
Proof. exact noise_schemas. Qed.
Print Assumptions C12e_noise_schemas.

Theorem C12e_noise_all : forall src src' : text, text_decorated src src' ->
  sentences_of_text src' = sentences_of_text src
  /\ schemas_of_text src' = schemas_of_text src
  /\ entries_of_text src' = entries_of_text src
  /\ forest_of_text src' = forest_of_text src
  /\ layouts_of_text src' = layouts_of_text src
  /\ (forall (B : Type) (k : nat) (dcount : list B -> nat) (r : list B) (p : list step),
        located src' k dcount r p = located src k dcount r p)
  /\ (forall (xf : list xtree) (k : nat) (dcount : list N -> nat) (r : list N) (p : list step),
        value_in_text src' xf k dcount r p = value_in_text src xf k dcount r p).
Proof. exact noise_all. Qed.
Print Assumptions C12e_noise_all.

(* the two single steps, stated with the relations of C12_seq_area_partial and C12_comments_partial *)
Theorem C12e_seq_area_schemas : forall src src' : text, Forall2 seq_variant (lines_of_text src) (lines_of_text src') ->
  schemas_of_text src' = schemas_of_text src /\ layouts_of_text src' = layouts_of_text src.
Proof. exact seq_area_schemas. Qed.
Print Assumptions C12e_seq_area_schemas.

Theorem C12e_comments_schemas : forall src src' : text, inserted plain_noise (lines_of_text src) (lines_of_text src') ->
  schemas_of_text src' = schemas_of_text src /\ layouts_of_text src' = layouts_of_text src.
Proof. exact comments_schemas. Qed.
Print Assumptions C12e_comments_schemas.

(* a list of text lines is the list of lines of its concatenation, so a decorated text can be written line by line *)
Theorem C12e_lines_of_concat : forall ls, text_lines ls = true -> lines_of_text (concat ls) = ls.
Proof. exact lines_of_concat. Qed.
Print Assumptions C12e_lines_of_concat.

Theorem C12e_noise_lines : forall (src : text) ls', text_lines ls' = true -> decorated (lines_of_text src) ls' ->
  schemas_of_text (concat ls') = schemas_of_text src /\ layouts_of_text (concat ls') = layouts_of_text src.
Proof. exact noise_lines. Qed.
Print Assumptions C12e_noise_lines.

(* one line of noise - a blank line (C12_noise_blank), a comment line (C12_noise_comment: indicator star or D), a bare listing
   directive (C12_noise_directive) - put anywhere into a text, also between a line and the line that continues its entry *)
Theorem C12e_insert_noise_line : forall a b l, text_lines (a ++ b) = true -> text_lines (a ++ l :: b) = true -> plain_noise l = true ->
  schemas_of_text (concat (a ++ l :: b)) = schemas_of_text (concat (a ++ b))
  /\ layouts_of_text (concat (a ++ l :: b)) = layouts_of_text (concat (a ++ b)).
Proof. exact insert_noise_line. Qed.
Print Assumptions C12e_insert_noise_line.

(* decoration is an equivalence (reflexive by dec_same) *)
Theorem C12e_decorated_sym : forall a b, decorated a b -> decorated b a.
Proof. exact decorated_sym. Qed.
Print Assumptions C12e_decorated_sym.

Theorem C12e_decorated_trans : forall a b c, decorated a b -> decorated b c -> decorated a c.
Proof. exact decorated_trans. Qed.
Print Assumptions C12e_decorated_trans.

(* ------------------------------------------------------------------ 3. texts that read as a list of entries *)
Theorem C12e_printed_reads_as : forall es tail seqs, copybook_ok es tail seqs = true -> reads_as (print_copybook es tail seqs) es.
Proof. exact printed_reads_as. Qed.
Print Assumptions C12e_printed_reads_as.

Theorem C12e_decorated_reads_as : forall (T T' : text) es, reads_as T es -> text_decorated T T' -> reads_as T' es.
Proof. exact decorated_reads_as. Qed.
Print Assumptions C12e_decorated_reads_as.

(* card decks: what reference_format makes of them, and the entries they read as *)
Theorem C12e_deck_sentences : forall d, d <> [] -> deck_ok d = true ->
  sentences_of_text (deck_text d) = Ok (dde_sentences (map ci_code d)).
Proof. exact deck_sentences. Qed.
Print Assumptions C12e_deck_sentences.

Theorem C12e_deck_reads_as : forall d es tail, d <> [] -> deck_ok d = true ->
  forallb ce_ok es = true -> forallb is_ws tail = true -> deck_code d = code_text es tail ->
  reads_as (deck_text d) es.
Proof. exact deck_reads_as. Qed.
Print Assumptions C12e_deck_reads_as.

(* ------------------------------------------------------------------ 4. the text theorems for every text that reads as its entries *)
(* C07b_entries, C07b_layer_b *)
Theorem C12e_reading_entries : forall (T : text) es, reads_as T es -> entries_of_text T = ROk (map spec_entry es).
Proof. exact reading_entries. Qed.
Print Assumptions C12e_reading_entries.

Theorem C12e_reading_schemas : forall (T : text) es, reads_as T es ->
  schemas_of_text T = to_outcome (docs_of_infos (map spec_info es)).
Proof. exact reading_schemas. Qed.
Print Assumptions C12e_reading_schemas.

(* C07b_relayout *)
Theorem C12e_reading_same_core : forall (T T' : text) es es', reads_as T es -> reads_as T' es' -> Forall2 same_core es es' ->
  schemas_of_text T = schemas_of_text T' /\ layouts_of_text T = layouts_of_text T'.
Proof. exact reading_same_core. Qed.
Print Assumptions C12e_reading_same_core.

(* C07b_end_to_end *)
Theorem C12e_reading_end_to_end : forall (T : text) es f, reads_as T es ->
  SR.Model.Structure.structure (map spec_entry es) = Ok f ->
  exists xf, annot_forest f (kept_infos (map spec_info es)) = Some xf /\ map SR.Proofs.PipelineP.erase xf = f
             /\ concat (map xpre xf) = kept_infos (map spec_info es)
             /\ (forallb (names_wf []) xf = true -> schemas_of_text T = to_outcome (docs_r xf)).
Proof. exact reading_end_to_end. Qed.
Print Assumptions C12e_reading_end_to_end.

(* C07c_text_documents_are_built_trees *)
Theorem C12e_reading_documents_are_built_trees : forall (T : text) es, reads_as T es -> bridge_domain es = true ->
  exists f xf docs,
    SR.Model.Structure.structure (map spec_entry es) = Ok f
    /\ annot_forest f (kept_infos (map spec_info es)) = Some xf /\ map SR.Proofs.PipelineP.erase xf = f
    /\ concat (map xpre xf) = kept_infos (map spec_info es)
    /\ schemas_of_text T = Done (Ok docs)
    /\ Forall2 (fun doc t => layout_of_doc doc = Some (build (item_of t))) docs xf
    /\ layouts_of_text T = Some (map (fun t => build (item_of t)) xf).
Proof. exact reading_documents_are_built. Qed.
Print Assumptions C12e_reading_documents_are_built_trees.

(* C07c_text_to_layout *)
Theorem C12e_reading_to_layout : forall (T : text) es, reads_as T es -> text_layout_ok es = true ->
  exists f xf schemas,
    SR.Model.Structure.structure (map spec_entry es) = Ok f
    /\ annot_forest f (kept_infos (map spec_info es)) = Some xf /\ map SR.Proofs.PipelineP.erase xf = f
    /\ concat (map xpre xf) = kept_infos (map spec_info es)
    /\ layouts_of_text T = Some schemas /\ length schemas = length xf
    /\ forall k s t, nth_error schemas k = Some s -> nth_error xf k = Some t ->
         s = build (item_of t)
         /\ forall (B : Type) (dcount : list B -> nat) (r : list B),
            exists v0, nav_of dcount r s = Ok v0
              /\ lstart (n_loc v0) = 0%nat /\ lend (n_loc v0) = extent no_counters (item_of t)
              /\ forall p v st, spec_nav no_counters (VItem (item_of t)) 0 p = inl (v, st) ->
                   exists nv, nav_path dcount r v0 p = Ok nv
                     /\ lstart (n_loc nv) = st /\ lend (n_loc nv) = (st + view_size no_counters v)%nat
                     /\ nav_raw r nv = slice r st (st + view_size no_counters v).
Proof. exact reading_to_layout. Qed.
Print Assumptions C12e_reading_to_layout.

(* C07c_text_to_layout_odo *)
Theorem C12e_reading_to_layout_odo : forall (T : text) es, reads_as T es -> bridge_domain es = true ->
  exists xf schemas,
    forest_of_entries es = Some xf
    /\ layouts_of_text T = Some schemas /\ length schemas = length xf
    /\ forall k s t, nth_error schemas k = Some s -> nth_error xf k = Some t ->
         s = build (item_of t)
         /\ forall (B : Type) (dcount : list B -> nat) (r : list B) (e : env),
            SR.Proofs.LayoutOdoP.wfo e [] (item_of t) = true -> NoDup (SR.Proofs.LayoutP.ids (item_of t)) ->
            SR.Proofs.LayoutOdoP.Holds B dcount r e (item_of t) 0 ->
            exists v0, nav_of dcount r s = Ok v0
              /\ lstart (n_loc v0) = 0%nat /\ lend (n_loc v0) = extent e (item_of t)
              /\ forall p v st, spec_nav e (VItem (item_of t)) 0 p = inl (v, st) ->
                   exists nv, nav_path dcount r v0 p = Ok nv
                     /\ lstart (n_loc nv) = st /\ lend (n_loc nv) = (st + view_size e v)%nat
                     /\ nav_raw r nv = slice r st (st + view_size e v)
                     /\ (forall x, v = VItem x -> is_table x = true ->
                           forall i, (count e (item_oc x) <= i)%nat -> nav_index dcount r nv i = Err IndexError).
Proof. exact reading_to_layout_odo. Qed.
Print Assumptions C12e_reading_to_layout_odo.

(* C07c_text_to_values *)
Theorem C12e_reading_to_values : forall (T : text) es, reads_as T es -> text_values_ok es = true ->
  exists xf schemas,
    forest_of_entries es = Some xf
    /\ layouts_of_text T = Some schemas /\ length schemas = length xf
    /\ forall k s t, nth_error schemas k = Some s -> nth_error xf k = Some t ->
       forall (dcount : list N -> nat) (vals : assignment),
         record_ok (kinds_of t) vals no_counters (item_of t) = true ->
         forall p i sz st, elem_at no_counters (item_of t) p = Some (i, sz, st) ->
           own_storage no_counters (VItem (item_of t)) 0 p = true ->
           value_at (kinds_of t) dcount (spec_record (kinds_of t) vals no_counters (item_of t)) s p
           = Some (Ok (PAtom (py_of (stored (kinds_of t i) (vals p))))).
Proof. exact reading_to_values. Qed.
Print Assumptions C12e_reading_to_values.

(* C12d_respelling_layout *)
Theorem C12e_reading_respelling_layout : forall (T T' : text) es es',
  Forall2 same_clauses es es' -> reads_as T es -> reads_as T' es' ->
  forallb respelling_domain es = true -> forallb respelling_domain es' = true ->
  text_layout_ok es = true ->
  text_layout_ok es' = true
  /\ records_of_entries es = records_of_entries es'
  /\ exists schemas, layouts_of_text T = Some schemas /\ layouts_of_text T' = Some schemas.
Proof. exact reading_respelling_layout. Qed.
Print Assumptions C12e_reading_respelling_layout.

(* C12d_respelling_located *)
Theorem C12e_reading_respelling_located : forall (T T' : text) es es',
  Forall2 same_clauses es es' -> reads_as T es -> reads_as T' es' ->
  forallb respelling_domain es = true -> forallb respelling_domain es' = true ->
  text_layout_ok es = true ->
  forall (B : Type) (dcount : list B -> nat) (r : list B) (k : nat) (p : list step),
    located T k dcount r p = located T' k dcount r p.
Proof. exact reading_respelling_located. Qed.
Print Assumptions C12e_reading_respelling_located.

(* C12d_respelling_values *)
Theorem C12e_reading_respelling_values : forall (T T' : text) es es',
  Forall2 same_clauses es es' -> reads_as T es -> reads_as T' es' ->
  forallb respelling_domain es = true -> forallb respelling_domain es' = true ->
  text_values_ok es = true ->
  text_values_ok es' = true
  /\ exists xf xf', forest_of_entries es = Some xf /\ forest_of_entries es' = Some xf'
       /\ map kinds_of xf = map kinds_of xf'
       /\ forall (k : nat) (dcount : list N -> nat) (r : list N) (p : list step),
            value_in_text T xf k dcount r p = value_in_text T' xf' k dcount r p.
Proof. exact reading_respelling_values. Qed.
Print Assumptions C12e_reading_respelling_values.

(* ------------------------------------------------------------------ 5. decorated printed copybooks: copybooks as found in libraries *)
(* the conclusions of C07c_text_to_layout for print_copybook's text with noise added: the SAME outcome as the undecorated text,
   and the schema computed from the decorated text, navigated, lands on the bytes the COBOL rules assign *)
Theorem C12e_decorated_copybook_to_layout : forall es tail seqs (src' : text),
  copybook_ok es tail seqs = true -> text_layout_ok es = true ->
  text_decorated (print_copybook es tail seqs) src' ->
  schemas_of_text src' = schemas_of_text (print_copybook es tail seqs)
  /\ exists f xf schemas,
    SR.Model.Structure.structure (map spec_entry es) = Ok f
    /\ annot_forest f (kept_infos (map spec_info es)) = Some xf /\ map SR.Proofs.PipelineP.erase xf = f
    /\ concat (map xpre xf) = kept_infos (map spec_info es)
    /\ layouts_of_text src' = Some schemas /\ length schemas = length xf
    /\ forall k s t, nth_error schemas k = Some s -> nth_error xf k = Some t ->
         s = build (item_of t)
         /\ forall (B : Type) (dcount : list B -> nat) (r : list B),
            exists v0, nav_of dcount r s = Ok v0
              /\ lstart (n_loc v0) = 0%nat /\ lend (n_loc v0) = extent no_counters (item_of t)
              /\ forall p v st, spec_nav no_counters (VItem (item_of t)) 0 p = inl (v, st) ->
                   exists nv, nav_path dcount r v0 p = Ok nv
                     /\ lstart (n_loc nv) = st /\ lend (n_loc nv) = (st + view_size no_counters v)%nat
                     /\ nav_raw r nv = slice r st (st + view_size no_counters v).
Proof. exact decorated_copybook_to_layout. Qed.
Print Assumptions C12e_decorated_copybook_to_layout.

(* the conclusions of C12d_respelling_layout / C12d_respelling_located for two decorated printed copybooks *)
Theorem C12e_decorated_copybook_respelling : forall es tail seqs es' tail' seqs' (src1 src2 : text),
  Forall2 same_clauses es es' ->
  copybook_ok es tail seqs = true -> copybook_ok es' tail' seqs' = true ->
  forallb respelling_domain es = true -> forallb respelling_domain es' = true ->
  text_layout_ok es = true ->
  text_decorated (print_copybook es tail seqs) src1 -> text_decorated (print_copybook es' tail' seqs') src2 ->
  (exists schemas, layouts_of_text src1 = Some schemas /\ layouts_of_text src2 = Some schemas)
  /\ forall (B : Type) (dcount : list B -> nat) (r : list B) (k : nat) (p : list step),
       located src1 k dcount r p = located src2 k dcount r p.
Proof. exact decorated_copybook_respelling. Qed.
Print Assumptions C12e_decorated_copybook_respelling.

(* ... and of C12d_respelling_values *)
Theorem C12e_decorated_copybook_values : forall es tail seqs es' tail' seqs' (src1 src2 : text),
  Forall2 same_clauses es es' ->
  copybook_ok es tail seqs = true -> copybook_ok es' tail' seqs' = true ->
  forallb respelling_domain es = true -> forallb respelling_domain es' = true ->
  text_values_ok es = true ->
  text_decorated (print_copybook es tail seqs) src1 -> text_decorated (print_copybook es' tail' seqs') src2 ->
  exists xf xf', forest_of_entries es = Some xf /\ forest_of_entries es' = Some xf'
       /\ map kinds_of xf = map kinds_of xf'
       /\ forall (k : nat) (dcount : list N -> nat) (r : list N) (p : list step),
            value_in_text src1 xf k dcount r p = value_in_text src2 xf' k dcount r p.
Proof. exact decorated_copybook_values. Qed.
Print Assumptions C12e_decorated_copybook_values.

(* a card deck, decorated or not, against the printed copybook of the same entries up to layout: the same outcome *)
Theorem C12e_deck_same_core : forall d es tail (src' : text) es0 tail0 seqs0,
  d <> [] -> deck_ok d = true -> forallb ce_ok es = true -> forallb is_ws tail = true -> deck_code d = code_text es tail ->
  text_decorated (deck_text d) src' ->
  copybook_ok es0 tail0 seqs0 = true -> Forall2 same_core es0 es ->
  schemas_of_text src' = schemas_of_text (print_copybook es0 tail0 seqs0)
  /\ layouts_of_text src' = layouts_of_text (print_copybook es0 tail0 seqs0).
Proof. exact deck_same_core. Qed.
Print Assumptions C12e_deck_same_core.

(* ------------------------------------------------------------------ 6. REPLACING (not reachable through schema_iter) *)
Theorem C12e_noise_replacing : forall (src src' : text) repl, text_decorated src src' ->
  schemas_of_rf (reference_format (lines_of_text src') repl) = schemas_of_rf (reference_format (lines_of_text src) repl)
  /\ layouts_of_rf (reference_format (lines_of_text src') repl) = layouts_of_rf (reference_format (lines_of_text src) repl).
Proof. exact noise_replacing. Qed.
Print Assumptions C12e_noise_replacing.

Theorem C12e_replacing_schemas : forall (src : text) repl, repl_ok repl = true ->
  schemas_of_rf (reference_format (lines_of_text src) repl)
  = schemas_of_rf (join_all (map (fun c => (fst c, subst_all repl (snd c))) (cards (lines_of_text src)))).
Proof. exact replacing_schemas. Qed.
Print Assumptions C12e_replacing_schemas.

(* ------------------------------------------------------------------ non-vacuity *)
Import SR.Props.C07b.
Open Scope N_scope.

(* a line written as a string, without its line feed *)
Definition L (s : string) : line := map N_of_ascii (list_ascii_of_string s).
Definition LF (s : string) : line := L s ++ [10].

(* ---- A. the record of Props/C07b.v as print_copybook prints it, and as it is found in a library ----
          01 CUST-REC .                                      000100 01 CUST-REC .
              05  CUST-NO PIC 9(5) .                         000150* CUSTOMER NUMBER, ASSIGNED BY BILLING
              05 FILLER, PICTURE IS X(3) USAGE IS DISPLAY.   000200     05  CUST-NO PIC 9(5) .
              05 T OCCURS 3 TIMES                                   EJECT
                  PIC S9(3) COMP-3.                          000300     05 FILLER, PICTURE IS X(3) USAGE IS DISPLAY.
                                                             (an empty line)
                                                             000400     05 T OCCURS 3 TIMES
                                                                   * THREE MONTHLY AMOUNTS
                                                             000500         PIC S9(3) COMP-3.
                                                                   D    05 DEBUG-ONLY PIC X.
   the comment between the two lines of entry T stands between a line and the line that continues the entry *)
Definition ex_plain : text := print_copybook ex_es [] [].
Definition ex_numbered : list line :=
  [LF "000100 01 CUST-REC ."; LF "000200     05  CUST-NO PIC 9(5) ."; LF "000300     05 FILLER, PICTURE IS X(3) USAGE IS DISPLAY.";
   LF "000400     05 T OCCURS 3 TIMES"; LF "000500         PIC S9(3) COMP-3."].
Definition ex_library_lines : list line :=
  [LF "000100 01 CUST-REC ."; LF "000150* CUSTOMER NUMBER, ASSIGNED BY BILLING"; LF "000200     05  CUST-NO PIC 9(5) .";
   LF "       EJECT"; LF "000300     05 FILLER, PICTURE IS X(3) USAGE IS DISPLAY."; [10];
   LF "000400     05 T OCCURS 3 TIMES"; LF "      * THREE MONTHLY AMOUNTS"; LF "000500         PIC S9(3) COMP-3.";
   LF "      D    05 DEBUG-ONLY PIC X."].
Definition ex_library : text := concat ex_library_lines.

Example C12e_example_decorated :
  text_lines ex_library_lines = true
  /\ lines_of_text ex_plain <> ex_numbered
  /\ Forall2 seq_variant (lines_of_text ex_plain) ex_numbered
  /\ inserted plain_noise ex_numbered ex_library_lines
  /\ text_decorated ex_plain ex_library.
Proof.
  split; [vm_compute; reflexivity|]. split; [vm_compute; discriminate|].
  split; [apply areasb_sound; vm_compute; reflexivity|]. split; [apply insertedb_sound; vm_compute; reflexivity|].
  apply (text_chain_sound ex_plain ex_library [ex_numbered; ex_library_lines]); vm_compute; reflexivity.
Qed.

(* one comment line between the two lines of entry T: the hypotheses of C12e_insert_noise_line *)
Example C12e_example_insert :
  exists a b, lines_of_text ex_plain = a ++ b /\ List.length a = 4%nat
    /\ text_lines (a ++ b) = true /\ text_lines (a ++ LF "      * THREE MONTHLY AMOUNTS" :: b) = true
    /\ plain_noise (LF "      * THREE MONTHLY AMOUNTS") = true
    /\ (exists docs, schemas_of_text (concat (a ++ LF "      * THREE MONTHLY AMOUNTS" :: b)) = Done (Ok docs)).
Proof.
  exists (firstn 4 (lines_of_text ex_plain)), (skipn 4 (lines_of_text ex_plain)).
  split; [symmetry; apply firstn_skipn|]. split; [vm_compute; reflexivity|]. split; [vm_compute; reflexivity|].
  split; [vm_compute; reflexivity|]. split; [vm_compute; reflexivity|]. eexists. vm_compute. reflexivity.
Qed.

(* the hypotheses of C12e_decorated_copybook_to_layout hold, the two texts differ, and what the theorem promises is there: the
   same documents, one layout, the same places (the real LocationMaker agrees: T(2) at 12-14, the record 14 bytes long) *)
Example C12e_example_decorated_layout :
  copybook_ok ex_es [] [] = true /\ text_layout_ok ex_es = true /\ text_values_ok ex_es = true
  /\ ex_library <> ex_plain
  /\ schemas_of_text ex_library = schemas_of_text ex_plain
  /\ (exists docs, schemas_of_text ex_library = Done (Ok docs))
  /\ layouts_of_text ex_library = layouts_of_text ex_plain
  /\ (exists s, layouts_of_text ex_library = Some [s])
  /\ located ex_library 0 (fun _ : list unit => O) [] [] = Some (Ok (0, 14)%nat)
  /\ located ex_library 0 (fun _ : list unit => O) [] (steps_of [NName [84]; NIndex 2; NName [84]]) = Some (Ok (12, 14)%nat)
  /\ located ex_plain 0 (fun _ : list unit => O) [] (steps_of [NName [84]; NIndex 2; NName [84]]) = Some (Ok (12, 14)%nat).
Proof.
  split; [vm_compute; reflexivity|]. split; [vm_compute; reflexivity|]. split; [vm_compute; reflexivity|].
  split; [vm_compute; discriminate|]. split; [vm_compute; reflexivity|]. split; [eexists; vm_compute; reflexivity|].
  split; [vm_compute; reflexivity|]. split; [eexists; vm_compute; reflexivity|]. vm_compute. repeat split; reflexivity.
Qed.

(* the decorated text against a decorated RESPELLING (ex_es' of Props/C07b.v, numbered and commented): the hypotheses of
   C12e_decorated_copybook_respelling / _values hold *)
Definition ex_library' : text :=
  concat (LF "      * THE SAME RECORD, SPELLED OTHERWISE" :: lines_of_text (print_copybook ex_es' [] []) ++ [LF "       SKIP1"]).
Example C12e_example_decorated_respelling :
  Forall2 same_clauses ex_es ex_es' /\ copybook_ok ex_es' [] [] = true
  /\ forallb respelling_domain ex_es = true /\ forallb respelling_domain ex_es' = true
  /\ text_decorated (print_copybook ex_es' [] []) ex_library'
  /\ layouts_of_text ex_library = layouts_of_text ex_library'
  /\ located ex_library' 0 (fun _ : list unit => O) [] (steps_of [NName [84]; NIndex 2; NName [84]]) = Some (Ok (12, 14)%nat).
Proof.
  split; [exact (proj1 C07b_example_respelling)|]. split; [vm_compute; reflexivity|]. split; [vm_compute; reflexivity|].
  split; [vm_compute; reflexivity|]. split.
  - apply (text_chain_sound _ ex_library' [lines_of_text ex_library']); vm_compute; reflexivity.
  - vm_compute. split; reflexivity.
Qed.

(* ---- B. the same record as an 80-column CARD DECK: every code area padded to column 72, columns 73-80 free.
        ex_deck0: columns 1-6 and 73-80 blank / empty;  ex_deck1: numbered, the deck name CUSTREC1 in columns 73-80.
        The entries the deck reads as (ex_es80) are ex_es with every line feed replaced by the padding - also the line break inside
        entry T, so ex_es80 is a RESPELLING of ex_es (another separator), not a relayout.
          000100 01 CUST-REC .                                                    CUSTREC1
          000200     05  CUST-NO PIC 9(5) .                                       CUSTREC1   ...                       ---- *)
Definition pad_card (sq id l : line) : card_image :=
  let c := removelast (skipn 7 l) in
  {| ci_seq := sq; ci_code := c ++ repeat 32 (65 - List.length c); ci_id := id ++ [10] |}.
Definition deck_of (sqs ids ls : list line) : list card_image :=
  map (fun p => pad_card (fst (fst p)) (snd (fst p)) (snd p)) (combine (combine sqs ids) ls).

Definition ex_deck0 : list card_image := deck_of (repeat blank6 5) (repeat [] 5) (lines_of_text ex_plain).
Definition ex_deck1 : list card_image := deck_of ex_seqs (repeat (L "CUSTREC1") 5) (lines_of_text ex_plain).

Definition mk80 (d1 d2 : N) (cs : list clause) (sps : spelling) (lead gap : line) : centry :=
  {| ce_d1 := d1; ce_d2 := d2; ce_cs := cs; ce_sps := sps; ce_lead := lead; ce_gap := gap; ce_term := 32 |}.
Definition ex_es80 : list centry :=
  [mk80 48 49 [CName n_CUST_REC] [] [] [32];
   mk80 48 53 [CName n_CUST_NO; CPicture p_9_5] [] (repeat 32 51 ++ ind4) [32; 32];
   mk80 48 53 [CFiller; CPicture p_X_3; CUsage 0]
        [(sp0, [44; 32]); ({| ch := [1; 1]; masks := []; seps := [] |}, [32]); ({| ch := [2; 0]; masks := []; seps := [] |}, [])]
        (repeat 32 38 ++ ind4) [32];
   mk80 48 53 [CName [84]; COccurs [51] None; CPicture p_S9_3; CUsage 2]
        [(sp0, [32]); ({| ch := [1]; masks := []; seps := [] |}, repeat 32 42 ++ repeat 32 8); (sp0, [32]); (sp0, [])]
        (repeat 32 16 ++ ind4) [32]].
Definition ex_tail80 : line := repeat 32 39.

(* every card is 7 + 65 + 8 characters and a line feed; the deck is in the domain and reads as ex_es80 *)
Example C12e_example_deck :
  map (fun c => List.length (ci_line c)) ex_deck1 = [81; 81; 81; 81; 81]%nat
  /\ ex_deck1 <> [] /\ deck_ok ex_deck0 = true /\ deck_ok ex_deck1 = true
  /\ forallb ce_ok ex_es80 = true /\ forallb is_ws ex_tail80 = true
  /\ deck_code ex_deck1 = code_text ex_es80 ex_tail80 /\ deck_code ex_deck0 = code_text ex_es80 ex_tail80
  /\ sentences_of_text (deck_text ex_deck1) = Ok (spec_sentences (map ce_print ex_es80)).
Proof.
  split; [vm_compute; reflexivity|]. split; [vm_compute; discriminate|]. vm_compute. repeat split; reflexivity.
Qed.

(* columns 1-6 and 73-80 are a [Forall2 seq_variant] step (the identification area behind a full code area) ... *)
Example C12e_example_deck_areas :
  Forall2 seq_variant (map ci_line ex_deck0) (map ci_line ex_deck1)
  /\ text_decorated (deck_text ex_deck0) (deck_text ex_deck1).
Proof.
  split; [apply areasb_sound; vm_compute; reflexivity|].
  apply (text_chain_sound _ _ [map ci_line ex_deck1]); vm_compute; reflexivity.
Qed.

(* ... and the deck with comment cards (numbered, with the deck name), a bare EJECT line and a blank card added *)
Definition ex_deck_library : text :=
  match map ci_line ex_deck1 with
  | [c1; c2; c3; c4; c5] =>
      concat [c1; LF "000150* CUSTOMER NUMBER, ASSIGNED BY BILLING                                CUSTREC1"; c2; LF "       EJECT"; c3;
              LF "                                                                                "; c4;
              LF "000450* THREE MONTHLY AMOUNTS                                                   CUSTREC1"; c5]
  | _ => []
  end.

(* the hypotheses of C12e_reading_respelling_layout / _located / _values (deck against the printed copybook), of
   C12e_reading_to_layout / _values (the deck alone) and of C12e_decorated_reads_as hold; the promised equalities are there *)
Example C12e_example_deck_layout :
  text_decorated (deck_text ex_deck0) ex_deck_library
  /\ Forall2 same_clauses ex_es ex_es80 /\ forallb respelling_domain ex_es80 = true
  /\ text_layout_ok ex_es80 = true /\ text_values_ok ex_es80 = true /\ bridge_domain ex_es80 = true
  /\ ex_deck_library <> deck_text ex_deck1 /\ deck_text ex_deck1 <> ex_plain
  /\ schemas_of_text ex_deck_library = schemas_of_text ex_plain
  /\ layouts_of_text ex_deck_library = layouts_of_text ex_plain
  /\ layouts_of_text (deck_text ex_deck1) = layouts_of_text ex_plain
  /\ (exists s, layouts_of_text ex_deck_library = Some [s])
  /\ located ex_deck_library 0 (fun _ : list unit => O) [] (steps_of [NName [84]; NIndex 2; NName [84]]) = Some (Ok (12, 14)%nat)
  /\ located ex_deck_library 0 (fun _ : list unit => O) [] [] = Some (Ok (0, 14)%nat).
Proof.
  split.
  { apply (text_chain_sound _ ex_deck_library [map ci_line ex_deck1; lines_of_text ex_deck_library]); vm_compute; reflexivity. }
  split.
  { apply Forall2_cons; [split; [reflexivity|split; [reflexivity|apply Permutation_refl]]|].
    apply Forall2_cons; [split; [reflexivity|split; [reflexivity|apply Permutation_refl]]|].
    apply Forall2_cons; [split; [reflexivity|split; [reflexivity|apply Permutation_refl]]|].
    apply Forall2_cons; [split; [reflexivity|split; [reflexivity|apply Permutation_refl]]|apply Forall2_nil]. }
  split; [vm_compute; reflexivity|]. split; [vm_compute; reflexivity|]. split; [vm_compute; reflexivity|]. split; [vm_compute; reflexivity|].
  split; [vm_compute; discriminate|]. split; [vm_compute; discriminate|]. split; [vm_compute; reflexivity|].
  split; [vm_compute; reflexivity|]. split; [vm_compute; reflexivity|]. split; [eexists; vm_compute; reflexivity|].
  vm_compute. split; reflexivity.
Qed.

(* the decoded values too: the deck and the printed copybook on a record of arbitrary bytes (Props/C12d.v ex_bytes) *)
Example C12e_example_deck_values :
  map (fun p => value_in_text ex_deck_library (SR.Props.C12d.ex_xf ex_es80) 0 (fun _ => O) SR.Props.C12d.ex_bytes (steps_of p))
      [[NName n_CUST_NO]; [NName [84]; NIndex 0; NName [84]]; [NName [84]; NIndex 2; NName [84]]]
  = map (fun p => value_in_text ex_plain (SR.Props.C12d.ex_xf ex_es) 0 (fun _ => O) SR.Props.C12d.ex_bytes (steps_of p))
      [[NName n_CUST_NO]; [NName [84]; NIndex 0; NName [84]]; [NName [84]; NIndex 2; NName [84]]]
  /\ value_in_text ex_deck_library (SR.Props.C12d.ex_xf ex_es80) 0 (fun _ => O) SR.Props.C12d.ex_bytes (steps_of [NName n_CUST_NO])
     = Some (Some (Ok (PAtom (VDec (SR.Base.Dec.mkdec false 1234 0))))).
Proof. vm_compute. split; reflexivity. Qed.

(* ---- C. a deck against the printed copybook of the same entries up to layout (C12e_deck_same_core), with REDEFINES:
        ex_redef of Props/C07b.v (one entry per line), every line feed replaced by the padding ---- *)
Fixpoint relay (carry : line) (es : list centry) : list centry * line :=
  match es with
  | [] => ([], carry)
  | e :: r =>
      let n := (List.length (print_entry (ce_print e)) - 1)%nat in
      let (r', t) := relay (repeat 32 (65 - n - 1)) r in
      ({| ce_d1 := ce_d1 e; ce_d2 := ce_d2 e; ce_cs := ce_cs e; ce_sps := ce_sps e; ce_lead := carry ++ ce_lead e;
          ce_gap := ce_gap e; ce_term := 32 |} :: r', t)
  end.
Definition ex_redef80 : list centry := fst (relay [] ex_redef).
Definition ex_redef_tail80 : line := snd (relay [] ex_redef).
Definition ex_redef_deck : list card_image :=
  deck_of (repeat (L "R00000") 4) (repeat (L "REDEFDK ") 4) (lines_of_text (print_copybook ex_redef [] [])).

Example C12e_example_deck_same_core :
  ex_redef_deck <> [] /\ deck_ok ex_redef_deck = true /\ forallb ce_ok ex_redef80 = true /\ forallb is_ws ex_redef_tail80 = true
  /\ deck_code ex_redef_deck = code_text ex_redef80 ex_redef_tail80
  /\ copybook_ok ex_redef [] [] = true /\ Forall2 same_core ex_redef ex_redef80
  /\ schemas_of_text (deck_text ex_redef_deck) = schemas_of_text (print_copybook ex_redef [] [])
  /\ located (deck_text ex_redef_deck) 0 (fun _ : list unit => O) [] (steps_of [NName [66]]) = Some (Ok (0, 3)%nat).
Proof.
  split; [vm_compute; discriminate|]. split; [vm_compute; reflexivity|]. split; [vm_compute; reflexivity|]. split; [vm_compute; reflexivity|].
  split; [vm_compute; reflexivity|]. split; [vm_compute; reflexivity|]. split.
  { repeat (apply Forall2_cons; [repeat split|]). apply Forall2_nil. }
  split; vm_compute; reflexivity.
Qed.

(* ---- D. only the code areas matter: a minus in column 7 (continuation) or a blank ----
        "       01 X" / "      -    PIC X."   against   "       01 X" / "           PIC X."  *)
Definition ex_cont : text := LF "       01 X" ++ LF "      -    PIC X.".
Definition ex_nocont : text := LF "       01 X" ++ LF "           PIC X.".
Example C12e_example_code_areas :
  reference_format (lines_of_text ex_cont) [] = Ok [LF "01 X" ++ LF "    PIC X."]
  /\ reference_format (lines_of_text ex_nocont) [] = Ok [LF "01 X"; LF "    PIC X."]
  /\ code_of (lines_of_text ex_cont) = code_of (lines_of_text ex_nocont)
  /\ (exists docs, schemas_of_text ex_cont = Done (Ok docs)).
Proof. split; [vm_compute; reflexivity|]. split; [vm_compute; reflexivity|]. split; [vm_compute; reflexivity|]. eexists. vm_compute. reflexivity. Qed.

(* ---- E. REPLACING with a hand-made chain: 'N' -> 5 turns  05 A PIC X('N').  into a field of five bytes; noise does not interfere ---- *)
Definition ex_repl : list (line * line) := [(L "'N'", L "5")].
Definition ex_tmpl : text := LF "       01 R." ++ LF "           05 A PIC X('N').".
Definition ex_tmpl' : text := LF "000100 01 R." ++ LF "      * THE LENGTH IS SET BY THE CALLER" ++ LF "000200     05 A PIC X('N').".
Example C12e_example_replacing :
  repl_ok ex_repl = true /\ text_decorated ex_tmpl ex_tmpl'
  /\ layouts_of_rf (reference_format (lines_of_text ex_tmpl') ex_repl)
     = Some [Layout.JObj (Some (KName (name_id [82]))) (PCons (KName (name_id [65])) (JAtom (Some (KName (name_id [65]))) 5) PNil)].
Proof.
  split; [vm_compute; reflexivity|]. split; [|vm_compute; reflexivity].
  apply (text_chain_sound _ ex_tmpl' [[LF "000100 01 R."; LF "000200     05 A PIC X('N')."]; lines_of_text ex_tmpl']); vm_compute; reflexivity.
Qed.
