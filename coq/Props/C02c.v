(* C02, second layer - the round trips happen in buffers of the width the layout uses; what becomes of the
   implied decimal point of a binary item; the concrete decoder of an OCCURS DEPENDING ON counter.
   Companion of Props/C02.v; only property theorems, each closed by an exact lemma of
   Proofs/EstructWidthP.v.  No engine of its own: the model is C02's (Model/Estruct.v, tied to /repo by the
   correspondence run of ./check C02).

   1. Field width.  C02's round trips are stated for the image [enc_packed ds s] / [enc_zoned ds z] /
      [enc_be w v], whatever its length.  C02c_*_field_roundtrip add: that image has EXACTLY the number of
      bytes the size function (estruct.calcsize, which lays out the record) gives the item - for packed items,
      unsigned DISPLAY items and binary items outside the finding K-signed-binary-size (C04).

      Signed DISPLAY items are different, and stated as they are: the project counts the S of the picture
      as a position, so the field is ONE BYTE WIDER than the image (C04c_display_signed_field:
      calcsize = 1 + length image), whereas a mainframe stores S9(n) DISPLAY in n bytes with the sign in the
      zone of the last digit.  The decoder takes the low nibble of EVERY byte of the buffer it is handed as a
      digit and the sign from the zone of the last byte; handed the whole field, image at its end, it reads
      the FIRST byte of the field - the position counted for the S - as one more, most significant, digit:
        C02c_display_signed_extra_byte        value = lo(b) * 10^digits + stored value
        C02c_display_signed_extra_byte_zero   the stored value comes back only if that byte's low nibble is 0
                                              (F0, 40 space, 60 minus, 00)
        C02c_display_signed_extra_byte_bad    a low nibble above 9 there (4E plus) is a ValueError
      That byte is C18's known finding K-sign-position ([sign_position_set]: first byte of the buffer of a
      signed DISPLAY item with a non-zero low nibble): F1 F2 F3 in S99 decodes to 123.

   2. Binary items with an implied decimal point.  C02_binary_roundtrip returns [VInt v] for ANY number
      of fraction digits.  The property text says "an exact decimal carrying the picture's implied scale ...
      or an int for binary items", so this is allowed by the letter; what a user sees is this: a field
      declared PIC S9(3)V99 COMP that stores 123.45 (12345 hundredths, the fullword 00 00 30 39) comes back as the
      int 12345 - one hundred times the stored amount - while the same picture as COMP-3 or DISPLAY comes back
      as Decimal('123.45').  The scale is silently dropped; nothing downstream restores it (the "decimal"
      conversion is Decimal(12345)).  C02c_binary_ignores_scale states it for every picture with a fraction,
      C02c_binary_scale_blind says the decoder cannot tell S9(3)V99 from S9(5): same result on every buffer.

   3. The counter of OCCURS DEPENDING ON.  C06 / C10 are proved for an arbitrary total [dcount].
      [dcount_zoned] (Model/ZonedCounter.v) is the one the code uses on EBCDIC records:
      int(unpack(<unsigned DISPLAY picture of the field's length>, bytes)).  From C02's zoned round trip:
      the image of a digit string with a positive zone (F unsigned, C, A, E) decodes to the string's value.
      Props/C06c.v instantiates C06's theorems with it. *)
From Coq Require Import ZArith NArith List Bool.
Import ListNotations.
Require Import SR.Base.Res SR.Base.Dec SR.Spec.Encode SR.Model.Estruct SR.Model.ZonedCounter.
Require Import SR.Proofs.EstructP SR.Proofs.EstructWidthP.
Open Scope N_scope.

(* ------------------------------------------------------------------ 1. round trip in a buffer of the field's width *)

Theorem C02c_packed_field_roundtrip : forall (u : N) (s : bool) (m n : nat) (ds : list N) (sg : N),
  In u packed_spellings -> (1 <= m + n <= 28)%nat -> length ds = (m + n)%nat ->
  forallb is_digit ds = true -> valid_sign sg = true ->
  calcsize u (mkpic s m n) = Ok (N.of_nat (length (enc_packed ds sg)))
  /\ unpack u (mkpic s m n) (enc_packed ds sg) = Ok (VDec (mkdec (is_neg_sign sg) (val ds) (- Z.of_nat n))).
Proof. exact packed_field_roundtrip. Qed.
Print Assumptions C02c_packed_field_roundtrip.

Theorem C02c_display_unsigned_field_roundtrip : forall (m n : nat) (ds : list N) (z : N),
  (1 <= m + n <= 28)%nat -> length ds = (m + n)%nat -> forallb is_digit ds = true -> valid_sign z = true ->
  calcsize display_spelling (mkpic false m n) = Ok (N.of_nat (length (enc_zoned ds z)))
  /\ unpack display_spelling (mkpic false m n) (enc_zoned ds z)
     = Ok (VDec (mkdec (is_neg_sign z) (val ds) (- Z.of_nat n))).
Proof. exact display_unsigned_field_roundtrip. Qed.
Print Assumptions C02c_display_unsigned_field_roundtrip.

Theorem C02c_binary_field_roundtrip : forall (u : N) (s : bool) (m n w : nat) (v : Z),
  In u binary_spellings -> spec_binary_width (m + n) = Some w ->
  s && ((m + n =? 4)%nat || (m + n =? 9)%nat) = false ->
  (- 2 ^ (8 * Z.of_nat w - 1) <= v < 2 ^ (8 * Z.of_nat w - 1))%Z ->
  calcsize u (mkpic s m n) = Ok (N.of_nat (length (enc_be w v)))
  /\ unpack u (mkpic s m n) (enc_be w v) = Ok (VInt v).
Proof. exact binary_field_roundtrip. Qed.
Print Assumptions C02c_binary_field_roundtrip.

(* signed DISPLAY: the field is b :: image (one byte more, C04c_display_signed_field); what the decoder makes of it *)
Theorem C02c_display_signed_extra_byte : forall (p : pic) (ds : list N) (z b : N),
  ds <> [] -> forallb is_digit ds = true -> valid_sign z = true -> (length ds <= 27)%nat ->
  is_digit (lo b) = true ->
  unpack display_spelling p (b :: enc_zoned ds z)
  = Ok (VDec (mkdec (is_neg_sign z) (lo b * 10 ^ N.of_nat (length ds) + val ds) (- Z.of_nat (p_frac p)))).
Proof. exact display_signed_extra_byte. Qed.
Print Assumptions C02c_display_signed_extra_byte.

Theorem C02c_display_signed_extra_byte_zero : forall (p : pic) (ds : list N) (z b : N),
  ds <> [] -> forallb is_digit ds = true -> valid_sign z = true -> (length ds <= 27)%nat ->
  lo b = 0 ->
  unpack display_spelling p (b :: enc_zoned ds z)
  = Ok (VDec (mkdec (is_neg_sign z) (val ds) (- Z.of_nat (p_frac p)))).
Proof. exact display_signed_extra_byte_zero. Qed.
Print Assumptions C02c_display_signed_extra_byte_zero.

Theorem C02c_display_signed_extra_byte_bad : forall (p : pic) (ds : list N) (z b : N),
  is_digit (lo b) = false -> unpack display_spelling p (b :: enc_zoned ds z) = Err ValueError.
Proof. exact display_signed_extra_byte_bad. Qed.
Print Assumptions C02c_display_signed_extra_byte_bad.

(* ------------------------------------------------------------------ 2. binary items with an implied decimal point *)

Theorem C02c_binary_ignores_scale : forall (u : N) (p : pic) (w : nat) (v : Z),
  In u binary_spellings -> (0 < p_frac p)%nat -> spec_binary_width (p_int p + p_frac p) = Some w ->
  (- 2 ^ (8 * Z.of_nat w - 1) <= v < 2 ^ (8 * Z.of_nat w - 1))%Z ->
  unpack u p (enc_be w v) = Ok (VInt v).
Proof. exact binary_ignores_scale. Qed.
Print Assumptions C02c_binary_ignores_scale.

Theorem C02c_binary_scale_blind : forall (u : N) (p q : pic) (buffer : list N),
  In u binary_spellings -> (p_int p + p_frac p = p_int q + p_frac q)%nat ->
  unpack u p buffer = unpack u q buffer.
Proof. exact binary_scale_blind. Qed.
Print Assumptions C02c_binary_scale_blind.

(* ------------------------------------------------------------------ 3. the OCCURS DEPENDING ON counter *)

Theorem C02c_counter_roundtrip : forall (ds : list N) (z : N),
  ds <> [] -> forallb is_digit ds = true -> (length ds <= 28)%nat -> In z pos_signs ->
  dcount_zoned (enc_zoned ds z) = N.to_nat (val ds).
Proof. exact dcount_zoned_enc. Qed.
Print Assumptions C02c_counter_roundtrip.

(* the unsigned item PIC 9(k): zone F *)
Theorem C02c_counter_roundtrip_unsigned : forall ds : list N,
  ds <> [] -> forallb is_digit ds = true -> (length ds <= 28)%nat ->
  dcount_zoned (enc_zoned ds 15) = N.to_nat (val ds).
Proof. exact dcount_zoned_unsigned. Qed.
Print Assumptions C02c_counter_roundtrip_unsigned.

(* ------------------------------------------------------------------ non-vacuity *)

(* -123.45 in S9(3)V99 COMP-3: three bytes 12 34 5D, the size function says three.
   0042 in 9(4): F0 F0 F4 F2, four.  -2 in S9(3) COMP: FF FE, two. *)
Example C02c_examples_fields :
  calcsize 8 (mkpic true 3 2) = Ok 3 /\ length (enc_packed [1; 2; 3; 4; 5] 13) = 3%nat
  /\ unpack 8 (mkpic true 3 2) (enc_packed [1; 2; 3; 4; 5] 13) = Ok (VDec (mkdec true 12345 (-2)))
  /\ calcsize 11 (mkpic false 4 0) = Ok 4 /\ enc_zoned [0; 0; 4; 2] 15 = [240; 240; 244; 242]
  /\ unpack 11 (mkpic false 4 0) [240; 240; 244; 242] = Ok (VDec (mkdec false 42 0))
  /\ calcsize 10 (mkpic true 3 0) = Ok 2 /\ enc_be 2 (-2) = [255; 254]
  /\ unpack 10 (mkpic true 3 0) [255; 254] = Ok (VInt (-2)).
Proof. vm_compute. repeat split; reflexivity. Qed.

(* S99 DISPLAY holding +12: the image is F1 C2 (two bytes), the field three.  With F0 or a space in front the
   12 comes back; with F7 in front the result is 712 (does not fit the picture: K-sign-position); with the
   plus sign 4E of SIGN LEADING SEPARATE it is a ValueError; with the minus sign 60 in front of F1 F2 the result
   is PLUS 12 (low nibble 0 read as a digit, sign from the zone F of the last byte). *)
Example C02c_examples_signed_display :
  calcsize 11 (mkpic true 2 0) = Ok 3 /\ enc_zoned [1; 2] 12 = [241; 194]
  /\ unpack 11 (mkpic true 2 0) [240; 241; 194] = Ok (VDec (mkdec false 12 0))
  /\ unpack 11 (mkpic true 2 0) [64; 241; 194] = Ok (VDec (mkdec false 12 0))
  /\ unpack 11 (mkpic true 2 0) [247; 241; 194] = Ok (VDec (mkdec false 712 0))
  /\ is_digit (lo 247) = true /\ lo 240 = 0 /\ lo 64 = 0 /\ is_digit (lo 78) = false
  /\ unpack 11 (mkpic true 2 0) [78; 241; 194] = Err ValueError
  /\ unpack 11 (mkpic true 2 0) [96; 241; 242] = Ok (VDec (mkdec false 12 0))
  /\ sign_position_set (mkpic true 2 0) [247; 241; 194] = true.
Proof. vm_compute. repeat split; reflexivity. Qed.

(* S9(3)V99 COMP storing 123.45 = 12345 hundredths in a fullword 00 00 30 39: the int 12345.
   The same picture as COMP-3 gives the decimal 123.45 = 12345E-2.  S9(5) COMP gives the same int. *)
Example C02c_examples_binary_scale :
  (0 < p_frac (mkpic true 3 2))%nat /\ spec_binary_width (3 + 2) = Some 4%nat
  /\ enc_be 4 12345 = [0; 0; 48; 57]
  /\ unpack 10 (mkpic true 3 2) [0; 0; 48; 57] = Ok (VInt 12345)
  /\ unpack 10 (mkpic true 5 0) [0; 0; 48; 57] = Ok (VInt 12345)
  /\ unpack 8 (mkpic true 3 2) (enc_packed [1; 2; 3; 4; 5] 12) = Ok (VDec (mkdec false 12345 (-2))).
Proof. vm_compute. repeat split; try reflexivity; repeat constructor. Qed.

(* a counter PIC 99 holding 07 is F0 F7 and counts 7; with zone C on the last digit (signed item, positive) too;
   a corrupt counter counts 0 in the model (the code raises: outside the theorems, see Model/ZonedCounter.v) *)
Example C02c_examples_counter :
  enc_zoned [0; 7] 15 = [240; 247] /\ dcount_zoned [240; 247] = 7%nat
  /\ dcount_zoned [240; 199] = 7%nat /\ dcount_zoned [241; 242; 243] = 123%nat
  /\ In 15 pos_signs /\ In 12 pos_signs /\ In 10 pos_signs /\ In 14 pos_signs
  /\ dcount_zoned [240; 250] = 0%nat.
Proof. vm_compute. repeat split; auto 10. Qed.
