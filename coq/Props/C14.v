(* C14 - Workbooks are opened by suffix and always release their file.

   PARTIAL.  These are theorems about the model: the registry (Model/Registry.v, exact) and the
   life cycle (Model/Lifecycle.v).  What the operating system, the io module and the third-party
   readers do with descriptors enters the life-cycle model through the per-class table
   [class_kind] (and [accepts_file_object]); that table is not proved, it is compared with the
   running code on an exhaustive grid of traces by the correspondence check.  The shape of every
   close() (guard / the_file.close() / del) and the global registrations are read from the source.

   [with_block c m body]: constructor, body events until one raises, __exit__ = close.
   A body event is a read step that may raise anything ([Read (Some x)]), the body raising
   ([Raise]) or an explicit close ([Close]); [body] is an arbitrary list, so the raise point is
   arbitrary.  [os s] = descriptors open on the workbook's path. *)
From Coq Require Import NArith List.
Import ListNotations.
Require Import SR.Base.Res SR.Spec.Lifecycle SR.Model.Registry SR.Model.Lifecycle SR.Proofs.LifecycleP.

(* After ANY sequence of decorator applications: a suffix is opened with the class of the LAST
   application that mentions it (one constructor call), and a suffix that no application mentions
   is refused with NotImplementedError without any constructor call. *)
Theorem C14_registry : forall (ds : list (list (list N) * N)) (s : list N),
  (forall ds1 names c ds2,
      ds = ds1 ++ (names, c) :: ds2 -> In s names -> (forall d, In d ds2 -> ~ In s (fst d)) ->
      open_workbook (register_all ds) s = (Ok c, [Construct c]))
  /\ ((forall d, In d ds -> ~ In s (fst d)) ->
      open_workbook (register_all ds) s = (Err NotImplementedError, [])).
Proof. exact registry_last_wins. Qed.
Print Assumptions C14_registry.

(* The same as a function: the model agrees with the specification used by the judge. *)
Theorem C14_registry_function : forall (ds : list (list (list N) * N)) (s : list N),
  open_workbook (register_all ds) s =
  match last_mention ds s with
  | Some c => (Ok c, [Construct c])
  | None => (Err NotImplementedError, [])
  end.
Proof. exact registry_matches_spec. Qed.
Print Assumptions C14_registry_function.

(* Histories: for EVERY interleaving of decorator applications and opens on a registry that
   already holds the registrations [pre] (fresh registry: pre = []; the global one: the
   decorators of the source), the i-th open answers with the class of the last registration
   made BEFORE it that mentions its suffix - in particular a registration made after a suffix
   has already been opened replaces the class for the next open - or refuses, constructing
   nothing, when none does.  ([history] in Spec/Lifecycle.v; [answer] as in C14_registry_function.) *)
Theorem C14_registry_history : forall (ops : list hop) (pre : list (list (list N) * N)),
  run_ops (register_all pre) ops = map answer (history pre ops).
Proof. exact run_ops_history. Qed.
Print Assumptions C14_registry_history.

(* In every registry state: a refusal is NotImplementedError, happens exactly for an absent key,
   and no constructor (hence no open) has run. *)
Theorem C14_unknown_suffix_opens_nothing : forall (r : registry) (s : list N) e tr,
  open_workbook r s = (Err e, tr) -> e = NotImplementedError /\ tr = [] /\ reg_get r s = None.
Proof. exact unknown_opens_nothing. Qed.
Print Assumptions C14_unknown_suffix_opens_nothing.

(* The unguarded release statement: every class, both modes, every body. *)
Definition C14_release_full : Prop :=
  forall c m body s1, construct c m (init m) = Ok s1 -> os (o_exit (with_block c m body)) = [].

(* Refuted by finding 1 (Numbers, empty body): the descriptor is still open after the block. *)
Theorem C14_release_refuted_1 : ~ C14_release_full.
Proof. exact release_refuted. Qed.
Print Assumptions C14_release_refuted_1.

(* Outside the finding: for every class, both modes, EVERY body (any events, a raise of any
   exception at any point, or none), once the constructor has succeeded: after the with statement
   no descriptor on the path is open, the caller's file object is closed, and one more close
   raises nothing and changes nothing. *)
Theorem C14_release : forall (c : cls) (m : mode) (body : list ev) (s1 : st),
  known_bad c m = false -> construct c m (init m) = Ok s1 ->
  let s := o_exit (with_block c m body) in
  os s = [] /\ caller_closed s = true /\ unpacker_close c s = Ok s.
Proof. exact release. Qed.
Print Assumptions C14_release.

(* The finding, for every body: the Numbers descriptor survives the with statement and goes
   away with a garbage collection. *)
Theorem C14_numbers_leaks_until_gc : forall body : list ev,
  let s := o_exit (with_block Numbers ByPath body) in
  os s = [1%nat] /\ os (gc s) = [].
Proof. exact numbers_leaks_until_gc. Qed.
Print Assumptions C14_numbers_leaks_until_gc.

(* close() never raises and leaves no the_file, in every state of every class ... *)
Theorem C14_close_never_raises : forall (c : cls) (s : st),
  exists s', unpacker_close c s = Ok s' /\ the_file s' = None.
Proof. exact close_total. Qed.
Print Assumptions C14_close_never_raises.

(* ... and close ; close = close (same state, no error). *)
Theorem C14_close_idempotent : forall (c : cls) (s s1 : st),
  unpacker_close c s = Ok s1 -> unpacker_close c s1 = Ok s1.
Proof. exact close_idempotent. Qed.
Print Assumptions C14_close_idempotent.

(* __exit__ neither swallows nor replaces the exception of the body. *)
Theorem C14_exit_transparent : forall (c : cls) (m : mode) (body : list ev) (s1 : st),
  construct c m (init m) = Ok s1 ->
  o_escaped (with_block c m body) = snd (fst (run_body c body s1)).
Proof. exact exit_transparent. Qed.
Print Assumptions C14_exit_transparent.

(* Non-vacuity. *)
(* .a registered for class 1, then .a and .b for class 2, then .b for class 3 *)
Example C14_registry_example :
  let ds := [([[46; 97]], 1); ([[46; 97]; [46; 98]], 2); ([[46; 98]], 3)]%N in
  open_workbook (register_all ds) [46; 97]%N = (Ok 2%N, [Construct 2%N])
  /\ open_workbook (register_all ds) [46; 98]%N = (Ok 3%N, [Construct 3%N])
  /\ open_workbook (register_all ds) [46; 99]%N = (Err NotImplementedError, []).
Proof. vm_compute. repeat split. Qed.

(* refused, registered, opened, re-registered AFTER the open, opened again *)
Example C14_history_example :
  run_ops [] [HOpen [46; 120]; HRegister [[46; 120]] 1; HOpen [46; 120]; HRegister [[46; 120]] 2; HOpen [46; 120]]%N
  = [(Err NotImplementedError, []); (Ok 1%N, [Construct 1%N]); (Ok 2%N, [Construct 2%N])].
Proof. vm_compute. reflexivity. Qed.

(* CSV by path, two reads, then the body raises: one descriptor inside, none afterwards *)
Example C14_release_example :
  known_bad CSV ByPath = false
  /\ (exists s1, construct CSV ByPath (init ByPath) = Ok s1)
  /\ o_log (with_block CSV ByPath [Read None; Read None; Raise]) = [1; 1; 1]%nat
  /\ o_escaped (with_block CSV ByPath [Read None; Read None; Raise]) = Some boom
  /\ os (o_exit (with_block CSV ByPath [Read None; Read None; Raise])) = [].
Proof. vm_compute. repeat split. eexists. reflexivity. Qed.

(* the caller's file object: open inside, closed afterwards *)
Example C14_caller_example :
  known_bad CobolEbcdic CallerFile = false
  /\ o_log (with_block CobolEbcdic CallerFile [Read None; Close; Read (Some ValueError)]) = [1; 1; 0]%nat
  /\ caller_closed (o_exit (with_block CobolEbcdic CallerFile [Read None; Close; Read (Some ValueError)])) = true.
Proof. vm_compute. repeat split. Qed.
