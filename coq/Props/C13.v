(* C13 - PICTURE strings: strict acceptance, repeat-count equivalence, one interpretation.
   Only the property theorems, each closed by an exact lemma of Proofs/PictureP.v.

   Strings are lists of code points of ANY length over ANY alphabet.
   Model/Picture.v:  dec_normalize / dec_parse = estruct.Representation.normalize_picture / parse (+ digit_groups,
                     zoned_decimal); gen_normalize = cobol_parser.normalize_picture; gen_numeric = the json_type test.
                     [Some (Ok r)] returned r, [Some (Err e)] raised e, [None] scanner out of fuel (never happens:
                     the theorems conclude Some).
   Spec/Picture.v:   sp_parse s = Some summary when s is a picture string, None otherwise; sp_expand s = the
                     denoted symbol sequence with every c(n) written as n copies of c.
   known_bad s = true iff s is in the trigger set of one of the eight known findings (Model/Picture.v, end). *)
From Coq Require Import NArith List Bool.
Import ListNotations.
Require Import SR.Base.Res SR.Spec.Picture SR.Model.Picture SR.Proofs.PictureP.
Require SR.Spec.SchemaTruth.
Open Scope N_scope.

(* ---- strict acceptance: ValueError, or the size is the number of positions denoted and no character of the
        string is foreign ---- *)
Theorem C13_strict : forall s : list N, known_bad s = false ->
  dec_parse s = Some (Err ValueError) \/
  exists r v, dec_parse s = Some (Ok r) /\ sp_parse s = Some v /\ p_size r = positions v /\
              forallb (fun c => negb (sp_foreign c)) s = true.
Proof. exact strict. Qed.
Print Assumptions C13_strict.

(* ---- one interpretation, scanners: both sides accept the same strings, with the same element list ---- *)
Theorem C13_agree_acceptance : forall s : list N, known_bad s = false ->
  (exists es, gen_normalize s = Some (Ok es) /\ dec_normalize s = Some (Ok es))
  \/ (gen_normalize s = Some (Err ValueError) /\ dec_normalize s = Some (Err ValueError)).
Proof. exact same_acceptance. Qed.
Print Assumptions C13_agree_acceptance.

(* needs only the absence of lower-case picture letters, not the whole guard *)
Theorem C13_agree_elements : forall (s : list N) eg ed, kb_lower s = false ->
  gen_normalize s = Some (Ok eg) -> dec_normalize s = Some (Ok ed) -> eg = ed.
Proof. exact scanners_agree. Qed.
Print Assumptions C13_agree_elements.

(* ---- one interpretation, classification: outside the known findings the generator's test on the raw text
        equals the decoder's zoned_decimal on every accepted picture ---- *)
Theorem C13_agree_class_full : forall (s : list N) r, known_bad s = false ->
  dec_parse s = Some (Ok r) -> gen_numeric s = p_zoned r.
Proof. exact agree_class. Qed.
Print Assumptions C13_agree_class_full.

(* the two halves, each against the specification: only S V P 9 denoted *)
Theorem C13_agree_class_partial : forall (s : list N) v, known_bad s = false ->
  sp_parse s = Some v -> gen_numeric s = numeric v.
Proof. exact gen_class. Qed.
Print Assumptions C13_agree_class_partial.

(* the decoder reads what the specification reads: size, integer and fraction digit counts, class *)
Theorem C13_decoder_summary : forall (s : list N) r v, known_bad s = false ->
  dec_parse s = Some (Ok r) -> sp_parse s = Some v ->
  p_size r = positions v /\ length (g_int (p_groups r)) = int_digits v /\
  length (g_frac (p_groups r)) = frac_digits v /\ p_zoned r = numeric v.
Proof. exact dec_summary. Qed.
Print Assumptions C13_decoder_summary.

(* ---- repeat-count equivalence: the expansion e of an accepted picture s is accepted too and has the same size,
        sign, integer and fraction digit counts and class ---- *)
Theorem C13_repeat_full : forall (s e : list N) r, known_bad s = false ->
  sp_expand s = Some e -> dec_parse s = Some (Ok r) ->
  exists r', dec_parse e = Some (Ok r') /\ p_size r' = p_size r /\
    g_sign (p_groups r') = g_sign (p_groups r) /\
    length (g_int (p_groups r')) = length (g_int (p_groups r)) /\
    length (g_frac (p_groups r')) = length (g_frac (p_groups r)) /\ p_zoned r' = p_zoned r.
Proof. exact repeat_full. Qed.
Print Assumptions C13_repeat_full.

(* the expansion stays outside the known findings and is its own expansion *)
Theorem C13_repeat_expansion_clean : forall (s e : list N) r, known_bad s = false ->
  sp_expand s = Some e -> dec_parse s = Some (Ok r) -> known_bad e = false /\ sp_expand e = Some e.
Proof. exact expansion_not_bad. Qed.
Print Assumptions C13_repeat_expansion_clean.

(* (kept) the earlier conditional form *)
Theorem C13_repeat_partial : forall (s e : list N) r r', known_bad s = false -> known_bad e = false ->
  sp_expand s = Some e -> dec_parse s = Some (Ok r) -> dec_parse e = Some (Ok r') ->
  p_size r' = p_size r /\ sp_parse e = sp_parse s.
Proof. exact repeat_partial. Qed.
Print Assumptions C13_repeat_partial.

(* ---- the decoder half under the decoder's own findings only.
   kb_dec (Proofs/PictureP.v) = the triggers of findings 6, 1, 2, 8, 7 restricted to the decoder-side scanner
   and zoned_decimal; the generator-side findings 3, 4, 5 play no role, so S9(5)V99 is covered.
   known_bad s = false implies kb_dec s = false. ---- *)
Theorem C13_decoder_summary_dec : forall (s : list N) r, kb_dec s = false -> dec_parse s = Some (Ok r) ->
  exists v, sp_parse s = Some v /\ p_size r = positions v /\ length (g_int (p_groups r)) = int_digits v /\
            length (g_frac (p_groups r)) = frac_digits v /\ p_zoned r = numeric v /\
            forallb (fun c => negb (sp_foreign c)) s = true.
Proof. exact dec_summary_dec. Qed.
Print Assumptions C13_decoder_summary_dec.

Theorem C13_kb_dec_weaker : forall s : list N, known_bad s = false -> kb_dec s = false.
Proof. exact kb_dec_weaker. Qed.
Print Assumptions C13_kb_dec_weaker.

(* ---- the bridge to the abstract pictures of the codec properties (C02, C04, C08, C18).
   Spec/SchemaTruth.v (C08): PNum signed m n rep_int rep_frac is printed by pic_text as  S? 9-run [V 9-run],
   PText alpha k rep as an A- or X-run; a run of k symbols is written out or as c(k) with the decimal numeral
   of k.  For ALL m, n, k (no bound), whatever the notation: ---- *)
Theorem C13_printed_numeric : forall s m n ri rf, (1 <= m + n)%nat ->
  exists r, dec_parse (SchemaTruth.pic_text (SchemaTruth.PNum s m n ri rf)) = Some (Ok r) /\
    p_size r = ((if s then 1 else 0) + m + n)%nat /\
    g_sign (p_groups r) = (if s then [83] else []) /\
    length (g_int (p_groups r)) = m /\ length (g_frac (p_groups r)) = n /\
    g_int (p_groups r) = repeat 57 m /\ g_frac (p_groups r) = repeat 57 n /\
    p_zoned r = true.
Proof. exact printed_numeric. Qed.
Print Assumptions C13_printed_numeric.

Theorem C13_printed_text : forall alpha k rep, (1 <= k)%nat ->
  exists r, dec_parse (SchemaTruth.pic_text (SchemaTruth.PText alpha k rep)) = Some (Ok r) /\
    p_size r = k /\ p_zoned r = false /\ g_sign (p_groups r) = [] /\ g_frac (p_groups r) = [].
Proof. exact printed_text. Qed.
Print Assumptions C13_printed_text.

(* generator side: the same element list as the decoder, independent of the notation *)
Theorem C13_printed_elements : forall p, pic_nonempty p = true ->
  exists es, dec_normalize (SchemaTruth.pic_text p) = Some (Ok es) /\
             gen_normalize (SchemaTruth.pic_text p) = Some (Ok es) /\
             es = match p with
                  | SchemaTruth.PNum s m n _ _ => num_elems s m n
                  | SchemaTruth.PText alpha k _ => [E KDigit (repeat (text_char alpha) k)]
                  end.
Proof. exact printed_elements. Qed.
Print Assumptions C13_printed_elements.

(* every well-formed picture of C08 is covered *)
Theorem C13_wf_pic_nonempty : forall p, SchemaTruth.wf_pic p = true -> pic_nonempty p = true.
Proof. exact wf_pic_nonempty. Qed.
Print Assumptions C13_wf_pic_nonempty.

(* finding 4, stated exactly: the generator classifies a printed numeric picture as numeric iff no digit run is
   written with a repeat count (the decoder says numeric in every case, C13_printed_numeric) *)
Theorem C13_printed_numeric_class : forall s m n ri rf, (1 <= m + n)%nat ->
  gen_numeric (SchemaTruth.pic_text (SchemaTruth.PNum s m n ri rf))
  = negb (SchemaTruth.written_with_repeat (SchemaTruth.PNum s m n ri rf)).
Proof. exact printed_numeric_class. Qed.
Print Assumptions C13_printed_numeric_class.

Theorem C13_printed_text_class : forall alpha k rep, (1 <= k)%nat ->
  gen_numeric (SchemaTruth.pic_text (SchemaTruth.PText alpha k rep)) = false.
Proof. exact printed_text_class. Qed.
Print Assumptions C13_printed_text_class.

(* ---- refutations of the unguarded statements by the faithful model: one witness per known finding ---- *)
Definition str_9q9 : list N := [57; 63; 57].             (* 9?9 *)
Definition str_9_0 : list N := [57; 40; 48; 41].         (* 9(0) *)
Definition str_s9_3 : list N := [115; 57; 40; 51; 41].   (* s9(3) *)
Definition str_9_3 : list N := [57; 40; 51; 41].         (* 9(3) *)
Definition str_9_ai3 : list N := [57; 40; 1635; 41].     (* 9(U+0663) *)
Definition str_V : list N := [86].
Definition str_p9S : list N := [43; 57; 83].             (* +9S *)

(* 1: a foreign character in the middle is skipped: accepted with size 2 although it is no picture *)
Theorem C13_refuted_1 : exists r, dec_parse str_9q9 = Some (Ok r) /\ p_size r = 2%nat /\
  sp_parse str_9q9 = None /\ sp_foreign 63 = true.
Proof. eexists. vm_compute. repeat split; reflexivity. Qed.
Print Assumptions C13_refuted_1.

(* so the unguarded strictness statement is false *)
Theorem C13_strict_unguarded_refuted : ~ (forall s : list N,
  dec_parse s = Some (Err ValueError) \/
  exists r v, dec_parse s = Some (Ok r) /\ sp_parse s = Some v /\ p_size r = positions v /\
              forallb (fun c => negb (sp_foreign c)) s = true).
Proof.
  intros H. destruct (H str_9q9) as [H1|(r & v & _ & H2 & _)]; clear H.
  - vm_compute in H1. discriminate.
  - vm_compute in H2. discriminate.
Qed.
Print Assumptions C13_strict_unguarded_refuted.

(* 2: a zero count: DesignError from the decoder, accepted by the generator *)
Theorem C13_refuted_2 : dec_parse str_9_0 = Some (Err DesignError) /\
  gen_normalize str_9_0 = Some (Ok [E KDigit []]) /\ sp_parse str_9_0 = None.
Proof. vm_compute. repeat split; reflexivity. Qed.
Print Assumptions C13_refuted_2.

(* 3: letter case: the generator reads a sign and three digits, the decoder three unsigned digits *)
Theorem C13_refuted_3 :
  gen_normalize str_s9_3 = Some (Ok [E KSign [115]; E KDigit [57; 57; 57]]) /\
  dec_normalize str_s9_3 = Some (Ok [E KDigit [57; 57; 57]]) /\
  option_map positions (sp_parse str_s9_3) = Some 4%nat.
Proof. vm_compute. repeat split; reflexivity. Qed.
Print Assumptions C13_refuted_3.

(* 4: repeat notation: numeric for the decoder and the specification, text for the generator *)
Theorem C13_refuted_4 : exists r, dec_parse str_9_3 = Some (Ok r) /\ p_zoned r = true /\
  gen_numeric str_9_3 = false /\ option_map numeric (sp_parse str_9_3) = Some true /\
  gen_numeric [57; 57; 57] = true.
Proof. eexists. vm_compute. repeat split; reflexivity. Qed.
Print Assumptions C13_refuted_4.

(* 5: nothing matches: IndexError instead of ValueError *)
Theorem C13_refuted_5 : gen_normalize [] = Some (Err IndexError) /\ gen_normalize [63] = Some (Err IndexError).
Proof. vm_compute. split; reflexivity. Qed.
Print Assumptions C13_refuted_5.

(* 6: an Arabic-Indic digit as repeat count is accepted *)
Theorem C13_refuted_6 : exists r, dec_parse str_9_ai3 = Some (Ok r) /\ p_size r = 3%nat /\
  sp_parse str_9_ai3 = None /\ sp_foreign 1635 = true.
Proof. eexists. vm_compute. repeat split; reflexivity. Qed.
Print Assumptions C13_refuted_6.

(* 7: a picture of V only: numeric for the generator, not for the decoder *)
Theorem C13_refuted_7 : exists r, dec_parse str_V = Some (Ok r) /\ p_zoned r = false /\ gen_numeric str_V = true.
Proof. eexists. vm_compute. repeat split; reflexivity. Qed.
Print Assumptions C13_refuted_7.

(* 8: only the last sign is looked at: zoned decimal for the decoder, text for the generator *)
Theorem C13_refuted_8 : exists r, dec_parse str_p9S = Some (Ok r) /\ p_zoned r = true /\
  gen_numeric str_p9S = false /\ option_map numeric (sp_parse str_p9S) = Some false.
Proof. eexists. vm_compute. repeat split; reflexivity. Qed.
Print Assumptions C13_refuted_8.

(* ---- non-vacuity: the guard is satisfiable by accepted and by rejected strings ---- *)
(* S9(5)V99 is a known finding (4); its expansion S99999V99 and the edited Z(3)9.99CR are not *)
Example C13_example_numeric :
  known_bad [83; 57; 57; 57; 57; 57; 86; 57; 57] = false /\
  option_map p_size (match dec_parse [83; 57; 57; 57; 57; 57; 86; 57; 57] with Some (Ok r) => Some r | _ => None end) = Some 8%nat.
Proof. vm_compute. split; reflexivity. Qed.
Example C13_example_edited :
  known_bad [90; 40; 51; 41; 57; 46; 57; 57; 67; 82] = false /\
  option_map p_size (match dec_parse [90; 40; 51; 41; 57; 46; 57; 57; 67; 82] with Some (Ok r) => Some r | _ => None end) = Some 9%nat.
Proof. vm_compute. split; reflexivity. Qed.
Example C13_example_rejected :
  known_bad [88; 88; 40; 51; 41] = false /\ dec_parse [88; 88; 40; 51; 41] = Some (Err ValueError).
Proof. vm_compute. split; reflexivity. Qed.
(* the hypotheses of C13_repeat_partial are satisfiable: Z(3)9.99CR and its expansion ZZZ9.99CR *)
Example C13_example_repeat :
  let s := [90; 40; 51; 41; 57; 46; 57; 57; 67; 82] in
  let e := [90; 90; 90; 57; 46; 57; 57; 67; 82] in
  known_bad s = false /\ known_bad e = false /\ sp_expand s = Some e /\
  is_ok (match dec_parse s with Some x => x | None => Err OtherError end) = true /\
  is_ok (match dec_parse e with Some x => x | None => Err OtherError end) = true.
Proof. vm_compute. repeat split; reflexivity. Qed.
(* the printed form of PNum true 5 2 (count notation for the integer part) is S9(5)V99: a known finding (4) of the
   generator, not of the decoder *)
Example C13_example_printed :
  SchemaTruth.pic_text (SchemaTruth.PNum true 5 2 true false) = [83; 57; 40; 53; 41; 86; 57; 57] /\
  known_bad [83; 57; 40; 53; 41; 86; 57; 57] = true /\ kb_dec [83; 57; 40; 53; 41; 86; 57; 57] = false /\
  SchemaTruth.pic_text (SchemaTruth.PText false 12 true) = [88; 40; 49; 50; 41].
Proof. vm_compute. repeat split; reflexivity. Qed.
