(* C16, companion file - the conversion helpers on an argument of ANY class, and decimal_places over the whole
   range of digit counts.  Only property theorems, each closed by an exact lemma.

   Props/C16.v speaks of a finite number given as an exact decimal.  Here the argument is a [pyval]
   (Spec/ConversionArg.v): None, bool, int, float (finite, nan, inf), str, Decimal (finite, NaN, sNaN,
   Infinity), Fraction.  [digit_string_v], [decimal_places_v], [conversion_result] (Model/ConversionArg.v) are
   the models of digit_string, decimal_places and CONVERSION[key] on such an argument: they follow int(),
   Decimal(), float(), str(), bool() of CPython 3.12, for a str through the text grammars of those constructors,
   and fall back on the functions of Props/C16.v for the finite numeric classes.

   [int_text dv sp s negative ds]: s is white space, an optional sign, digits with single underscores between
   them, white space - the text the Library Reference says int() accepts - read as sign [negative] and digit
   values [ds]; [py_digit_value] / [py_int_space] say which characters are decimal digits (every Unicode
   decimal digit, by the table of the running CPython, Gen/UnicodeParams.v) and white space (the six ASCII
   ones and the Unicode ones from 133 up; NOT the separators 28-31).  [Ok r] = returned r, [Err e] = raised e;
   OverflowError and decimal.Overflow are both [OtherError] (Base/Res.v has no code for them). *)
From Coq Require Import ZArith NArith List Bool.
Import ListNotations.
Require Import SR.Base.Res SR.Spec.Conversion SR.Spec.ConversionArg SR.Model.Conversion SR.Model.ConversionArg
  SR.Proofs.ConversionP SR.Proofs.ConversionArgP.
Open Scope Z_scope.

(* ---------------- int() of a str ---------------- *)

(* int(s) returns v exactly when s is the text of an integer of at most 4300 digits whose value is v ... *)
Theorem C16_int_of_str : forall (s : list N) (v : Z),
  int_of_str s = Ok v <->
  exists negative ds, int_text py_digit_value py_int_space s negative ds /\
                      Z.of_nat (length ds) <= int_max_str_digits /\ v = signed negative (zval ds).
Proof. exact int_of_str_iff. Qed.
Print Assumptions C16_int_of_str.

(* ... and otherwise raises ValueError, nothing else: 12.5, 1e3, 1.0, _1, 1__0, the empty string. *)
Theorem C16_int_of_str_refuses : forall s : list N,
  (int_of_str s = Err ValueError <-> ~ int_ok s) /\ (forall e, int_of_str s = Err e -> e = ValueError).
Proof. exact int_of_str_refuses_all. Qed.
Print Assumptions C16_int_of_str_refuses.

(* ---------------- digit_string ---------------- *)

(* On the argument classes of the property's text (int - bool is one -, finite float, finite Decimal)
   [digit_string_v] IS the function the theorems of Props/C16.v are about. *)
Theorem C16_digit_string_numeric : forall (n : nat) (a : pyval) (x : dec),
  dec_of_val a = Some x -> digit_string_v n a = digit_string n x.
Proof. exact digit_string_v_dec. Qed.
Print Assumptions C16_digit_string_numeric.

(* Whatever the class: when int(value) is an integer 0 <= z < 10^n the result is exactly n digits of value z
   (a Fraction is truncated, True is 1, a str is read by the grammar above) ... *)
Theorem C16_digit_string_any : forall (n : nat) (a : pyval) (z : Z),
  (1 <= n <= 4300)%nat -> int_of_val a = Ok z -> 0 <= z < 10 ^ Z.of_nat n ->
  exists r, digit_string_v n a = Ok r /\ length r = n /\ forallb is_digit r = true /\ dval r = z.
Proof. exact digit_string_v_exact. Qed.
Print Assumptions C16_digit_string_any.

(* ... and when int(value) raises, digit_string raises the same: TypeError for None, ValueError for nan and NaN,
   OverflowError for the infinities, ValueError for a str that is not the text of an integer. *)
Theorem C16_digit_string_raises : forall (n : nat) (a : pyval) (e : exn),
  int_of_val a = Err e -> digit_string_v n a = Err e.
Proof. exact digit_string_v_err. Qed.
Print Assumptions C16_digit_string_raises.

(* The str argument spelled out. *)
Theorem C16_digit_string_str : forall (n : nat) (s : list N) (negative : bool) (ds : list Z),
  (1 <= n <= 4300)%nat -> int_text py_digit_value py_int_space s negative ds ->
  Z.of_nat (length ds) <= int_max_str_digits -> 0 <= signed negative (zval ds) < 10 ^ Z.of_nat n ->
  exists r, digit_string_v n (PStr s) = Ok r /\ length r = n /\ forallb is_digit r = true /\
            dval r = signed negative (zval ds).
Proof. exact digit_string_str_exact. Qed.
Print Assumptions C16_digit_string_str.

Theorem C16_digit_string_str_refused : forall (n : nat) (s : list N),
  ~ int_ok s -> digit_string_v n (PStr s) = Err ValueError.
Proof. exact digit_string_str_refused. Qed.
Print Assumptions C16_digit_string_str_refused.

(* ---------------- decimal_places: every digit count ---------------- *)

(* The statement of C16_places for EVERY digit count the default context admits as a target exponent,
   -999999 <= d <= 1000026: the domain bound [fits_ctx] is the 28 digits of the precision and, for d below
   -999972, the fewer digits that keep exponent + digits - 1 within Emax = 999999.  For d >= -999972
   [fits_ctx d x = fitsb d x] (ConversionP.fits_ctx_fitsb), so this contains C16_places. *)
Theorem C16_places_ctx : forall (d : Z) (x : dec),
  -999999 <= d <= 1000026 -> fits_ctx d x = true ->
  exists r, decimal_places d x = Ok r /\ dexp r = - d /\ closeb d x r = true /\
            decimal_places d r = Ok r.
Proof. exact decimal_places_ok_ctx. Qed.
Print Assumptions C16_places_ctx.

(* ... and the bound is exact: outside it the helper raises InvalidOperation. *)
Theorem C16_places_ctx_outside : forall (d : Z) (x : dec),
  -999999 <= d <= 1000026 -> fits_ctx d x = false -> decimal_places d x = Err DecimalInvalid.
Proof. exact decimal_places_err_ctx. Qed.
Print Assumptions C16_places_ctx_outside.

(* Outside that range of d no argument helps.  Below -999999 the quantum Decimal(1).scaleb(-d) overflows
   (decimal.Overflow), beyond +-2000054 scaleb refuses its operand (InvalidOperation) ... *)
Theorem C16_places_digits_overflow : forall (d : Z) (x : dec),
  -2000054 <= d < -999999 -> decimal_places d x = Err OtherError.
Proof. exact decimal_places_digits_overflow. Qed.
Print Assumptions C16_places_digits_overflow.

Theorem C16_places_digits_refused : forall (d : Z) (x : dec),
  d < -2000054 \/ 2000054 < d -> decimal_places d x = Err DecimalInvalid.
Proof. exact decimal_places_digits_invalid. Qed.
Print Assumptions C16_places_digits_refused.

(* ... and above 1000026 the quantum underflows to 0E-1000026: the call behaves as with d = 1000026, i.e. the
   result does NOT have d fractional digits (the bound d <= 1000026 of C16_places is needed). *)
Theorem C16_places_digits_underflow : forall (d : Z) (x : dec),
  1000026 <= d <= 2000054 -> decimal_places d x = decimal_places 1000026 x.
Proof. exact decimal_places_digits_underflow. Qed.
Print Assumptions C16_places_digits_underflow.

(* An argument of any class that Decimal() turns into the finite x behaves as x (so C16_places_ctx applies) ... *)
Theorem C16_places_any : forall (d : Z) (a : pyval) (x : dec),
  decimal_of_val a = Ok (PDec x) ->
  decimal_places_v d a = bind (decimal_places d x) (fun r => Ok (PDec r)).
Proof. exact decimal_places_v_dec. Qed.
Print Assumptions C16_places_any.

(* ... and one that Decimal() refuses (None, a Fraction: TypeError; a str that is no number: InvalidOperation)
   is refused the same way, provided the quantum exists (it is built first). *)
Theorem C16_places_raises : forall (d : Z) (a : pyval) (e : exn) (q : Z),
  quantum_exp d = Ok q -> decimal_of_val a = Err e -> decimal_places_v d a = Err e.
Proof. exact decimal_places_v_err. Qed.
Print Assumptions C16_places_raises.

(* ---------------- CONVERSION on values ---------------- *)

(* The property's clause, stated on VALUES: for every key of the schema vocabulary and every argument, IF the
   named conversion returns, the result has the named type; and it raises e exactly in the cases of the table
   [conversion_raises] (Spec/ConversionArg.v): int() - TypeError on None, ValueError on nan / NaN / a str that
   is not the text of an integer, OverflowError on the infinities; float() - TypeError on None, ValueError on
   a str float() does not accept and on sNaN, OverflowError on an int or Fraction from 2^1024 - 2^970 on;
   str() - ValueError on an int or Fraction of more than 4300 digits; Decimal() - TypeError on None and on a
   Fraction, InvalidOperation on a str Decimal() does not accept; null, bool and the identity never. *)
Theorem C16_conversion_value_types : forall (key : Z) (a : pyval),
  In key vocabulary ->
  (forall t, conversion_result key a = Ok t -> t = named_type key (type_of a)) /\
  (forall e, conversion_result key a = Err e <-> conversion_raises int_ok float_str_ok decimal_str_ok key a e).
Proof. exact conversion_value_types. Qed.
Print Assumptions C16_conversion_value_types.

(* On the values a workbook cell or a decoded field delivers (bool, int inside the float range, finite float,
   finite Decimal) every named conversion returns, a value of the named type. *)
Theorem C16_conversion_plain : forall (key : Z) (a : pyval),
  In key vocabulary -> plain_value a = true -> conversion_result key a = Ok (named_type key (type_of a)).
Proof. exact conversion_plain_returns. Qed.
Print Assumptions C16_conversion_plain.

(* C16_conversion_types (Props/C16.v) is about type codes; it is the reading of this model on the arguments on
   which the conversion returns. *)
Theorem C16_conversion_types_of_values : forall (key : Z) (a : pyval) (t : Z),
  conversion_result key a = Ok t -> conversion_type key (type_of a) = Ok t.
Proof. exact conversion_type_of. Qed.
Print Assumptions C16_conversion_types_of_values.

(* ---------------- non-vacuity ---------------- *)

(* blank, Arabic-Indic three, underscore, ASCII five, no-break space: the text of 35 *)
Example C16b_example_int_text :
  int_text py_digit_value py_int_space [32; 1635; 95; 53; 160]%N false [3; 5] /\
  int_of_str [32; 1635; 95; 53; 160]%N = Ok 35.
Proof.
  split; [|vm_compute; reflexivity].
  apply (IntText py_digit_value py_int_space [32%N] [] [1635; 95; 53]%N [160%N] false [3; 5]);
    [reflexivity|reflexivity|constructor|].
  apply DP; [reflexivity|]. apply DT_under; [reflexivity|]. apply DT_nil.
Qed.

(* digit_string(5, s) for s = '12.5', '1e3', '1.0', '_1', '', a separator-28 before 1: ValueError;
   ' 12 ' -> 00012, '1_000' -> 01000, the Arabic-Indic three -> 00003; None TypeError; nan ValueError; inf OverflowError;
   True -> 00001; Fraction(7, 2) -> 00003 *)
Example C16b_example_digit_string :
  digit_string_v 5 (PStr [49; 50; 46; 53]%N) = Err ValueError /\
  digit_string_v 5 (PStr [49; 101; 51]%N) = Err ValueError /\
  digit_string_v 5 (PStr [49; 46; 48]%N) = Err ValueError /\
  digit_string_v 5 (PStr [95; 49]%N) = Err ValueError /\
  digit_string_v 5 (PStr []) = Err ValueError /\
  digit_string_v 5 (PStr [28; 49]%N) = Err ValueError /\
  digit_string_v 5 (PStr [32; 49; 50; 32]%N) = Ok [48; 48; 48; 49; 50]%N /\
  digit_string_v 5 (PStr [49; 95; 48; 48; 48]%N) = Ok [48; 49; 48; 48; 48]%N /\
  digit_string_v 5 (PStr [1635]%N) = Ok [48; 48; 48; 48; 51]%N /\
  digit_string_v 5 PNone = Err TypeError /\
  digit_string_v 5 PFloatNan = Err ValueError /\
  digit_string_v 5 (PFloatInf false) = Err OtherError /\
  digit_string_v 5 (PBool true) = Ok [48; 48; 48; 48; 49]%N /\
  digit_string_v 5 (PFrac 7 2) = Ok [48; 48; 48; 48; 51]%N.
Proof. vm_compute. repeat split; reflexivity. Qed.

(* decimal_places(-999999, x): 9E+999999 stays, 15E+999999 and 95E+999998 (rounds to 10E+999999) are
   InvalidOperation, 5E+999998 rounds to 0E+999999; decimal_places(-1000000, 1) is Overflow;
   decimal_places(2, ' 1_0.5 ') = 10.50, decimal_places(2, 'x') InvalidOperation, decimal_places(2, None) TypeError *)
Example C16b_example_places :
  fits_ctx (-999999) (mkdec false 9 999999) = true /\
  decimal_places (-999999) (mkdec false 9 999999) = Ok (mkdec false 9 999999) /\
  fits_ctx (-999999) (mkdec false 15 999999) = false /\
  decimal_places (-999999) (mkdec false 15 999999) = Err DecimalInvalid /\
  decimal_places (-999999) (mkdec false 95 999998) = Err DecimalInvalid /\
  decimal_places (-999999) (mkdec false 5 999998) = Ok (mkdec false 0 999999) /\
  decimal_places (-1000000) (mkdec false 1 0) = Err OtherError /\
  decimal_places_v 2 (PStr [32; 49; 95; 48; 46; 53; 32]%N) = Ok (PDec (mkdec false 1050 (-2))) /\
  decimal_places_v 2 (PStr [120]%N) = Err DecimalInvalid /\
  decimal_places_v 2 PNone = Err TypeError.
Proof. vm_compute. repeat split; reflexivity. Qed.

(* CONVERSION['integer'](None) TypeError, ('1.5') ValueError, (' 7 ') an int; CONVERSION['decimal']('x')
   InvalidOperation; CONVERSION['number']('abc') ValueError, ('nan') a float, (10**400) OverflowError;
   CONVERSION['string'](10**4300) ValueError *)
Example C16b_example_conversion :
  In 3 vocabulary /\
  conversion_result 3 PNone = Err TypeError /\
  conversion_result 3 (PStr [49; 46; 53]%N) = Err ValueError /\
  conversion_result 3 (PStr [32; 55; 32]%N) = Ok T_int /\
  conversion_result 6 (PStr [120]%N) = Err DecimalInvalid /\
  conversion_result 4 (PStr [97; 98; 99]%N) = Err ValueError /\
  conversion_result 4 (PStr [110; 97; 110]%N) = Ok T_float /\
  conversion_result 4 (PInt (10 ^ 400)) = Err OtherError /\
  conversion_result 5 (PInt (10 ^ 4300)) = Err ValueError /\
  plain_value (PFloat (mkdec false 15 (-1))) = true.
Proof. vm_compute. repeat split; try reflexivity. right; right; right; left; reflexivity. Qed.
