Require Import SR.Model.Layout.
