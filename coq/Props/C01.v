(* C01 - Every named COBOL item is read from the byte range the record layout assigns it.
   Only property theorems here, each closed by an exact lemma of Proofs/LayoutP.v.

   [item] = record description tree (Spec/Layout.v); [spec_nav e (VItem t) 0 p] = where the COBOL rules put
   the item reached by path p (names and indices) and which view of it; [build t] = the JSON schema
   build_json_schema emits (Model/Layout.v, compared with the real emitted schema on every run);
   [nav_of], [nav_path], [nav_raw] = LocationMaker.walk + NDNav.name/index/raw.
   [wf e t]: no OCCURS DEPENDING ON (that is C06's theorem); every REDEFINES names an earlier sibling that is
   not itself a redefiner, is no longer than it, and neither is an elementary OCCURS item; no REDEFINES
   inside a repeated group.  What that excludes, shape by shape (exactly: Props/C01d.v, C01d_unions_ok_exact): an elementary
   OCCURS item in a union and a REDEFINES inside a repeated group are the known findings K-occurs-elem-in-union and
   K-redef-in-occurs; a REDEFINES whose target is itself a redefiner is legal COBOL since the 2002 standard and is laid out
   wrongly by the code - known finding K-redefines-of-redefiner (C01d_chain_full_refuted); a redefiner longer than its target is
   not a record description by ISO COBOL below level 01, the code gives such a union the length of its longest alternative and
   no theorem here covers it; that a REDEFINES names an EARLIER sibling is what every COBOL compiler demands.
   The record [r] is a list over ANY element type (EBCDIC bytes or native text characters alike) and
   of any length; [dcount] is irrelevant without DEPENDING ON. *)
From Coq Require Import List Arith NArith Bool.
Import ListNotations.
Require Import SR.Base.Res SR.Spec.Layout SR.Model.Layout SR.Proofs.LayoutP.

Theorem C01_layout : forall (B : Type) (dcount : list B -> nat) (r : list B) (e : env) (t : item),
  wf e t = true -> NoDup (ids t) ->
  exists v0, nav_of dcount r (build t) = Ok v0
    /\ lstart (n_loc v0) = 0 /\ lend (n_loc v0) = extent e t
    /\ forall p v st, spec_nav e (VItem t) 0 p = inl (v, st) ->
         exists nv, nav_path dcount r v0 p = Ok nv
           /\ lstart (n_loc nv) = st /\ lend (n_loc nv) = st + view_size e v
           /\ nav_raw r nv = slice r st (st + view_size e v).
Proof. exact layout_correct. Qed.
Print Assumptions C01_layout.

Theorem C01_index_refused : forall (B : Type) (dcount : list B -> nat) (r : list B) (e : env) (t : item),
  wf e t = true -> NoDup (ids t) ->
  forall v0, nav_of dcount r (build t) = Ok v0 ->
  forall p x st i, spec_nav e (VItem t) 0 p = inl (VItem x, st) -> is_table x = true -> count e (item_oc x) <= i ->
    exists nv, nav_path dcount r v0 p = Ok nv /\ nav_index dcount r nv i = Err IndexError.
Proof. exact layout_index_refused. Qed.
Print Assumptions C01_index_refused.

(* The children loop of build_json_schema, flattened: REDEFINES-x -> oneOf [x, its redefiners] sits where x is. *)
Theorem C01_redefines_in_place : forall (e : env) (i : id) (rd : option id) (ks : items),
  NoDup (ids_kids ks) -> unions_ok e [] ks = true ->
  build_alt (Group i Once rd ks) = JObj (Some (KName i)) (assemble_d ks).
Proof. exact build_group_once. Qed.
Print Assumptions C01_redefines_in_place.

(* Non-vacuity.  01 R. 05 A X(3). 05 B X(4). 05 C REDEFINES B X(2). 05 T OCCURS 2. 10 U X(1). 10 V X(2). 05 D X(2).
   (ids: R=1 A=2 B=3 C=4 T=5 U=6 V=7 D=8).  A is at 0-3, B at 3-7, C at 3-5 (where B begins, adding no length),
   T[1].V at 11-13, D at 13-15, record length 15. *)
Definition ex_tree : item :=
  Group 1%N Once None
    (ICons (Elem 2%N 3 Once None) (ICons (Elem 3%N 4 Once None) (ICons (Elem 4%N 2 Once (Some 3%N))
    (ICons (Group 5%N (Times 2) None (ICons (Elem 6%N 1 Once None) (ICons (Elem 7%N 2 Once None) INil)))
    (ICons (Elem 8%N 2 Once None) INil))))).

Example C01_example :
  wf (fun _ => 0) ex_tree = true
  /\ extent (fun _ => 0) ex_tree = 15
  /\ spec_nav (fun _ => 0) (VItem ex_tree) 0 [PName 2%N] = inl (VItem (Elem 2%N 3 Once None), 0)
  /\ spec_nav (fun _ => 0) (VItem ex_tree) 0 [PName 4%N] = inl (VItem (Elem 4%N 2 Once (Some 3%N)), 3)
  /\ spec_nav (fun _ => 0) (VItem ex_tree) 0 [PName 5%N; PIndex 1; PName 7%N] = inl (VItem (Elem 7%N 2 Once None), 11)
  /\ spec_nav (fun _ => 0) (VItem ex_tree) 0 [PName 8%N] = inl (VItem (Elem 8%N 2 Once None), 13).
Proof. vm_compute. repeat split; reflexivity. Qed.

Example C01_example_ids : NoDup (ids ex_tree).
Proof. vm_compute. repeat constructor; simpl; intuition discriminate. Qed.
