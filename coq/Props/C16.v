(* C16 - Conversion helpers restore exactly what the spreadsheet mangled.
   This file contains only the property theorems, each closed by an exact lemma.

   [digit_string], [decimal_places], [conversion_type] are the models (Model/Conversion.v) of
   stingray.schema_instance.digit_string / decimal_places / CONVERSION as the code is now; the
   CONVERSION table itself is read from the source on every run (Gen/ConversionParams.v).
   [dec] is an exact decimal (sign, coefficient, exponent) - what Decimal(x).as_tuple() reports
   for an int, float, numeric str or Decimal x; strings are lists of code points.
   The predicates [represents], [is_digit], [dval], [fitsb], [closeb], [named_type] are the
   specification (Spec/Conversion.v).  [Ok r] = returned r, [Err e] = raised e.
   A str argument of digit_string (read by int(), not as a decimal), None / bool / nan / inf / Fraction
   arguments, negative digit counts of decimal_places and the CONVERSION entries on values are the
   companion file Props/C16b.v. *)
From Coq Require Import ZArith NArith List Bool.
Import ListNotations.
Require Import SR.Base.Res SR.Spec.Conversion SR.Model.Conversion SR.Proofs.ConversionP.
Open Scope Z_scope.

(* digit_string: any integer 0 <= v < 10^n, however it arrives (int, integral float, integral
   Decimal in any spelling - all are an x with [represents x v]), becomes exactly n decimal digits
   whose value is v.  The bound n <= 4300 is CPython's limit on int -> str conversion. *)
Theorem C16_digit_string : forall (n : nat) (x : dec) (v : Z),
  (1 <= n <= 4300)%nat -> represents x v -> 0 <= v < 10 ^ Z.of_nat n ->
  exists s, digit_string n x = Ok s /\
            length s = n /\ forallb is_digit s = true /\ dval s = v.
Proof. exact digit_string_exact. Qed.
Print Assumptions C16_digit_string.

(* More generally (any n >= 1, any v >= 0 printable by str): n digits denoting v mod 10^n,
   i.e. values of n digits or more lose their high digits silently.  The correspondence run
   exercises only v < 10^n, so outside that range this is a statement about the model. *)
Theorem C16_digit_string_general : forall (n : nat) (x : dec) (v : Z),
  (1 <= n)%nat -> represents x v -> 0 <= v < 10 ^ max_str_digits ->
  exists s, digit_string n x = Ok s /\
            length s = n /\ forallb is_digit s = true /\ dval s = v mod 10 ^ Z.of_nat n.
Proof. exact digit_string_general. Qed.
Print Assumptions C16_digit_string_general.

(* The bound n <= 4300 in C16_digit_string is needed: Decimal('1E+4300') < 10^4301 raises ValueError. *)
Theorem C16_digit_string_beyond_limit : digit_string 4301 (mkdec false 1 4300) = Err ValueError.
Proof. exact beyond_limit. Qed.
Print Assumptions C16_digit_string_beyond_limit.

(* decimal_places: for every d from 0 up to the 1000026 the default decimal context allows and
   every exact decimal x whose rounded value has at most 28 digits ([fitsb d x]): the result is an
   exact decimal with exponent -d (exactly d fractional digits), within half a unit in the last
   place of x (2*|r - x| <= 10^-d), and applying the helper again returns the same triple. *)
Theorem C16_places : forall (d : Z) (x : dec),
  0 <= d <= 1000026 -> fitsb d x = true ->
  exists r, decimal_places d x = Ok r /\ dexp r = - d /\ closeb d x r = true /\
            decimal_places d r = Ok r.
Proof. exact decimal_places_ok. Qed.
Print Assumptions C16_places.

(* The domain of C16_places is exact: when the rounded value would need more than 28 digits the
   helper raises InvalidOperation instead of returning a value. *)
Theorem C16_places_outside : forall (d : Z) (x : dec),
  0 <= d <= 1000026 -> fitsb d x = false -> decimal_places d x = Err DecimalInvalid.
Proof. exact decimal_places_err. Qed.
Print Assumptions C16_places_outside.

(* CONVERSION, the TABLE: every key of the schema vocabulary is present and bound to the constructor
   of the named type (key 0 = None to the identity).  [conversion_type] works on type CODES: it says
   which type a returned value has, not that the call returns - int(None), int('1.5'), Decimal('x')
   raise.  The statement about argument VALUES (returns => named type, and exactly when it raises
   what) is C16_conversion_value_types in Props/C16b.v. *)
Theorem C16_conversion_types : forall key arg : Z,
  In key vocabulary -> conversion_type key arg = Ok (named_type key arg).
Proof. exact conversion_named. Qed.
Print Assumptions C16_conversion_types.

(* Non-vacuity.  1020 as int or float 1020.0 (both (0, 1020, 0)), Decimal('1.02E+3') and
   Decimal('1020.00') all satisfy the hypotheses for n = 5 and give '01020'. *)
Example C16_example_digits :
  represents (mkdec false 1020 0) 1020 /\ represents (mkdec false 102 1) 1020 /\
  represents (mkdec false 102000 (-2)) 1020 /\ 0 <= 1020 < 10 ^ Z.of_nat 5 /\
  digit_string 5 (mkdec false 1020 0) = Ok [48; 49; 48; 50; 48]%N /\
  digit_string 5 (mkdec false 102 1) = Ok [48; 49; 48; 50; 48]%N /\
  digit_string 5 (mkdec false 102000 (-2)) = Ok [48; 49; 48; 50; 48]%N.
Proof. vm_compute. repeat split; try reflexivity; discriminate. Qed.

(* 0.125 to two places is the tie that goes to the even 0.12; -2.5 to zero places is -2;
   7 to three places is 7.000; 9999999999999999999999999999.5 (29 digits after rounding up) is outside [fitsb]. *)
Example C16_example_places :
  fitsb 2 (mkdec false 125 (-3)) = true /\
  decimal_places 2 (mkdec false 125 (-3)) = Ok (mkdec false 12 (-2)) /\
  fitsb 0 (mkdec true 25 (-1)) = true /\
  decimal_places 0 (mkdec true 25 (-1)) = Ok (mkdec true 2 0) /\
  fitsb 3 (mkdec false 7 0) = true /\
  decimal_places 3 (mkdec false 7 0) = Ok (mkdec false 7000 (-3)) /\
  fitsb 0 (mkdec false 99999999999999999999999999995 (-1)) = false /\
  decimal_places 0 (mkdec false 99999999999999999999999999995 (-1)) = Err DecimalInvalid.
Proof. vm_compute. repeat split; reflexivity. Qed.

Example C16_example_conversion : In 3 vocabulary /\ conversion_type 3 T_float = Ok T_int.
Proof. vm_compute. split; [right; right; right; left; reflexivity|reflexivity]. Qed.
