(* C10, companion: the property's last sentence when the OCCURS DEPENDING ON counter itself cannot be decoded.

     "Reading one field touches only that field: bytes that cannot be decoded raise an error only when their own field is
      requested and never prevent reading any other field or REDEFINES alternative of the same record."

   Props/C10.v and Props/C10c.v take the navigator as given (vnav_of ... = Ok v0) and the counter decoder as a total
   function, so a record whose counter bytes are no number is outside their statements.  Model/LayoutPartial.v adds the
   partial decoder dcountp : list B -> res nat and the constructor vnav_ofp that follows LocationMaker.walk: the walk
   raises the decoder's exception at the first table, in walk order, whose counter does not decode.  This file says what
   the code does then.  Only property theorems (each closed by an exact lemma of Proofs/LayoutPartialP.v), the full
   sentence as a Definition, its refutation by the witness that is the replay of finding K-bad-counter-blocks-record, and
   non-vacuity examples.  No engine of its own: ./check C10 compiles and scans it with Props/C10.v, and the stream
   bad-counter of harness/c10.py ties vnav_ofp to unpacker.nav on records with corrupted counters.

   Vocabulary (Model/LayoutPartial.v)
     vnav_ofp dcountp r s         unpacker.nav(schema, instance) with a counter decoder that may raise
     vnav_indexp / vnav_pathp     NDNav.index / a path of name and index steps over it
     readp dcountp r dec s p      nav = unpacker.nav(...); nav.<path p>.value() - what an application does to read one field
     dtot dcountp                 the total decoder dcountp extends to (0 where it raises)
     nav_ctrs dcount r s          the counter fields (bytes) the walk of Model/LayoutValue.v consults, in walk order
     bad_counter dcountp r s      the exception of the first of them, in walk order, that dcountp rejects (None: all decode)
     vnav_of_prepass              bad_counter first, then the existing constructor vnav_of (dtot dcountp) *)
From Coq Require Import List Arith NArith ZArith Bool.
Import ListNotations.
Require Import SR.Base.Res SR.Spec.Layout SR.Model.Layout SR.Model.LayoutValue SR.Spec.Coherence.
Require Import SR.Model.Estruct SR.Model.LayoutPartial.
Require Import SR.Proofs.LayoutP SR.Proofs.LayoutOdoP SR.Proofs.LayoutValueOdoP SR.Proofs.LayoutPartialP.
Open Scope nat_scope.

(* ---- the tie to the existing model: the res-valued copy of the walk IS the pre-pass over the existing walk, for every
   schema (COBOL-built or not), every start, every anchors table, every record *)
Theorem C10d_walk_is_prepass : forall (B : Type) (dcountp : list B -> res nat) (r : list B) (s : js) (st : nat) (an : wanchors),
  walkvp dcountp r s st an = walk_prepass dcountp r s st an.
Proof. exact walkvp_prepass. Qed.
Print Assumptions C10d_walk_is_prepass.

Theorem C10d_nav_is_prepass : forall (B : Type) (dcountp : list B -> res nat) (r : list B) (s : js),
  vnav_ofp dcountp r s = vnav_of_prepass dcountp r s.
Proof. exact vnav_ofp_prepass. Qed.
Print Assumptions C10d_nav_is_prepass.

(* ---- (a) if every counter the walk reaches decodes, the partial constructor returns what the total one returns, for
   ANY total decoder that agrees with the partial one on those counters: every theorem of Props/C10.v and Props/C10c.v
   about vnav_of dcount r s is a theorem about vnav_ofp dcountp r s *)
Theorem C10d_counters_ok_agrees : forall (B : Type) (dcountp : list B -> res nat) (dcount : list B -> nat) (r : list B) (s : js),
  (forall bs, In bs (nav_ctrs dcount r s) -> dcountp bs = Ok (dcount bs)) ->
  vnav_ofp dcountp r s = vnav_of dcount r s.
Proof. exact vnav_ofp_agree. Qed.
Print Assumptions C10d_counters_ok_agrees.

(* the same in the vocabulary of C10c_lazy_odo: every REGISTERED counter field an ODO table of the schema names decodes *)
Theorem C10d_registered_counters_ok : forall (B : Type) (dcountp : list B -> res nat) (r : list B) (s : js) (v0 : vnav),
  vnav_of (dtot dcountp) r s = Ok v0 ->
  (forall c a cst csz, In c (odo_keys s) -> In (KName c, WAtom a cst csz) (vn_an v0) ->
     exists n, dcountp (slice r cst (cst + csz)) = Ok n) ->
  vnav_ofp dcountp r s = Ok v0.
Proof. exact registered_decode_readable. Qed.
Print Assumptions C10d_registered_counters_ok.

(* corollary of (a) with C10c_commute_index_odo: index commutation for the ODO family, with the partial constructor and
   the partial index (NDNav.index re-walks the occurrence with the same unpacker) *)
Theorem C10d_commute_index_odo : forall (B : Type) (dcountp : list B -> res nat) (A : Type) (dec : option key -> list B -> res A)
    (r : list B) (e : env) (t : item) (p : list wstep) (v0 v : vnav) st sz isz cnt it sch (xs : list (pv A)) i,
  wfo e [] t = true -> NoDup (ids t) ->
  vnav_ofp dcountp r (build t) = Ok v0 -> vnav_pathp dcountp r v0 p = Ok v ->
  vn_loc v = WArr st sz isz cnt it sch ->
  vnav_value r dec v = Some (Ok (PList xs)) -> i < cnt ->
  exists v' x, vnav_indexp dcountp r v i = Ok v' /\ nth_error xs i = Some x /\ vnav_value r dec v' = Some (Ok x).
Proof. exact commute_index_odo_p. Qed.
Print Assumptions C10d_commute_index_odo.

(* corollary of (a) with C10c_lazy_odo: laziness for the ODO family with the partial constructor.  r and r' give every
   registered counter the same ANSWER of the partial decoder (the same count, or the same exception - the latter cannot
   occur, a navigator exists) and hold the same bytes in the range of the location reached: then r' has the same
   navigator, the same path reaches the same location, and value() gives the same answer, the exception included.
   Undecodable bytes anywhere else - in particular in fields that are no counter of a table - neither raise nor change it. *)
Theorem C10d_lazy_odo : forall (B : Type) (dcountp : list B -> res nat) (A : Type) (dec : option key -> list B -> res A)
    (r : list B) (e : env) (r' : list B) (t : item) (p : list wstep) (v0 v : vnav),
  wfo e [] t = true -> NoDup (ids t) ->
  vnav_ofp dcountp r (build t) = Ok v0 -> vnav_pathp dcountp r v0 p = Ok v ->
  (forall c a cst csz, In c (odo_keys (build t)) -> In (KName c, WAtom a cst csz) (vn_an v0) ->
     dcountp (slice r cst (cst + csz)) = dcountp (slice r' cst (cst + csz))) ->
  vnav_raw r v = vnav_raw r' v ->
  vnav_ofp dcountp r' (build t) = Ok v0 /\ vnav_pathp dcountp r' v0 p = Ok v /\
  vnav_value r dec v = vnav_value r' dec v.
Proof. exact lazy_odo_p. Qed.
Print Assumptions C10d_lazy_odo.

(* corollaries of (a) with C10c_raw_name_odo, C10c_raw_index_odo, C10c_foot_inside_odo: containment of raw bytes and of the
   slices value() takes, with the partial constructor *)
Theorem C10d_raw_name_odo : forall (B : Type) (dcountp : list B -> res nat) (r : list B) (e : env) (t : item)
    (p : list wstep) (v0 v v' : vnav) k,
  wfo e [] t = true -> NoDup (ids t) ->
  vnav_ofp dcountp r (build t) = Ok v0 -> vnav_pathp dcountp r v0 p = Ok v -> vnav_name v k = Ok v' ->
  wstart (vn_loc v) <= wstart (vn_loc v') /\ wend (vn_loc v') <= wend (vn_loc v) /\
  vnav_raw r v' = slice (vnav_raw r v) (wstart (vn_loc v') - wstart (vn_loc v)) (wend (vn_loc v') - wstart (vn_loc v)).
Proof. exact raw_name_odo_p. Qed.
Print Assumptions C10d_raw_name_odo.

Theorem C10d_raw_index_odo : forall (B : Type) (dcountp : list B -> res nat) (r : list B) (e : env) (t : item)
    (p : list wstep) (v0 v v' : vnav) st sz isz cnt it sch i,
  wfo e [] t = true -> NoDup (ids t) ->
  vnav_ofp dcountp r (build t) = Ok v0 -> vnav_pathp dcountp r v0 p = Ok v ->
  vn_loc v = WArr st sz isz cnt it sch -> vnav_indexp dcountp r v i = Ok v' ->
  wstart (vn_loc v') = st + isz * i /\ wsize (vn_loc v') = isz /\
  wstart (vn_loc v) <= wstart (vn_loc v') /\ wend (vn_loc v') <= wend (vn_loc v) /\
  vnav_raw r v' = slice (vnav_raw r v) (wstart (vn_loc v') - wstart (vn_loc v)) (wend (vn_loc v') - wstart (vn_loc v)).
Proof. exact raw_index_odo_p. Qed.
Print Assumptions C10d_raw_index_odo.

Theorem C10d_foot_inside_odo : forall (B : Type) (dcountp : list B -> res nat) (r : list B) (e : env) (t : item)
    (p : list wstep) (v0 v : vnav),
  wfo e [] t = true -> NoDup (ids t) ->
  vnav_ofp dcountp r (build t) = Ok v0 -> vnav_pathp dcountp r v0 p = Ok v -> foot_inside v = true.
Proof. exact foot_inside_odo_p. Qed.
Print Assumptions C10d_foot_inside_odo.

(* the same tie one level down: the navigator of Model/Layout.v (C01, C06: start and size only) with the partial decoder *)
Theorem C10d_layout_counters_ok_agrees : forall (B : Type) (dcountp : list B -> res nat) (dcount : list B -> nat) (r : list B) (s : js),
  (forall bs, In bs (nav_ctrs dcount r s) -> dcountp bs = Ok (dcount bs)) ->
  nav_ofp dcountp r s = nav_of dcount r s.
Proof. exact nav_ofp_agree. Qed.
Print Assumptions C10d_layout_counters_ok_agrees.

Theorem C10d_layout_bad_counter_blocks : forall (B : Type) (dcountp : list B -> res nat) (r : list B) (s : js) (ex : exn),
  bad_counter dcountp r s = Some ex -> nav_ofp dcountp r s = Err ex.
Proof. exact nav_ofp_blocked. Qed.
Print Assumptions C10d_layout_bad_counter_blocks.

(* ---- (b) if the first counter, in walk order, that does not decode fails with ex, unpacker.nav raises ex: for EVERY
   tree of the ODO family, every record, every per-field decoder - and so does every attempt to read any field by any
   path, the fields that lie before the table and whose place no counter influences included *)
Theorem C10d_bad_counter_blocks_record : forall (B : Type) (dcountp : list B -> res nat) (A : Type)
    (dec : option key -> list B -> res A) (r : list B) (e : env) (t : item) (ex : exn),
  wfo e [] t = true -> NoDup (ids t) ->
  bad_counter dcountp r (build t) = Some ex ->
  vnav_ofp dcountp r (build t) = Err ex /\ forall p, readp dcountp r dec (build t) p = Some (Err ex).
Proof. exact bad_counter_blocks_odo. Qed.
Print Assumptions C10d_bad_counter_blocks_record.

(* nothing in (b) depends on the tree being COBOL-built: any schema *)
Theorem C10d_bad_counter_blocks_any_schema : forall (B : Type) (dcountp : list B -> res nat) (r : list B) (A : Type)
    (dec : option key -> list B -> res A) (s : js) (ex : exn),
  bad_counter dcountp r s = Some ex -> forall p, readp dcountp r dec s p = Some (Err ex).
Proof. exact bad_counter_blocks_reads. Qed.
Print Assumptions C10d_bad_counter_blocks_any_schema.

(* the very first counter the walk consults is enough *)
Theorem C10d_first_counter_blocks : forall (B : Type) (dcountp : list B -> res nat) (r : list B) (s : js) bs rest (ex : exn),
  nav_ctrs (dtot dcountp) r s = bs :: rest -> dcountp bs = Err ex -> vnav_ofp dcountp r s = Err ex.
Proof. exact first_counter_blocks. Qed.
Print Assumptions C10d_first_counter_blocks.

(* ---- (c) the property's sentence.  A field "whose place does not depend on an undecodable counter": whatever count
   the undecodable counters are given (every total decoder that extends the partial one), the path leads to the same
   elementary location [st, st + sz).  "Whose own bytes decode": dec on that slice is Ok x.  The sentence demands that
   the field can then be read and reads as x. *)
Definition C10d_lazy_full : Prop :=
  forall (B A : Type) (dcountp : list B -> res nat) (dec : option key -> list B -> res A) (r : list B) (e : env) (t : item)
         (p : list wstep) (a : option key) (st sz : nat) (x : A),
    wfo e [] t = true -> NoDup (ids t) ->
    (forall dcount : list B -> nat, (forall bs n, dcountp bs = Ok n -> dcount bs = n) ->
       exists v0 v, vnav_of dcount r (build t) = Ok v0 /\ vnav_path dcount r v0 p = Ok v /\ vn_loc v = WAtom a st sz) ->
    dec a (slice r st (st + sz)) = Ok x ->
    readp dcountp r dec (build t) p = Some (Ok (PAtom x)).

(* the witness, which is the replay of finding K-bad-counter-blocks-record:
       01 REC. 05 HDR PIC X(3). 05 N PIC 9. 05 T OCCURS 1 TO 5 TIMES DEPENDING ON N PIC XX. 05 AFTER PIC X(2).
   ids: REC=1 HDR=2 N=3 T=4 AFTER=5.  EBCDIC record 'ABC', N = byte 0x4A (low nibble A: no zoned digit), 'aabb', 'ZZ'.
   The counter decoder is the code's zoned decoder (Model/Estruct.v through dcountp_zoned), the field decoder the code's
   PIC X decoder.  HDR occupies bytes 0..3 before the table, under every count; its bytes decode to 'ABC'. *)
Definition wit_tree : item :=
  Group 1%N Once None
    (ICons (Elem 2%N 3 Once None)
    (ICons (Elem 3%N 1 Once None)
    (ICons (Elem 4%N 2 (Odo 3%N) None)
    (ICons (Elem 5%N 2 Once None) INil)))).
Definition wit_env : env := fun _ => 0.
Definition wit_bad : list N := [193; 194; 195; 74; 129; 129; 130; 130; 233; 233]%N.
Definition wit_good : list N := [193; 194; 195; 242; 129; 129; 130; 130; 233; 233]%N.
Definition wit_dec (a : option key) (bs : list N) : res pyval := unpack_x 11 (length bs) bs.
Definition wit_hdr : list wstep := [SKey (KName 2%N)].

Theorem C10d_lazy_full_refuted : ~ C10d_lazy_full.
Proof.
  intros H.
  specialize (H N pyval dcountp_zoned wit_dec wit_bad wit_env wit_tree wit_hdr (Some (KName 2%N)) 0 3 (VStr [65; 66; 67]%N)).
  assert (Hw : wfo wit_env [] wit_tree = true) by (vm_compute; reflexivity).
  assert (Hnd : NoDup (ids wit_tree)) by (vm_compute; repeat constructor; simpl; intuition discriminate).
  assert (Hplace : forall dcount : list N -> nat, (forall bs n, dcountp_zoned bs = Ok n -> dcount bs = n) ->
            exists v0 v, vnav_of dcount wit_bad (build wit_tree) = Ok v0 /\ vnav_path dcount wit_bad v0 wit_hdr = Ok v
                         /\ vn_loc v = WAtom (Some (KName 2%N)) 0 3).
  { intros dcount _. eexists. eexists. split; [vm_compute; reflexivity|]. split; vm_compute; reflexivity. }
  assert (Hdec : wit_dec (Some (KName 2%N)) (slice wit_bad 0 (0 + 3)) = Ok (VStr [65; 66; 67]%N)) by (vm_compute; reflexivity).
  specialize (H Hw Hnd Hplace Hdec). vm_compute in H. discriminate H.
Qed.
Print Assumptions C10d_lazy_full_refuted.

(* ---- (d) what CAN be promised.  The navigator exists exactly when no counter the walk reaches is rejected, and is
   then the navigator of the existing model ... *)
Theorem C10d_readable_iff : forall (B : Type) (dcountp : list B -> res nat) (r : list B) (s : js) (v : vnav),
  vnav_ofp dcountp r s = Ok v <-> (bad_counter dcountp r s = None /\ vnav_of (dtot dcountp) r s = Ok v).
Proof. exact readable_iff. Qed.
Print Assumptions C10d_readable_iff.

(* ... for the ODO family: fields are readable exactly when ALL counters the walk reaches decode (Holds: C06_layout's
   hypothesis - the record carries a count vector - under the completed decoder; it only serves to know that the
   existing constructor returns) *)
Theorem C10d_readable_iff_odo : forall (B : Type) (dcountp : list B -> res nat) (r : list B) (e : env) (t : item),
  wfo e [] t = true -> NoDup (ids t) -> Holds B (dtot dcountp) r e t 0 ->
  ((exists v0, vnav_ofp dcountp r (build t) = Ok v0)
   <-> (forall bs, In bs (nav_ctrs (dtot dcountp) r (build t)) -> exists n, dcountp bs = Ok n)).
Proof. exact readable_iff_odo. Qed.
Print Assumptions C10d_readable_iff_odo.

(* ... and when it does not exist, the exception is the decoder's own, that of the first rejected counter: no other
   failure is possible *)
Theorem C10d_unreadable_iff_odo : forall (B : Type) (dcountp : list B -> res nat) (r : list B) (e : env) (t : item) (ex : exn),
  wfo e [] t = true -> NoDup (ids t) -> Holds B (dtot dcountp) r e t 0 ->
  (vnav_ofp dcountp r (build t) = Err ex <-> bad_counter dcountp r (build t) = Some ex).
Proof. exact unreadable_iff_odo. Qed.
Print Assumptions C10d_unreadable_iff_odo.

(* a second record that gives the registered counters the same answers has the same navigator: the location tree depends
   on the record through the counters only (C10_tree_counters), with the partial constructor *)
Theorem C10d_tree_counters : forall (B : Type) (dcountp : list B -> res nat) (r r' : list B) (s : js) (v0 : vnav),
  vnav_ofp dcountp r s = Ok v0 ->
  (forall c a cst csz, In c (odo_keys s) -> In (KName c, WAtom a cst csz) (vn_an v0) ->
     dcountp (slice r cst (cst + csz)) = dcountp (slice r' cst (cst + csz))) ->
  vnav_ofp dcountp r' s = Ok v0.
Proof. exact vnav_ofp_counters. Qed.
Print Assumptions C10d_tree_counters.

(* ------------------------------------------------------------------ examples (non-vacuity), on the witness *)
Definition wit_read (r : list N) (p : list wstep) : vres (pv pyval) := readp dcountp_zoned r wit_dec (build wit_tree) p.

(* the hypotheses on the tree; the walk consults exactly one counter field, byte 3 *)
Example C10d_example_tree :
  wfo wit_env [] wit_tree = true /\ odo_keys (build wit_tree) = [3%N]
  /\ nav_cpos (dtot dcountp_zoned) wit_bad (build wit_tree) = [(3, 1)]
  /\ nav_ctrs (dtot dcountp_zoned) wit_bad (build wit_tree) = [[74%N]]
  /\ nav_ctrs (dtot dcountp_zoned) wit_good (build wit_tree) = [[242%N]].
Proof. vm_compute. repeat split; reflexivity. Qed.
Example C10d_example_ids : NoDup (ids wit_tree).
Proof. vm_compute. repeat constructor; simpl; intuition discriminate. Qed.

(* C10d_counters_ok_agrees, C10d_readable_iff: the good record (N = 0xF2).  The counter decodes to 2; the partial
   constructor is the total one; every field reads *)
Example C10d_example_good :
  dcountp_zoned [242%N] = Ok 2 /\ bad_counter dcountp_zoned wit_good (build wit_tree) = None
  /\ vnav_ofp dcountp_zoned wit_good (build wit_tree) = vnav_of (dtot dcountp_zoned) wit_good (build wit_tree)
  /\ (exists v, vnav_ofp dcountp_zoned wit_good (build wit_tree) = Ok v)
  /\ wit_read wit_good wit_hdr = Some (Ok (PAtom (VStr [65; 66; 67]%N)))
  /\ wit_read wit_good [SKey (KName 5%N)] = Some (Ok (PAtom (VStr [90; 90]%N)))
  /\ wit_read wit_good [SKey (KName 4%N); SIdx 1] = Some (Ok (PDict [(KName 4%N, PAtom (VStr [98; 98]%N))]))
  /\ wit_read wit_good [SKey (KName 4%N); SIdx 2] = Some (Err IndexError).
Proof. vm_compute. repeat split; try reflexivity. eexists; reflexivity. Qed.

(* C10d_bad_counter_blocks_record, C10d_first_counter_blocks, C10d_unreadable_iff_odo: the bad record (N = 0x4A).  The
   counter raises ValueError; so does unpacker.nav; HDR, N itself, the table and AFTER all fail with that ValueError,
   although HDR's own bytes decode and HDR lies before the table *)
Example C10d_example_bad :
  dcountp_zoned [74%N] = Err ValueError /\ bad_counter dcountp_zoned wit_bad (build wit_tree) = Some ValueError
  /\ vnav_ofp dcountp_zoned wit_bad (build wit_tree) = Err ValueError
  /\ wit_read wit_bad wit_hdr = Some (Err ValueError)
  /\ wit_read wit_bad [SKey (KName 3%N)] = Some (Err ValueError)
  /\ wit_read wit_bad [SKey (KName 4%N)] = Some (Err ValueError)
  /\ wit_read wit_bad [SKey (KName 5%N)] = Some (Err ValueError)
  /\ wit_dec (Some (KName 2%N)) (slice wit_bad 0 3) = Ok (VStr [65; 66; 67]%N)
  (* the existing total model, given the completed decoder, reads HDR - it cannot express the failure *)
  /\ (match vnav_of (dtot dcountp_zoned) wit_bad (build wit_tree) with
      | Ok v0 => match vnav_path (dtot dcountp_zoned) wit_bad v0 wit_hdr with
                 | Ok v => vnav_value wit_bad wit_dec v | Err e => Some (Err e) end
      | Err e => Some (Err e) end) = Some (Ok (PAtom (VStr [65; 66; 67]%N))).
Proof. vm_compute. repeat split; reflexivity. Qed.

(* C10d_readable_iff_odo / C10d_unreadable_iff_odo: both records carry a count vector under the completed decoder
   (HDR and AFTER count as potential counters: Holds asks a count of every non-repeated elementary item) *)
Definition wit_env_good : env := fun c => if N.eqb c 3%N then 2 else if N.eqb c 2%N then 123 else if N.eqb c 5%N then 99 else 0.
Definition wit_env_bad : env := fun c => if N.eqb c 2%N then 123 else if N.eqb c 5%N then 11 else 0.
Example C10d_example_holds :
  Holds N (dtot dcountp_zoned) wit_good wit_env_good wit_tree 0 /\ Holds N (dtot dcountp_zoned) wit_bad wit_env_bad wit_tree 0.
Proof.
  (* not vm_compute on the whole statement: the place of each item is an existential variable there *)
  split; cbn -[dtot dcountp_zoned slice wit_good wit_bad wit_env_good wit_env_bad];
    repeat (first [exact I | split | (eexists; split; [reflexivity|]) | (vm_compute; reflexivity)]).
Qed.

(* C10d_lazy_odo / C10d_tree_counters: a record that differs from wit_good in a field that is NO counter (the first
   occurrence of T) has the same navigator, and every other field reads the same; a packed counter field with a nibble
   above 9 is rejected by the packed decoder as the zoned one is by the zoned decoder *)
Definition wit_other : list N := [193; 194; 195; 242; 64; 64; 130; 130; 233; 233]%N.
Example C10d_example_lazy :
  vnav_ofp dcountp_zoned wit_other (build wit_tree) = vnav_ofp dcountp_zoned wit_good (build wit_tree)
  /\ wit_read wit_other wit_hdr = wit_read wit_good wit_hdr
  /\ wit_read wit_other [SKey (KName 4%N); SIdx 1] = wit_read wit_good [SKey (KName 4%N); SIdx 1]
  /\ dcountp_packed [0; 44]%N = Ok 2 /\ dcountp_packed [10; 44]%N = Err ValueError.
Proof. vm_compute. repeat split; reflexivity. Qed.
