(* C15, companion file - documents with maxItemsDependsOn (what COBOL OCCURS DEPENDING ON tables are
   emitted with:  {"type": "array", "items": ..., "maxItemsDependsOn": {"$ref": "#COUNTER"}}).
   Only the property theorems, each closed by an exact lemma of Proofs/SchemaMakerOdoP.v.  The
   model is the one of Props/C15.v (Model/SchemaMaker.v [load], tied to /repo by harness/c15.py):
   walk_schema makes a DependsOnArraySchema AFTER walking the items and binds max_ref_to AT ONCE
   from name_cache; a name that is not in the cache at that moment is a ValueError (the code's own
   words: forward references for maxItemsDependsOn aren't supported) - no fix-up as for $ref.

   [wf] [uniq_anchors] [shadowed] [has_dangling] [refs_resolved] [stargets] [mirrors]  as in Props/C15.v;
        wf already admits maxItemsDependsOn (kind KDepends: items present, "#name" reference)
   [counter_names d]      the names after '#' of the maxItemsDependsOn of d   (Spec/JsonDocOdo.v)
   [dangling_any d]       some $ref OR some maxItemsDependsOn names no $anchor of d
   [counters_declared d]  every depending array names a counter DECLARED before it: the sub-schema
                          bearing the $anchor is closed before the array is - it stands earlier in the
                          document or inside the array's items (definition by one pass over d)
   [counters_placed d]    the same, said with paths: some sub-schema bearing the anchor has a path q with
                          closed_before q a (a = path of the array): q is not a prefix of a, and q is
                          before a in document order or below a
   [depends_sites s]      (attributes, max_ref_to) of every DependsOnArraySchema of the loaded graph
   [tables_bound d s]     each of them has a "#x" maxItemsDependsOn and max_ref_to = find_anchor d x *)
From Coq Require Import ZArith NArith List Bool.
Import ListNotations.
Require Import SR.Base.Res SR.Spec.JsonDoc SR.Spec.JsonDocOdo SR.Model.SchemaMaker SR.Proofs.SchemaMakerP
  SR.Proofs.SchemaMakerOdoP.

(* ---- LOADS, BOUND, GIVEN BACK: a document of the grammar extended with maxItemsDependsOn, unique
   anchors, no title shadowing, no dangling $ref, every counter declared before its table: loading
   succeeds, json() of the root is the document and every node mirrors its sub-document, every
   reference of either kind points at the sub-schema bearing the anchor, and in particular every
   DependsOnArraySchema's max_ref_to does ---- *)
Theorem C15c_loads_depends_on : forall d,
  wf d = true -> uniq_anchors d = true -> shadowed d = false ->
  has_dangling d = false -> counters_declared d = true ->
  exists s, load d = Ok s /\ attrs s = d /\ mirrors s d = true /\
            refs_resolved d s = true /\ map fst (stargets s) = refnames d /\ tables_bound d s = true.
Proof. exact load_depends_on. Qed.
Print Assumptions C15c_loads_depends_on.

(* [counters_declared] is defined by one pass over the document; said with paths it is
   [counters_placed]: for each depending array at path a naming x, some sub-schema bearing $anchor x
   sits at a path q that is not a prefix of a and is before a in document order or below a *)
Theorem C15c_declared_is_placed : forall d, wf d = true -> counters_declared d = counters_placed d.
Proof. exact declared_is_placed. Qed.
Print Assumptions C15c_declared_is_placed.

(* the main statement with the condition in its path form *)
Theorem C15c_loads_depends_on_placed : forall d,
  wf d = true -> uniq_anchors d = true -> shadowed d = false ->
  has_dangling d = false -> counters_placed d = true ->
  exists s, load d = Ok s /\ attrs s = d /\ mirrors s d = true /\
            refs_resolved d s = true /\ map fst (stargets s) = refnames d /\ tables_bound d s = true.
Proof. exact load_depends_on_placed. Qed.
Print Assumptions C15c_loads_depends_on_placed.

(* loading alone needs neither unique anchors nor the absence of shadowing *)
Theorem C15c_loads : forall d,
  wf d = true -> has_dangling d = false -> counters_declared d = true -> exists s, load d = Ok s.
Proof. exact load_depends_ok. Qed.
Print Assumptions C15c_loads.

(* what [tables_bound] says of one DependsOnArraySchema object: its maxItemsDependsOn is "#x" and
   max_ref_to is the sub-schema [find_anchor d x] (C15_find_anchor_bears: a sub-schema bearing x) *)
Theorem C15c_tables_bound_meaning : forall d s a t,
  tables_bound d s = true -> In (a, t) (depends_sites s) ->
  exists x, k_mido (scal_of a) = Some (hash :: x) /\ find_anchor d x = Some t.
Proof. exact tables_bound_meaning. Qed.
Print Assumptions C15c_tables_bound_meaning.

(* for EVERY document, a successful load leaves each DependsOnArraySchema among the references
   C15_refs speaks of: C15_refs covers max_ref_to *)
Theorem C15c_refs_cover_tables : forall d s,
  uniq_anchors d = true -> shadowed d = false -> load d = Ok s -> tables_bound d s = true.
Proof. exact load_tables_bound. Qed.
Print Assumptions C15c_refs_cover_tables.

(* ---- a counter that is not declared when its table closes is refused with ValueError: declared
   after the table, the table itself, a sub-schema enclosing the table, or nowhere ---- *)
Theorem C15c_counter_not_declared : forall d,
  wf d = true -> shadowed d = false -> counters_declared d = false -> load d = Err ValueError.
Proof. exact load_undeclared. Qed.
Print Assumptions C15c_counter_not_declared.

Theorem C15c_counter_not_placed : forall d,
  wf d = true -> shadowed d = false -> counters_placed d = false -> load d = Err ValueError.
Proof. exact load_unplaced. Qed.
Print Assumptions C15c_counter_not_placed.

(* conversely a successful load means every counter was declared before its table *)
Theorem C15c_loaded_declared : forall d s,
  shadowed d = false -> load d = Ok s -> counters_declared d = true.
Proof. exact load_declared. Qed.
Print Assumptions C15c_loaded_declared.

(* ---- dangling: a reference of EITHER kind that names no anchor is a ValueError ---- *)
Theorem C15c_dangling : forall d,
  wf d = true -> uniq_anchors d = true -> shadowed d = false -> dangling_any d = true ->
  load d = Err ValueError.
Proof. exact load_dangling_any. Qed.
Print Assumptions C15c_dangling.

(* declared counters are anchors of the document: with no dangling $ref nothing dangles *)
Theorem C15c_declared_not_dangling : forall d,
  wf d = true -> has_dangling d = false -> counters_declared d = true -> dangling_any d = false.
Proof. exact nothing_dangles. Qed.
Print Assumptions C15c_declared_not_dangling.

(* ---- exactly which documents load ---- *)
Theorem C15c_loads_exactly : forall d,
  wf d = true -> uniq_anchors d = true -> shadowed d = false ->
  (is_ok (load d) = true <-> has_dangling d = false /\ counters_declared d = true).
Proof. exact load_exactly. Qed.
Print Assumptions C15c_loads_exactly.

(* ---- the statement WITHOUT a condition on the place of the counter (the counter declared before
   or after the table) is FALSE of the code as it is: candidate finding K-odo-forward-counter ---- *)
Definition C15c_loads_depends_on_full : Prop :=
  forall d, wf d = true -> uniq_anchors d = true -> shadowed d = false -> dangling_any d = false ->
  exists s, load d = Ok s.

Theorem C15c_loads_depends_on_refuted : ~ C15c_loads_depends_on_full.
Proof. exact loads_depends_on_full_refuted. Qed.
Print Assumptions C15c_loads_depends_on_refuted.

(* the witness: {v: array of string depending on #X, a: integer $anchor X} *)
Example C15c_witness_forward :
  wf odo_forward = true /\ uniq_anchors odo_forward = true /\ shadowed odo_forward = false /\
  dangling_any odo_forward = false /\ counters_declared odo_forward = false /\
  counters_placed odo_forward = false /\
  find_anchor odo_forward nX = Some [1%nat] /\ load odo_forward = Err ValueError.
Proof. exact odo_forward_facts. Qed.

(* ---- non-vacuity ---- *)
(* {a: integer $anchor X, v: array of string depending on #X} *)
Example C15c_example_backward :
  wf odo_backward = true /\ uniq_anchors odo_backward = true /\ shadowed odo_backward = false /\
  has_dangling odo_backward = false /\ counters_declared odo_backward = true /\
  counters_placed odo_backward = true /\ counter_names odo_backward = [nX] /\
  match load odo_backward with
  | Ok s => depends_sites s = [(mk_tab None nX (mk_atom s_string None None), [0%nat])] /\
            find_anchor odo_backward nX = Some [0%nat] /\ tables_bound odo_backward s = true
  | Err _ => False
  end.
Proof. exact odo_backward_facts. Qed.

(* counter, a table of forward $refs, a second table inside the group referred to *)
Example C15c_example_mixed :
  wf odo_mixed = true /\ uniq_anchors odo_mixed = true /\ shadowed odo_mixed = false /\
  has_dangling odo_mixed = false /\ counters_declared odo_mixed = true /\ counters_placed odo_mixed = true /\
  refnames odo_mixed = [nX; nY; nX] /\
  match load odo_mixed with
  | Ok s => stargets s = [(nX, Some [0%nat]); (nY, Some [2%nat]); (nX, Some [0%nat])] /\
            map snd (depends_sites s) = [[0%nat]; [0%nat]] /\ tables_bound odo_mixed s = true /\
            attrs s = odo_mixed
  | Err _ => False
  end.
Proof. exact odo_mixed_facts. Qed.

(* a counter inside the table's own items is declared when the table closes *)
Example C15c_example_inside :
  wf odo_inside = true /\ counters_declared odo_inside = true /\ counters_placed odo_inside = true /\
  match load odo_inside with Ok s => map snd (depends_sites s) = [[0%nat]] | Err _ => False end.
Proof. exact odo_inside_facts. Qed.

(* the table itself, an enclosing sub-schema, no sub-schema: refused *)
Example C15c_example_refused :
  (wf odo_self = true /\ uniq_anchors odo_self = true /\ shadowed odo_self = false /\
   dangling_any odo_self = false /\ counters_declared odo_self = false /\ counters_placed odo_self = false /\
   load odo_self = Err ValueError) /\
  (wf odo_ancestor = true /\ uniq_anchors odo_ancestor = true /\ shadowed odo_ancestor = false /\
   dangling_any odo_ancestor = false /\ counters_declared odo_ancestor = false /\
   counters_placed odo_ancestor = false /\ load odo_ancestor = Err ValueError) /\
  (wf odo_dangling = true /\ uniq_anchors odo_dangling = true /\ shadowed odo_dangling = false /\
   has_dangling odo_dangling = false /\ dangling_any odo_dangling = true /\
   counters_declared odo_dangling = false /\ load odo_dangling = Err ValueError).
Proof. exact odo_refused_facts. Qed.
