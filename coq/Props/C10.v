(* C10 - placeholder while the correspondence is being set up *)
From Coq Require Import List Arith NArith ZArith Bool.
Import ListNotations.
Require Import SR.Base.Res SR.Spec.Layout SR.Model.Layout SR.Model.LayoutValue SR.Proofs.LayoutValueP.
Open Scope nat_scope.

Theorem C10_index_refused : forall (B : Type) (dcount : list B -> nat) (r : list B) (v : vnav) st sz isz cnt it sch i,
  vn_loc v = WArr st sz isz cnt it sch -> cnt <= i -> vnav_index dcount r v i = Err IndexError.
Proof. exact index_refused. Qed.
Print Assumptions C10_index_refused.
