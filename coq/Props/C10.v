(* C10 - Navigation is coherent and lazy: a part of the value is the value of the part.
   Only the property theorems, each closed by an exact lemma of Proofs/LayoutValueP.v.

   Vocabulary (Model/LayoutValue.v; B = bytes or characters, A = decoded elementary values):
     walkv / vnav_of        LocationMaker.walk / unpacker.nav(schema, instance)
     vnav_name, vnav_index  NDNav.name, NDNav.index       vnav_path  a sequence of both
     vnav_raw               NDNav.raw                     vnav_value NDNav.value (location.value(instance))
     row_values             Row.values
     dec a bytes            unpacker.value(schema of the atom anchored a, bytes): may raise
     vres: None = out of fuel (cyclic $ref chain), Some (Err e) = raised e, Some (Ok x) = returned x
   The DNav and WBNav families return the instance itself from value(); their laws are C15_dnav_value /
   C15_dnav (navigation = plain indexing) and C09_by_name / C09_values (Props/C15.v, Props/C09.v). *)
From Coq Require Import List Arith NArith ZArith Bool.
Import ListNotations.
Require Import SR.Base.Res SR.Spec.Layout SR.Model.Layout SR.Model.LayoutValue SR.Spec.Coherence SR.Proofs.LayoutValueP.
Require SR.Spec.Table SR.Spec.JsonDoc SR.Model.SchemaMaker SR.Proofs.SchemaMakerP SR.Model.HeaderRow SR.Proofs.HeaderRowP.
Require SR.Proofs.LayoutP.
Open Scope nat_scope.

(* ---- name: every location tree, every anchors table, every record, every decoder.
   The whole value of a group decodes EVERY member, also every REDEFINES alternative, so it can raise
   where a part does not: hence the premise that the whole value exists. *)
Theorem C10_commute_name : forall (B A : Type) (dec : option key -> list B -> res A) (r : list B)
    (v v' : vnav) (k : key) (d : list (key * pv A)),
  vnav_value r dec v = Some (Ok (PDict d)) ->
  vnav_name v k = Ok v' ->
  exists x, dlookup k d = Some x /\ vnav_value r dec v' = Some (Ok x).
Proof. intros B A dec. exact (commute_name B A dec). Qed.
Print Assumptions C10_commute_name.

(* ---- Row.values: the values of the top-level properties, in schema order *)
Theorem C10_values : forall (B A : Type) (dec : option key -> list B -> res A) (r : list B)
    (v : vnav) st sz ps (d : list (key * pv A)),
  vn_loc v = WObj st sz ps ->
  vnav_value r dec v = Some (Ok (PDict d)) ->
  map fst d = wkeys ps /\
  exists vs, row_values r dec v = Some (Ok vs) /\ Forall2 (fun k x => dlookup k d = Some x) (wkeys ps) vs.
Proof. intros B A dec. exact (row_values_whole B A dec). Qed.
Print Assumptions C10_values.

(* with distinct property names (a Python dict has no others) that is the list of the dict's values *)
Theorem C10_values_nodup : forall (B A : Type) (dec : option key -> list B -> res A) (r : list B)
    (v : vnav) st sz ps (d : list (key * pv A)),
  vn_loc v = WObj st sz ps -> NoDup (wkeys ps) ->
  vnav_value r dec v = Some (Ok (PDict d)) ->
  row_values r dec v = Some (Ok (map snd d)).
Proof.
  intros B A dec r v st sz ps d Hl Hnd Hv.
  destruct (row_values_whole B A dec r v st sz ps d Hl Hv) as [Hk [vs [Hr HF]]].
  rewrite <- Hk in HF, Hnd. now rewrite (dlookup_nodup A d vs Hnd HF) in Hr.
Qed.
Print Assumptions C10_values_nodup.

(* ---- index: refused at and beyond the item count *)
Theorem C10_index_refused : forall (B : Type) (dcount : list B -> nat) (r : list B) (v : vnav) st sz isz cnt it sch i,
  vn_loc v = WArr st sz isz cnt it sch -> cnt <= i -> vnav_index dcount r v i = Err IndexError.
Proof. exact index_refused. Qed.
Print Assumptions C10_index_refused.

(* ---- index: whole and part, for every navigator reached from unpacker.nav by names and indices,
   when the items schema has no $ref and no OCCURS DEPENDING ON inside; no condition on the rest of the schema.
   (Items WITH $ref: C10_commute_index below.) *)
Theorem C10_commute_index_partial : forall (B A : Type) (dcount : list B -> nat) (dec : option key -> list B -> res A)
    (r : list B) (s : js) (p : list wstep) (v0 v : vnav) st sz isz cnt it sch (xs : list (pv A)) i,
  vnav_of dcount r s = Ok v0 -> vnav_path dcount r v0 p = Ok v ->
  vn_loc v = WArr st sz isz cnt it sch -> simple sch = true ->
  vnav_value r dec v = Some (Ok (PList xs)) -> i < cnt ->
  exists v' x, vnav_index dcount r v i = Ok v' /\ nth_error xs i = Some x /\ vnav_value r dec v' = Some (Ok x).
Proof.
  intros B A dcount dec r s p v0 v st sz isz cnt it sch xs i H0 Hp.
  apply (commute_index_simple B dcount A dec r). exact (inv_path B dcount r p v0 v (inv_of B dcount r s v0 H0) Hp).
Qed.
Print Assumptions C10_commute_index_partial.

(* ---- index: whole and part, for items that contain $ref (REDEFINES inside a group inside a repeated group).
   cobol_like s (Spec/Coherence.v; a boolean on the schema alone): every $ref is a property of an object and names the
   $anchor of a direct alternative of a oneOf that is an EARLIER property of the same object (what REDEFINES emits),
   and no $anchor occurs twice.  The items schema must not contain OCCURS DEPENDING ON (C10_index_odo_refuted).
   The fuel question is settled inside the proof: registered locations only refer to names registered before them,
   so the fuel of the re-walked item's own anchors table suffices (lemma settled). *)
Theorem C10_commute_index : forall (B A : Type) (dcount : list B -> nat) (dec : option key -> list B -> res A)
    (r : list B) (s : js) (p : list wstep) (v0 v : vnav) st sz isz cnt it sch (xs : list (pv A)) i,
  cobol_like s = true ->
  vnav_of dcount r s = Ok v0 -> vnav_path dcount r v0 p = Ok v ->
  vn_loc v = WArr st sz isz cnt it sch -> odo_free sch = true ->
  vnav_value r dec v = Some (Ok (PList xs)) -> i < cnt ->
  exists v' x, vnav_index dcount r v i = Ok v' /\ nth_error xs i = Some x /\ vnav_value r dec v' = Some (Ok x).
Proof.
  intros B A dcount dec r s p v0 v st sz isz cnt it sch xs i Hc H0 Hp.
  apply (commute_index_J B dcount A dec r). exact (J_path B dcount r p v0 v (J_of B dcount r s v0 Hc H0) Hp).
Qed.
Print Assumptions C10_commute_index.

(* ---- raw bytes: a child lies inside its parent, and its raw bytes are that slice of the parent's *)
Theorem C10_raw : forall (B : Type) (r : list B) (v v' : vnav),
  wstart (vn_loc v) <= wstart (vn_loc v') -> wend (vn_loc v') <= wend (vn_loc v) ->
  vnav_raw r v' = slice (vnav_raw r v) (wstart (vn_loc v') - wstart (vn_loc v)) (wend (vn_loc v') - wstart (vn_loc v)).
Proof. exact raw_slice. Qed.
Print Assumptions C10_raw.

(* a property that is not a $ref placeholder *)
Theorem C10_raw_name : forall (B : Type) (dcount : list B -> nat) (r : list B) (s : js) (p : list wstep) (v0 v v' : vnav) k,
  vnav_of dcount r s = Ok v0 -> vnav_path dcount r v0 p = Ok v ->
  vnav_name v k = Ok v' -> ref_prop v k = false ->
  wstart (vn_loc v) <= wstart (vn_loc v') /\ wend (vn_loc v') <= wend (vn_loc v) /\
  vnav_raw r v' = slice (vnav_raw r v) (wstart (vn_loc v') - wstart (vn_loc v)) (wend (vn_loc v') - wstart (vn_loc v)).
Proof.
  intros B dcount r s p v0 v v' k H0 Hp Hn Hr.
  destruct (name_inside B dcount r v k v' (inv_path B dcount r p v0 v (inv_of B dcount r s v0 H0) Hp) Hn Hr) as [H1 H2].
  repeat split; try assumption. now apply raw_slice.
Qed.
Print Assumptions C10_raw_name.

(* one occurrence of an item without OCCURS DEPENDING ON inside: occurrence i starts at start + i * item_size,
   has the item size, and its raw bytes are that slice of the table's *)
Theorem C10_raw_index : forall (B : Type) (dcount : list B -> nat) (r : list B) (s : js) (p : list wstep) (v0 v v' : vnav)
    st sz isz cnt it sch i,
  vnav_of dcount r s = Ok v0 -> vnav_path dcount r v0 p = Ok v ->
  vn_loc v = WArr st sz isz cnt it sch -> odo_free sch = true ->
  vnav_index dcount r v i = Ok v' ->
  wstart (vn_loc v') = st + isz * i /\ wsize (vn_loc v') = isz /\
  vnav_raw r v' = slice (vnav_raw r v) (wstart (vn_loc v') - wstart (vn_loc v)) (wend (vn_loc v') - wstart (vn_loc v)).
Proof.
  intros B dcount r s p v0 v v' st sz isz cnt it sch i H0 Hp Hl Hof Hi.
  destruct (index_inside B dcount r v st sz isz cnt it sch i v' (inv_path B dcount r p v0 v (inv_of B dcount r s v0 H0) Hp) Hl Hof Hi)
    as [H1 [H2 [H3 H4]]].
  repeat split; try assumption. now apply raw_slice.
Qed.
Print Assumptions C10_raw_index.
(* every child reached by name, the $ref placeholders (members of a REDEFINES union) included, for cobol_like schemas:
   the alternative a placeholder resolves to lies inside the object that holds the placeholder *)
Theorem C10_raw_name_all : forall (B : Type) (dcount : list B -> nat) (r : list B) (s : js) (p : list wstep) (v0 v v' : vnav) k,
  cobol_like s = true ->
  vnav_of dcount r s = Ok v0 -> vnav_path dcount r v0 p = Ok v ->
  vnav_name v k = Ok v' ->
  wstart (vn_loc v) <= wstart (vn_loc v') /\ wend (vn_loc v') <= wend (vn_loc v) /\
  vnav_raw r v' = slice (vnav_raw r v) (wstart (vn_loc v') - wstart (vn_loc v)) (wend (vn_loc v') - wstart (vn_loc v)).
Proof.
  intros B dcount r s p v0 v v' k Hc H0 Hp Hn.
  destruct (name_inside_all B dcount r v k v' (J_path B dcount r p v0 v (J_of B dcount r s v0 Hc H0) Hp) Hn) as [H1 H2].
  repeat split; try assumption. now apply raw_slice.
Qed.
Print Assumptions C10_raw_name_all.

(* ---- laziness (non-interference).  v is one navigator, valid for both records (the same location tree:
   that is what agreement on the ODO counters buys; for a schema without ODO the tree does not depend on the
   record at all, C10_tree_fixed).  If the records agree on the bytes of v's own range then value() gives the
   same answer, the exception included: undecodable bytes anywhere else can neither raise nor change it.
   foot_inside v says that value() takes no slice outside [start, end); it is computed from the location tree
   alone.  It is a THEOREM for every location reached in a cobol_like schema (C10_foot_inside), hence for everything
   cobol_parser emits for a well-formed record description (C10_foot_inside_cobol, C10_lazy_cobol), and for schemas
   without $ref and ODO (C10_foot_inside_simple); the judge also evaluates it on every location of every case. *)
Theorem C10_lazy : forall (B A : Type) (dec : option key -> list B -> res A) (r r' : list B) (v : vnav),
  foot_inside v = true ->
  vnav_raw r v = vnav_raw r' v ->
  vnav_value r dec v = vnav_value r' dec v.
Proof. intros B A dec. exact (lazy_value B A dec). Qed.
Print Assumptions C10_lazy.

(* an elementary item: the value is the item's own decoder applied to the item's own raw bytes, nothing else *)
Theorem C10_field : forall (B A : Type) (dec : option key -> list B -> res A) (r : list B) (v : vnav) a st sz,
  vn_loc v = WAtom a st sz ->
  vnav_value r dec v = match dec a (vnav_raw r v) with Ok x => Some (Ok (PAtom x)) | Err e => Some (Err e) end.
Proof. intros B A dec. exact (atom_value B A dec). Qed.
Print Assumptions C10_field.

(* the general frame statement: value() depends on the record only through the slices of its footprint *)
Theorem C10_frame : forall (B A : Type) (dec : option key -> list B -> res A) (r r' : list B) an f l o,
  (forall a b, In (a, b) (wfoot f an l o) -> slice r a b = slice r' a b) ->
  wvalue r dec f an l o = wvalue r' dec f an l o.
Proof. intros B A dec. exact (frame_wvalue B A dec). Qed.
Print Assumptions C10_frame.

(* ---- the fuel only bounds cyclic $ref chains: a result, once defined, is the result for every larger fuel *)
Theorem C10_fuel_stable : forall (B A : Type) (dec : option key -> list B -> res A) (r : list B) an f f' l o x,
  f <= f' -> wvalue r dec f an l o = Some x -> wvalue r dec f' an l o = Some x.
Proof. intros B A dec. exact (wvalue_mono B A dec). Qed.
Print Assumptions C10_fuel_stable.

(* without OCCURS DEPENDING ON the location tree does not depend on the record at all *)
Theorem C10_tree_fixed : forall (B : Type) (dcount : list B -> nat) (r r' : list B) (s : js) st an,
  odo_free s = true -> walkv dcount r s st an = walkv dcount r' s st an.
Proof. intros B dcount r r' s st an H. exact (proj1 (walkv_record_free B dcount r r') s H st an). Qed.
Print Assumptions C10_tree_fixed.

(* with OCCURS DEPENDING ON: two records whose counter fields (the atoms registered under the names the ODO tables
   consult) give the same counts produce the same navigator, locations and anchors alike *)
Theorem C10_tree_counters : forall (B : Type) (dcount : list B -> nat) (r r' : list B) s v,
  vnav_of dcount r s = Ok v ->
  (forall c a cst csz, In c (odo_keys s) -> In (KName c, WAtom a cst csz) (vn_an v) ->
     dcount (slice r cst (cst + csz)) = dcount (slice r' cst (cst + csz))) ->
  vnav_of dcount r' s = Ok v.
Proof. exact nav_counters. Qed.
Print Assumptions C10_tree_counters.

(* for schemas without $ref and ODO every location reached reads inside its own range, so C10_lazy applies *)
Theorem C10_foot_inside_simple : forall (B : Type) (dcount : list B -> nat) (r : list B) s p v0 v,
  simple s = true -> vnav_of dcount r s = Ok v0 -> vnav_path dcount r v0 p = Ok v -> foot_inside v = true.
Proof. exact foot_inside_simple. Qed.
Print Assumptions C10_foot_inside_simple.

(* for cobol_like schemas (with or without OCCURS DEPENDING ON) every location reached reads inside its own range *)
Theorem C10_foot_inside : forall (B : Type) (dcount : list B -> nat) (r : list B) s p v0 v,
  cobol_like s = true -> vnav_of dcount r s = Ok v0 -> vnav_path dcount r v0 p = Ok v -> foot_inside v = true.
Proof.
  intros B dcount r s p v0 v Hc H0 Hp.
  exact (foot_inside_J B dcount r v (J_path B dcount r p v0 v (J_of B dcount r s v0 Hc H0) Hp)).
Qed.
Print Assumptions C10_foot_inside.

(* hence laziness without the side condition: a navigator reached in record r, evaluated on any record r' that has the
   same bytes in the navigator's own range, gives the same answer, exceptions included *)
Theorem C10_lazy_cobol_like : forall (B A : Type) (dcount : list B -> nat) (dec : option key -> list B -> res A)
    (r r' : list B) s p v0 v,
  cobol_like s = true -> vnav_of dcount r s = Ok v0 -> vnav_path dcount r v0 p = Ok v ->
  vnav_raw r v = vnav_raw r' v ->
  vnav_value r dec v = vnav_value r' dec v.
Proof.
  intros B A dcount dec r r' s p v0 v Hc H0 Hp. apply (lazy_value B A dec).
  exact (foot_inside_J B dcount r v (J_path B dcount r p v0 v (J_of B dcount r s v0 Hc H0) Hp)).
Qed.
Print Assumptions C10_lazy_cobol_like.

(* ---- NDNav.index takes any Python int; index_start_z (Model/LayoutValue.v) evaluates the refusal tests the extractor
   read in the source (Gen/LayoutParams.v: index_refuse_low, index_refuse) on an integer.
   Every negative index is refused with IndexError, whatever the table (fix 08e8809). *)
Theorem C10_negative_index_refused : forall (v : vnav) st sz isz cnt it sch z,
  vn_loc v = WArr st sz isz cnt it sch -> (z < 0)%Z ->
  index_start_z v z = Err IndexError.
Proof. exact index_negative_refused. Qed.
Print Assumptions C10_negative_index_refused.

(* an index is accepted exactly when 0 <= index < item_count *)
Theorem C10_index_accepted_iff : forall (v : vnav) st sz isz cnt it sch z,
  vn_loc v = WArr st sz isz cnt it sch ->
  (index_start_z v z <> Err IndexError <-> (0 <= z < Z.of_nat cnt)%Z).
Proof. exact index_accepted_iff. Qed.
Print Assumptions C10_index_accepted_iff.

(* What fix 08e8809 repaired (finding K-negative-index): with the single test index >= item_count of the original
   source (no test against 0) a negative index is NOT refused, and the occurrence is walked from a start BEFORE the
   table. *)
Theorem C10_negative_index_old_refuted : forall (v : vnav) st sz isz cnt it sch z,
  vn_loc v = WArr st sz isz cnt it sch -> (z < 0)%Z ->
  index_start_with None (Some LayoutRule.CmpGe) v z = Ok (Z.of_nat st + Z.of_nat isz * z)%Z.
Proof. exact index_start_old_negative. Qed.
Print Assumptions C10_negative_index_old_refuted.

(* on natural numbers index_start_z is where vnav_index walks *)
Theorem C10_index_start : forall (v : vnav) st sz isz cnt it sch i,
  vn_loc v = WArr st sz isz cnt it sch -> i < cnt ->
  index_start_z v (Z.of_nat i) = Ok (Z.of_nat (st + isz * i)).
Proof. exact index_start_nat. Qed.
Print Assumptions C10_index_start.

(* ------------------------------------------------------------------ examples (non-vacuity and refutations) *)
(* 01 R. 05 A PIC X(2). 05 T OCCURS 2. 10 B PIC X. 10 C PIC X(2). 05 D PIC X(3). 05 E REDEFINES D PIC X(3).
   ids: R=1 A=2 T=3 B=4 C=5 D=6 E=7.  Bytes are numbers; the decoder rejects a field containing 99. *)
Definition ex_tree : item :=
  Group 1%N Once None
    (ICons (Elem 2%N 2 Once None)
    (ICons (Group 3%N (Times 2) None (ICons (Elem 4%N 1 Once None) (ICons (Elem 5%N 2 Once None) INil)))
    (ICons (Elem 6%N 3 Once None)
    (ICons (Elem 7%N 3 Once (Some 6%N)) INil)))).
Definition ex_dec (a : option key) (bs : list nat) : res (list nat) :=
  if existsb (Nat.eqb 99) bs then Err ValueError else Ok bs.
Definition ex_dcount (bs : list nat) : nat := 0.
Definition ex_r : list nat := [10; 11; 12; 13; 14; 15; 16; 17; 18; 19; 20].
Definition ex_bad : list nat := [10; 11; 12; 13; 14; 15; 99; 17; 18; 19; 20].     (* C of the second occurrence *)
Definition ex_nav (r : list nat) : res vnav := vnav_of ex_dcount r (build ex_tree).
Definition ex_at (r : list nat) (p : list wstep) : res vnav :=
  match ex_nav r with Ok v => vnav_path ex_dcount r v p | Err e => Err e end.
Definition ex_val (r : list nat) (p : list wstep) : vres (pv (list nat)) :=
  match ex_at r p with Ok v => vnav_value r ex_dec v | Err e => Some (Err e) end.

Example C10_example_whole :
  ex_val ex_r [] = Some (Ok (PDict
    [(KName 2%N, PAtom [10; 11]);
     (KName 3%N, PList [PDict [(KName 4%N, PAtom [12]); (KName 5%N, PAtom [13; 14])];
                        PDict [(KName 4%N, PAtom [15]); (KName 5%N, PAtom [16; 17])]]);
     (KRedef 6%N, PAtom [18; 19; 20]);
     (KName 6%N, PAtom [18; 19; 20]);
     (KName 7%N, PAtom [18; 19; 20])])).
Proof. vm_compute. reflexivity. Qed.

(* hypotheses of C10_commute_name, C10_values, C10_commute_index_partial, C10_raw_name, C10_raw_index hold here *)
Example C10_example_parts :
  ex_val ex_r [SKey (KName 3%N); SIdx 1; SKey (KName 5%N)] = Some (Ok (PAtom [16; 17]))
  /\ ex_val ex_r [SKey (KName 7%N)] = Some (Ok (PAtom [18; 19; 20]))
  /\ (match ex_at ex_r [SKey (KName 3%N)] with
      | Ok v => match vn_loc v with WArr _ _ _ cnt _ sch => simple sch && (cnt =? 2) | _ => false end
      | Err _ => false end) = true
  /\ (match ex_at ex_r [] with Ok v => ref_prop v (KName 2%N) | Err _ => true end) = false
  /\ (match ex_nav ex_r with Ok v => row_values ex_r ex_dec v | Err e => Some (Err e) end)
     = Some (Ok [PAtom [10; 11];
                 PList [PDict [(KName 4%N, PAtom [12]); (KName 5%N, PAtom [13; 14])];
                        PDict [(KName 4%N, PAtom [15]); (KName 5%N, PAtom [16; 17])]];
                 PAtom [18; 19; 20]; PAtom [18; 19; 20]; PAtom [18; 19; 20]]).
Proof. vm_compute. repeat split; reflexivity. Qed.

(* laziness: with one undecodable byte the whole record value raises, every other field still reads, the same
   location trees are built, foot_inside holds, and the refused index is refused *)
Example C10_example_lazy :
  ex_val ex_bad [] = Some (Err ValueError)
  /\ ex_val ex_bad [SKey (KName 3%N); SIdx 1; SKey (KName 5%N)] = Some (Err ValueError)
  /\ ex_val ex_bad [SKey (KName 3%N); SIdx 1; SKey (KName 4%N)] = Some (Ok (PAtom [15]))
  /\ ex_val ex_bad [SKey (KName 3%N); SIdx 0] = ex_val ex_r [SKey (KName 3%N); SIdx 0]
  /\ ex_at ex_bad [SKey (KName 3%N); SIdx 0] = ex_at ex_r [SKey (KName 3%N); SIdx 0]
  /\ (match ex_at ex_r [SKey (KName 3%N); SIdx 0] with Ok v => foot_inside v | Err _ => false end) = true
  /\ (match ex_at ex_r [] with Ok v => foot_inside v | Err _ => false end) = true
  /\ ex_at ex_r [SKey (KName 3%N); SIdx 2] = Err IndexError.
Proof. vm_compute. repeat split; reflexivity. Qed.

(* C10_tree_counters and C10_lazy together on the ODO record below: the records 1 21 22 and 1 99 22 agree on the
   counter, so they give the same navigator; the second holds an undecodable byte in the first occurrence of G,
   the second occurrence reads the same in both *)
Example C10_example_counters :
  vnav_of (fun bs => match bs with [n] => n | _ => 0 end) [1; 21; 22]
    (build (Group 1%N Once None (ICons (Elem 2%N 1 Once None) (ICons (Elem 4%N 1 (Odo 2%N) None) INil))))
  = vnav_of (fun bs => match bs with [n] => n | _ => 0 end) [1; 99; 22]
    (build (Group 1%N Once None (ICons (Elem 2%N 1 Once None) (ICons (Elem 4%N 1 (Odo 2%N) None) INil))))
  /\ odo_keys (build (Group 1%N Once None (ICons (Elem 2%N 1 Once None) (ICons (Elem 4%N 1 (Odo 2%N) None) INil)))) = [2%N].
Proof. vm_compute. split; reflexivity. Qed.

(* index(-1) on the table T (start 2, item size 3, 2 occurrences) is refused; index(1) is walked from 5; with the
   tests of the original source index(-1) was walked from start -1 *)
Example C10_negative_index_example :
  (match ex_at ex_r [SKey (KName 3%N)] with Ok v => index_start_z v (-1) | Err e => Err e end) = Err IndexError
  /\ (match ex_at ex_r [SKey (KName 3%N)] with Ok v => index_start_z v 1 | Err e => Err e end) = Ok 5%Z
  /\ (match ex_at ex_r [SKey (KName 3%N)] with
      | Ok v => index_start_with None (Some LayoutRule.CmpGe) v (-1) | Err e => Err e end) = Ok (-1)%Z.
Proof. vm_compute. repeat split; reflexivity. Qed.

(* K-index-odo: 01 R. 05 N PIC 9. 05 G OCCURS 2. 10 T OCCURS DEPENDING ON N PIC X.
   The whole value of G exists, G.index(0) raises KeyError: commutation fails (the items schema of G is not closed) *)
Definition ex_odo_tree : item :=
  Group 1%N Once None
    (ICons (Elem 2%N 1 Once None)
    (ICons (Group 3%N (Times 2) None (ICons (Elem 4%N 1 (Odo 2%N) None) INil)) INil)).
Definition ex_odo_dcount (bs : list nat) : nat := match bs with [n] => n | _ => 0 end.
Example C10_index_odo_refuted :
  match vnav_of ex_odo_dcount [1; 21; 22] (build ex_odo_tree) with
  | Ok v0 =>
      match vnav_name v0 (KName 3%N) with
      | Ok v =>
          vnav_value [1; 21; 22] ex_dec v
            = Some (Ok (PList [PDict [(KName 4%N, PList [PDict [(KName 4%N, PAtom [21])]])];
                               PDict [(KName 4%N, PList [PDict [(KName 4%N, PAtom [22])]])]]))
          /\ vnav_index ex_odo_dcount [1; 21; 22] v 0 = Err KeyError
      | Err _ => False
      end
  | Err _ => False
  end.
Proof. vm_compute. split; reflexivity. Qed.

(* ------------------------------------------------------------------ COBOL-built schemas of well-formed record descriptions.
   SR.Proofs.LayoutP.wf e t and NoDup (ids t) are C01's hypotheses: no OCCURS DEPENDING ON, every REDEFINES names an
   earlier non-redefining sibling no shorter than itself, no elementary OCCURS item in a union, no REDEFINES directly
   inside a repeated group, item ids distinct.  For these the side conditions above are theorems, so whole-versus-part
   for indices, containment of every child and laziness hold with no hypothesis left about the schema. *)
Theorem C10_cobol_like_built : forall (e : env) (t : item),
  SR.Proofs.LayoutP.wf e t = true -> NoDup (SR.Proofs.LayoutP.ids t) -> cobol_like (build t) = true.
Proof. exact cobol_like_build. Qed.
Print Assumptions C10_cobol_like_built.

Theorem C10_commute_index_cobol : forall (B : Type) (dcount : list B -> nat) (A : Type) (dec : option key -> list B -> res A)
    (r : list B) (e : env) (t : item) (p : list wstep) (v0 v : vnav) st sz isz cnt it sch (xs : list (pv A)) i,
  SR.Proofs.LayoutP.wf e t = true -> NoDup (SR.Proofs.LayoutP.ids t) ->
  vnav_of dcount r (build t) = Ok v0 -> vnav_path dcount r v0 p = Ok v ->
  vn_loc v = WArr st sz isz cnt it sch ->
  vnav_value r dec v = Some (Ok (PList xs)) -> i < cnt ->
  exists v' x, vnav_index dcount r v i = Ok v' /\ nth_error xs i = Some x /\ vnav_value r dec v' = Some (Ok x).
Proof. exact commute_index_cobol. Qed.
Print Assumptions C10_commute_index_cobol.

Theorem C10_raw_name_cobol : forall (B : Type) (dcount : list B -> nat) (r : list B) (e : env) (t : item) (p : list wstep) (v0 v v' : vnav) k,
  SR.Proofs.LayoutP.wf e t = true -> NoDup (SR.Proofs.LayoutP.ids t) ->
  vnav_of dcount r (build t) = Ok v0 -> vnav_path dcount r v0 p = Ok v -> vnav_name v k = Ok v' ->
  wstart (vn_loc v) <= wstart (vn_loc v') /\ wend (vn_loc v') <= wend (vn_loc v) /\
  vnav_raw r v' = slice (vnav_raw r v) (wstart (vn_loc v') - wstart (vn_loc v)) (wend (vn_loc v') - wstart (vn_loc v)).
Proof. exact raw_name_cobol. Qed.
Print Assumptions C10_raw_name_cobol.

Theorem C10_raw_index_cobol : forall (B : Type) (dcount : list B -> nat) (r : list B) (e : env) (t : item) (p : list wstep) (v0 v v' : vnav)
    st sz isz cnt it sch i,
  SR.Proofs.LayoutP.wf e t = true -> NoDup (SR.Proofs.LayoutP.ids t) ->
  vnav_of dcount r (build t) = Ok v0 -> vnav_path dcount r v0 p = Ok v ->
  vn_loc v = WArr st sz isz cnt it sch -> vnav_index dcount r v i = Ok v' ->
  wstart (vn_loc v') = st + isz * i /\ wsize (vn_loc v') = isz /\
  vnav_raw r v' = slice (vnav_raw r v) (wstart (vn_loc v') - wstart (vn_loc v)) (wend (vn_loc v') - wstart (vn_loc v)).
Proof. exact raw_index_cobol. Qed.
Print Assumptions C10_raw_index_cobol.

Theorem C10_foot_inside_cobol : forall (B : Type) (dcount : list B -> nat) (r : list B) (e : env) (t : item) (p : list wstep) (v0 v : vnav),
  SR.Proofs.LayoutP.wf e t = true -> NoDup (SR.Proofs.LayoutP.ids t) ->
  vnav_of dcount r (build t) = Ok v0 -> vnav_path dcount r v0 p = Ok v -> foot_inside v = true.
Proof. exact foot_inside_cobol. Qed.
Print Assumptions C10_foot_inside_cobol.

(* laziness, unconditionally: undecodable bytes outside a location's own range can neither raise nor change its value *)
Theorem C10_lazy_cobol : forall (B : Type) (dcount : list B -> nat) (A : Type) (dec : option key -> list B -> res A)
    (r : list B) (e : env) (r' : list B) (t : item) (p : list wstep) (v0 v : vnav),
  SR.Proofs.LayoutP.wf e t = true -> NoDup (SR.Proofs.LayoutP.ids t) ->
  vnav_of dcount r (build t) = Ok v0 -> vnav_path dcount r v0 p = Ok v ->
  vnav_raw r v = vnav_raw r' v ->
  vnav_value r dec v = vnav_value r' dec v.
Proof. exact lazy_cobol. Qed.
Print Assumptions C10_lazy_cobol.

(* non-vacuity: 01 R. 05 T OCCURS 2. 10 G. 15 B. 20 X PIC X(2). 20 Y REDEFINES X PIC X. 15 C REDEFINES B. 20 P PIC X(2).
   20 Q REDEFINES P PIC X(2).   (ids R=1 T=2 G=3 B=4 X=5 Y=6 C=7 P=8 Q=9): REDEFINES, two levels deep, inside a table *)
Definition ex_cobol : item :=
  Group 1%N Once None (ICons (Group 2%N (Times 2) None (ICons (Group 3%N Once None
    (ICons (Group 4%N Once None (ICons (Elem 5%N 2 Once None) (ICons (Elem 6%N 1 Once (Some 5%N)) INil)))
    (ICons (Group 7%N Once (Some 4%N) (ICons (Elem 8%N 2 Once None) (ICons (Elem 9%N 2 Once (Some 8%N)) INil))) INil))) INil)) INil).
Example C10_example_cobol_wf : SR.Proofs.LayoutP.wf (fun _ => 0) ex_cobol = true /\ cobol_like (build ex_cobol) = true.
Proof. vm_compute. split; reflexivity. Qed.
Example C10_example_cobol_ids : NoDup (SR.Proofs.LayoutP.ids ex_cobol).
Proof. vm_compute. repeat constructor; simpl; intuition discriminate. Qed.
Example C10_example_cobol_index :
  match vnav_of ex_dcount [1; 2; 3; 4] (build ex_cobol) with
  | Ok v0 =>
      match vnav_name v0 (KName 2%N) with
      | Ok v =>
          match vnav_value [1; 2; 3; 4] ex_dec v, vnav_index ex_dcount [1; 2; 3; 4] v 1 with
          | Some (Ok (PList [_; x1])), Ok v1 => vnav_value [1; 2; 3; 4] ex_dec v1 = Some (Ok x1)
          | _, _ => False
          end
      | Err _ => False
      end
  | Err _ => False
  end.
Proof. vm_compute. reflexivity. Qed.

(* ------------------------------------------------------------------ the tie to C01's layout model:
   forgetting the atom annotation turns walkv / vnav_name / vnav_index / vnav_raw into walk / nav_name / nav_index /
   nav_raw of Model/Layout.v, so C01's theorems about starts and ends speak about these locations *)
Theorem C10_extends_C01 : forall (B : Type) (dcount : list B -> nat) (r : list B),
  (forall s, nav_of dcount r s = erase_rnav (vnav_of dcount r s))
  /\ (forall v k, nav_name (erase_nav v) k = erase_rnav (vnav_name v k))
  /\ (forall v i, nav_index dcount r (erase_nav v) i = erase_rnav (vnav_index dcount r v i))
  /\ (forall v, nav_raw r (erase_nav v) = vnav_raw r v).
Proof.
  intros B dcount r. repeat split.
  - apply nav_of_erase.
  - apply nav_name_erase.
  - apply nav_index_erase.
  - apply nav_raw_erase.
Qed.
Print Assumptions C10_extends_C01.

(* ------------------------------------------------------------------ the other two navigator families.
   DNav.value() and WBNav.value() return the instance itself, so whole-versus-part reads
   value(path p nav) = instance indexed by p.  These are C15's and C09's lemmas, restated. *)
(* DNav: whatever navigation by names and indices returns is what plain indexing of the document returns *)
Theorem C10_dnav : forall root v p x,
  SR.Model.SchemaMaker.nav_value root v p = Ok x -> SR.Spec.JsonDoc.index_json v p = Ok x.
Proof. exact SR.Proofs.SchemaMakerP.nav_value_sound. Qed.
Print Assumptions C10_dnav.

Theorem C10_wbnav_name : forall (h : SR.Model.HeaderRow.row) (body : SR.Model.HeaderRow.sheet) pre os rows,
  SR.Model.HeaderRow.row_iter SR.Model.HeaderRow.HeadingRow pre (h :: body) = Ok (os, rows) ->
  NoDup (map SR.Model.HeaderRow.str_of h) ->
  exists s, os = Some s /\
    forall (r : SR.Model.HeaderRow.row) (i : nat) (c : SR.Model.HeaderRow.cell),
      nth_error h i = Some c -> SR.Model.HeaderRow.nav_name s (SR.Model.HeaderRow.str_of c) r = Ok (nth_error r i).
Proof. exact SR.Proofs.HeaderRowP.by_name_table. Qed.
Print Assumptions C10_wbnav_name.

Theorem C10_wbnav_values : forall (h : SR.Model.HeaderRow.row) (body : SR.Model.HeaderRow.sheet) pre os rows,
  SR.Model.HeaderRow.row_iter SR.Model.HeaderRow.HeadingRow pre (h :: body) = Ok (os, rows) ->
  NoDup (map SR.Model.HeaderRow.str_of h) ->
  exists s, os = Some s /\
    forall r : SR.Model.HeaderRow.row,
      SR.Model.HeaderRow.values s r = Ok (SR.Spec.Table.cells_in_header_order (length h) r).
Proof. exact SR.Proofs.HeaderRowP.values_table. Qed.
Print Assumptions C10_wbnav_values.
