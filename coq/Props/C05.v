(* C05 - Record framing: what was written in a RECFM is what is read back.
   Only the property theorems, each closed by an exact lemma (Proofs/RecfmP.v).
   Writers and domains: Spec/Recfm.v.  Readers: Model/Recfm.v (the Python loops of estruct.RECFM_F/V/VB/N with the
   buffer size, refill expression class and header format read from the current source, Gen/RecfmParams.v).
   A reader's behaviour is (items yielded, how it ended, stream left unread): [Done] = ended normally,
   third component [] = the whole file was consumed.  [kind] = which Python file object is the source (irrelevant here:
   it only matters for negative read counts, which legal images never produce). *)
From Coq Require Import ZArith NArith List.
Import ListNotations.
Require Import SR.Base.Res SR.Gen.RecfmParams SR.Spec.Recfm SR.Model.Recfm SR.Proofs.RecfmP.
Open Scope nat_scope.

(* F / FB, any element type: records of common length lrecl > 0 come back one by one, nothing is left. *)
Theorem C05_F : forall (A : Type) (kind : N) (lrecl : nat) (rs : list (list A)),
  legal_F lrecl rs = true ->
  F_record_iter kind (Z.of_nat lrecl) (write_F rs) = (rs, Done, []).
Proof. exact (@F_record_iter_ok). Qed.
Print Assumptions C05_F.

(* F.rdw_iter: the same payloads, each behind the length word lrecl + 4 (when that fits 16 bits). *)
Theorem C05_F_rdw : forall (kind : N) (lrecl : nat) (rs : list (list N)),
  legal_F lrecl rs = true -> (N.of_nat lrecl + 4 <= max_hdr)%N ->
  F_rdw_iter kind (Z.of_nat lrecl) (write_F rs) = (map rdw_rec rs, Done, []).
Proof. exact F_rdw_iter_ok. Qed.
Print Assumptions C05_F_rdw.

(* V: every list of records whose length words fit (0 <= len, len + 4 <= 65535). *)
Theorem C05_V : forall (kind : N) (rs : list (list N)),
  legal_V rs = true ->
  V_record_iter kind (write_V rs) = (rs, Done, [])
  /\ V_rdw_iter kind (write_V rs) = (map rdw_rec rs, Done, []).
Proof. intros kind rs _. split; [apply V_record_iter_ok | apply V_rdw_iter_ok]. Qed.
Print Assumptions C05_V.

(* VB: every blocking - every block at most 65535 bytes, any number of records per block (none included), records of
   ANY length that fits, the empty record included at every position of a block (first, between others, last, a block
   of empty records only), exactly as in V.  [legal_VB] = every block's length word is representable, nothing else.
   The reader is the one of the current source: the comparison of its corruption check is Gen/RecfmParams.v
   vb_rdw_fits_strict (offset + 4 <= len(block) since fix eee0fb2). *)
Theorem C05_VB : forall (kind : N) (blocks : list (list (list N))),
  legal_VB blocks = true ->
  VB_record_iter kind (write_VB blocks) = (concat blocks, Done, [])
  /\ VB_rdw_iter kind (write_VB blocks) = (map rdw_rec (concat blocks), Done, [])
  /\ VB_bdw_iter kind (write_VB blocks) = (map write_block blocks, Done, []).
Proof. exact VB_iters_ok. Qed.
Print Assumptions C05_VB.

(* What fix eee0fb2 repaired.  With the strict comparison of the tree before it (offset + 4 < len(block)) the file of
   ONE block holding the record 01 02 and then a record without data bytes is legal, and reading it back raises
   AssertionError after the first record (record_iter and rdw_iter alike; the whole file has been consumed), so the
   records read are not the records written; the same two records in the other order come back whole, and so does
   the file itself under the comparison of the current tree.  (The specification's [legal_block] used to demand
   non-empty records, which kept this input outside the theorem and outside the judged domain.) *)
Theorem C05_VB_empty_last_old_refuted :
  legal_VB [[[1; 2]; []]]%N = true
  /\ VB_record_iter_with true 0 (write_VB [[[1; 2]; []]]%N) = ([[1; 2]]%N, Raised AssertionError, [])
  /\ VB_rdw_iter_with true 0 (write_VB [[[1; 2]; []]]%N) = ([[0; 6; 0; 0; 1; 2]]%N, Raised AssertionError, [])
  /\ VB_record_iter_with true 0 (write_VB [[[1; 2]; []]]%N) <> (concat [[[1; 2]; []]]%N, Done, [])
  /\ VB_record_iter_with true 0 (write_VB [[[]; [1; 2]]]%N) = ([[]; [1; 2]]%N, Done, [])
  /\ VB_record_iter_with false 0 (write_VB [[[1; 2]; []]]%N) = ([[1; 2]; []]%N, Done, []).
Proof. exact VB_empty_last_old_refuted. Qed.
Print Assumptions C05_VB_empty_last_old_refuted.

(* The rule as it stood before the fix, as a statement about the old parameter value: under the strict comparison the
   round trip holds for blocks of NON-EMPTY records (and, by the theorem above, not beyond). *)
Theorem C05_VB_old_rule : forall (kind : N) (blocks : list (list (list N))),
  forallb (forallb (fun r => 1 <=? length r)) blocks = true ->
  VB_record_iter_with true kind (write_VB blocks) = (concat blocks, Done, [])
  /\ VB_rdw_iter_with true kind (write_VB blocks) = (map rdw_rec (concat blocks), Done, []).
Proof. exact VB_old_rule. Qed.
Print Assumptions C05_VB_old_rule.

(* N, the top-up refill, for EVERY buffer size B > 0 and element type: a consumer that announces the true
   length of each record (1 <= len <= B) is handed, at step i, a buffer that starts with record i; after the
   last record the generator ends, with the buffer and the file both empty. *)
Theorem C05_N_any_buffer : forall (A : Type) (B : nat) (kind : N) (rs : list (list A)),
  0 < B -> legal_N B rs = true ->
  exists bufs s', N_run 0 kind B (N_init B (write_N rs)) (map (@length A) rs) = (bufs, Done, s')
    /\ length bufs = length rs
    /\ heads (map (@length A) rs) bufs = rs
    /\ buf s' = [] /\ rest s' = [].
Proof. intros A B kind rs HB H. exact (N_roundtrip B HB kind rs H). Qed.
Print Assumptions C05_N_any_buffer.

(* N as the source has it now: buffer size and refill expression class taken from Gen/RecfmParams.v. *)
Theorem C05_N : forall (A : Type) (kind : N) (rs : list (list A)),
  legal_N (N.to_nat buffer_size) rs = true ->
  exists bufs s', N_read kind (write_N rs) (map (@length A) rs) = (bufs, Done, s')
    /\ length bufs = length rs
    /\ heads (map (@length A) rs) bufs = rs
    /\ buf s' = [] /\ rest s' = [].
Proof. exact (@N_read_roundtrip). Qed.
Print Assumptions C05_N.

(* What the fix repaired: with the refill of the original tree (mode 1: read(K - used)) the round trip fails,
   here with K = 8 and three records of 5 (the arithmetic of three 20000-byte records at K = 32768). *)
Theorem C05_N_old_refuted :
  exists (B : nat) (recs : list (list nat)),
    legal_N B recs = true /\
    heads (map (@length nat) recs) (fst (fst (N_run 1 0 B (N_init B (write_N recs)) (map (@length nat) recs)))) <> recs.
Proof. exact N_old_refuted. Qed.
Print Assumptions C05_N_old_refuted.

(* ---- Resumed reading: several iterators one after the other on ONE reader.
   [X_take fuel k] is the reader's loop suspended at its k-th yield (what itertools.islice(it, k) leaves behind);
   the third component is the stream the next iterator starts from; [More] = suspended after k items. *)

(* V: taking the first part's records leaves exactly the image of the second part. *)
Theorem C05_V_resume : forall (kind : N) (rs1 rs2 : list (list N)),
  V_take (S (length (write_V (rs1 ++ rs2)))) (length rs1) kind (write_V (rs1 ++ rs2))
  = (map (fun r => (rdw (len4 r), r)) rs1, More, write_V rs2).
Proof. exact V_resume. Qed.
Print Assumptions C05_V_resume.

(* F, any element type. *)
Theorem C05_F_resume : forall (A : Type) (kind : N) (lrecl : nat) (rs1 rs2 : list (list A)),
  legal_F lrecl (rs1 ++ rs2) = true ->
  F_take (S (length (write_F (rs1 ++ rs2)))) (length rs1) kind (Z.of_nat lrecl) (write_F (rs1 ++ rs2))
  = (rs1, More, write_F rs2).
Proof. exact (@F_resume). Qed.
Print Assumptions C05_F_resume.

(* VB block-wise (any blocks, empty records and empty blocks included). *)
Theorem C05_VB_bdw_resume : forall (kind : N) (bs1 bs2 : list (list (list N))),
  B_take (S (length (write_VB (bs1 ++ bs2)))) (length bs1) kind (write_VB (bs1 ++ bs2))
  = (map write_block bs1, More, write_VB bs2).
Proof. exact VB_bdw_resume. Qed.
Print Assumptions C05_VB_bdw_resume.

(* Hence EVERY sequence of passes (iterator 0 = record_iter, 1 = rdw_iter, 2 = bdw_iter; Some k = islice k,
   None = to exhaustion), each started where the previous one stopped, delivers pass by pass what the Spec expects
   ([expect_passes]: the next k records, rendered bare or with their length word), and no pass raises.
   With a final full pass the concatenation is the whole record list. *)
Theorem C05_V_passes : forall (kind : N) (ps : list pass) (rs : list (list N)) (e : list (list (list N))),
  legal_V rs = true -> expect_passes ps rs = Some e ->
  map items_of (run_passes (V_pass kind) ps (write_V rs)) = e
  /\ forallb calm (run_passes (V_pass kind) ps (write_V rs)) = true.
Proof. intros kind ps rs e _. apply V_passes_ok. Qed.
Print Assumptions C05_V_passes.

Theorem C05_F_passes : forall (kind : N) (lrecl : nat) (ps : list pass) (rs : list (list N)) (e : list (list (list N))),
  legal_F lrecl rs = true -> (N.of_nat lrecl + 4 <= max_hdr)%N -> expect_passes ps rs = Some e ->
  map items_of (run_passes (F_pass kind (Z.of_nat lrecl)) ps (write_F rs)) = e
  /\ forallb calm (run_passes (F_pass kind (Z.of_nat lrecl)) ps (write_F rs)) = true.
Proof. intros kind lrecl ps rs e HL Hh He. exact (F_passes_ok kind lrecl Hh ps rs e HL He). Qed.
Print Assumptions C05_F_passes.

(* VB: record-level passes must stop at block boundaries ([expect_passes_VB] is None otherwise: the suspended
   iterator holds the rest of its block, which no later iterator can see); block-level passes stop anywhere. *)
Theorem C05_VB_passes : forall (kind : N) (ps : list pass) (blocks : list (list (list N))) (e : list (list (list N))),
  legal_VB blocks = true -> expect_passes_VB ps blocks = Some e ->
  map items_of (run_passes (VB_pass kind) ps (write_VB blocks)) = e
  /\ forallb calm (run_passes (VB_pass kind) ps (write_VB blocks)) = true.
Proof. exact VB_passes_ok. Qed.
Print Assumptions C05_VB_passes.

(* The images the theorems speak about are files: when the records are bytes, every element of the legal V and VB
   images is a byte (the length words fit, i.e. struct.pack succeeds for the writer). *)
Theorem C05_images_are_bytes :
  (forall rs, legal_V rs = true -> forallb bytes_ok rs = true -> bytes_ok (write_V rs) = true)
  /\ (forall blocks, legal_VB blocks = true -> forallb (forallb bytes_ok) blocks = true -> bytes_ok (write_VB blocks) = true).
Proof. split; [exact write_V_bytes | exact write_VB_bytes]. Qed.
Print Assumptions C05_images_are_bytes.

(* Non-vacuity: each hypothesis is satisfiable, on images with more than one record. *)
Example C05_F_example :
  legal_F 2 [[193; 194]; [195; 196]]%N = true /\ (N.of_nat 2 + 4 <= max_hdr)%N
  /\ write_F [[193; 194]; [195; 196]]%N = [193; 194; 195; 196]%N.
Proof. split; [reflexivity|]. split; [vm_compute; discriminate|reflexivity]. Qed.

Example C05_V_example :
  legal_V [[193; 194]; []; [195]]%N = true
  /\ write_V [[193; 194]; []; [195]]%N = [0; 6; 0; 0; 193; 194; 0; 4; 0; 0; 0; 5; 0; 0; 195]%N.
Proof. split; reflexivity. Qed.

Example C05_VB_example :
  legal_VB [[[193]; [194; 195]]; [[196]]]%N = true
  /\ write_VB [[[193]; [194; 195]]; [[196]]]%N
     = [0; 15; 0; 0; 0; 5; 0; 0; 193; 0; 6; 0; 0; 194; 195; 0; 9; 0; 0; 0; 5; 0; 0; 196]%N.
Proof. split; reflexivity. Qed.

(* empty records: first in a block, between two others, last in a block, a block of empty records only, an empty
   block; the hypothesis holds, the image is what a writer produces, and the reader of the current source returns
   the seven records *)
Example C05_VB_empty_example :
  let blocks := [[[]; [193]; []; [194; 195]; []]; [[]; []]; []]%N in
  legal_VB blocks = true
  /\ write_VB blocks
     = [0; 27; 0; 0;  0; 4; 0; 0;  0; 5; 0; 0; 193;  0; 4; 0; 0;  0; 6; 0; 0; 194; 195;  0; 4; 0; 0;
        0; 12; 0; 0;  0; 4; 0; 0;  0; 4; 0; 0;
        0; 4; 0; 0]%N
  /\ VB_record_iter 0 (write_VB blocks) = ([[]; [193]; []; [194; 195]; []; []; []]%N, Done, [])
  /\ expect_passes_VB [(0%N, Some 5); (1%N, Some 2); (0%N, None)] blocks
     = Some [[[]; [193]; []; [194; 195]; []]; [[0; 4; 0; 0]; [0; 4; 0; 0]]; []]%N.
Proof. repeat split; vm_compute; reflexivity. Qed.

Example C05_N_example :
  legal_N 8 [[1; 1; 1; 1; 1]; [2; 2; 2; 2; 2]; [3; 3; 3; 3; 3]] = true
  /\ legal_N (N.to_nat buffer_size) [[193; 194]; [195]]%N = true.
Proof. split; vm_compute; reflexivity. Qed.

(* header record with record_iter, next two with rdw_iter, the rest block-wise / to the end *)
Example C05_passes_example :
  expect_passes [(0%N, Some 1); (1%N, Some 2); (0%N, None)] [[200]; [193; 194]; []; [195]]%N
    = Some [[[200]]; [[0; 6; 0; 0; 193; 194]; [0; 4; 0; 0]]; [[195]]]%N
  /\ expect_passes_VB [(0%N, Some 1); (2%N, Some 1); (1%N, None)] [[[200]]; [[193]; [194]]; [[195]]]%N
    = Some [[[200]]; [[0; 14; 0; 0; 0; 5; 0; 0; 193; 0; 5; 0; 0; 194]]; [[0; 5; 0; 0; 195]]]%N
  /\ expect_passes_VB [(0%N, Some 1); (0%N, None)] [[[193]; [194]]]%N = None.
Proof. repeat split; reflexivity. Qed.
