(* C12 - Respelling a copybook (layout, case, synonyms, clause order) changes nothing.

   Layer A (this file): universal theorems about the hand-written model (Model/RefFormat.v) of
   reference_format, dde_sentences and DDE.compact_source, i.e. of the part of the property that is
   about card images, comment / blank / directive lines, continuation, REPLACING, line breaks and
   spacing.  A line is the list of its code points (with its line end), a source is a list of lines,
   [Ok out] = the generator yielded the lines out, [Err e] = it raised e.  Vocabulary (Spec/RefFormat.v):
   [seq_variant], [same_code], [same_class], [inserted], [plain_noise], [noise], [groups], [checked],
   [subst_all], [entry], [print_entry], [wf_entry], [layout], [wf_word], [wf_rest].

   Layer B (optional words, synonyms, clause order, separators, case, level renumbering, storage-neutral
   clauses) goes through the clause regular expression, structure(), the schema maker and estruct.  Its Coq
   statements live in two companion files: Props/C12b.v (engine C12b: a model of the clause regular expression,
   every printed entry recognised in every spelling, respelling leaves the clause record unchanged up to the
   as-written fields) and Props/C12c.v (level renumbering that keeps the nesting gives the same forest, the exact
   condition under which it does, 66/77/88-level entries are transparent), the latter over Model/Structure.v.
   What remains unproved is the composition down to layout and decoded values; that is checked metamorphically
   on the real code by harness/c12.py + Judge/JC12.v (equality of the two observations).  Level: proof, PARTIAL.

   Where the faithful model refutes what the property text asks (numbered EJECT/SKIPn lines, indicator
   slash) the full statement is kept as a Definition, its negation is proved, and the proved theorem
   carries the extra hypothesis. *)
From Coq Require Import NArith List Bool.
Import ListNotations.
Require Import SR.Base.Res SR.Model.RefFormat SR.Spec.RefFormat SR.Proofs.RefFormatP.
Open Scope N_scope.

(* ------------------------------------------------------------------ sequence / identification areas *)

(* FULL: changing columns 1-6 and 73+ of any line (same columns 7-72) never changes the output. *)
Definition C12_seq_area_full : Prop :=
  forall src src' repl,
    Forall2 (fun l l' => l = l' \/ only_seq_area l l' \/ same_code l l') src src' ->
    reference_format src repl = reference_format src' repl.

(* REFUTED: the EJECT/SKIPn filter compares the whole stripped line, so numbering a directive line turns it
   into code ("       EJECT" is dropped, "000300 EJECT" is emitted). *)
Theorem C12_seq_area_refuted : ~ C12_seq_area_full.
Proof.
  intro H. destruct seq_area_directive_witness as [W1 W2]. apply W2. apply H. exact W1.
Qed.
Print Assumptions C12_seq_area_refuted.

(* PROVED: ... provided each changed line stays blank / non-blank and stays a bare directive or not
   ([same_class]); lines of fewer than 7 characters may change freely. *)
Theorem C12_seq_area_partial : forall src src' repl,
  Forall2 seq_variant src src' -> reference_format src repl = reference_format src' repl.
Proof. exact seq_area. Qed.
Print Assumptions C12_seq_area_partial.

(* ------------------------------------------------------------------ comment, blank, directive lines *)

(* FULL: inserting noise lines of the reference format (blank, shorter than 7, indicator star / slash / D,
   a listing directive alone in the code area) anywhere changes nothing. *)
Definition C12_comments_full : Prop :=
  forall s s' repl, inserted noise s s' -> reference_format s' repl = reference_format s repl.

Theorem C12_comments_refuted_1 :       (* numbered directive line, finding code 1 *)
  exists s s', inserted noise s s' /\ reference_format s' [] <> reference_format s [].
Proof. exists src_plain, src_num_eject. exact numbered_directive_witness. Qed.
Print Assumptions C12_comments_refuted_1.

Theorem C12_comments_refuted_2 :       (* indicator slash, finding code 2 *)
  exists s s', inserted noise s s' /\ reference_format s' [] <> reference_format s [].
Proof. exists src_plain, src_slash. exact slash_comment_witness. Qed.
Print Assumptions C12_comments_refuted_2.

(* PROVED: the same for the noise the code recognises ([plain_noise]: blank, shorter than 7, the whole
   stripped line is EJECT/SKIP1/SKIP2/SKIP3, indicator star or D) - anywhere, also between a line and its
   continuation line, before the first and after the last line, with any REPLACING list. *)
Theorem C12_comments_partial : forall s s' repl,
  inserted plain_noise s s' -> reference_format s' repl = reference_format s repl.
Proof. exact comments. Qed.
Print Assumptions C12_comments_partial.

(* the three shapes of [plain_noise] lines, by columns *)
Theorem C12_noise_blank : forall l, forallb is_ws l = true -> plain_noise l = true.
Proof. exact blank_line_noise. Qed.
Print Assumptions C12_noise_blank.

Theorem C12_noise_comment : forall l,
  (7 <= length l)%nat -> (nth 6 l 0 = 42 \/ nth 6 l 0 = 68) -> plain_noise l = true.
Proof. exact comment_line_noise. Qed.
Print Assumptions C12_noise_comment.

Theorem C12_noise_directive : forall a w b,
  forallb is_ws a = true -> forallb is_ws b = true -> In w directives -> plain_noise (a ++ w ++ b) = true.
Proof. exact directive_line_noise. Qed.
Print Assumptions C12_noise_directive.

(* ------------------------------------------------------------------ continuation *)

(* The output is exactly the list of continuation groups (a code line absorbs the code areas of the
   minus-lines that follow it, nothing stripped); it raises RuntimeError when there is no code line and
   ValueError when a group other than the last starts with COPY. *)
Theorem C12_continuation : forall src repl,
  reference_format src repl = checked (groups (replace_cards repl (cards src))).
Proof. exact continuation. Qed.
Print Assumptions C12_continuation.

(* ------------------------------------------------------------------ REPLACING *)

(* With any REPLACING list without an empty search string: the cards (one per code line) keep their number
   and indicators, and every text has all pairs applied once, in list order, each as a left-to-right
   non-overlapping substitution ([subst_all], Spec).  On the tree before the fix every line was emitted
   once per pair. *)
Theorem C12_replacing : forall src repl, repl_ok repl = true ->
  map fst (replace_cards repl (cards src)) = map fst (cards src) /\
  map snd (replace_cards repl (cards src)) = map (subst_all repl) (map snd (cards src)) /\
  reference_format src repl = join_all (map (fun c => (fst c, subst_all repl (snd c))) (cards src)).
Proof. exact replacing. Qed.
Print Assumptions C12_replacing.

(* ------------------------------------------------------------------ model = reference-format spec *)

(* Outside the two known-bad line shapes the code does what the reference format says. *)
Theorem C12_refformat_spec : forall src repl out,
  known_bad src = false -> spec_reference_format src repl = Some out ->
  reference_format src repl = Ok out.
Proof. exact refformat_spec. Qed.
Print Assumptions C12_refformat_spec.

(* ------------------------------------------------------------------ sentences *)

(* A text made of entries "white space, two digits, white space, body, period, one white-space character"
   whose bodies hold no period followed by white space, however it is cut into lines, is split into exactly
   those (level, body) pairs, in order. *)
Theorem C12_sentences : forall lines es tail,
  forallb wf_entry es = true -> forallb is_ws tail = true ->
  concat lines = concat (map print_entry es) ++ tail ->
  dde_sentences lines = spec_sentences es.
Proof. exact sentences_lines. Qed.
Print Assumptions C12_sentences.

(* ------------------------------------------------------------------ line breaks and spacing *)

(* The same words separated by any non-empty white space (blanks, line ends, padding to column 72) give
   the same compact source text. *)
Theorem C12_spacing : forall w rest rest',
  wf_word w = true -> wf_rest rest -> wf_rest rest' -> map snd rest = map snd rest' ->
  compact (layout w rest) = compact (layout w rest').
Proof. exact line_breaks. Qed.
Print Assumptions C12_spacing.

(* End to end for one entry: two layouts of the same words (no word but the last ending in a period) are
   both recognised as one sentence with the same level and the same compact clause text. *)
Theorem C12_line_breaks : forall e e' w rest rest' tail tail',
  wf_entry e = true -> wf_entry e' = true -> e_d1 e = e_d1 e' -> e_d2 e = e_d2 e' ->
  wf_word w = true -> wf_rest rest -> wf_rest rest' -> map snd rest = map snd rest' ->
  forallb no_dot_end (removelast (w :: map snd rest)) = true ->
  forallb is_ws tail = true -> forallb is_ws tail' = true ->
  exists lv b b',
    dde_sentences [print_entry (with_body e (layout w rest)) ++ tail] = [(lv, b)] /\
    dde_sentences [print_entry (with_body e' (layout w rest')) ++ tail'] = [(lv, b')] /\
    compact b = compact b' /\ compact b = join_sp (w :: map snd rest).
Proof. exact line_breaks_sentences. Qed.
Print Assumptions C12_line_breaks.

(* ------------------------------------------------------------------ non-vacuity *)

(* "       01 X\n" / "      * C\n" / "      -    PIC X.\n" *)
Definition ex_a : line := [32;32;32;32;32;32;32;48;49;32;88;10].
Definition ex_c : line := [32;32;32;32;32;32;42;32;67;10].
Definition ex_b : line := [32;32;32;32;32;32;45;32;32;32;32;80;73;67;32;88;46;10].
Definition ex_a_num : line := [48;48;48;49;48;48;32;48;49;32;88;10].

(* a comment between a line and its continuation is harmless, and the two areas are concatenated *)
Example C12_example_comment_continuation :
  inserted plain_noise [ex_a; ex_b] [ex_a; ex_c; ex_b] /\
  reference_format [ex_a; ex_c; ex_b] [] = Ok [[48;49;32;88;10;32;32;32;32;80;73;67;32;88;46;10]].
Proof.
  split.
  - apply ins_keep. apply ins_add; [vm_compute; reflexivity|]. apply ins_keep. apply ins_nil.
  - vm_compute. reflexivity.
Qed.

Example C12_example_seq_area :
  Forall2 seq_variant [ex_a; ex_b] [ex_a_num; ex_b] /\ reference_format [ex_a_num; ex_b] [] = reference_format [ex_a; ex_b] [].
Proof.
  split.
  - constructor; [|constructor; [left; reflexivity|constructor]].
    right. right. split.
    + exists [32;32;32;32;32;32], [48;48;48;49;48;48], [32;48;49;32;88;10], [], [].
      repeat split; try reflexivity; try discriminate. right. split; reflexivity.
    + split; vm_compute; reflexivity.
  - vm_compute. reflexivity.
Qed.

(* REPLACING with two pairs: 'A' -> AB, then B -> C : one output line, both applied in order *)
Example C12_example_replacing :
  repl_ok [([39;65;39], [65;66]); ([66], [67])] = true /\
  reference_format [[32;32;32;32;32;32;32;48;49;32;39;65;39;46;10]] [([39;65;39], [65;66]); ([66], [67])]
  = Ok [[48;49;32;65;67;46;10]].
Proof. split; vm_compute; reflexivity. Qed.

Example C12_example_spec :
  known_bad [ex_a; ex_c; ex_b] = false /\
  spec_reference_format [ex_a; ex_c; ex_b] [] = Some [[48;49;32;88;10;32;32;32;32;80;73;67;32;88;46;10]].
Proof. split; vm_compute; reflexivity. Qed.

(* "01 A.\n  05 B PIC 9.9.\n" : the period inside the picture does not end the sentence *)
Definition ex_e1 : entry := {| e_lead := []; e_d1 := 48; e_d2 := 49; e_gap := [32]; e_body := [65]; e_term := 10 |}.
Definition ex_e2 : entry := {| e_lead := [32;32]; e_d1 := 48; e_d2 := 53; e_gap := [32];
                               e_body := [66;32;80;73;67;32;57;46;57]; e_term := 10 |}.
Example C12_example_sentences :
  forallb wf_entry [ex_e1; ex_e2] = true /\
  dde_sentences [print_entry ex_e1; print_entry ex_e2] = [([48;49], [65]); ([48;53], [66;32;80;73;67;32;57;46;57])].
Proof. split; vm_compute; reflexivity. Qed.

(* "B PIC X" on one line and "B\n      PIC   X" over two *)
Example C12_example_line_breaks :
  wf_word [66] = true /\ wf_rest [([32], [80;73;67]); ([32], [88])] /\
  wf_rest [([10;32;32;32;32;32;32], [80;73;67]); ([32;32;32], [88])] /\
  forallb no_dot_end (removelast ([66] :: map snd [([32], [80;73;67]); ([32], [88])])) = true /\
  compact (layout [66] [([10;32;32;32;32;32;32], [80;73;67]); ([32;32;32], [88])]) = [66;32;80;73;67;32;88].
Proof.
  split; [reflexivity|]. split; [repeat constructor|]. split; [repeat constructor|].
  split; vm_compute; reflexivity.
Qed.
