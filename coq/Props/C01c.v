(* C01, companion - the layout theorem under the hypothesis on data names that real copybooks satisfy.
   Only property theorems, each closed by an exact lemma of Proofs/LayoutNamesP.v.  No engine of its own: the model
   is C01's (Model/Layout.v, tied to /repo by the correspondence run of ./check C01, whose stream dup-names
   repeats data names in different groups).

   Why.  C01_layout demands NoDup (ids t): EVERY data name of the record distinct.  COBOL allows the same name in
   different groups (ZIP OF BILL-TO / ZIP OF SHIP-TO) and real copybooks use that.  LocationMaker.anchors is one
   flat namespace (the last registration of a name wins), but it is CONSULTED only for the $ref placeholders that
   build_json_schema puts where the members of a REDEFINES union stand - the redefined item and its redefiners -
   and for OCCURS DEPENDING ON counters (C06's family, excluded by [wf]).  Hence:

     siblings_distinct t       the children of every group have pairwise distinct names (name() of a group must be
                               unambiguous; the properties of an object are a dict);
     anchored_names_unique t   every name that stands for a member of a REDEFINES union ([anchored t]: an item that
                               redefines, or that a later sibling redefines) is the name of exactly one item of the
                               record;
     no_redefines t            no REDEFINES below the record: then [anchored t] is empty.

   Every other name may repeat in different groups.  Both are decidable (booleans).  NoDup (ids t) implies both
   (C01c_generalises_C01), so C01c_layout has C01_layout as a special case.

   The boundary.  On well-formed trees with distinct siblings anchored_names_unique is exactly the complement of
   the trigger of JC01's known finding K-duplicate-name-union (Judge/JLayoutCommon.v dup_union_name):
   C01c_boundary_is_known_finding.  With distinct siblings alone the statement is false
   (C01c_layout_siblings_only_refuted, by the finding's witness).  The hypothesis is sufficient, not necessary:
   because the LAST registration wins, a second use of a member's name EARLIER in the record does no harm
   (C01c_example_earlier_duplicate); the theorem does not cover that half of the trigger set. *)
From Coq Require Import List Arith NArith Bool.
Import ListNotations.
Require Import SR.Base.Res SR.Spec.Layout SR.Model.Layout SR.Proofs.LayoutP SR.Proofs.LayoutNamesP.
Require SR.Judge.JLayoutCommon.

(* 1. no REDEFINES: the anchors map is never consulted; only siblings must differ *)
Theorem C01c_layout_no_redefines : forall (B : Type) (dcount : list B -> nat) (r : list B) (e : env) (t : item),
  wf e t = true -> no_redefines t = true -> siblings_distinct t = true ->
  exists v0, nav_of dcount r (build t) = Ok v0
    /\ lstart (n_loc v0) = 0 /\ lend (n_loc v0) = extent e t
    /\ forall p v st, spec_nav e (VItem t) 0 p = inl (v, st) ->
         exists nv, nav_path dcount r v0 p = Ok nv
           /\ lstart (n_loc nv) = st /\ lend (n_loc nv) = st + view_size e v
           /\ nav_raw r nv = slice r st (st + view_size e v).
Proof. exact layout_correct_no_redefines. Qed.
Print Assumptions C01c_layout_no_redefines.

(* 2. the general form: REDEFINES anywhere [wf] allows it; only the names of union members must be unique *)
Theorem C01c_layout : forall (B : Type) (dcount : list B -> nat) (r : list B) (e : env) (t : item),
  wf e t = true -> siblings_distinct t = true -> anchored_names_unique t = true ->
  exists v0, nav_of dcount r (build t) = Ok v0
    /\ lstart (n_loc v0) = 0 /\ lend (n_loc v0) = extent e t
    /\ forall p v st, spec_nav e (VItem t) 0 p = inl (v, st) ->
         exists nv, nav_path dcount r v0 p = Ok nv
           /\ lstart (n_loc nv) = st /\ lend (n_loc nv) = st + view_size e v
           /\ nav_raw r nv = slice r st (st + view_size e v).
Proof. exact layout_correct_names. Qed.
Print Assumptions C01c_layout.

Theorem C01c_index_refused : forall (B : Type) (dcount : list B -> nat) (r : list B) (e : env) (t : item),
  wf e t = true -> siblings_distinct t = true -> anchored_names_unique t = true ->
  forall v0, nav_of dcount r (build t) = Ok v0 ->
  forall p x st i, spec_nav e (VItem t) 0 p = inl (VItem x, st) -> is_table x = true -> count e (item_oc x) <= i ->
    exists nv, nav_path dcount r v0 p = Ok nv /\ nav_index dcount r nv i = Err IndexError.
Proof. exact layout_index_refused_names. Qed.
Print Assumptions C01c_index_refused.

(* the hypothesis of C01_layout implies the hypotheses of C01c_layout *)
Theorem C01c_generalises_C01 : forall t : item,
  NoDup (ids t) -> siblings_distinct t = true /\ anchored_names_unique t = true.
Proof. exact (fun t H => conj (proj1 NoDup_siblings_distinct t H) (NoDup_anchored_names_unique t H)). Qed.
Print Assumptions C01c_generalises_C01.

Theorem C01c_no_redefines_is_special_case : forall t : item,
  no_redefines t = true -> anchored_names_unique t = true.
Proof. exact no_redefines_unique. Qed.
Print Assumptions C01c_no_redefines_is_special_case.

(* 3. the boundary *)
(* the theorem's hypothesis fails exactly where JC01 reports K-duplicate-name-union *)
Theorem C01c_boundary_is_known_finding : forall (e : env) (t : item),
  wf e t = true -> siblings_distinct t = true ->
  anchored_names_unique t = negb (JLayoutCommon.dup_union_name t).
Proof. exact unique_iff_not_known. Qed.
Print Assumptions C01c_boundary_is_known_finding.

(* the statement with distinct siblings alone, kept visible; the faithful model refutes it *)
Definition C01c_layout_siblings_only : Prop :=
  forall (B : Type) (dcount : list B -> nat) (r : list B) (e : env) (t : item),
  wf e t = true -> siblings_distinct t = true ->
  exists v0, nav_of dcount r (build t) = Ok v0
    /\ lstart (n_loc v0) = 0 /\ lend (n_loc v0) = extent e t
    /\ forall p v st, spec_nav e (VItem t) 0 p = inl (v, st) ->
         exists nv, nav_path dcount r v0 p = Ok nv
           /\ lstart (n_loc nv) = st /\ lend (n_loc nv) = st + view_size e v
           /\ nav_raw r nv = slice r st (st + view_size e v).

Theorem C01c_layout_siblings_only_refuted : ~ C01c_layout_siblings_only.
Proof. exact layout_siblings_only_refuted. Qed.
Print Assumptions C01c_layout_siblings_only_refuted.

(* the witness of K-duplicate-name-union: 01 R. 05 ZIP PIC 9999. 05 G. 10 ZIP PIC XX. 05 Z2 REDEFINES ZIP PIC X.
   (R=1 ZIP=2 G=3 Z2=4).  Well formed, siblings distinct, ZIP is a union member used twice: the judge's trigger
   holds, the COBOL rules put ZIP at 0-4, name(ZIP) lands on G's ZIP at 4-6. *)
Theorem C01c_refuted_4 :
  wf (fun _ => 0) dup_tree = true /\ siblings_distinct dup_tree = true /\ anchored_names_unique dup_tree = false
  /\ JLayoutCommon.dup_union_name dup_tree = true
  /\ spec_nav (fun _ => 0) (VItem dup_tree) 0 [PName 2%N] = inl (VItem (Elem 2%N 4 Once None), 0)
  /\ exists v0 nv, nav_of (fun _ : list unit => 0) [] (build dup_tree) = Ok v0
       /\ nav_path (fun _ : list unit => 0) [] v0 [PName 2%N] = Ok nv
       /\ lstart (n_loc nv) = 4 /\ lend (n_loc nv) = 6.
Proof. exact dup_tree_facts. Qed.
Print Assumptions C01c_refuted_4.

(* 4. Non-vacuity.
   01 CUST. 05 BILL-TO. 10 STREET X(5). 10 ZIP X(5). 05 SHIP-TO. 10 STREET X(5). 10 ZIP X(5).
            05 PHONE X(4). 05 PHONE-R REDEFINES PHONE. 10 AREA X(2). 10 REST X(2). 05 LINES OCCURS 2. 10 ZIP X(3).
   (CUST=1 BILL-TO=2 STREET=3 ZIP=4 SHIP-TO=5 PHONE=6 PHONE-R=7 AREA=8 REST=9 LINES=10).
   STREET is used twice and ZIP three times; the union members PHONE and PHONE-R once each.
   ZIP OF BILL-TO is at 5-10, ZIP OF SHIP-TO at 15-20, REST OF PHONE-R at 22-24, ZIP OF LINES(1) at 27-30; length 30. *)
Definition ex_addr (i : id) : item :=
  Group i Once None (ICons (Elem 3%N 5 Once None) (ICons (Elem 4%N 5 Once None) INil)).
Definition ex_cust : item :=
  Group 1%N Once None
    (ICons (ex_addr 2%N) (ICons (ex_addr 5%N)
    (ICons (Elem 6%N 4 Once None)
    (ICons (Group 7%N Once (Some 6%N) (ICons (Elem 8%N 2 Once None) (ICons (Elem 9%N 2 Once None) INil)))
    (ICons (Group 10%N (Times 2) None (ICons (Elem 4%N 3 Once None) INil)) INil))))).

Example C01c_example :
  wf (fun _ => 0) ex_cust = true /\ siblings_distinct ex_cust = true /\ anchored_names_unique ex_cust = true
  /\ anchored ex_cust = [6%N; 7%N]
  /\ extent (fun _ => 0) ex_cust = 30
  /\ spec_nav (fun _ => 0) (VItem ex_cust) 0 [PName 2%N; PName 4%N] = inl (VItem (Elem 4%N 5 Once None), 5)
  /\ spec_nav (fun _ => 0) (VItem ex_cust) 0 [PName 5%N; PName 4%N] = inl (VItem (Elem 4%N 5 Once None), 15)
  /\ spec_nav (fun _ => 0) (VItem ex_cust) 0 [PName 7%N; PName 9%N] = inl (VItem (Elem 9%N 2 Once None), 22)
  /\ spec_nav (fun _ => 0) (VItem ex_cust) 0 [PName 10%N; PIndex 1; PName 4%N] = inl (VItem (Elem 4%N 3 Once None), 27).
Proof. vm_compute. repeat split; reflexivity. Qed.

(* ... and C01_layout does not apply to it *)
Example C01c_example_not_NoDup : ~ NoDup (ids ex_cust).
Proof. intros H. apply NoDup_nodupb in H. vm_compute in H. discriminate. Qed.

(* for C01c_layout_no_redefines: 01 CUST. 05 BILL-TO. 10 STREET X(5). 10 ZIP X(5). 05 SHIP-TO. 10 STREET X(5). 10 ZIP X(5).
   05 LINES OCCURS 2. 10 ZIP X(3). *)
Definition ex_cust_plain : item :=
  Group 1%N Once None
    (ICons (ex_addr 2%N) (ICons (ex_addr 5%N)
    (ICons (Group 10%N (Times 2) None (ICons (Elem 4%N 3 Once None) INil)) INil))).

Example C01c_example_no_redefines :
  wf (fun _ => 0) ex_cust_plain = true /\ no_redefines ex_cust_plain = true /\ siblings_distinct ex_cust_plain = true
  /\ extent (fun _ => 0) ex_cust_plain = 26
  /\ spec_nav (fun _ => 0) (VItem ex_cust_plain) 0 [PName 2%N; PName 4%N] = inl (VItem (Elem 4%N 5 Once None), 5)
  /\ spec_nav (fun _ => 0) (VItem ex_cust_plain) 0 [PName 5%N; PName 4%N] = inl (VItem (Elem 4%N 5 Once None), 15)
  /\ spec_nav (fun _ => 0) (VItem ex_cust_plain) 0 [PName 10%N; PIndex 1; PName 4%N] = inl (VItem (Elem 4%N 3 Once None), 23).
Proof. vm_compute. repeat split; reflexivity. Qed.

Example C01c_example_no_redefines_not_NoDup : ~ NoDup (ids ex_cust_plain).
Proof. intros H. apply NoDup_nodupb in H. vm_compute in H. discriminate. Qed.

(* the hypothesis is sufficient, not necessary: 01 R. 05 G. 10 ZIP PIC XX. 05 ZIP PIC 9999. 05 Z2 REDEFINES ZIP PIC X.
   The union member ZIP is used a second time EARLIER in the record; its own registration comes last and wins:
   ZIP at 2-6, Z2 at 2-3, ZIP OF G at 0-2, all where the COBOL rules put them. *)
Example C01c_example_earlier_duplicate :
  wf (fun _ => 0) dup_before_tree = true /\ siblings_distinct dup_before_tree = true
  /\ anchored_names_unique dup_before_tree = false
  /\ exists v0 a b c, nav_of (fun _ : list unit => 0) [] (build dup_before_tree) = Ok v0
       /\ nav_path (fun _ : list unit => 0) [] v0 [PName 2%N] = Ok a /\ lstart (n_loc a) = 2 /\ lend (n_loc a) = 6
       /\ nav_path (fun _ : list unit => 0) [] v0 [PName 4%N] = Ok b /\ lstart (n_loc b) = 2 /\ lend (n_loc b) = 3
       /\ nav_path (fun _ : list unit => 0) [] v0 [PName 3%N; PName 2%N] = Ok c /\ lstart (n_loc c) = 0 /\ lend (n_loc c) = 2.
Proof. exact dup_before_facts. Qed.
