(* C03, companion file - the glue between the third-party parsers and the facade, for the four office formats.

   Props/C03.v (C03_facade, C03_facade_numbers) is stated over [content]: what xlrd / openpyxl / pyexcel / numbers_parser
   deliver for a file (assumed to be the stored workbook: premise H_ext / H_num).  Between that document and the facade
   stand XLSUnpacker, XLSXUnpacker, ODSUnpacker and NumbersUnpacker of src/stingray/implementations.py: sheet_iter turns
   the document into sheet names, instance_iter(name) into rows of cells.  Those two methods are NOT modelled by hand:
   harness/t1_impl.py reads them from the source on every run into Gen/ImplParams.v (per class: which names and in which
   order, the Numbers composite and its separator, how the sheet is found by name, iter_rows bounds, slices / reversed /
   islice on sheets, tables, rows and cells, the truthiness guard, the expression delivered for a cell), and
   Model/Workbook.v [sheet_names] / [wb_instances] INTERPRET those records ([names_book], [names_numbers], [deliver],
   [eval_cell], [partition_by]).

   Here: for the rules the source has NOW the glue is the identity on the parsed document - every stored sheet is
   announced once, in stored order, under its own name (sheet::table for Numbers); reading it by that name gives every
   stored row once, in stored order, every cell as the parser holds it (a str, a number, a date, None: any [cell]), no
   conversion; a name that is not there is a KeyError.  The statements quantify over ALL documents, not only over the
   text tables of [phys].  An edit such as iter_rows(min_row=2), str(cell.value), sheetnames[:-1], another separator or
   reversed(...) changes Gen/ImplParams.v, and the closed-form lemmas at the top of Proofs/WorkbookP.v - hence this file
   and Props/C03.v - stop compiling.  What the third-party calls themselves return stays assumed (facts listed in
   Model/Workbook.v above [glue_of]).  Only the property theorems are here, each closed by an exact lemma of
   Proofs/WorkbookP.v. *)
From Coq Require Import ZArith NArith List.
Import ListNotations.
Require Import SR.Base.Res SR.Model.HeaderRow SR.Model.Workbook.
Require Import SR.Proofs.WorkbookP.

(* XLS, XLSX, ODS (b ranges over the three): sheet_iter yields exactly the stored names in order; instance_iter(name)
   yields exactly the rows stored under the name.  Numbers: sheet_iter yields sheet::table for every table of every sheet
   in order; instance_iter(sheet::table) yields exactly the rows of that table (for a sheet name without a colon:
   known finding 1 of Props/C03.v otherwise). *)
Theorem C03d_office_glue_identity :
  (forall (b : book) (ss : list (key * sheet)),
     sheet_names (C_multi b ss) = map fst ss
     /\ forall name, wb_instances (C_multi b ss) name
                     = match lookup ss name with Some rows => Ok rows | None => Err KeyError end)
  /\ (forall (ss : list (key * list (key * sheet))),
     sheet_names (C_numbers ss) = flat_map (fun s => map (fun t => fst s ++ [58; 58]%N ++ fst t) (snd s)) ss
     /\ forall s t, forallb (fun c => negb (c =? 58)%N) s = true ->
          wb_instances (C_numbers ss) (s ++ [58; 58]%N ++ t)
          = match lookup ss s with
            | None => Err KeyError
            | Some tables => match lookup tables t with Some rows => Ok rows | None => Err KeyError end
            end).
Proof. exact office_glue_identity. Qed.
Print Assumptions C03d_office_glue_identity.

(* every stored sheet of a book with distinct sheet names is announced and read back whole *)
Theorem C03d_every_stored_sheet : forall (b : book) (ss : list (key * sheet)) (n : key) (rows : sheet),
  NoDup (map fst ss) -> In (n, rows) ss ->
  In n (sheet_names (C_multi b ss)) /\ wb_instances (C_multi b ss) n = Ok rows.
Proof. exact office_every_sheet. Qed.
Print Assumptions C03d_every_stored_sheet.

(* every stored table of a Numbers document with distinct sheet names, distinct table names within the sheet and no
   colon in the sheet name *)
Theorem C03d_every_stored_table :
  forall (ss : list (key * list (key * sheet))) (s t : key) (tables : list (key * sheet)) (rows : sheet),
  NoDup (map fst ss) -> In (s, tables) ss -> NoDup (map fst tables) -> In (t, rows) tables ->
  forallb (fun c => negb (c =? 58)%N) s = true ->
  In (s ++ [58; 58]%N ++ t) (sheet_names (C_numbers ss)) /\ wb_instances (C_numbers ss) (s ++ [58; 58]%N ++ t) = Ok rows.
Proof. exact numbers_every_table. Qed.
Print Assumptions C03d_every_stored_table.

(* the separator sheet_iter writes and the separator instance_iter splits at are the same two colons *)
Theorem C03d_separators : name_sep = [58; 58]%N /\ part_sep = name_sep.
Proof. exact separators_agree. Qed.
Print Assumptions C03d_separators.

(* one cell, one row: whatever the parser holds is what the facade's Row is built on *)
Theorem C03d_cells_unconverted : forall (o : office) (r : row), deliver_row o (glue_of o) r = Ok r.
Proof. exact rule_row. Qed.
Print Assumptions C03d_cells_unconverted.

(* ---- non-vacuity: a book with two sheets holding text, a number, None and an empty row; a Numbers document ---- *)
Definition ex_rows : sheet :=
  [[Txt [104]%N; Txt [105]%N]; [Txt [97]%N; Obj 2 [52; 50]%N]; []; [none_obj; Txt []]].
Definition ex_book : list (key * sheet) := [([83; 49]%N, ex_rows); ([83; 50]%N, [])].
Definition ex_tables : list (key * sheet) := [([84; 49]%N, ex_rows); ([84; 50]%N, [])].
Definition ex_numbers : list (key * list (key * sheet)) :=
  [([83]%N, ex_tables); ([85]%N, [([84; 49]%N, [[Txt [120]%N]])])].

Example C03d_example_domain :
  NoDup (map fst ex_book) /\ In ([83; 49]%N, ex_rows) ex_book
  /\ sheet_names (C_multi B_XLS ex_book) = [[83; 49]; [83; 50]]%N
  /\ wb_instances (C_multi B_XLSX ex_book) [83; 49]%N = Ok ex_rows
  /\ wb_instances (C_multi B_ODS ex_book) [83; 50]%N = Ok []
  /\ wb_instances (C_multi B_ODS ex_book) [83; 51]%N = Err KeyError
  /\ sheet_names (C_numbers ex_numbers) = [[83; 58; 58; 84; 49]; [83; 58; 58; 84; 50]; [85; 58; 58; 84; 49]]%N
  /\ wb_instances (C_numbers ex_numbers) [83; 58; 58; 84; 49]%N = Ok ex_rows
  /\ forallb (fun c => negb (c =? 58)%N) [83]%N = true
  /\ NoDup (map fst ex_numbers) /\ In ([83]%N, ex_tables) ex_numbers
  /\ NoDup (map fst ex_tables) /\ In ([84; 49]%N, ex_rows) ex_tables.
Proof.
  assert (two : forall a b : key, a <> b -> NoDup [a; b]).
  { intros a b H. constructor; [intros [E|[]]; apply H; symmetry; exact E|]. constructor; [intros []|constructor]. }
  split; [apply two; discriminate|].
  split; [left; reflexivity|].
  do 7 (split; [vm_compute; reflexivity|]).
  split; [apply two; discriminate|]. split; [left; reflexivity|].
  split; [apply two; discriminate|]. left; reflexivity.
Qed.

(* ---- the interpreter means something: other rules give other results.  Each record below is what harness/t1_impl.py
   emits for the edit named beside it; none of them is the identity. ---- *)
Definition k_val : list N := [118; 97; 108; 117; 101]%N.
(* for row in pyxl_sheet.iter_rows(min_row=2) *)
Definition g_min_row_2 : glue := mk_glue NA_names [] [] LK_name (Some 2%Z) None false [] false [] (CE_attr k_val CE_item).
(* [str(cell.value) for cell in row] *)
Definition g_str_value : glue := mk_glue NA_names [] [] LK_name None None false [] false [] (CE_str (CE_attr k_val CE_item)).
(* self.the_file.sheetnames[:-1] *)
Definition g_drop_last : glue :=
  mk_glue NA_names [SO_slice None (Some (-1)%Z) 1] [] LK_name None None false [] false [] (CE_attr k_val CE_item).
(* for row in reversed(list(xlrd_sheet.get_rows())) *)
Definition g_rows_reversed : glue := mk_glue NA_names [] [] LK_name None None false [SO_reversed] false [] (CE_attr k_val CE_item).
(* f"{sheet.name}||{table.name}" with name.partition("::") left as it is *)
Definition g_other_sep : glue :=
  mk_glue (NA_composite [124; 124]%N) [] [] (LK_partition [58; 58]%N) None None false [] false [] (CE_attr k_val CE_item).
(* [cell.value for cell in row] on the plain values pyexcel hands over *)
Definition g_value_of_value : glue := mk_glue NA_names [] [] LK_name None None false [] true [] (CE_attr k_val CE_item).
(* islice(rows, 1, None, 2) and [cell.value for cell in reversed(row)] *)
Definition g_step : glue :=
  mk_glue NA_names [] [] LK_name None None false [SO_slice (Some 1%Z) None 2] false [SO_reversed] (CE_attr k_val CE_item).

Example C03d_example_interpreter :
  deliver (O_book B_XLSX) g_min_row_2 ex_rows = Ok [[Txt [97]%N; Obj 2 [52; 50]%N]; []; [none_obj; Txt []]]
  /\ deliver O_NUMBERS g_min_row_2 ex_rows = Ok [[]; [none_obj; Txt []]]
  /\ deliver (O_book B_XLS) g_str_value ex_rows
     = Ok [[Txt [104]%N; Txt [105]%N]; [Txt [97]%N; Txt [52; 50]%N]; []; [Txt [78; 111; 110; 101]%N; Txt []]]
  /\ names_book g_drop_last ex_book = [[83; 49]%N]
  /\ deliver (O_book B_XLS) g_rows_reversed ex_rows = Ok (rev ex_rows)
  /\ names_numbers g_other_sep ex_numbers = [[83; 124; 124; 84; 49]; [83; 124; 124; 84; 50]; [85; 124; 124; 84; 49]]%N
  /\ instances_numbers g_other_sep ex_numbers [83; 124; 124; 84; 49]%N = Err KeyError
  /\ deliver (O_book B_ODS) g_value_of_value ex_rows = Err AttributeError
  /\ deliver (O_book B_XLS) g_step ex_rows = Ok [[Obj 2 [52; 50]%N; Txt [97]%N]; [Txt []; none_obj]].
Proof. repeat split; vm_compute; reflexivity. Qed.
