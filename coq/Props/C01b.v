(* C01b - C01 composed with C02: what is stored in a record is what navigation returns.
   "each data item ... is taken from exactly the bytes the record description assigns it" (C01), and the bytes a
   mainframe stores for a value decode to that value (C02), hence: the value a COBOL program moved into an elementary
   occurrence is the value NDNav.value() delivers for the path to that occurrence.
   Only property theorems here, each closed by an exact lemma of Proofs/RecordP.v, which uses C01_layout (layout_correct),
   C10_extends_C01 (nav_of_erase, nav_name_erase, nav_index_erase, nav_raw_erase), C10_field (atom_value),
   C10_cobol_like_built (cobol_like_build), C10_commute_name (commute_name) and C02's four round-trip theorems
   (C02_packed, C02_zoned, C02_binary, C02_text).

   Vocabulary.
     t : item, e : env, wf, ids, build, spec_nav          as in Props/C01.v (no OCCURS DEPENDING ON: e is irrelevant)
     kd : kinds                                            USAGE / PICTURE of every elementary item, by item id (Spec/Record.v):
                                                           KPacked u s m n | KZoned s m n | KBinary u s m n  for S?9(m)V9(n), KText k for X(k)
     vals : assignment                                     a value for every navigation path to an elementary occurrence:
                                                           FNum digits sign-nibble | FInt z | FTxt code-points
     spec_record kd vals e t                               the record a COBOL program writes: Spec/Encode.v's encoders laid end to
                                                           end by Spec/Layout.v's rules; an item that REDEFINES another owns no
                                                           storage, the record is built from the base items
     record_ok kd vals e t  (boolean)                      for every elementary occurrence that owns storage:
         kind_ok   the width the record description gives the item is the width Spec/Encode.v lists for its kind, the usage
                   spelling belongs to its family, at most 28 digit positions (C02's bound; K-packed-prec lies beyond),
                   binary 1-18 digits.  C04's known-bad family K-signed-binary-size (S9(4) COMP laid out in 4 bytes) is outside
                   kind_ok: there the record description's width is not the property's width.
         val_ok    digits only and no more of them than the picture has (the field is zero filled on the left), a valid
                   sign nibble (C F A E D B); an integer within the field's two's-complement range; a text of the field's
                   length in characters of code page 037
     elem_at e t p = Some (i, sz, st)  (computed)          the path p leads to an elementary occurrence of item i:
                                                           a plain item, or  T, j, T  for occurrence j of an elementary table T
     own_storage e (VItem t) 0 p  (boolean)                no step of p enters an item that REDEFINES another
     value_at kd dcount r (build t) p                      unpacker.nav(schema, r), then name / index along p, then value(), with
                                                           the per-atom decoder field_dec kd = estruct.unpack on the item's own
                                                           USAGE and PICTURE (Model/RecordValue.v; Judge/JC10.v dec_of)
     stored k v, py_of                                     the exact Decimal with the picture's scale / the int / the text

   The known findings K-pad-nibble and K-sign-position (C18: a buffer of the field's width can hold one digit position more
   than the picture) do not enter: the specification's encoders write a zero pad nibble, and for a signed DISPLAY item - whose
   width, in Spec/Encode.v as in the code, counts the S - a zero in the position of the S; what is stored has at most the
   picture's digits, and that is what is read.  dcount (decoding of OCCURS DEPENDING ON counters) is arbitrary: wf has none. *)
From Coq Require Import List Arith NArith ZArith Bool.
Import ListNotations.
Require Import SR.Base.Res SR.Base.Dec SR.Spec.Layout SR.Spec.Encode SR.Spec.Record SR.Model.Layout SR.Model.Estruct
  SR.Model.LayoutValue SR.Model.RecordValue SR.Spec.Coherence SR.Proofs.RecordP SR.Proofs.RecordOdoP.
Require SR.Proofs.LayoutP SR.Proofs.LayoutOdoP.
Open Scope nat_scope.

Theorem C01b_stored_is_read : forall (dcount : list N -> nat) (kd : kinds) (vals : assignment) (e : env) (t : item),
  SR.Proofs.LayoutP.wf e t = true -> NoDup (SR.Proofs.LayoutP.ids t) -> record_ok kd vals e t = true ->
  forall p i sz st, elem_at e t p = Some (i, sz, st) -> own_storage e (VItem t) 0 p = true ->
    value_at kd dcount (spec_record kd vals e t) (build t) p = Some (Ok (PAtom (py_of (stored (kd i) (vals p))))).
Proof. exact stored_is_read. Qed.
Print Assumptions C01b_stored_is_read.

(* the field itself: the record holds, at the specification's place of the occurrence, the encoding of the assigned value *)
Theorem C01b_record_field : forall (kd : kinds) (vals : assignment) (e : env) (t : item) p i sz st,
  record_ok kd vals e t = true -> own_storage e (VItem t) 0 p = true -> elem_at e t p = Some (i, sz, st) ->
  slice (spec_record kd vals e t) st (st + sz) = enc_field (kd i) (vals p)
  /\ kind_ok (kd i) sz = true /\ val_ok (kd i) (vals p) = true.
Proof. exact record_field. Qed.
Print Assumptions C01b_record_field.

(* and the record has the specification's length *)
Theorem C01b_record_length : forall (kd : kinds) (vals : assignment) (e : env) (t : item),
  record_ok kd vals e t = true -> length (spec_record kd vals e t) = extent e t.
Proof. exact record_length. Qed.
Print Assumptions C01b_record_length.

(* whole group: where value() of a group (or of the record: p = []) exists, it holds the assigned value under the name of
   every elementary child that owns its storage.  The premise is needed: value() of a group decodes every member, the
   REDEFINES alternatives included, and can raise where the part does not (Props/C10.v). *)
Theorem C01b_group_value : forall (dcount : list N -> nat) (kd : kinds) (vals : assignment) (e : env) (t : item),
  SR.Proofs.LayoutP.wf e t = true -> NoDup (SR.Proofs.LayoutP.ids t) -> record_ok kd vals e t = true ->
  forall p k d i sz st,
    value_at kd dcount (spec_record kd vals e t) (build t) p = Some (Ok (PDict d)) ->
    elem_at e t (p ++ [PName k]) = Some (i, sz, st) -> own_storage e (VItem t) 0 (p ++ [PName k]) = true ->
    dlookup (KName k) d = Some (PAtom (py_of (stored (kd i) (vals (p ++ [PName k]))))).
Proof. exact stored_is_read_group. Qed.
Print Assumptions C01b_group_value.

(* ------------------------------------------------------------------ C06's general form: OCCURS DEPENDING ON tables
   anywhere a non-repeated item may stand (wfo, Props/C06.v C06_layout).  e is the count vector; the record built from the
   assignment must carry it: Holds says that the bytes at the place of every non-repeated elementary item outside REDEFINES
   unions decode (dcount) to e(item) - for the counters that is "the assigned counter value is the count the tables were laid
   out with"; for the other items it constrains nothing (e is consulted at counters only).  Closed by lemmas of
   Proofs/RecordOdoP.v, which proves the uniqueness of anchors for wfo from internal lemmas of LayoutP / LayoutOdoP /
   LayoutValueP; the variant below it takes that fact as a boolean hypothesis on the emitted schema instead and depends on
   Proofs/RecordP.v only. *)
Theorem C01b_stored_is_read_odo : forall (dcount : list N -> nat) (kd : kinds) (vals : assignment) (e : env) (t : item),
  SR.Proofs.LayoutOdoP.wfo e [] t = true -> NoDup (SR.Proofs.LayoutP.ids t) -> record_ok kd vals e t = true ->
  SR.Proofs.LayoutOdoP.Holds N dcount (spec_record kd vals e t) e t 0 ->
  forall p i sz st, elem_at e t p = Some (i, sz, st) -> own_storage e (VItem t) 0 p = true ->
    value_at kd dcount (spec_record kd vals e t) (build t) p = Some (Ok (PAtom (py_of (stored (kd i) (vals p))))).
Proof. exact stored_is_read_odo. Qed.
Print Assumptions C01b_stored_is_read_odo.

Theorem C01b_stored_is_read_odo_partial : forall (dcount : list N -> nat) (kd : kinds) (vals : assignment) (e : env) (t : item),
  SR.Proofs.LayoutOdoP.wfo e [] t = true -> NoDup (SR.Proofs.LayoutP.ids t) -> uniq_keys (build t) = true ->
  record_ok kd vals e t = true ->
  SR.Proofs.LayoutOdoP.Holds N dcount (spec_record kd vals e t) e t 0 ->
  forall p i sz st, elem_at e t p = Some (i, sz, st) -> own_storage e (VItem t) 0 p = true ->
    value_at kd dcount (spec_record kd vals e t) (build t) p = Some (Ok (PAtom (py_of (stored (kd i) (vals p))))).
Proof. exact stored_is_read_odo_partial. Qed.
Print Assumptions C01b_stored_is_read_odo_partial.

Theorem C01b_uniq_keys_odo : forall (e : env) (t : item),
  SR.Proofs.LayoutOdoP.wfo e [] t = true -> NoDup (SR.Proofs.LayoutP.ids t) -> uniq_keys (build t) = true.
Proof. exact uniq_keys_build_odo. Qed.
Print Assumptions C01b_uniq_keys_odo.

(* ------------------------------------------------------------------ non-vacuity, evaluated end to end
   01 R.  05 A PIC X(3).
          05 G.  10 P PIC S9(3)V99 COMP-3.  10 Z PIC S9(3).
          05 T OCCURS 2.  10 B PIC S9(3) COMP.  10 X PIC X(2).
          05 D PIC X(4).
          05 E REDEFINES D.  10 E1 PIC 99.  10 E2 PIC XX.
          05 N PIC 99 OCCURS 2.
   ids R=1 A=2 G=3 P=4 Z=5 T=6 B=7 X=8 D=9 E=10 E1=11 E2=12 N=13.
   A = Ab1, P = -123.45, Z = -42, T(0) = (-2, HI), T(1) = (513, e-acute !), D = 12? line-feed, N = (7, 98). *)
Definition ex_tree : item :=
  Group 1%N Once None
    (ICons (Elem 2%N 3 Once None)
    (ICons (Group 3%N Once None (ICons (Elem 4%N 3 Once None) (ICons (Elem 5%N 4 Once None) INil)))
    (ICons (Group 6%N (Times 2) None (ICons (Elem 7%N 2 Once None) (ICons (Elem 8%N 2 Once None) INil)))
    (ICons (Elem 9%N 4 Once None)
    (ICons (Group 10%N Once (Some 9%N) (ICons (Elem 11%N 2 Once None) (ICons (Elem 12%N 2 Once None) INil)))
    (ICons (Elem 13%N 2 (Times 2) None) INil)))))).

Definition ex_kinds : kinds := fun i =>
  match i with
  | 4%N => KPacked 8 true 3 2
  | 5%N => KZoned true 3 0
  | 7%N => KBinary 10 true 3 0
  | 11%N | 13%N => KZoned false 2 0
  | _ => KText (match i with 2%N => 3 | 9%N => 4 | _ => 2 end)
  end.

Definition step_eqb (a b : step) : bool :=
  match a, b with PName x, PName y => N.eqb x y | PIndex x, PIndex y => Nat.eqb x y | _, _ => false end.
Fixpoint path_eqb (a b : list step) : bool :=
  match a, b with [] , [] => true | x :: a', y :: b' => step_eqb x y && path_eqb a' b' | _, _ => false end.
Definition ex_table : list (list step * fval) :=
  [ ([PName 2%N], FTxt [65; 98; 49]%N);
    ([PName 3%N; PName 4%N], FNum [1; 2; 3; 4; 5]%N 13%N);
    ([PName 3%N; PName 5%N], FNum [4; 2]%N 13%N);
    ([PName 6%N; PIndex 0; PName 7%N], FInt (-2));
    ([PName 6%N; PIndex 0; PName 8%N], FTxt [72; 73]%N);
    ([PName 6%N; PIndex 1; PName 7%N], FInt 513);
    ([PName 6%N; PIndex 1; PName 8%N], FTxt [233; 33]%N);
    ([PName 9%N], FTxt [49; 50; 63; 10]%N);
    ([PName 13%N; PIndex 0; PName 13%N], FNum [7]%N 15%N);
    ([PName 13%N; PIndex 1; PName 13%N], FNum [9; 8]%N 15%N) ].
Definition ex_vals : assignment := fun p =>
  match find (fun e => path_eqb (fst e) p) ex_table with Some e => snd e | None => FInt 0 end.
Definition ex_env : env := fun _ => 0.
Definition ex_record : list N := spec_record ex_kinds ex_vals ex_env ex_tree.
Definition ex_value (p : list step) : vres (pv pyval) := value_at ex_kinds (fun _ => 0) ex_record (build ex_tree) p.

(* the hypotheses hold *)
Example C01b_example_hypotheses :
  SR.Proofs.LayoutP.wf ex_env ex_tree = true /\ record_ok ex_kinds ex_vals ex_env ex_tree = true
  /\ map (fun p => (elem_at ex_env ex_tree p, own_storage ex_env (VItem ex_tree) 0 p)) (storage_paths ex_env ex_tree)
     = [(Some (2%N, 3, 0), true); (Some (4%N, 3, 3), true); (Some (5%N, 4, 6), true); (Some (7%N, 2, 10), true);
        (Some (8%N, 2, 12), true); (Some (7%N, 2, 14), true); (Some (8%N, 2, 16), true); (Some (9%N, 4, 18), true);
        (Some (13%N, 2, 22), true); (Some (13%N, 2, 24), true)].
Proof. vm_compute. repeat split; reflexivity. Qed.
Example C01b_example_ids : NoDup (SR.Proofs.LayoutP.ids ex_tree).
Proof. vm_compute. repeat constructor; simpl; intuition discriminate. Qed.

(* the record: C1 82 F1 | 12 34 5D | F0 F0 F4 D2 | FF FE C8 C9 | 02 01 51 5A | F1 F2 6F 25 | F0 F7 | F9 F8 *)
Example C01b_example_record :
  ex_record = [193; 130; 241;  18; 52; 93;  240; 240; 244; 210;  255; 254; 200; 201;  2; 1; 81; 90;
               241; 242; 111; 37;  240; 247;  249; 248]%N.
Proof. vm_compute. reflexivity. Qed.

(* every elementary occurrence reads back what was assigned: the model of nav / name / index / value evaluated on the record *)
Example C01b_example_values :
  map ex_value (storage_paths ex_env ex_tree)
  = [Some (Ok (PAtom (VStr [65; 98; 49]%N)));
     Some (Ok (PAtom (VDec (mkdec true 12345 (-2)))));
     Some (Ok (PAtom (VDec (mkdec true 42 0))));
     Some (Ok (PAtom (VInt (-2)))); Some (Ok (PAtom (VStr [72; 73]%N)));
     Some (Ok (PAtom (VInt 513))); Some (Ok (PAtom (VStr [233; 33]%N)));
     Some (Ok (PAtom (VStr [49; 50; 63; 10]%N)));
     Some (Ok (PAtom (VDec (mkdec false 7 0))));
     Some (Ok (PAtom (VDec (mkdec false 98 0))))]
  /\ map ex_value (storage_paths ex_env ex_tree)
     = map (fun p => match elem_at ex_env ex_tree p with
                     | Some (i, _, _) => Some (Ok (PAtom (py_of (stored (ex_kinds i) (ex_vals p)))))
                     | None => None
                     end) (storage_paths ex_env ex_tree).
Proof. vm_compute. split; reflexivity. Qed.

(* the redefining item E reads the same bytes as D (F1 F2 6F 25): E1 = 12 as a number, E2 = the last two characters;
   the whole value of G is the dictionary of the values assigned to its members (C01b_group_value) *)
Example C01b_example_redefines_and_group :
  ex_value [PName 10%N; PName 11%N] = Some (Ok (PAtom (VDec (mkdec false 12 0))))
  /\ ex_value [PName 10%N; PName 12%N] = Some (Ok (PAtom (VStr [63; 10]%N)))
  /\ own_storage ex_env (VItem ex_tree) 0 [PName 10%N; PName 11%N] = false
  /\ ex_value [PName 3%N] = Some (Ok (PDict [(KName 4%N, PAtom (VDec (mkdec true 12345 (-2))));
                                             (KName 5%N, PAtom (VDec (mkdec true 42 0)))])).
Proof. vm_compute. repeat split; reflexivity. Qed.

(* ------------------------------------------------------------------ non-vacuity of the OCCURS DEPENDING ON form
   01 R.  05 N PIC 9.  05 G.  10 A PIC X(2).  10 T PIC S9(3) COMP-3 OCCURS 0 TO 9 DEPENDING ON N.
          05 U OCCURS 0 TO 9 DEPENDING ON N.  10 V PIC X.   05 Z PIC 99.
   ids R=1 N=2 G=3 A=4 T=5 U=6 V=7 Z=8.  N = 2, A = HI, T = (-12, 345), U = (x, y), Z = 12.
   Counters are decoded as the judges do: the low nibbles as decimal digits. *)
Definition odo_tree : item :=
  Group 1%N Once None
    (ICons (Elem 2%N 1 Once None)
    (ICons (Group 3%N Once None (ICons (Elem 4%N 2 Once None) (ICons (Elem 5%N 2 (Odo 2%N) None) INil)))
    (ICons (Group 6%N (Odo 2%N) None (ICons (Elem 7%N 1 Once None) INil))
    (ICons (Elem 8%N 2 Once None) INil)))).
Definition odo_kinds : kinds := fun i =>
  match i with
  | 2%N => KZoned false 1 0
  | 5%N => KPacked 8 true 3 0
  | 8%N => KZoned false 2 0
  | 4%N => KText 2
  | _ => KText 1
  end.
Definition odo_table : list (list step * fval) :=
  [ ([PName 2%N], FNum [2]%N 15%N);
    ([PName 3%N; PName 4%N], FTxt [72; 73]%N);
    ([PName 3%N; PName 5%N; PIndex 0; PName 5%N], FNum [1; 2]%N 13%N);
    ([PName 3%N; PName 5%N; PIndex 1; PName 5%N], FNum [3; 4; 5]%N 12%N);
    ([PName 6%N; PIndex 0; PName 7%N], FTxt [120]%N);
    ([PName 6%N; PIndex 1; PName 7%N], FTxt [121]%N);
    ([PName 8%N], FNum [1; 2]%N 15%N) ].
Definition odo_vals : assignment := fun p =>
  match find (fun e => path_eqb (fst e) p) odo_table with Some e => snd e | None => FInt 0 end.
Definition odo_dcount (bs : list N) : nat := N.to_nat (val (map (fun b => (b mod 16)%N) bs)).
Definition odo_env : env := fun c => match c with 2%N => 2 | 4%N => 89 | 8%N => 12 | _ => 0 end.
Definition odo_record : list N := spec_record odo_kinds odo_vals odo_env odo_tree.

Example C01b_odo_example_hypotheses :
  SR.Proofs.LayoutOdoP.wfo odo_env [] odo_tree = true /\ record_ok odo_kinds odo_vals odo_env odo_tree = true
  /\ uniq_keys (build odo_tree) = true
  /\ odo_record = [242; 200; 201; 1; 45; 52; 92; 167; 168; 241; 242]%N
  /\ map (fun p => (elem_at odo_env odo_tree p, own_storage odo_env (VItem odo_tree) 0 p)) (storage_paths odo_env odo_tree)
     = [(Some (2%N, 1, 0), true); (Some (4%N, 2, 1), true); (Some (5%N, 2, 3), true); (Some (5%N, 2, 5), true);
        (Some (7%N, 1, 7), true); (Some (7%N, 1, 8), true); (Some (8%N, 2, 9), true)].
Proof. vm_compute. repeat split; reflexivity. Qed.
Example C01b_odo_example_ids : NoDup (SR.Proofs.LayoutP.ids odo_tree).
Proof. vm_compute. repeat constructor; simpl; intuition discriminate. Qed.
Example C01b_odo_example_holds : SR.Proofs.LayoutOdoP.Holds N odo_dcount odo_record odo_env odo_tree 0.
Proof. cbn. repeat first [exact I | split | eexists; split; [reflexivity|] | vm_compute; reflexivity]. Qed.
Example C01b_odo_example_values :
  map (value_at odo_kinds odo_dcount odo_record (build odo_tree)) (storage_paths odo_env odo_tree)
  = [Some (Ok (PAtom (VDec (mkdec false 2 0))));
     Some (Ok (PAtom (VStr [72; 73]%N)));
     Some (Ok (PAtom (VDec (mkdec true 12 0)))); Some (Ok (PAtom (VDec (mkdec false 345 0))));
     Some (Ok (PAtom (VStr [120]%N))); Some (Ok (PAtom (VStr [121]%N)));
     Some (Ok (PAtom (VDec (mkdec false 12 0))))].
Proof. vm_compute. reflexivity. Qed.
