(* C07b - Copybook to schema, END TO END ON RAW TEXT: a second engine of property C07 (every entry appears once, in place,
   and none is lost).  Only the property theorems, each closed by an exact lemma of Proofs/PipelineP.v.

   Model/Pipeline.v    schemas_of_text text = what list(schema_iter(io.StringIO(text))) does, for EVERY text: [Done (Ok docs)] the
                       list of JSON-schema documents with every keyword in insertion order, [Done (Err e)] the exception class,
                       [Unmodelled w] (never on the domain of these theorems).  It is the COMPOSITION of the layer models
                       (RefFormat, Clauses, Structure, Picture, Estruct, JsonType - imported, not copied) plus the glue, the
                       decoder's second parse of the cobol text and the schema maker with its shared mutable dicts (a heap).
                       The correspondence run (harness/c07b.py, Judge/JC07b.v) compares it with the real code on raw text.
   Spec/Copybook.v     centry: one data description entry = two level digits, clauses and spelling (Spec/Clauses.v), the white
                       space around it; print_copybook es tail seqs: the reference-format text (code areas cut at line feeds,
                       every line behind a six-character sequence area and a blank indicator); copybook_ok: the domain (every
                       entry in the domain of C12b's printer theorem, its picture accepted by the picture scanner, the period
                       of an entry its first period followed by white space, code lines of at most 64 characters, none blank,
                       none a listing directive or a COPY statement); spec_entry / spec_info: the fields a correct reader
                       recovers (from [expected], the dictionary of Spec/Clauses.v); doc_of / docs_of: the document a tree of
                       entries calls for (one node per entry, children in order under their names, title / anchor / cobol, the
                       array wrapper of OCCURS) - the SHAPE; type keywords and sizes of elementary items are json_type and the
                       decoder's calcsize of the entry (properties C08 and C04).
   What is proved
     C07b_sentences, C07b_entries   text layer and clause layer composed (C12_sentences + the card layout + C12b_clause_dict_printer):
                       the sentences / DDE fields read from the text of ANY printed copybook of the domain are the specification's.
     C07b_layer_b      ... hence the documents are Layer B (structure() + schema maker) run on the specification's entries;
                       REDEFINES included.
     C07b_emission     the schema maker's heap model on a forest without REDEFINES is the pure function docs_of.
     C07b_end_to_end   ALL LAYERS COMPOSED, REDEFINES INCLUDED: for every copybook of the domain whose entries form a forest with
                       well-formed names, the outcome is docs_r of that forest (Spec/Copybook.v: the pure, REDEFINES-aware
                       document specification).  C07b_emission_redefines: the schema maker's heap model = docs_r.
     C07b_end_to_end_partial   all layers composed with C07_structure for copybooks WITHOUT REDEFINES: the forest is the one
                       Spec/Dde.v demands (every kept entry once, in source order, parent = nearest preceding smaller level, roots)
                       and the documents are docs_of of that forest.
     C07b_every_entry_once   ... and, in terms of the documents themselves: the objects that define an entry (title, cobol) are, in
                       document order, exactly the kept entries of the copybook - each once, none lost, in source order.
     C07b_relayout     sequence areas, indentation, line breaks before entries, what follows the last entry: no influence at all
                       (any outcome, REDEFINES included).
     C07b_respelling_partial   ... and the documents are equal up to the cobol keyword, for copybooks without REDEFINES.
     C07b_respelling_entries   clause order, optional words, synonyms, letter case, separators: the recovered entries have the same
                       content (level, name, FILLER up to case, REDEFINES target, PICTURE / OCCURS presence).
     C07b_every_entry_once_redefines   with REDEFINES: the defining objects are the kept entries as a multiset (none lost, none twice).
     C07b_respelling   REDEFINES included: two printings of the same entries give the same outcome up to the cobol keyword.
   Hypotheses that remain (each a decidable boolean with an Example): the printable domain of the layer theorems (copybook_ok),
   well-formed names (names_wf / copybook_names_ok), distinct sibling names (shape_ok), and for respelling the decoder's
   second parse finding the entry's own USAGE and PICTURE (respelling_domain).
   Witnesses: C07b_refuted_k2 (known finding C07-K2 end to end), C07b_refuted_duplicate_sibling, C07b_refuted_one_digit_level(s). *)
From Coq Require Import NArith List Bool Permutation.
Import ListNotations.
Require Import SR.Base.Res SR.Model.RefFormat SR.Spec.RefFormat SR.Spec.Clauses SR.Spec.Dde.
Require SR.Model.Structure SR.Proofs.StructureP.
Require Import SR.Model.Pipeline SR.Spec.Copybook SR.Proofs.PipelineP.
Open Scope N_scope.

(* ---- text layer: the sentences of a printed copybook ---- *)
Theorem C07b_sentences : forall es tail seqs,
  forallb ce_wf es = true -> forallb is_ws tail = true -> layout_ok seqs (code_text es tail) = true ->
  sentences_of_text (print_copybook es tail seqs) = Ok (spec_sentences (map ce_print es)).
Proof. exact sentences_of_printed. Qed.
Print Assumptions C07b_sentences.

(* ---- text layer + clause layer: the DDE fields of every entry, in order ---- *)
Theorem C07b_entries : forall es tail seqs, copybook_ok es tail seqs = true ->
  entries_of_text (print_copybook es tail seqs) = ROk (map spec_entry es).
Proof. exact entries_of_printed. Qed.
Print Assumptions C07b_entries.

(* ---- ... so the documents are Layer B on the specification's entries (also with REDEFINES) ---- *)
Theorem C07b_layer_b : forall es tail seqs, copybook_ok es tail seqs = true ->
  schemas_of_text (print_copybook es tail seqs) = to_outcome (docs_of_infos (map spec_info es)).
Proof. exact schemas_of_printed. Qed.
Print Assumptions C07b_layer_b.

(* ---- the schema maker: shared mutable dicts (heap) = a pure function of the forest when nothing is redefined ---- *)
Theorem C07b_emission : forall f : list xtree, forallb noredef f = true -> build_all f = docs_of f.
Proof. exact build_all_noredef. Qed.
Print Assumptions C07b_emission.

(* ---- end to end, copybooks without REDEFINES ----
   [f] is the forest of structure(); by C07_structure it holds every kept entry exactly once in source order, each below the
   nearest preceding entry with a smaller level number, the roots being the entries without one.  [xf] is f with the clause
   values of the entries attached in that order.  The documents are docs_of xf: one per root, one node per kept entry. *)
Theorem C07b_end_to_end_partial : forall es tail seqs,
  copybook_ok es tail seqs = true -> no_redefines es = true -> levels_ascii es = true ->
  exists f xf,
    SR.Model.Structure.structure (map spec_entry es) = Ok f
    /\ SR.Model.Structure.preorder_f f = SR.Proofs.StructureP.kept_of (map spec_entry es)
    /\ SR.Model.Structure.parents f
       = spec_parents (SR.Proofs.StructureP.levels_of (SR.Proofs.StructureP.kept_of (map spec_entry es)))
    /\ SR.Model.Structure.root_pos 0 f
       = spec_roots (SR.Proofs.StructureP.levels_of (SR.Proofs.StructureP.kept_of (map spec_entry es)))
    /\ annot_forest f (kept_infos (map spec_info es)) = Some xf
    /\ map erase xf = f
    /\ concat (map xpre xf) = kept_infos (map spec_info es)
    /\ schemas_of_text (print_copybook es tail seqs) = to_outcome (docs_of xf).
Proof. exact end_to_end_noredef_spec. Qed.
Print Assumptions C07b_end_to_end_partial.

(* ---- the property itself, in terms of the documents: every kept entry is defined exactly once, in source order ----
   [defs doc] lists (title, cobol) of every object of a document that has a title and is not a reference placeholder, in
   document order; [entry_defs es] lists (data name, level + clause text) of the entries of the copybook that become nodes
   (all but the later 66 / 77 / 88 levels).  copybook_shape_ok: siblings carry different names (else the later one REPLACES
   the earlier under the same key) and an elementary OCCURS item has no subordinate entries (the code drops them). *)
Theorem C07b_every_entry_once : forall es tail seqs docs,
  copybook_ok es tail seqs = true -> no_redefines es = true -> copybook_shape_ok es = true ->
  schemas_of_text (print_copybook es tail seqs) = Done (Ok docs) ->
  flat_map defs docs = entry_defs es.
Proof. exact end_to_end_defs. Qed.
Print Assumptions C07b_every_entry_once.

(* ---- END TO END, REDEFINES INCLUDED ----
   Spec/Copybook.v docs_r is the REDEFINES-aware document specification: the redefined item and its redefiners gathered in a
   oneOf property REDEFINES-x of their group where the first of them stands, each keeping a reference placeholder under its
   own name; KeyError under an OCCURS group (known finding C07-K2).  For EVERY copybook of the domain whose entries form a
   forest (structure() returns: every REDEFINES target is a unique earlier sibling) in which no item is named like one of
   its ancestors and no name starts with REDEFINES- (names_wf), the outcome - documents or the exception of an elementary
   item's type / size - is docs_r of that forest [xf] (f with the clause values attached in source order).
   The schema maker's shared mutable dicts (names[parent.unique_name], the oneOf lists it appends to) are a heap in the model;
   the proof carries an invariant relating the properties dict under construction to the documents built so far. *)
Theorem C07b_end_to_end : forall es tail seqs f,
  copybook_ok es tail seqs = true -> SR.Model.Structure.structure (map spec_entry es) = Ok f ->
  exists xf, annot_forest f (kept_infos (map spec_info es)) = Some xf /\ map erase xf = f
             /\ concat (map xpre xf) = kept_infos (map spec_info es)
             /\ (forallb (names_wf []) xf = true ->
                 schemas_of_text (print_copybook es tail seqs) = to_outcome (docs_r xf)).
Proof. exact end_to_end_full. Qed.
Print Assumptions C07b_end_to_end.

(* the schema maker alone: heap model = pure specification on every forest with well-formed names *)
Theorem C07b_emission_redefines : forall f : list xtree, forallb (names_wf []) f = true -> build_all f = docs_r f.
Proof. exact Redef.build_all_names_wf. Qed.
Print Assumptions C07b_emission_redefines.

(* where nothing is redefined docs_r is docs_of: C07b_end_to_end_partial is the full statement restricted to copybooks
   without REDEFINES (and there the hypothesis on names is not needed) *)
Theorem C07b_docs_r_without_redefines : forall f : list xtree, forallb noredef f = true -> docs_r f = docs_of f.
Proof. exact docs_r_noredef. Qed.
Print Assumptions C07b_docs_r_without_redefines.

(* ---- the property itself with REDEFINES: every kept entry is defined exactly once.  A redefined item and its redefiners stand
        together in the oneOf at the place of the redefined item, so the defining objects are the kept entries as a MULTISET
        (none lost, none twice); without REDEFINES also in source order (C07b_every_entry_once).
        shape_ok: siblings carry different names, an elementary OCCURS item has no subordinate entries. ---- *)
Theorem C07b_every_entry_once_redefines : forall es tail seqs f xf docs,
  copybook_ok es tail seqs = true -> SR.Model.Structure.structure (map spec_entry es) = Ok f ->
  annot_forest f (kept_infos (map spec_info es)) = Some xf ->
  forallb (names_wf []) xf = true -> forallb shape_ok xf = true ->
  schemas_of_text (print_copybook es tail seqs) = Done (Ok docs) ->
  Permutation (flat_map defs docs) (entry_defs es).
Proof. exact end_to_end_defs_full. Qed.
Print Assumptions C07b_every_entry_once_redefines.

(* ---- layout: sequence areas, indentation, the white space around level numbers and after periods, what follows the last
        entry have no influence on the outcome (documents or exception), REDEFINES included ---- *)
Theorem C07b_relayout : forall es tail seqs es' tail' seqs',
  Forall2 same_core es es' -> copybook_ok es tail seqs = true -> copybook_ok es' tail' seqs' = true ->
  schemas_of_text (print_copybook es tail seqs) = schemas_of_text (print_copybook es' tail' seqs').
Proof. exact relayout. Qed.
Print Assumptions C07b_relayout.

(* ---- respelling: two printings of the same entries - clauses in any order, any optional words, synonyms, letter case,
        separators, layout - are read as entries with the same content ---- *)
Theorem C07b_respelling_entries : forall es tail seqs es' tail' seqs',
  Forall2 same_clauses es es' -> copybook_ok es tail seqs = true -> copybook_ok es' tail' seqs' = true ->
  exists E E', entries_of_text (print_copybook es tail seqs) = ROk E
            /\ entries_of_text (print_copybook es' tail' seqs') = ROk E'
            /\ map content E = map content E'.
Proof. exact respelling_entries. Qed.
Print Assumptions C07b_respelling_entries.

(* ---- ... and the DOCUMENTS are equal up to the cobol keyword (the one keyword that shows how the entry was written), for
        copybooks without REDEFINES in which the word FILLER is written in upper case and the decoder's second parse of every
        entry ends up with the entry's own usage and picture (respelling_domain: excludes the known findings K-C12-lowercase and
        K-C12-value-literal-reparsed; keyword-bearing data names are no longer excluded, Props/C04e.v).  Clause order, optional words, synonyms (PIC / PICTURE, COMP / BINARY / COMP-4,
        COMP-3 / PACKED-DECIMAL ...), letter case of the other reserved words, separators and layout are free. ---- *)
Theorem C07b_respelling_partial : forall es tail seqs es' tail' seqs',
  Forall2 same_clauses es es' ->
  copybook_ok es tail seqs = true -> copybook_ok es' tail' seqs' = true ->
  no_redefines es = true -> no_redefines es' = true ->
  forallb respelling_domain es = true -> forallb respelling_domain es' = true ->
  strip_outcome (schemas_of_text (print_copybook es tail seqs)) = strip_outcome (schemas_of_text (print_copybook es' tail' seqs')).
Proof. exact respelling_docs. Qed.
Print Assumptions C07b_respelling_partial.

(* ---- the same WITH REDEFINES: two printings of the same entries give the same outcome up to the cobol keyword - the same
        documents, or the same exception (a REDEFINES target that is no unique earlier sibling: ValueError; REDEFINES below an
        OCCURS group: KeyError ...).  copybook_names_ok: on the forest of the entries no item is named like one of its
        ancestors and no name starts with REDEFINES- (nothing is asked when structure() refuses the copybook). ---- *)
Theorem C07b_respelling : forall es tail seqs es' tail' seqs',
  Forall2 same_clauses es es' ->
  copybook_ok es tail seqs = true -> copybook_ok es' tail' seqs' = true ->
  forallb respelling_domain es = true -> forallb respelling_domain es' = true ->
  Resp2.copybook_names_ok es = true -> Resp2.copybook_names_ok es' = true ->
  strip_outcome (schemas_of_text (print_copybook es tail seqs)) = strip_outcome (schemas_of_text (print_copybook es' tail' seqs')).
Proof. exact Resp2.respelling_docs_full. Qed.
Print Assumptions C07b_respelling.

(* ------------------------------------------------------------------ non-vacuity *)
Definition sp0 : cspell := {| ch := []; masks := []; seps := [] |}.
Definition mkce (d1 d2 : N) (cs : list clause) (sps : spelling) (lead gap : line) : centry :=
  {| ce_d1 := d1; ce_d2 := d2; ce_cs := cs; ce_sps := sps; ce_lead := lead; ce_gap := gap; ce_term := 10 |}.
Definition ind4 : line := [32; 32; 32; 32].
Definition brk : line := [10; 32; 32; 32; 32; 32; 32; 32; 32].             (* a line break inside an entry, then eight blanks *)

Definition n_CUST_REC : line := [67; 85; 83; 84; 45; 82; 69; 67].
Definition n_CUST_NO : line := [67; 85; 83; 84; 45; 78; 79].
Definition p_9_5 : line := [57; 40; 53; 41].
Definition p_X_3 : line := [88; 40; 51; 41].
Definition p_S9_3 : line := [83; 57; 40; 51; 41].

(*  000100 01 CUST-REC .
    000200     05  CUST-NO PIC 9(5) .
    000300     05 FILLER, PICTURE IS X(3) USAGE IS DISPLAY.
    000400     05 T OCCURS 3 TIMES
    000500         PIC S9(3) COMP-3.                                           *)
Definition ex_es : list centry :=
  [mkce 48 49 [CName n_CUST_REC] [] [] [32];
   mkce 48 53 [CName n_CUST_NO; CPicture p_9_5] [] ind4 [32; 32];
   mkce 48 53 [CFiller; CPicture p_X_3; CUsage 0]
        [(sp0, [44; 32]); ({| ch := [1; 1]; masks := []; seps := [] |}, [32]); ({| ch := [2; 0]; masks := []; seps := [] |}, [])] ind4 [32];
   mkce 48 53 [CName [84]; COccurs [51] None; CPicture p_S9_3; CUsage 2]
        [(sp0, [32]); ({| ch := [1]; masks := []; seps := [] |}, brk); (sp0, [32]); (sp0, [])] ind4 [32]].
Definition ex_seqs : list line :=
  [[48;48;48;49;48;48]; [48;48;48;50;48;48]; [48;48;48;51;48;48]; [48;48;48;52;48;48]; [48;48;48;53;48;48]].

Example C07b_example_domain :
  copybook_ok ex_es [] ex_seqs = true /\ no_redefines ex_es = true /\ levels_ascii ex_es = true
  /\ copybook_shape_ok ex_es = true /\ forallb respelling_domain ex_es = true /\ Resp2.copybook_names_ok ex_es = true.
Proof. vm_compute. repeat split; reflexivity. Qed.

(* the documents of the example: one record, the three items in order under their names; FILLER is titled FILLER and
   anchored FILLER-1; T is an array of 3 whose item carries the packed-decimal type; sizes 5 and 3 *)
Example C07b_example_docs :
  exists rec a b c,
    schemas_of_text (print_copybook ex_es [] ex_seqs)
    = Done (Ok [JObj [(k_title, JStr n_CUST_REC); (k_anchor, JStr n_CUST_REC); (k_cobol, JStr rec); (k_type, JStr v_object);
                      (k_properties, JObj [(n_CUST_NO, a); (SR.Model.Structure.gen_name 1, b); ([84], c)])]])
    /\ a = JObj [(k_title, JStr n_CUST_NO); (k_anchor, JStr n_CUST_NO);
                 (k_cobol, JStr [48;53;32;67;85;83;84;45;78;79;32;80;73;67;32;57;40;53;41]);
                 (k_type, JStr v_string); (k_contentEncoding, JStr v_cp037); (k_maxLength, JInt 5); (k_minLength, JInt 5)]
    /\ flat_map defs [JObj [(k_title, JStr n_CUST_REC); (k_anchor, JStr n_CUST_REC); (k_cobol, JStr rec); (k_type, JStr v_object);
                            (k_properties, JObj [(n_CUST_NO, a); (SR.Model.Structure.gen_name 1, b); ([84], c)])]]
       = entry_defs ex_es.
Proof. do 4 eexists. split; [vm_compute; reflexivity|]. split; vm_compute; reflexivity. Qed.

(* the same entries respelled and laid out differently: clause order, PIC for PICTURE IS, no USAGE IS, a synonym
   (PACKED-DECIMAL for COMP-3), lower-case times, semicolon separators, blank sequence areas, other indentation *)
Definition ex_es' : list centry :=
  [mkce 48 49 [CName n_CUST_REC] [(sp0, [])] [] [32; 32];
   mkce 48 53 [CName n_CUST_NO; CPicture p_9_5] [(sp0, [59; 32]); (sp0, [])] [32] [32];
   mkce 48 53 [CFiller; CUsage 0; CPicture p_X_3]
        [(sp0, [32]); ({| ch := [0; 0]; masks := []; seps := [] |}, [59; 32; 32]); (sp0, [])] [32] [32];
   mkce 48 53 [CName [84]; CUsage 2; CPicture p_S9_3; COccurs [51] None]
        [(sp0, [32]); ({| ch := [1; 2]; masks := []; seps := [] |}, [32]); (sp0, [32]);
         ({| ch := [1]; masks := [[]; [true; true; true; true; true]]; seps := [] |}, [])] [32] [32]].

Example C07b_example_respelling :
  Forall2 same_clauses ex_es ex_es' /\ copybook_ok ex_es' [] [] = true /\ no_redefines ex_es' = true /\ forallb respelling_domain ex_es' = true
  /\ schemas_of_text (print_copybook ex_es [] ex_seqs) <> schemas_of_text (print_copybook ex_es' [] [])
  /\ strip_outcome (schemas_of_text (print_copybook ex_es [] ex_seqs)) = strip_outcome (schemas_of_text (print_copybook ex_es' [] [])).
Proof.
  split.
  { apply Forall2_cons; [split; [reflexivity|split; [reflexivity|apply Permutation_refl]]|].
    apply Forall2_cons; [split; [reflexivity|split; [reflexivity|apply Permutation_refl]]|].
    apply Forall2_cons; [split; [reflexivity|split; [reflexivity|apply perm_skip; apply perm_swap]]|].
    apply Forall2_cons; [split; [reflexivity|split; [reflexivity|]]|apply Forall2_nil].
    apply perm_skip. apply (Permutation_rev [COccurs [51] None; CPicture p_S9_3; CUsage 2]). }
  split; [vm_compute; reflexivity|]. split; [vm_compute; reflexivity|]. split; [vm_compute; reflexivity|]. split; [vm_compute; discriminate|vm_compute; reflexivity].
Qed.

(* with REDEFINES (outside C07b_end_to_end_partial): the conclusion of the full statement holds on this instance
     01 R.  05 A PIC X(3).  05 B REDEFINES A PIC 9(3).  05 C PIC X. *)
Definition ex_redef : list centry :=
  [mkce 48 49 [CName [82]] [] [] [32];
   mkce 48 53 [CName [65]; CPicture p_X_3] [] ind4 [32];
   mkce 48 53 [CName [66]; CRedefines [65]; CPicture [57; 40; 51; 41]] [] ind4 [32];
   mkce 48 53 [CName [67]; CPicture [88]] [] ind4 [32]].

Example C07b_example_redefines :
  copybook_ok ex_redef [] [] = true /\ no_redefines ex_redef = false
  /\ (exists docs, schemas_of_text (print_copybook ex_redef [] []) = Done (Ok docs)
                   /\ Permutation (flat_map defs docs) (entry_defs ex_redef))
  /\ (exists f xf, SR.Model.Structure.structure (map spec_entry ex_redef) = Ok f
                   /\ annot_forest f (kept_infos (map spec_info ex_redef)) = Some xf
                   /\ forallb (names_wf []) xf = true /\ forallb shape_ok xf = true
                   /\ schemas_of_text (print_copybook ex_redef [] []) = to_outcome (docs_r xf)).
Proof.
  split; [vm_compute; reflexivity|]. split; [vm_compute; reflexivity|]. split.
  - eexists. split; [vm_compute; reflexivity|]. vm_compute. apply Permutation_refl.
  - eexists. eexists. split; [vm_compute; reflexivity|]. split; [vm_compute; reflexivity|]. split; [vm_compute; reflexivity|]. split; vm_compute; reflexivity.
Qed.

(* the hypotheses of C07b_respelling are satisfiable with REDEFINES: ex_redef against the same entries with the clauses of B
   in another order (PIC before REDEFINES) and PICTURE IS for PIC *)
Definition ex_redef' : list centry :=
  [mkce 48 49 [CName [82]] [] [] [32];
   mkce 48 53 [CName [65]; CPicture p_X_3] [(sp0, [32]); ({| ch := [1; 1]; masks := []; seps := [] |}, [])] [32] [32; 32];
   mkce 48 53 [CName [66]; CPicture [57; 40; 51; 41]; CRedefines [65]] [] [32] [32];
   mkce 48 53 [CName [67]; CPicture [88]] [] [32] [32]].

Example C07b_example_respelling_redefines :
  Forall2 same_clauses ex_redef ex_redef' /\ copybook_ok ex_redef' [] [] = true
  /\ forallb respelling_domain ex_redef = true /\ forallb respelling_domain ex_redef' = true
  /\ Resp2.copybook_names_ok ex_redef = true /\ Resp2.copybook_names_ok ex_redef' = true.
Proof.
  split.
  { apply Forall2_cons; [split; [reflexivity|split; [reflexivity|apply Permutation_refl]]|].
    apply Forall2_cons; [split; [reflexivity|split; [reflexivity|apply Permutation_refl]]|].
    apply Forall2_cons; [split; [reflexivity|split; [reflexivity|apply perm_skip; apply perm_swap]]|].
    apply Forall2_cons; [split; [reflexivity|split; [reflexivity|apply Permutation_refl]]|apply Forall2_nil]. }
  split; [vm_compute; reflexivity|]. split; [vm_compute; reflexivity|]. split; [vm_compute; reflexivity|]. split; vm_compute; reflexivity.
Qed.

(* known finding C07-K2 reproduced end to end on text: REDEFINES below an OCCURS group raises KeyError
     01 R.  05 T OCCURS 2.  10 A PIC X.  10 B REDEFINES A PIC X. *)
Definition ex_k2 : list centry :=
  [mkce 48 49 [CName [82]] [] [] [32];
   mkce 48 53 [CName [84]; COccurs [50] None] [] ind4 [32];
   mkce 49 48 [CName [65]; CPicture [88]] [] ind4 [32];
   mkce 49 48 [CName [66]; CRedefines [65]; CPicture [88]] [] ind4 [32]].

Theorem C07b_refuted_k2 :
  copybook_ok ex_k2 [] [] = true /\ schemas_of_text (print_copybook ex_k2 [] []) = Done (Err KeyError).
Proof. split; vm_compute; reflexivity. Qed.
Print Assumptions C07b_refuted_k2.

(* ------------------------------------------------------------------ what the hypotheses exclude: witnesses *)
(* copybook_shape_ok is needed: two siblings with the same data name - the later one REPLACES the earlier under the same key,
   the first entry is lost (candidate finding)     01 R.  05 A PIC X.  05 A PIC 9. *)
Definition ex_dup : list centry :=
  [mkce 48 49 [CName [82]] [] [] [32];
   mkce 48 53 [CName [65]; CPicture [88]] [] ind4 [32];
   mkce 48 53 [CName [65]; CPicture [57]] [] ind4 [32]].

Theorem C07b_refuted_duplicate_sibling :
  copybook_ok ex_dup [] [] = true /\ no_redefines ex_dup = true /\ copybook_shape_ok ex_dup = false
  /\ exists docs, schemas_of_text (print_copybook ex_dup [] []) = Done (Ok docs)
                  /\ length (flat_map defs docs) = 2%nat /\ length (entry_defs ex_dup) = 3%nat.
Proof. split; [vm_compute; reflexivity|]. split; [vm_compute; reflexivity|]. split; [vm_compute; reflexivity|].
  eexists. split; [vm_compute; reflexivity|]. split; vm_compute; reflexivity. Qed.
Print Assumptions C07b_refuted_duplicate_sibling.

(* a level number written with ONE digit (COBOL allows 1 .. 49 as well as 01 .. 49) is not seen by the sentence pattern: the
   entry is lost without any error (candidate finding); raw text, outside the printer's domain
     "       01 REC." / "           5  A PIC X(3)." / "           05 B PIC X."   defines REC and B only *)
Definition text_one_digit : list N := [32; 32; 32; 32; 32; 32; 32; 48; 49; 32; 82; 69; 67; 46; 10; 32; 32; 32; 32; 32; 32; 32; 32; 32; 32; 32; 53; 32; 32; 65; 32; 80; 73; 67; 32; 88; 40; 51; 41; 46; 10; 32; 32; 32; 32; 32; 32; 32; 32; 32; 32; 32; 48; 53; 32; 66; 32; 80; 73; 67; 32; 88; 46; 10].
Theorem C07b_refuted_one_digit_level :
  exists docs, schemas_of_text text_one_digit = Done (Ok docs)
               /\ map fst (flat_map defs docs) = [[82; 69; 67]; [66]].
Proof. eexists. split; vm_compute; reflexivity. Qed.
Print Assumptions C07b_refuted_one_digit_level.

(* ... and a copybook that uses one-digit level numbers throughout has no sentence at all: StopIteration
     "       1  REC." / "           5  A PIC XXX." *)
Definition text_one_digit_all : list N := [32; 32; 32; 32; 32; 32; 32; 49; 32; 32; 82; 69; 67; 46; 10; 32; 32; 32; 32; 32; 32; 32; 32; 32; 32; 32; 53; 32; 32; 65; 32; 80; 73; 67; 32; 88; 88; 88; 46; 10].
Theorem C07b_refuted_one_digit_levels_only : schemas_of_text text_one_digit_all = Done (Err StopIter).
Proof. vm_compute. reflexivity. Qed.
Print Assumptions C07b_refuted_one_digit_levels_only.
