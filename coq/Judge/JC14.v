(* Judge for C14.  Three kinds of case (first element):

   (1 cls mode (code ...) (a cres (count ...) escaped c closed sc c2 d))     one with-statement
        cls 1..8, mode 0 = path / 1 = caller's file object;
        body codes: 1 sheet_iter  2 row_iter  3 next row  4 drain the rows  5 raise Boom
                    6 wb.close()  7 next row with a loader whose header() raises Boom
        a       descriptors on the path before the constructor
        cres    0 | code of the exception raised by the constructor
        counts  descriptors after the constructor and after each completed body event
        escaped 0 | code of the exception that came out of the with statement
        c       descriptors right after the with statement       (the property is judged here)
        closed  file_object.closed after the with statement: 0/1, 2 = no file object
        sc      0 | code of the exception raised by one more close()
        c2      descriptors after that close
        d       descriptors after gc.collect()                   (only classifies finding 1)
   (2 (op ...))                                                             fresh WBFileRegistry
        a history, in order: op = (0 (suffix ...) cls)                       file_suffix(suffixes)(class)
                                | (1 name obs_suffix result (ctor ...))      open_workbook(dir/name)
        result = (0 cls) | (1 exn); ctor = ids of the classes whose constructor ran during the open
   (4 (op ...))                                                             the same on the global registry
   (3 name obs_suffix result opens fd_after)                                the global registry
        opens = number of open() audit events on the path during open_workbook
   (5 (op ...))                                                             fresh WBFileRegistry, WHOLE PATHS
        op = (0 (suffix ...) cls) | (1 path obs_suffix result (ctor ...) obs_name):  open_workbook(Path(path)), the string
        handed to Path() as it is (no file is touched: the classes are the runner's); obs_suffix / obs_name = what
        pathlib reports for that Path; the model takes name and suffix out of the path itself (Model/RegistryPath.v)
   (6 (op ...))                                                             the same on the global registry
        the runner opens Path(scratch + slash + path) on real files, so path must have a name of its own
        (has_name; Props/C14c.v C14c_prefix_irrelevant); a case without one is answered with the error code 9
   Strings are lists of code points. *)
From Coq Require Import ZArith NArith List Bool Arith.
Import ListNotations.
Require Import SR.Base.Sx SR.Base.Res SR.Gen.RegistryParams SR.Spec.Lifecycle SR.Model.Registry SR.Model.Lifecycle.
Require Import SR.Model.RegistryPath.
Open Scope Z_scope.

Definition exn_of_code (z : Z) : exn :=
  match z with
  | 1 => ValueError | 2 => TypeError | 3 => IndexError | 4 => KeyError | 5 => RuntimeError
  | 6 => NotImplementedError | 7 => StructError | 8 => DecimalInvalid | 9 => DesignError
  | 10 => AttributeError | 11 => StopIter | 12 => AssertionError | _ => OtherError
  end.

Definition code_of_opt (o : option exn) : Z := match o with None => 0 | Some x => exn_code x end.

Fixpoint nats_eqb (a b : list nat) : bool :=
  match a, b with
  | [], [] => true
  | x :: a', y :: b' => Nat.eqb x y && nats_eqb a' b'
  | _, _ => false
  end.

(* ---------------------------------------------------------------- kind 1 *)
Definition decode_event (code : Z) (outcome : option exn) : ev :=
  if code =? 5 then Raise else if code =? 6 then Close else Read outcome.

(* event number [n_done] is the one that raised [escaped] (when something escaped) *)
Fixpoint decode_body (codes : list Z) (i n_done : nat) (escaped : Z) : list ev :=
  match codes with
  | [] => []
  | code :: t =>
      decode_event code (if Nat.eqb i n_done && negb (escaped =? 0) then Some (exn_of_code escaped) else None)
      :: decode_body t (S i) n_done escaped
  end.

(* the sample files have enough rows for every read of the grid: on a workbook that still has
   its the_file a read step raises only when it is the header-raising one (code 7), and that one
   always raises Boom *)
Fixpoint reads_consistent (c : cls) (codes : list Z) (evs : list ev) (s : st) : bool :=
  match codes, evs with
  | code :: cs, e :: es =>
      (match e, the_file s with
       | Read o, Some _ =>
           if code =? 7 then match o with Some x => exn_eqb x boom | None => false end
           else match o with Some _ => false | None => true end
       | _, _ => true
       end)
      && match step c e s with
         | Ok s' => reads_consistent c cs es s'
         | Err _ => true
         end
  | _, _ => true
  end.

Definition judge_lifecycle (cid : Z) (md : Z) (codes : list Z) (obs : sx) : sx :=
  let b_a := as_nat (nth_sx 0 obs) in
  let b_cres := as_Z (nth_sx 1 obs) in
  let b_counts := as_nats (nth_sx 2 obs) in
  let b_escaped := as_Z (nth_sx 3 obs) in
  let b_c := as_nat (nth_sx 4 obs) in
  let b_closed := as_Z (nth_sx 5 obs) in
  let b_sc := as_Z (nth_sx 6 obs) in
  let b_c2 := as_nat (nth_sx 7 obs) in
  let b_d := as_nat (nth_sx 8 obs) in
  match cls_of_id (Z.to_N cid) with
  | None => L [A 9; A 0]
  | Some c =>
      let m := if md =? 0 then ByPath else CallerFile in
      let evs := decode_body codes 0 (Nat.pred (length b_counts)) b_escaped in
      let out := with_block c m evs in
      let s := o_exit out in
      let m_closed := match m with ByPath => 2 | CallerFile => if caller_closed s then 1 else 0 end in
      let '(m_sc, s4) :=
        match o_construct out with
        | Some _ => (0, s)
        | None => match unpacker_close c s with Ok s' => (0, s') | Err x => (exn_code x, s) end
        end in
      let m_vec := L [of_nat (length (os (init m))); A (code_of_opt (o_construct out)); L (map of_nat (o_log out));
                      A (code_of_opt (o_escaped out)); of_nat (length (os s)); A m_closed; A m_sc;
                      of_nat (length (os s4)); of_nat (length (os (gc s4)))] in
      let agree :=
        Nat.eqb b_a (length (os (init m))) && (b_cres =? code_of_opt (o_construct out))
        && nats_eqb b_counts (o_log out) && (b_escaped =? code_of_opt (o_escaped out))
        && Nat.eqb b_c (length (os s)) && (b_closed =? m_closed) && (b_sc =? m_sc)
        && Nat.eqb b_c2 (length (os s4)) && Nat.eqb b_d (length (os (gc s4)))
        && match construct c m (init m) with Ok s1 => reads_consistent c codes evs s1 | Err _ => true end in
      let good :=
        if b_cres =? 0
        then released b_c (negb (b_sc =? 0)) b_c2 && negb (b_closed =? 0)
        else true in
      let known := if known_bad c m then Some 1 else None in
      let t := match o_construct out with
               | Some _ => 9
               | None => (match o_escaped out with None => 0 | Some _ => 1 end)
                         + (if existsb (fun e => match e with Close => true | _ => false end) evs then 2 else 0)
                         + (match m with ByPath => 0 | CallerFile => 4 end)
               end in
      verdict known good agree (100 + 10 * cid + t) m_vec
  end.

(* ---------------------------------------------------------------- kinds 2 and 3 *)
Definition res_sx (r : res N) : sx := sx_of_res of_N r.

Definition want (spec : option N) : res N :=
  match spec with Some c => Ok c | None => Err NotImplementedError end.

Definition is_open (x : sx) : bool := as_Z (nth_sx 0 x) =? 1.

Definition reg_of (x : sx) : hop := HRegister (map as_Ns (as_list (nth_sx 1 x))) (as_N (nth_sx 2 x)).

(* the history as the model sees it (suffix computed from the name) and as the specification
   sees it (suffix as pathlib reported it) *)
Definition model_op (x : sx) : hop := if is_open x then HOpen (path_suffix (as_Ns (nth_sx 1 x))) else reg_of x.
Definition spec_op (x : sx) : hop := if is_open x then HOpen (as_Ns (nth_sx 2 x)) else reg_of x.

Definition optN_eqb (a b : option N) : bool :=
  match a, b with Some x, Some y => N.eqb x y | None, None => true | _, _ => false end.

(* two opens of the same suffix with different answers: the history matters *)
Fixpoint changed (l : list (list N * option N)) : bool :=
  match l with
  | [] => false
  | (s, a) :: t => existsb (fun q => seq_eqb s (fst q) && negb (optN_eqb a (snd q))) t || changed t
  end.

Definition regs_of (ops : list hop) : list (list (list N) * N) :=
  flat_map (fun o => match o with HRegister n c => [(n, c)] | HOpen _ => [] end) ops.

(* r = the registry the history starts on, pre = the registrations that produced it *)
Definition judge_history (base : Z) (r : registry) (pre : list (list (list N) * N)) (ops : sx) : sx :=
  let xs := as_list ops in
  let opens := filter is_open xs in
  let sops := map spec_op xs in
  let m_out := run_ops r (map model_op xs) in
  let s_out := history pre sops in
  let good :=
    Nat.eqb (length opens) (length s_out)
    && forallb (fun p =>
         let x := fst p in let spec := snd p in
         sx_eqb (nth_sx 3 x) (res_sx (want spec))
         && sx_eqb (of_Ns (as_Ns (nth_sx 4 x))) (of_Ns (match spec with Some c => [c] | None => [] end)))
       (combine opens s_out) in
  let agree :=
    Nat.eqb (length opens) (length m_out)
    && forallb (fun p =>
         let x := fst p in let m := snd p in
         seq_eqb (path_suffix (as_Ns (nth_sx 1 x))) (as_Ns (nth_sx 2 x))
         && sx_eqb (nth_sx 3 x) (res_sx (fst m))
         && sx_eqb (of_Ns (as_Ns (nth_sx 4 x))) (of_Ns (map (fun e => match e with Construct c => c end) (snd m))))
       (combine opens m_out) in
  let asked := map (fun x => as_Ns (nth_sx 2 x)) opens in
  let found := existsb (fun a => match a with Some _ => true | None => false end) s_out in
  let over := existsb (fun s => Nat.ltb 1 (mentions (pre ++ regs_of sops) s)) asked in
  verdict None good agree
    (base + (if changed (combine asked s_out) then 3 else if over then 2 else if found then 1 else 0))
    (L (map (fun m => res_sx (fst m)) m_out)).

Definition judge_global (c : sx) : sx :=
  let name := as_Ns (nth_sx 1 c) in
  let o_suffix := as_Ns (nth_sx 2 c) in
  let o_result := nth_sx 3 c in
  let o_opens := as_Z (nth_sx 4 c) in
  let o_fd := as_Z (nth_sx 5 c) in
  let spec := last_mention registrations o_suffix in
  let m_res := fst (open_workbook global_registry (path_suffix name)) in
  let good :=
    sx_eqb o_result (res_sx (want spec))
    && match spec with Some _ => true | None => (o_opens =? 0) && (o_fd =? 0) end in
  let agree := seq_eqb (path_suffix name) o_suffix && sx_eqb o_result (res_sx m_res) in
  verdict None good agree (match spec with Some _ => 31 | None => 30 end) (L [of_Ns (path_suffix name); res_sx m_res]).

(* ---------------------------------------------------------------- kinds 5 and 6: whole paths *)
Definition path_of (x : sx) : list N := as_Ns (nth_sx 1 x).

(* the history as the model runs it: every open takes name and suffix out of the path string *)
Fixpoint run_paths (r : registry) (xs : list sx) : list (res N * list oev) :=
  match xs with
  | [] => []
  | x :: t =>
      if is_open x then open_path r (path_of x) :: run_paths r t
      else match reg_of x with
           | HRegister names c => run_paths (decorate r (names, c)) t
           | HOpen _ => run_paths r t
           end
  end.

(* which rule of the suffix extraction the path exercises (coverage statistics only):
   1 a suffix, opened   2 a suffix, refused   3 a name without a dot   4 a name with a dot but no suffix
   (first or last character, two dots)   5 no name at all;   + 10 when the path contains a slash *)
Definition path_class (opened : bool) (p : list N) : Z :=
  (match suffix_of_path p with
   | _ :: _ => if opened then 1 else 2
   | [] => match path_name p with
           | [] => 5
           | nm => if existsb (N.eqb dot) nm then 4 else 3
           end
   end) + (if existsb (N.eqb slash) p then 10 else 0).

Definition judge_paths (base : Z) (r : registry) (pre : list (list (list N) * N)) (need_name : bool) (ops : sx) : sx :=
  let xs := as_list ops in
  let opens := filter is_open xs in
  let sops := map spec_op xs in
  let m_out := run_paths r xs in
  let s_out := history pre sops in
  let good :=
    Nat.eqb (length opens) (length s_out)
    && forallb (fun p =>
         let x := fst p in let spec := snd p in
         sx_eqb (nth_sx 3 x) (res_sx (want spec))
         && sx_eqb (of_Ns (as_Ns (nth_sx 4 x))) (of_Ns (match spec with Some c => [c] | None => [] end)))
       (combine opens s_out) in
  let agree :=
    Nat.eqb (length opens) (length m_out)
    && forallb (fun p =>
         let x := fst p in let m := snd p in
         seq_eqb (suffix_of_path (path_of x)) (as_Ns (nth_sx 2 x))
         && seq_eqb (path_name (path_of x)) (as_Ns (nth_sx 5 x))
         && sx_eqb (nth_sx 3 x) (res_sx (fst m))
         && sx_eqb (of_Ns (as_Ns (nth_sx 4 x))) (of_Ns (map (fun e => match e with Construct c => c end) (snd m))))
       (combine opens m_out) in
  let branch :=
    match rev (combine opens m_out) with
    | (x, m) :: _ => base + path_class (match fst m with Ok _ => true | Err _ => false end) (path_of x)
    | [] => 0
    end in
  if need_name && negb (forallb (fun x => has_name (path_of x)) opens) then L [A 9; A 0]
  else verdict None good agree branch
         (L [L (map (fun x => of_Ns (suffix_of_path (path_of x))) opens); L (map (fun m => res_sx (fst m)) m_out)]).

Definition judge (c : sx) : sx :=
  let k := as_Z (nth_sx 0 c) in
  if k =? 1 then judge_lifecycle (as_Z (nth_sx 1 c)) (as_Z (nth_sx 2 c)) (as_Zs (nth_sx 3 c)) (nth_sx 4 c)
  else if k =? 2 then judge_history 20 [] [] (nth_sx 1 c)
  else if k =? 4 then judge_history 40 global_registry registrations (nth_sx 1 c)
  else if k =? 3 then judge_global c
  else if k =? 5 then judge_paths 500 [] [] false (nth_sx 1 c)
  else if k =? 6 then judge_paths 600 global_registry registrations true (nth_sx 1 c)
  else L [A 9; A 0].
