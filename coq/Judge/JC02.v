(* Judge for C02.  Cases:
   (1 usage signed m n digits sign buffer obs nav)   packed round trip
   (2 usage signed m n digits zone buffer obs nav)   zoned round trip
   (3 usage signed m n w v buffer obs nav)           binary round trip
   (4 usage k buffer obs nav)                        text X(k)
   (5 usage picture buffer obs nav)                  DISPLAY text, ANY picture the decoder-side scanner accepts as
                                                     not zoned decimal (edited pictures); picture = code points
   (6 k picture sgn ints fracs point lp rp record obs)   TextUnpacker: a text record whose field at offset k (declared
                                                     PIC X(k) before it) with the numeric DISPLAY picture holds the
                                                     decimal text of a value (Estruct.decimal_text); obs = nav...value()
   (7 k picture record obs)                          TextUnpacker: the same layout, arbitrary text in the record
   (8 little key usage picture buffer obs)           Struct().value(schema, buffer): key = conversion keyword number,
                                                     little = sys.byteorder is little; obs value (1 v) int | (3 bytes)
   buffer is what the runner wrote; the judge first checks it IS the specification's encoding.
   obs = estruct.unpack(clause, buffer); nav = the same field read through
   schema_iter/SchemaMaker/EBCDIC().nav(...).name(f).value(), or (2) when not observed. *)
From Coq Require Import ZArith NArith List Bool.
Import ListNotations.
Require Import SR.Base.Sx SR.Base.Res SR.Base.Dec SR.Spec.Encode SR.Model.Picture SR.Model.Estruct SR.Judge.JEstructCommon.
Open Scope Z_scope.

Definition nav_ok (nav : obs) (expected : pyval) : bool :=
  match nav with
  | OBad => true               (* not observed *)
  | OVal v => pyval_eqb v expected
  | OErr _ => false
  end.

Definition nav_agrees (nav : obs) (m : res pyval) : bool :=
  match nav with OBad => true | _ => obs_matches nav m end.

Definition bad_case : sx := L [A 9; A 0; L [A 0]].

(* ---- additions for the text branch / the text unpacker ---- *)
Definition sx_of_opt_res (m : option (res pyval)) : sx :=
  match m with Some r => sx_of_res sx_of_pyval r | None => L [A 2] end.

(* the property on one observed call of the text branch: the CP037 decoding of the buffer, or - only
   when the characters do not fit the classes of the picture - ValueError.  Never another string. *)
Definition text_obs_ok (o : obs) (expected : pyval) (fits : bool) : bool :=
  match o with
  | OVal v => pyval_eqb v expected
  | OErr c => (c =? 1) && negb fits
  | OBad => false
  end.

Definition obs_matches_opt (o : obs) (m : option (res pyval)) : bool :=
  match m with Some r => obs_matches o r | None => false end.

Definition b2z (b : bool) : Z := if b then 1 else 0.

Definition judge_text_any (c : sx) : sx :=
  let usage := as_N (nth_sx 1 c) in
  let s := as_Ns (nth_sx 2 c) in
  let buffer := as_Ns (nth_sx 3 c) in
  let o := obs_of_sx (nth_sx 4 c) in
  let nav := obs_of_sx (nth_sx 5 c) in
  match dec_parse s with
  | Some (Ok r) =>
      match text_pattern (p_elems r) with
      | Ok ts =>
          if p_zoned r || negb (N.eqb usage 11) || negb (forallb (fun b => (b <? 256)%N) buffer) then bad_case else
          let text := map cp037 buffer in
          let expected := VStr text in
          let fits := fits_classes ts text in
          let m := unpack_any usage s buffer in
          let mnav := ebcdic_unpacker_value (if gen_numeric s then 6 else 0) usage s buffer in
          let good := text_obs_ok o expected fits
                      && match nav with OBad => true | _ => text_obs_ok nav expected fits end in
          let agree := obs_matches_opt o m && match nav with OBad => true | _ => obs_matches_opt nav mnav end in
          (* K-text-plus-sign: the picture holds a + ; its own wrong behaviour is re.error (code 7), or
             ValueError on characters that fit *)
          let own := match o with OErr e => (e =? 7) || ((e =? 1) && fits) | _ => false end in
          let known := if has_plus ts && own then Some 2 else None in
          let len_class := match Nat.compare (length buffer) (p_size r) with Eq => 0 | Lt => 1 | Gt => 2 end in
          let branch := 500 + b2z fits + 2 * b2z (match m with Some (Ok _) => true | _ => false end)
                        + 4 * b2z (has_plus ts) + 8 * b2z (has_optsign ts) + 16 * len_class in
          verdict known good agree branch (L [sx_of_opt_res m; sx_of_pyval expected; of_bool fits])
      | Err _ => bad_case
      end
  | _ => bad_case
  end.

(* TextUnpacker: the field of interest starts at k (after a PIC X(k) item) and is as wide as its picture *)
Definition text_key (s : list N) : Z := if gen_numeric s then 6 else 5.

Definition judge_text_unpacker (spec_built : bool) (c : sx) : sx :=
  let k := as_nat (nth_sx 1 c) in
  let s := as_Ns (nth_sx 2 c) in
  match dec_parse s with
  | Some (Ok r) =>
      if spec_built then
        let sgn := as_N (nth_sx 3 c) in
        let ids := as_Ns (nth_sx 4 c) in
        let fds := as_Ns (nth_sx 5 c) in
        let point := as_bool (nth_sx 6 c) in
        let lp := as_nat (nth_sx 7 c) in
        let rp := as_nat (nth_sx 8 c) in
        let record := as_Ns (nth_sx 9 c) in
        let o := obs_of_sx (nth_sx 10 c) in
        let slice := py_slice k (p_size r) record in
        if negb (decimal_text_ok ids fds point && (sgn <? 3)%N && gen_numeric s
                 && JEstructCommon.list_N_eqb slice (decimal_text sgn ids fds point lp rp)) then bad_case else
        let expected := VDec (decimal_text_value sgn ids fds) in
        let m := text_unpacker_value (text_key s) slice in
        (* sign of a zero: dec_eqb ignores it; compare it here as well *)
        let same_sign := match o with OVal (VDec d) => Bool.eqb (neg d) (sgn =? 2)%N | _ => false end in
        let good := obs_matches o (Ok expected) && same_sign in
        let agree := obs_matches_opt o m in
        verdict None good agree (600 + Z.of_nat (Nat.min (length ids + length fds) 30)) (L [sx_of_opt_res m; sx_of_pyval expected])
      else
        let record := as_Ns (nth_sx 3 c) in
        let o := obs_of_sx (nth_sx 4 c) in
        let slice := py_slice k (p_size r) record in
        let key := text_key s in
        let m := text_unpacker_value key slice in
        match m with
        | None => L [A 0; A 799]                       (* NaN / Infinity spellings, huge exponents: not modelled *)
        | Some mm =>
            let agree := obs_matches o mm in
            (* a string field must come back as the characters stored; for a numeric field the value of
               an arbitrary text is what the model of Decimal(str) says (error class included) *)
            let good := if key =? 5 then obs_matches o (Ok (VStr slice)) else agree in
            verdict None good agree (700 + key * 10 + b2z (is_ok mm)) (L [sx_of_opt_res m])
        end
  | _ => bad_case
  end.

(* Struct().value *)
Definition judge_struct (c : sx) : sx :=
  let little := as_bool (nth_sx 1 c) in
  let key := as_Z (nth_sx 2 c) in
  let usage := as_N (nth_sx 3 c) in
  let s := as_Ns (nth_sx 4 c) in
  let buffer := as_Ns (nth_sx 5 c) in
  let ob := nth_sx 6 c in
  match struct_value little key usage s buffer with
  | None => L [A 0; A 899]
  | Some m =>
      let agree :=
        match m with
        | Err e => (as_Z (nth_sx 0 ob) =? 1) && (as_Z (nth_sx 1 ob) =? exn_code e)
        | Ok (SBytes b) => (as_Z (nth_sx 0 ob) =? 0) && (as_Z (nth_sx 0 (nth_sx 1 ob)) =? 3)
                           && JEstructCommon.list_N_eqb (as_Ns (nth_sx 1 (nth_sx 1 ob))) b
        | Ok (SV v) => obs_matches (obs_of_sx ob) (Ok v)
        end in
      (* the stored bytes unchanged / the integer the bytes spell in the machine's byte order: the model IS the
         statement here (struct module semantics), so good = agree *)
      verdict None agree agree (800 + b2z (is_ok m)) (L [A 0])
  end.

Definition judge (c : sx) : sx :=
  let kind := as_Z (nth_sx 0 c) in
  if (kind =? 1) || (kind =? 2) then
    let usage := as_N (nth_sx 1 c) in
    let p := pic_of (nth_sx 2 c) (nth_sx 3 c) (nth_sx 4 c) in
    let ds := as_Ns (nth_sx 5 c) in
    let s := as_N (nth_sx 6 c) in
    let buffer := as_Ns (nth_sx 7 c) in
    let o := obs_of_sx (nth_sx 8 c) in
    let nav := obs_of_sx (nth_sx 9 c) in
    let enc := if kind =? 1 then enc_packed ds s else enc_zoned ds s in
    if negb (list_N_eqb buffer enc && forallb is_digit ds && valid_sign s) then bad_case else
    let expected := VDec (mkdec (is_neg_sign s) (val ds) (- Z.of_nat (p_frac p))) in
    let m := unpack usage p buffer in
    let good := obs_matches o (Ok expected) && nav_ok nav expected in
    let agree := obs_matches o m && nav_agrees nav m in
    let known := if (28 <? length ds)%nat && (limit <=? val ds)%N then Some 1 else None in
    verdict known good agree (kind * 100 + Z.of_nat (length ds)) (L [sx_of_res sx_of_pyval m; sx_of_pyval expected])
  else if kind =? 3 then
    let usage := as_N (nth_sx 1 c) in
    let p := pic_of (nth_sx 2 c) (nth_sx 3 c) (nth_sx 4 c) in
    let w := as_nat (nth_sx 5 c) in
    let v := as_Z (nth_sx 6 c) in
    let buffer := as_Ns (nth_sx 7 c) in
    let o := obs_of_sx (nth_sx 8 c) in
    let nav := obs_of_sx (nth_sx 9 c) in
    let wok := match spec_binary_width (p_int p + p_frac p) with Some w' => (w =? w')%nat | None => false end in
    let range := (- 2 ^ (8 * Z.of_nat w - 1) <=? v) && (v <? 2 ^ (8 * Z.of_nat w - 1)) in
    if negb (list_N_eqb buffer (enc_be w v) && wok && range) then bad_case else
    let expected := VInt v in
    let m := unpack usage p buffer in
    let good := obs_matches o (Ok expected) && nav_ok nav expected in
    let agree := obs_matches o m && nav_agrees nav m in
    verdict None good agree (300 + Z.of_nat w) (L [sx_of_res sx_of_pyval m; sx_of_pyval expected])
  else if kind =? 4 then
    let usage := as_N (nth_sx 1 c) in
    let k := as_nat (nth_sx 2 c) in
    let buffer := as_Ns (nth_sx 3 c) in
    let o := obs_of_sx (nth_sx 4 c) in
    let nav := obs_of_sx (nth_sx 5 c) in
    if negb ((length buffer =? k)%nat && forallb (fun b => (b <? 256)%N) buffer) then bad_case else
    let expected := VStr (map cp037 buffer) in
    let m := unpack_x usage k buffer in
    let good := obs_matches o (Ok expected) && nav_ok nav expected in
    let agree := obs_matches o m && nav_agrees nav m in
    verdict None good agree (400 + Z.of_nat (Nat.min k 3)) (L [sx_of_res sx_of_pyval m; sx_of_pyval expected])
  else if kind =? 5 then judge_text_any c
  else if kind =? 6 then judge_text_unpacker true c
  else if kind =? 7 then judge_text_unpacker false c
  else if kind =? 8 then judge_struct c
  else bad_case.
