(* Judge for C02.  Cases:
   (1 usage signed m n digits sign buffer obs nav)   packed round trip
   (2 usage signed m n digits zone buffer obs nav)   zoned round trip
   (3 usage signed m n w v buffer obs nav)           binary round trip
   (4 usage k buffer obs nav)                        text X(k)
   buffer is what the runner wrote; the judge first checks it IS the specification's encoding.
   obs = estruct.unpack(clause, buffer); nav = the same field read through
   schema_iter/SchemaMaker/EBCDIC().nav(...).name(f).value(), or (2) when not observed. *)
From Coq Require Import ZArith NArith List Bool.
Import ListNotations.
Require Import SR.Base.Sx SR.Base.Res SR.Base.Dec SR.Spec.Encode SR.Model.Estruct SR.Judge.JEstructCommon.
Open Scope Z_scope.

Definition nav_ok (nav : obs) (expected : pyval) : bool :=
  match nav with
  | OBad => true               (* not observed *)
  | OVal v => pyval_eqb v expected
  | OErr _ => false
  end.

Definition nav_agrees (nav : obs) (m : res pyval) : bool :=
  match nav with OBad => true | _ => obs_matches nav m end.

Definition bad_case : sx := L [A 9; A 0; L [A 0]].

Definition judge (c : sx) : sx :=
  let kind := as_Z (nth_sx 0 c) in
  if (kind =? 1) || (kind =? 2) then
    let usage := as_N (nth_sx 1 c) in
    let p := pic_of (nth_sx 2 c) (nth_sx 3 c) (nth_sx 4 c) in
    let ds := as_Ns (nth_sx 5 c) in
    let s := as_N (nth_sx 6 c) in
    let buffer := as_Ns (nth_sx 7 c) in
    let o := obs_of_sx (nth_sx 8 c) in
    let nav := obs_of_sx (nth_sx 9 c) in
    let enc := if kind =? 1 then enc_packed ds s else enc_zoned ds s in
    if negb (list_N_eqb buffer enc && forallb is_digit ds && valid_sign s) then bad_case else
    let expected := VDec (mkdec (is_neg_sign s) (val ds) (- Z.of_nat (p_frac p))) in
    let m := unpack usage p buffer in
    let good := obs_matches o (Ok expected) && nav_ok nav expected in
    let agree := obs_matches o m && nav_agrees nav m in
    let known := if (28 <? length ds)%nat && (limit <=? val ds)%N then Some 1 else None in
    verdict known good agree (kind * 100 + Z.of_nat (length ds)) (L [sx_of_res sx_of_pyval m; sx_of_pyval expected])
  else if kind =? 3 then
    let usage := as_N (nth_sx 1 c) in
    let p := pic_of (nth_sx 2 c) (nth_sx 3 c) (nth_sx 4 c) in
    let w := as_nat (nth_sx 5 c) in
    let v := as_Z (nth_sx 6 c) in
    let buffer := as_Ns (nth_sx 7 c) in
    let o := obs_of_sx (nth_sx 8 c) in
    let nav := obs_of_sx (nth_sx 9 c) in
    let wok := match spec_binary_width (p_int p + p_frac p) with Some w' => (w =? w')%nat | None => false end in
    let range := (- 2 ^ (8 * Z.of_nat w - 1) <=? v) && (v <? 2 ^ (8 * Z.of_nat w - 1)) in
    if negb (list_N_eqb buffer (enc_be w v) && wok && range) then bad_case else
    let expected := VInt v in
    let m := unpack usage p buffer in
    let good := obs_matches o (Ok expected) && nav_ok nav expected in
    let agree := obs_matches o m && nav_agrees nav m in
    verdict None good agree (300 + Z.of_nat w) (L [sx_of_res sx_of_pyval m; sx_of_pyval expected])
  else if kind =? 4 then
    let usage := as_N (nth_sx 1 c) in
    let k := as_nat (nth_sx 2 c) in
    let buffer := as_Ns (nth_sx 3 c) in
    let o := obs_of_sx (nth_sx 4 c) in
    let nav := obs_of_sx (nth_sx 5 c) in
    if negb ((length buffer =? k)%nat && forallb (fun b => (b <? 256)%N) buffer) then bad_case else
    let expected := VStr (map cp037 buffer) in
    let m := unpack_x usage k buffer in
    let good := obs_matches o (Ok expected) && nav_ok nav expected in
    let agree := obs_matches o m && nav_agrees nav m in
    verdict None good agree (400 + Z.of_nat (Nat.min k 3)) (L [sx_of_res sx_of_pyval m; sx_of_pyval expected])
  else bad_case.
