(* Judge for C01.
   case = (tree record env counters schema top lrecl ((path obs) ...))
     tree     abstract record description the generator built (the copybook text the implementation
              parsed was printed from it)
     record   the instance, position-coded bytes / characters
     env      ((counter-id value) ...) the count vector the generator put into the record
     counters ((counter-id path) ...) where each counter lives, so the judge can check the record
     schema   the emitted JSON schema, structure only (see JLayoutCommon)
     top      end of the location built by from_instance: (0 end) | (1 exn)
     lrecl    end of the location built by from_schema: (0 end) | (1 exn)
     obs      (0 start end raw) | (1 exn) for name/index navigation along path *)
From Coq Require Import ZArith NArith List Bool.
Import ListNotations.
Require Import SR.Base.Sx SR.Base.Res SR.Spec.Layout SR.Model.Layout SR.Judge.JLayoutCommon.
Open Scope Z_scope.

Definition err_code (e : nav_error) : Z :=
  match e with NoSuchName => 4 | NotAnObject => 2 | NotAnArray => 2 | IndexOut => 3 end.

Definition obs_is (o : sx) (st en : nat) (raw : list N) : bool :=
  (as_Z (nth_sx 0 o) =? 0) && (as_Z (nth_sx 1 o) =? Z.of_nat st) && (as_Z (nth_sx 2 o) =? Z.of_nat en)
  && list_N_eqb (as_Ns (nth_sx 3 o)) raw.
Definition obs_err (o : sx) (code : Z) : bool :=
  (as_Z (nth_sx 0 o) =? 1) && (as_Z (nth_sx 1 o) =? code).

Definition judge (c : sx) : sx :=
  let t := item_of (nth_sx 0 c) in
  let r := as_Ns (nth_sx 1 c) in
  let e := env_of (nth_sx 2 c) in
  let counters := as_list (nth_sx 3 c) in
  let schema := nth_sx 4 c in
  let top := nth_sx 5 c in
  let lrecl := nth_sx 6 c in
  let paths := as_list (nth_sx 7 c) in
  (* the record really carries the count vector at the places the specification assigns *)
  let counters_ok :=
    forallb (fun cp =>
      match spec_nav e (VItem t) 0 (path_of (nth_sx 1 cp)) with
      | inl (v, st) => (dcount (slice r st (st + view_size e v)) =? e (as_N (nth_sx 0 cp)))%nat
      | inr _ => false
      end) counters in
  if negb (counters_ok && (length r =? extent e t)%nat) then L [A 9; A 0; L [A 0]] else
  let js := build t in
  let mnav := nav_of dcount r js in
  (* property: every path at the specification's bytes; record length = end of last item *)
  let good_path (po : sx) : bool :=
    let o := nth_sx 1 po in
    match spec_nav e (VItem t) 0 (path_of (nth_sx 0 po)) with
    | inl (v, st) => obs_is o st (st + view_size e v) (slice r st (st + view_size e v))
    | inr err => obs_err o (err_code err)
    end in
  let good := forallb good_path paths
              && (as_Z (nth_sx 0 top) =? 0) && (as_Z (nth_sx 1 top) =? Z.of_nat (extent e t))
              && (if has_odo t then true
                  else (as_Z (nth_sx 0 lrecl) =? 0) && (as_Z (nth_sx 1 lrecl) =? Z.of_nat (extent e t))) in
  (* correspondence: emitted schema = model's build; every observation = model navigation *)
  let agree_path (po : sx) : bool :=
    let o := nth_sx 1 po in
    match mnav with
    | Err ex => obs_err o (exn_code ex)
    | Ok v0 =>
        match nav_path dcount r v0 (path_of (nth_sx 0 po)) with
        | Ok v => obs_is o (lstart (n_loc v)) (lend (n_loc v)) (nav_raw r v)
        | Err ex => obs_err o (exn_code ex)
        end
    end in
  let schema_agrees :=
    if build_raises t then obs_err schema 4 else sx_eqb schema (L [A 0; sx_of_js js]) in
  let top_agrees :=
    if build_raises t then true else
    match mnav with
    | Ok v0 => (as_Z (nth_sx 0 top) =? 0) && (as_Z (nth_sx 1 top) =? Z.of_nat (lend (n_loc v0)))
    | Err ex => obs_err top (exn_code ex)
    end in
  let lrecl_agrees :=
    if build_raises t then true else
    if has_odo t then obs_err lrecl 1
    else match mnav with Ok v0 => (as_Z (nth_sx 1 lrecl) =? Z.of_nat (lend (n_loc v0))) | Err _ => true end in
  let agree := schema_agrees && (build_raises t || forallb agree_path paths) && top_agrees && lrecl_agrees in
  let known :=
    if build_raises t then Some 1
    else if occurs_elem_in_union t then Some 2
    else if odo_in_table t then Some 3
    else if dup_union_name t then Some 4
    else if chained_redef t then Some 5
    else None in
  let branch := 1 + (if has_odo t then 1 else 0) + (if has_redef t then 2 else 0) + (if has_table t then 4 else 0) in
  verdict known good agree branch
    (L [of_bool (forallb good_path paths); of_bool schema_agrees; of_bool (forallb agree_path paths);
        of_bool top_agrees; of_bool lrecl_agrees; of_nat (extent e t)]).
