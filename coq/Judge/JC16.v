(* Judge for C16.  Three kinds of cases:

   (1 n rep (sign coef exp) obs)        digit_string(n, value); value given as its exact decimal
                                        expansion; rep = 0 int, 1 float, 2 Decimal (reporting only);
                                        obs = (0 codepoints) | (1 exn)
   (2 d kind (sign coef exp) obs obs2)  decimal_places(d, value); kind = 0 int, 1 float, 2 str,
                                        3 Decimal (reporting only); obs = (0 (sign coef exp)) | (1 exn);
                                        obs2 = decimal_places(d, first result), or (1 0)
   (3 key argtype obs)                  type of CONVERSION[key](arg); obs = (0 typecode) | (1 exn)

   good  = the property predicate (Spec/Conversion.v) on the observation, [true] outside the
           property's domain;  agree = observation equals the model's output. *)
From Coq Require Import ZArith NArith List Bool.
Import ListNotations.
Require Import SR.Base.Sx SR.Base.Res SR.Spec.Conversion SR.Model.Conversion.
Open Scope Z_scope.

Definition list_N_eqb (a b : list N) : bool :=
  (length a =? length b)%nat && forallb (fun p => N.eqb (fst p) (snd p)) (combine a b).

Definition dec_of_sx (s : sx) : dec :=
  mkdec (as_bool (nth_sx 0 s)) (as_N (nth_sx 1 s)) (as_Z (nth_sx 2 s)).

Definition sx_of_dec (x : dec) : sx :=
  L [of_bool (neg x); of_N (coef x); A (dexp x)].

Definition obs_of {T} (f : sx -> T) (o : sx) : res T :=
  if as_Z (nth_sx 0 o) =? 0 then Ok (f (nth_sx 1 o))
  else if as_Z (nth_sx 1 o) =? exn_code ValueError then Err ValueError
  else if as_Z (nth_sx 1 o) =? exn_code DecimalInvalid then Err DecimalInvalid
  else if as_Z (nth_sx 1 o) =? exn_code KeyError then Err KeyError
  else Err OtherError.

Definition res_eqb {T} (eq : T -> T -> bool) (a b : res T) : bool :=
  match a, b with
  | Ok x, Ok y => eq x y
  | Err e, Err f => exn_eqb e f
  | _, _ => false
  end.

(* ---- digit_string ---- *)
Definition judge_digits (c : sx) : sx :=
  let n := as_nat (nth_sx 1 c) in
  let rep := as_Z (nth_sx 2 c) in
  let x := dec_of_sx (nth_sx 3 c) in
  let obs := obs_of as_Ns (nth_sx 4 c) in
  let m := digit_string n x in
  let in_domain :=
    match integer_of x with
    | Some v => if (1 <=? n)%nat && (n <=? 4300)%nat && (0 <=? v) && (v <? 10 ^ Z.of_nat n) then Some v else None
    | None => None
    end in
  let good :=
    match in_domain with
    | Some v => match obs with Ok s => digits_ok n v s | Err _ => false end
    | None => true
    end in
  let agree := res_eqb list_N_eqb obs m in
  let branch := match in_domain with Some _ => 10 + rep | None => 19 end in
  verdict None good agree branch (L [sx_of_res of_Ns m]).

(* ---- decimal_places ---- *)
Definition judge_places (c : sx) : sx :=
  let d := as_Z (nth_sx 1 c) in
  let x := dec_of_sx (nth_sx 3 c) in
  let obs := obs_of dec_of_sx (nth_sx 4 c) in
  let obs2 := obs_of dec_of_sx (nth_sx 5 c) in
  let m := decimal_places d x in
  let in_domain := (0 <=? d) && (d <=? - etiny) && fitsb d x in
  let good :=
    if in_domain then
      match obs with
      | Ok r =>
          (dexp r =? - d)                                   (* exactly d fractional digits *)
          && closeb d x r                                            (* within half a unit in the last place *)
          && (match obs2 with Ok r2 => dec_eqb r2 r | Err _ => false end)   (* applying it twice changes nothing *)
      | Err _ => false
      end
    else true in
  let agree := res_eqb dec_eqb obs m in
  let branch := if in_domain then places_branch d x else 25 in
  verdict None good agree branch (L [sx_of_res sx_of_dec m]).

(* ---- CONVERSION ---- *)
Definition judge_conversion (c : sx) : sx :=
  let key := as_Z (nth_sx 1 c) in
  let arg := as_Z (nth_sx 2 c) in
  let obs := obs_of as_Z (nth_sx 3 c) in
  let m := conversion_type key arg in
  let in_domain := existsb (Z.eqb key) vocabulary in
  let good :=
    if in_domain then match obs with Ok t => t =? named_type key arg | Err _ => false end
    else true in
  let agree := res_eqb Z.eqb obs m in
  verdict None good agree (30 + key) (L [sx_of_res A m]).

Definition judge (c : sx) : sx :=
  match as_Z (nth_sx 0 c) with
  | 1 => judge_digits c
  | 2 => judge_places c
  | 3 => judge_conversion c
  | _ => L [A 9; A 0]
  end.
