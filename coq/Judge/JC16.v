(* Judge for C16.  Three kinds of cases:

   (1 n rep (sign coef exp) obs)        digit_string(n, value); value given as its exact decimal
                                        expansion; rep = 0 int, 1 float, 2 Decimal (reporting only);
                                        obs = (0 codepoints) | (1 exn)
   (2 d kind (sign coef exp) obs obs2)  decimal_places(d, value); kind = 0 int, 1 float, 2 str,
                                        3 Decimal (reporting only); obs = (0 (sign coef exp)) | (1 exn);
                                        obs2 = decimal_places(d, first result), or (1 0)
   (3 key argtype obs)                  type of CONVERSION[key](arg); obs = (0 typecode) | (1 exn)

   and the same three calls on an argument of any class (Spec/ConversionArg.v [pyval]):

   (4 n arg intobs obs)                 digit_string(n, arg); intobs = int(arg) alone: (0 z) | (1 exn);
                                        obs = (0 codepoints) | (1 exn)
   (5 d arg decobs obs)                 decimal_places(d, arg); decobs = Decimal(arg) alone: (0 value) | (1 exn);
                                        obs = (0 value) | (1 exn)
   (6 key arg obs vobs)                 CONVERSION[key](arg); obs = (0 typecode) | (1 exn); vobs = the returned
                                        value, (9) when it is of no described class or nothing was returned

   An integer z is an atom, or (sign limb ... limb) in base 10^4000 when it has more than 4000 digits.
   arg and value are: (0) None, (1 b) bool, (2 z) int, (3 (sign coef exp)) finite float, (4 k) float nan / inf /
   -inf for k = 0 / 1 / 2, (5 codepoints) str, (6 (sign coef exp)) finite Decimal, (7 k) Decimal NaN / sNaN /
   Infinity / -Infinity for k = 0 .. 3, (8 num den) Fraction.

   good  = the property predicate (Spec/Conversion.v) on the observation, [true] outside the
           property's domain;  agree = observation equals the model's output. *)
From Coq Require Import ZArith NArith List Bool.
Import ListNotations.
Require Import SR.Base.Sx SR.Base.Res SR.Spec.Conversion SR.Spec.ConversionArg SR.Model.Conversion SR.Model.ConversionArg.
Open Scope Z_scope.

Definition list_N_eqb (a b : list N) : bool :=
  (length a =? length b)%nat && forallb (fun p => N.eqb (fst p) (snd p)) (combine a b).

(* an integer of the wire: an atom, or (sign limb ... limb), the digits in base 10^4000, most significant first
   (integers of more than 4300 digits cannot be written or read in one piece by the harness's CPython) *)
Definition limb_base : Z := 10 ^ 4000.
Definition as_big (s : sx) : Z :=
  match s with
  | A z => z
  | L [] => 0
  | L (sg :: limbs) =>
      let m := fold_left (fun acc l => acc * limb_base + as_Z l) limbs 0 in
      if as_bool sg then - m else m
  end.

Fixpoint limbs_of (fuel : nat) (m : Z) (acc : list sx) : list sx :=
  match fuel with
  | O => acc
  | S f => if m <? limb_base then A m :: acc else limbs_of f (m / limb_base) (A (m mod limb_base) :: acc)
  end.

Definition of_big (z : Z) : sx :=
  if Z.abs z <? limb_base then A z
  else L (of_bool (z <? 0) :: limbs_of (S (Z.to_nat (Z.log2 (Z.abs z) / 13000))) (Z.abs z) []).

Definition dec_of_sx (s : sx) : dec :=
  mkdec (as_bool (nth_sx 0 s)) (Z.to_N (as_big (nth_sx 1 s))) (as_Z (nth_sx 2 s)).

Definition sx_of_dec (x : dec) : sx :=
  L [of_bool (neg x); of_big (Z.of_N (coef x)); A (dexp x)].

Definition obs_of {T} (f : sx -> T) (o : sx) : res T :=
  if as_Z (nth_sx 0 o) =? 0 then Ok (f (nth_sx 1 o))
  else if as_Z (nth_sx 1 o) =? exn_code ValueError then Err ValueError
  else if as_Z (nth_sx 1 o) =? exn_code TypeError then Err TypeError
  else if as_Z (nth_sx 1 o) =? exn_code DecimalInvalid then Err DecimalInvalid
  else if as_Z (nth_sx 1 o) =? exn_code KeyError then Err KeyError
  else Err OtherError.

(* the verdict; the detail (which may be long to print) is only built when the case does not pass *)
Definition verdict_lazy (good agree : bool) (branch : Z) (detail : unit -> sx) : sx :=
  if good && agree then L [A 0; A branch] else verdict None good agree branch (detail tt).

Definition res_eqb {T} (eq : T -> T -> bool) (a b : res T) : bool :=
  match a, b with
  | Ok x, Ok y => eq x y
  | Err e, Err f => exn_eqb e f
  | _, _ => false
  end.

(* ---- digit_string ---- *)
Definition judge_digits (c : sx) : sx :=
  let n := as_nat (nth_sx 1 c) in
  let rep := as_Z (nth_sx 2 c) in
  let x := dec_of_sx (nth_sx 3 c) in
  let obs := obs_of as_Ns (nth_sx 4 c) in
  let m := digit_string n x in
  let in_domain :=
    match integer_of x with
    | Some v => if (1 <=? n)%nat && (n <=? 4300)%nat && (0 <=? v) && (v <? 10 ^ Z.of_nat n) then Some v else None
    | None => None
    end in
  let good :=
    match in_domain with
    | Some v => match obs with Ok s => digits_ok n v s | Err _ => false end
    | None => true
    end in
  let agree := res_eqb list_N_eqb obs m in
  let branch := match in_domain with Some _ => 10 + rep | None => 19 end in
  verdict None good agree branch (L [sx_of_res of_Ns m]).

(* ---- decimal_places ---- *)
Definition judge_places (c : sx) : sx :=
  let d := as_Z (nth_sx 1 c) in
  let x := dec_of_sx (nth_sx 3 c) in
  let obs := obs_of dec_of_sx (nth_sx 4 c) in
  let obs2 := obs_of dec_of_sx (nth_sx 5 c) in
  let m := decimal_places d x in
  (* if-then-else, not &&: the cross-check evaluates this file by vm_compute, which is strict in both arguments of
     andb, and [fits_ctx] of a digit count far outside the range writes out a power of ten of millions of digits *)
  let in_domain := if (- emax <=? d) && (d <=? - etiny) then fits_ctx d x else false in
  let good :=
    if in_domain then
      match obs with
      | Ok r =>
          (dexp r =? - d)                                   (* exactly d fractional digits *)
          && closeb d x r                                            (* within half a unit in the last place *)
          && (match obs2 with Ok r2 => dec_eqb r2 r | Err _ => false end)   (* applying it twice changes nothing *)
      | Err _ => false
      end
    else true in
  let agree := res_eqb dec_eqb obs m in
  let branch := if in_domain then places_branch d x else 25 in
  verdict None good agree branch (L [sx_of_res sx_of_dec m]).

(* ---- CONVERSION ---- *)
Definition judge_conversion (c : sx) : sx :=
  let key := as_Z (nth_sx 1 c) in
  let arg := as_Z (nth_sx 2 c) in
  let obs := obs_of as_Z (nth_sx 3 c) in
  let m := conversion_type key arg in
  let in_domain := existsb (Z.eqb key) vocabulary in
  let good :=
    if in_domain then match obs with Ok t => t =? named_type key arg | Err _ => false end
    else true in
  let agree := res_eqb Z.eqb obs m in
  verdict None good agree (30 + key) (L [sx_of_res A m]).

(* ---- arguments of any class ---- *)
Definition pyval_of_sx (s : sx) : option pyval :=
  let a1 := nth_sx 1 s in
  match as_Z (nth_sx 0 s) with
  | 0 => Some PNone
  | 1 => Some (PBool (as_bool a1))
  | 2 => Some (PInt (as_big a1))
  | 3 => Some (PFloat (dec_of_sx a1))
  | 4 => if as_Z a1 =? 0 then Some PFloatNan else Some (PFloatInf (as_Z a1 =? 2))
  | 5 => Some (PStr (as_Ns a1))
  | 6 => Some (PDec (dec_of_sx a1))
  | 7 => if as_Z a1 <? 2 then Some (PDecNan (as_Z a1 =? 1)) else Some (PDecInf (as_Z a1 =? 3))
  | 8 => match as_big (nth_sx 2 s) with Z.pos d => Some (PFrac (as_big a1) d) | _ => None end
  | _ => None
  end.

Definition sx_of_pyval (a : pyval) : sx :=
  match a with
  | PNone => L [A 0]
  | PBool b => L [A 1; of_bool b]
  | PInt z => L [A 2; of_big z]
  | PFloat x => L [A 3; sx_of_dec x]
  | PFloatNan => L [A 4; A 0]
  | PFloatInf n => L [A 4; A (if n then 2 else 1)]
  | PStr s => L [A 5; of_Ns s]
  | PDec x => L [A 6; sx_of_dec x]
  | PDecNan sg => L [A 7; A (if sg then 1 else 0)]
  | PDecInf n => L [A 7; A (if n then 3 else 2)]
  | PFrac n d => L [A 8; of_big n; of_big (Z.pos d)]
  end.

Definition pyval_eqb (a b : pyval) : bool :=
  match a, b with
  | PNone, PNone => true
  | PBool x, PBool y => Bool.eqb x y
  | PInt x, PInt y => x =? y
  | PFloat x, PFloat y | PDec x, PDec y => dec_eqb x y
  | PFloatNan, PFloatNan => true
  | PFloatInf x, PFloatInf y | PDecInf x, PDecInf y | PDecNan x, PDecNan y => Bool.eqb x y
  | PStr x, PStr y => list_N_eqb x y
  | PFrac n d, PFrac m e => (n =? m) && (Z.pos d =? Z.pos e)
  | _, _ => false
  end.

(* an observed value: a wire form that is no described value never equals a model value *)
Definition obs_val (o : sx) : res (option pyval) := obs_of pyval_of_sx o.

Definition optval_eqb (a : option pyval) (b : pyval) : bool :=
  match a with Some x => pyval_eqb x b | None => false end.

Definition class_tag (a : pyval) : Z := as_Z (nth_sx 0 (sx_of_pyval a)).

(* ---- digit_string(n, arg) ---- *)
Definition judge_digits_v (c : sx) : sx :=
  match pyval_of_sx (nth_sx 2 c) with
  | None => L [A 9; A 0]
  | Some a =>
      let n := as_nat (nth_sx 1 c) in
      let intobs := obs_of as_big (nth_sx 3 c) in
      let obs := obs_of as_Ns (nth_sx 4 c) in
      let m := digit_string_v n a in
      (* the property speaks of an integer arriving as an int (bool is one), a float or a decimal *)
      let in_domain :=
        match dec_of_val a with
        | Some x =>
            match integer_of x with
            | Some v => if (1 <=? n)%nat && (n <=? 4300)%nat && (0 <=? v) && (v <? 10 ^ Z.of_nat n) then Some v else None
            | None => None
            end
        | None => None
        end in
      let good :=
        match in_domain with
        | Some v => match obs with Ok s => digits_ok n v s | Err _ => false end
        | None => true
        end in
      let agree := res_eqb list_N_eqb obs m && res_eqb Z.eqb intobs (int_of_val a) in
      let branch := 40 + class_tag a + (match a, int_of_val a with PStr _, Err _ => 4 | _, _ => 0 end) in
      verdict_lazy good agree branch (fun _ => L [sx_of_res of_Ns m; sx_of_res of_big (int_of_val a)])
  end.

(* ---- decimal_places(d, arg) ---- *)
Definition judge_places_v (c : sx) : sx :=
  match pyval_of_sx (nth_sx 2 c) with
  | None => L [A 9; A 0]
  | Some a =>
      let d := as_Z (nth_sx 1 c) in
      let decobs := obs_val (nth_sx 3 c) in
      let obs := obs_val (nth_sx 4 c) in
      let m := decimal_places_v d a in
      let md := decimal_of_val a in
      (* the value of the argument is what Decimal(arg) made of it in the implementation *)
      let good :=
        match decobs with
        | Ok (Some (PDec x)) =>
            if (if (- emax <=? d) && (d <=? - etiny) then fits_ctx d x else false) then
              match obs with
              | Ok (Some (PDec r)) => (dexp r =? - d) && closeb d x r
              | _ => false
              end
            else true
        | _ => true
        end in
      let same (o : res (option pyval)) (r : res pyval) :=
        match o, r with
        | Ok v, Ok w => optval_eqb v w
        | Err e, Err f => exn_eqb e f
        | _, _ => false
        end in
      let agree := same obs m && same decobs md in
      let branch := 50 + class_tag a + (match a, md with PStr _, Err _ => 4 | _, _ => 0 end) in
      verdict_lazy good agree branch (fun _ => L [sx_of_res sx_of_pyval m; sx_of_res sx_of_pyval md])
  end.

(* ---- CONVERSION[key](arg) ---- *)
Definition judge_conversion_v (c : sx) : sx :=
  match pyval_of_sx (nth_sx 2 c) with
  | None => L [A 9; A 0]
  | Some a =>
      let key := as_Z (nth_sx 1 c) in
      let obs := obs_of as_Z (nth_sx 3 c) in
      let vobs := pyval_of_sx (nth_sx 4 c) in
      let m := conversion_result key a in
      let in_domain := existsb (Z.eqb key) vocabulary in
      let good :=
        if in_domain then
          match obs with
          | Ok t => t =? named_type key (type_of a)          (* a returned value has the named type *)
          | Err _ => negb (must_return key a)                 (* and on a plain value something is returned *)
          end
        else true in
      let agree :=
        res_eqb Z.eqb obs m
        && match conversion_value key a with Some v => optval_eqb vobs v | None => true end in
      let branch := (match m with Ok _ => 60 | Err _ => 70 end) + key in
      verdict_lazy good agree branch
        (fun _ => L [sx_of_res A m; match conversion_value key a with Some v => sx_of_pyval v | None => L [A 9] end])
  end.

Definition judge (c : sx) : sx :=
  match as_Z (nth_sx 0 c) with
  | 1 => judge_digits c
  | 2 => judge_places c
  | 3 => judge_conversion c
  | 4 => judge_digits_v c
  | 5 => judge_places_v c
  | 6 => judge_conversion_v c
  | _ => L [A 9; A 0]
  end.
