(* Judge for C18.  case = (kind usage signed m n buffer obs nav), kind 1 packed, 2 zoned, 3 binary;
   obs = estruct.unpack(clause, buffer), nav = the same through EBCDIC().nav(...) or (2).
   Binary (kind 3): the buffer has the width the digit count gives (2, 4, 8) or the one calcsize reports; the result fits when it is a number of the
   declared scale within the picture's digits, not negative for a picture without S (Spec/FitsBinary.v fits_result). *)
From Coq Require Import ZArith NArith List Bool.
Import ListNotations.
Require Import SR.Base.Sx SR.Base.Res SR.Base.Dec SR.Spec.Encode SR.Spec.Fits SR.Spec.FitsBinary SR.Model.Estruct SR.Judge.JEstructCommon.
Open Scope Z_scope.

Definition fits_or_error (p : pic) (o : obs) : bool :=
  match o with
  | OErr _ => true
  | OVal (VDec d) => fits (p_int p) (p_frac p) d
  | OVal _ => false
  | OBad => false
  end.

Definition fits_or_error_binary (p : pic) (o : obs) : bool :=
  match o with
  | OErr _ => true
  | OVal r => fits_result p r
  | OBad => false
  end.

Definition judge (c : sx) : sx :=
  let kind := as_Z (nth_sx 0 c) in
  let usage := as_N (nth_sx 1 c) in
  let p := pic_of (nth_sx 2 c) (nth_sx 3 c) (nth_sx 4 c) in
  let buffer := as_Ns (nth_sx 5 c) in
  let o := obs_of_sx (nth_sx 6 c) in
  let nav := obs_of_sx (nth_sx 7 c) in
  let digits := (p_int p + p_frac p)%nat in
  let width_ok :=
    if kind =? 1 then (length buffer =? spec_packed_width digits)%nat
    else if kind =? 3 then
      (* the decoder's width, or the width estruct.calcsize reports (it differs for signed items of 4 or 9 digits) *)
      mem_spelling usage binary_spellings &&
      (match spec_binary_width digits with Some w => (length buffer =? w)%nat | None => false end
       || match calcsize usage p with Ok size => (N.of_nat (length buffer) =? size)%N | Err _ => false end)
    else (length buffer =? spec_display_width (p_signed p) digits)%nat in
  if negb (width_ok && ((kind =? 1) || (kind =? 2) || (kind =? 3)) && (1 <=? digits)%nat && forallb (fun b => (b <? 256)%N) buffer)
  then L [A 9; A 0; L [A 0]] else
  let m := unpack usage p buffer in
  let fits_or_error := if kind =? 3 then fits_or_error_binary else fits_or_error in
  let good := fits_or_error p o && match nav with OBad => true | _ => fits_or_error p nav end in
  let agree := obs_matches o m && match nav with OBad => true | _ => obs_matches nav m end in
  (* a known finding excuses only its own wrong behaviour: the right scale and exactly one digit too many *)
  let one_extra (x : obs) : bool :=
    match x with
    | OVal (VDec d) => Z.eqb (dexp d) (- Z.of_nat (p_frac p)) && (coef d <? 10 ^ N.of_nat (S digits))%N
    | OErr _ => true
    | _ => false
    end in
  let pinned := one_extra o && match nav with OBad => true | _ => one_extra nav end in
  (* binary: the pinned behaviour is the stored integer itself, returned as an int *)
  let stored_int (x : obs) : bool :=
    match x with
    | OVal (VInt v) => Z.eqb v (signed_be (length buffer) buffer)
    | OErr _ => true
    | _ => false
    end in
  let pinned_binary := stored_int o && match nav with OBad => true | _ => stored_int nav end in
  let known :=
    if (kind =? 1) && pad_nibble_set p buffer && pinned then Some 1
    else if (kind =? 2) && sign_position_set p buffer && pinned then Some 2
    else if (kind =? 3) && binary_exceeds_picture p buffer && pinned_binary then Some 3
    else None in
  (* last digit: 1 value, 2 error; binary: 1 fits, 3 outside the picture's digits, 4 picture with fraction digits *)
  let branch := kind * 1000 + Z.of_nat (length buffer) * 10 +
    (match m with
     | Ok _ => if (kind =? 3) && binary_exceeds_picture p buffer then (if (0 <? p_frac p)%nat then 4 else 3) else 1
     | Err _ => 2
     end) in
  verdict known good agree branch (L [sx_of_res sx_of_pyval m]).
