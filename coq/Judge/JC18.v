(* Judge for C18.  case = (kind usage signed m n buffer obs nav), kind 1 packed, 2 zoned;
   obs = estruct.unpack(clause, buffer), nav = the same through EBCDIC().nav(...) or (2). *)
From Coq Require Import ZArith NArith List Bool.
Import ListNotations.
Require Import SR.Base.Sx SR.Base.Res SR.Base.Dec SR.Spec.Encode SR.Spec.Fits SR.Model.Estruct SR.Judge.JEstructCommon.
Open Scope Z_scope.

Definition fits_or_error (p : pic) (o : obs) : bool :=
  match o with
  | OErr _ => true
  | OVal (VDec d) => fits (p_int p) (p_frac p) d
  | OVal _ => false
  | OBad => false
  end.

Definition judge (c : sx) : sx :=
  let kind := as_Z (nth_sx 0 c) in
  let usage := as_N (nth_sx 1 c) in
  let p := pic_of (nth_sx 2 c) (nth_sx 3 c) (nth_sx 4 c) in
  let buffer := as_Ns (nth_sx 5 c) in
  let o := obs_of_sx (nth_sx 6 c) in
  let nav := obs_of_sx (nth_sx 7 c) in
  let digits := (p_int p + p_frac p)%nat in
  let width_ok :=
    if kind =? 1 then (length buffer =? spec_packed_width digits)%nat
    else (length buffer =? spec_display_width (p_signed p) digits)%nat in
  if negb (width_ok && ((kind =? 1) || (kind =? 2)) && (1 <=? digits)%nat && forallb (fun b => (b <? 256)%N) buffer)
  then L [A 9; A 0; L [A 0]] else
  let m := unpack usage p buffer in
  let good := fits_or_error p o && match nav with OBad => true | _ => fits_or_error p nav end in
  let agree := obs_matches o m && match nav with OBad => true | _ => obs_matches nav m end in
  (* a known finding excuses only its own wrong behaviour: the right scale and exactly one digit too many *)
  let one_extra (x : obs) : bool :=
    match x with
    | OVal (VDec d) => Z.eqb (dexp d) (- Z.of_nat (p_frac p)) && (coef d <? 10 ^ N.of_nat (S digits))%N
    | OErr _ => true
    | _ => false
    end in
  let pinned := one_extra o && match nav with OBad => true | _ => one_extra nav end in
  let known :=
    if (kind =? 1) && pad_nibble_set p buffer && pinned then Some 1
    else if (kind =? 2) && sign_position_set p buffer && pinned then Some 2
    else None in
  let branch := kind * 1000 + Z.of_nat (length buffer) * 10 + (match m with Ok _ => 1 | Err _ => 2 end) in
  verdict known good agree branch (L [sx_of_res sx_of_pyval m]).
