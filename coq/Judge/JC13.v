(* Judge for C13.
   case = (s applicable dn dp gn gc1 gc2)
     s    picture string (code points)
     dn   estruct.Representation.normalize_picture(s)        (0 elems) | (1 exn)
     dp   estruct.Representation.parse("PIC " + s), only when applicable = 1 (s non-empty, no white space):
          (0 (size g0 g1 g2 g3 zoned elems)) | (1 exn);  (2) when not applicable
     gn   cobol_parser.normalize_picture(s)                  (0 elems) | (1 exn)
     gc1  JSONSchemaMaker.json_type on a DISPLAY node with picture s: conversion = decimal   (0 b) | (1 exn)
     gc2  JSONSchemaMakerExtendedVocabulary.json_type: type = decimal                        (0 b) | (1 exn)
     ent  (optional, stream entry) (sep g d gconv dp2 gc1_2): the picture s written in the entry  05 X PIC s<sep> USAGE DISPLAY.
          sep = 0 nothing | 44 comma | 59 semicolon directly after the picture; g = clauses[picture] of the DDE the generator side
          built ((0 text) | (1 exn)); d = Representation.parse(cobol text of the emitted schema) in the form of dp; gconv = the
          emitted schema says conversion decimal; dp2 / gc1_2 = dp / gc1 observed directly on the string s followed by sep
   elems = list of dicts, a dict = list of (key text) with key 0 sign, 1 char, 2 decimal, 3 digit, 4 repeat.
   good  = the property on the observation, using Spec/Picture.v only;
   agree = observation equals the model (Model/Picture.v), compared in wire form. *)
From Coq Require Import ZArith NArith List Bool.
Import ListNotations.
Require Import SR.Base.Sx SR.Base.Res SR.Spec.Picture SR.Model.Picture.
Open Scope Z_scope.

Definition kind_code (k : kind) : Z :=
  match k with KSign => 0 | KChar => 1 | KDecimal => 2 | KDigit => 3 end.
Definition sx_elt (e : elt) : sx := match e with E k t => L [L [A (kind_code k); of_Ns t]] end.
Definition sx_elems (es : list elt) : sx := L (map sx_elt es).

Definition sx_opt_res {T} (f : T -> sx) (o : option (res T)) : sx :=
  match o with None => L [A 9] | Some r => sx_of_res f r end.

Definition sx_parsed (p : parsed) : sx :=
  L [of_nat (p_size p); of_Ns (g_sign (p_groups p)); of_Ns (g_int (p_groups p)); of_Ns (g_sep (p_groups p));
     of_Ns (g_frac (p_groups p)); of_bool (p_zoned p); sx_elems (p_elems p)].

(* observation accessors *)
Definition o_tag (o : sx) : Z := as_Z (nth_sx 0 o).
Definition o_ok (o : sx) : bool := o_tag o =? 0.
Definition o_valueerror (o : sx) : bool := (o_tag o =? 1) && (as_Z (nth_sx 1 o) =? 1).
Definition o_texts (elems : sx) : list (list N) :=
  map (fun d => concat (map (fun kv => as_Ns (nth_sx 1 kv)) (as_list d))) (as_list elems).

Definition sx_summary (v : option summary) : sx :=
  match v with
  | None => L []
  | Some v => L [of_nat (positions v); of_bool (signed v); of_nat (int_digits v); of_nat (frac_digits v); of_bool (numeric v)]
  end.

Definition judge (c : sx) : sx :=
  let s := as_Ns (nth_sx 0 c) in
  let applicable := as_bool (nth_sx 1 c) in
  let dn := nth_sx 2 c in
  let dp := nth_sx 3 c in
  let gn := nth_sx 4 c in
  let gc1 := nth_sx 5 c in
  let gc2 := nth_sx 6 c in
  let v := sp_parse s in
  (* ---- the property, on the observation ---- *)
  let good_dn := o_valueerror dn || (o_ok dn && match v with Some _ => true | None => false end) in
  let good_dp :=
    if o_tag dp =? 2 then true
    else o_valueerror dp
      || (o_ok dp &&
          match v with
          | None => false
          | Some w =>
              let p := nth_sx 1 dp in
              summary_eqb w {| positions := as_nat (nth_sx 0 p);
                               signed := negb (match as_list (nth_sx 1 p) with [] => true | _ => false end);
                               int_digits := length (as_list (nth_sx 2 p));
                               frac_digits := length (as_list (nth_sx 4 p));
                               numeric := as_bool (nth_sx 5 p) |}
          end) in
  let good_gn :=
    o_valueerror gn
    || (o_ok gn &&
        match v with
        | None => false
        | Some w =>
            let e := sp_of_texts (o_texts (nth_sx 1 gn)) in
            Nat.eqb (sp_positions e) (positions w) && Bool.eqb (sp_signed e) (signed w)
            && Nat.eqb (sp_int e) (int_digits w) && Nat.eqb (sp_frac e) (frac_digits w)
            && o_ok gc1 && Bool.eqb (as_bool (nth_sx 1 gc1)) (numeric w)
            && o_ok gc2 && Bool.eqb (as_bool (nth_sx 1 gc2)) (numeric w)
        end) in
  (* the two sides accept the same strings *)
  let good_same := Bool.eqb (o_ok dn) (o_ok gn) in
  (* through an entry both sides take the same picture string and treat it as they treat that string alone: either both take s
     (then d = dp and gconv = gc1, the direct observations on s) or both take s followed by the separator (d = dp2, gconv = gc1_2) *)
  let ent := nth_sx 7 c in
  let has_ent := match as_list ent with [] => false | _ => true end in
  let sep := as_Z (nth_sx 0 ent) in
  let e_g := nth_sx 1 ent in
  let e_d := nth_sx 2 ent in
  let e_conv := nth_sx 3 ent in
  let s2 := if sep =? 0 then s else s ++ [Z.to_N sep] in
  let took_s := sx_eqb e_g (L [A 0; of_Ns s]) in
  let took_s2 := sx_eqb e_g (L [A 0; of_Ns s2]) in
  let good_ent :=
    negb has_ent
    || (took_s && sx_eqb e_d dp && sx_eqb e_conv gc1)
    || (took_s2 && sx_eqb e_d (nth_sx 4 ent) && sx_eqb e_conv (nth_sx 5 ent))
    || (negb (o_ok e_g) && negb (o_ok e_d) && negb (o_ok e_conv)) in
  let agree_ent := negb has_ent || took_s2 || negb (o_ok e_g) in
  let good := good_dn && good_dp && good_gn && good_same && good_ent in
  (* ---- correspondence with the model ---- *)
  let m_dn := sx_opt_res sx_elems (dec_normalize s) in
  let m_dp := if applicable then sx_opt_res sx_parsed (dec_parse s) else L [A 2] in
  let m_gn := sx_opt_res sx_elems (gen_normalize s) in
  let m_gc := L [A 0; of_bool (gen_numeric s)] in
  let agree := sx_eqb dn m_dn && sx_eqb dp m_dp && sx_eqb gn m_gn && sx_eqb gc1 m_gc && sx_eqb gc2 m_gc && agree_ent in
  let known := match known_code s with Some k => Some (Z.of_N k) | None => None end in
  let branch :=
    match dec_normalize s, gen_normalize s with
    | Some (Ok _), Some (Ok _) => if mem 40%N s then 2 else 1
    | Some (Err _), Some (Err _) => 0
    | _, _ => 3
    end in
  verdict known good agree branch (L [m_dn; m_dp; m_gn; m_gc; sx_summary v]).
