(* Judge for C05 (record framing).
   case = (fmt kind clean param recs lens image obsA obsB obsC)
     fmt    0 = RECFM_F, 1 = RECFM_V, 2 = RECFM_VB, 3 = RECFM_N
     kind   0 = file opened 'rb' (io.BufferedReader), 1 = io.BytesIO
     clean  1 = the harness wrote [image] from [recs] (checked here against the Spec writer; a mismatch is
                verdict 9: the harness, not the library, is wrong); 0 = raw image, only model agreement is judged
     param  F: lrecl (None is sent as 0)
     recs   F/V/N: list of byte strings; VB: list of blocks, each a list of byte strings
     lens   N: the lengths the consumer announces (0 = does not call used)
     image  the bytes of the file
     obs    (items ending tell): items yielded, ending = (0) StopIteration | (1 exception-code) |
            (2) still yielding when the harness stopped at its cap | (3) N: buffer offered after the last length;
            tell = source.tell() afterwards.  RECFM_N items are (len(buffer) buffer[:n_i]).
            obsA = record_iter, obsB = rdw_iter, obsC = bdw_iter (VB only).
   Resumed reading (fmt 4 = F, 5 = V, 6 = VB): the lens slot holds the passes ((iterator k) ..., iterator 0 record_iter /
   1 rdw_iter / 2 bdw_iter, k = -1 for a pass run to exhaustion, else islice(it, k)), all made one after the other on ONE
   reader object; obsA is the list of the passes' observations (items ending tell), obsB = obsC = ().
   A byte string travels as a list of segments: (0 b ...) literal bytes, (1 start step count) = the
   arithmetic progression start, start+step, ... modulo 256 (lossless run-length form; long records stay short). *)
From Coq Require Import ZArith NArith List Bool Arith.
Import ListNotations.
Require Import SR.Base.Sx SR.Base.Res SR.Gen.RecfmParams SR.Spec.Recfm SR.Model.Recfm.
Open Scope Z_scope.

Fixpoint run_bytes (start step : N) (count : nat) : list N :=
  match count with
  | O => []
  | S c => start :: run_bytes (let x := (start + step)%N in if (256 <=? x)%N then (x - 256)%N else x) step c
  end.

Definition dec_seg (s : sx) : list N :=
  match as_list s with
  | A 0 :: bs => map as_N bs
  | [A 1; A start; A step; A count] => run_bytes (Z.to_N start mod 256)%N (Z.to_N step mod 256)%N (Z.to_nat count)
  | _ => []
  end.

Definition dec_bytes (s : sx) : list N := flat_map dec_seg (as_list s).
Definition dec_recs (s : sx) : list (list N) := map dec_bytes (as_list s).

Definition lN_eqb (a b : list N) : bool :=
  (length a =? length b)%nat && forallb (fun p => N.eqb (fst p) (snd p)) (combine a b).
Definition llN_eqb (a b : list (list N)) : bool :=
  (length a =? length b)%nat && forallb (fun p => lN_eqb (fst p) (snd p)) (combine a b).

Definition fin_code (f : fin) : Z * Z :=
  match f with
  | Done => (0, 0)
  | Raised e => (1, exn_code e)
  | Hang => (2, 0)
  | More => (3, 0)
  end.

(* observation: items, ending code pair, tell *)
Definition obs_items (o : sx) : sx := nth_sx 0 o.
Definition obs_end (o : sx) : Z * Z :=
  let e := nth_sx 1 o in (as_Z (nth_sx 0 e), match as_list e with [_; A k] => k | _ => 0 end).
Definition obs_tell (o : sx) : Z := as_Z (nth_sx 2 o).

Definition pair_eqb (a b : Z * Z) : bool := Z.eqb (fst a) (fst b) && Z.eqb (snd a) (snd b).

(* observation = (expected items, Done, everything read) *)
Definition obs_is (o : sx) (items : list (list N)) (total : nat) : bool :=
  llN_eqb (dec_recs (obs_items o)) items && pair_eqb (obs_end o) (0, 0) && Z.eqb (obs_tell o) (Z.of_nat total).

(* observation = model behaviour.  When the model says the loop never ends, the harness must have
   stopped at its cap and what it saw must start with the model's items. *)
Definition obs_agrees (o : sx) (m : out N (list N)) (total : nat) : bool :=
  let '(items, f, r) := m in
  let got := dec_recs (obs_items o) in
  Z.eqb (obs_tell o) (Z.of_nat (total - length r)) &&
  match f with
  | Hang => pair_eqb (obs_end o) (2, 0) && llN_eqb (firstn (length items) got) items
  | _ => pair_eqb (obs_end o) (fin_code f) && llN_eqb got items
  end.

(* RECFM_N items: (len prefix) against the model's buffers and the announced lengths *)
Fixpoint n_items_agree (its : list sx) (bufs : list (list N)) (lens : list nat) : bool :=
  match its, bufs with
  | [], [] => true
  | it :: its', b :: bufs' =>
      let n := hd O lens in
      (as_nat (nth_sx 0 it) =? length b)%nat && lN_eqb (dec_bytes (nth_sx 1 it)) (firstn n b)
      && n_items_agree its' bufs' (tl lens)
  | _, _ => false
  end.

Definition b2z (b : bool) : Z := if b then 1 else 0.

(* size classes that say whether a case reaches the records without data bytes (measured here, not in the harness):
   V:  0 no records, 6 some record is empty, 1 otherwise
   VB: 0 no records, 7 some block ENDS with an empty record (the input fix eee0fb2 is about), 6 some record is empty
       but none stands last in its block, otherwise [dflt] *)
Definition is_empty (r : list N) : bool := match r with [] => true | _ => false end.
Definition ends_empty (b : list (list N)) : bool := match rev b with r :: _ => is_empty r | [] => false end.
Definition cls_V (recs : list (list N)) : Z :=
  match recs with [] => 0 | _ => if existsb is_empty recs then 6 else 1 end.
Definition cls_VB (blocks : list (list (list N))) (dflt : Z) : Z :=
  match concat blocks with
  | [] => 0
  | _ => if existsb ends_empty blocks then 7 else if existsb is_empty (concat blocks) then 6 else dflt
  end.

(* Outside the property's domain (raw/corrupt images, illegal record lists, consumers that break the RECFM_N
   protocol) the property says nothing and a rewrite of the library may legitimately behave differently, so the
   case always passes; whether the implementation still equals the model is reported in the branch:
   base+3 / base+9 = agrees (illegal list / raw image), base+4 / base+8 = differs. *)
Definition finish (image_ok clean indom good agree : bool) (base cls : Z) (detail : sx) : sx :=
  if image_ok then
    if indom then verdict None good agree (base + cls) detail
    else L [A 0; A (base + (if clean then (if agree then 3 else 4) else (if agree then 9 else 8)))]
  else L [A 9; A base].

Definition dec_pass (s : sx) : pass :=
  (as_N (nth_sx 0 s), let k := as_Z (nth_sx 1 s) in if k <? 0 then None else Some (Z.to_nat k)).

Fixpoint all2 {X Y : Type} (f : X -> Y -> bool) (xs : list X) (ys : list Y) : bool :=
  match xs, ys with
  | [], [] => true
  | x :: xs', y :: ys' => f x y && all2 f xs' ys'
  | _, _ => false
  end.

(* a pass delivered exactly the expected items and ended without an exception *)
Definition pass_good (o : sx) (items : list (list N)) : bool :=
  llN_eqb (dec_recs (obs_items o)) items && pair_eqb (obs_end o) (0, 0).

(* a pass behaved as the model: items, ending (suspended and exhausted both look normal to the caller), position *)
Definition pass_agrees (total : nat) (o : sx) (m : out N (list N)) : bool :=
  let '(items, f, r) := m in
  Z.eqb (obs_tell o) (Z.of_nat (total - length r)) && llN_eqb (dec_recs (obs_items o)) items
  && pair_eqb (obs_end o) (match f with More => (0, 0) | _ => fin_code f end).

Definition last_is_full (ps : list pass) : bool :=
  match rev ps with (_, None) :: _ => true | _ => false end.

(* resumed reading: every pass delivers what the Spec expects, the last (full) pass leaves nothing *)
Definition judge_multi (base : Z) (kind : N) (clean image_ok legal : bool) (ps : list pass)
    (expected : option (list (list (list N)))) (model : list (out N (list N))) (obs : list sx)
    (total : nat) (cls : Z) : sx :=
  let indom := clean && legal && last_is_full ps && match expected with Some _ => true | None => false end in
  let good := match expected with
              | Some e => all2 pass_good obs e && Z.eqb (obs_tell (last obs (L []))) (Z.of_nat total)
              | None => false
              end in
  let agree := all2 (pass_agrees total) obs model in
  finish image_ok clean indom good agree base cls
         (L [A (b2z good); A (b2z agree)]).

Definition judge (c : sx) : sx :=
  let fmt := as_Z (nth_sx 0 c) in
  let kind := as_N (nth_sx 1 c) in
  let clean := as_bool (nth_sx 2 c) in
  let param := as_Z (nth_sx 3 c) in
  let recs_sx := nth_sx 4 c in
  let lens := as_nats (nth_sx 5 c) in
  let image := dec_bytes (nth_sx 6 c) in
  let oA := nth_sx 7 c in
  let oB := nth_sx 8 c in
  let oC := nth_sx 9 c in
  let total := length image in
  if fmt =? 4 then
    let recs := dec_recs recs_sx in
    let ps := map dec_pass (as_list (nth_sx 5 c)) in
    judge_multi 40 kind clean (negb clean || lN_eqb image (write_F recs)) (legal_F (Z.to_nat param) recs
                && (N.of_nat (Z.to_nat param) + 4 <=? max_hdr)%N) ps
                (expect_passes ps recs) (run_passes (F_pass kind param) ps image) (as_list oA) total
                (match recs with [] => 0 | _ => 1 end)
  else if fmt =? 5 then
    let recs := dec_recs recs_sx in
    let ps := map dec_pass (as_list (nth_sx 5 c)) in
    judge_multi 50 kind clean (negb clean || lN_eqb image (write_V recs)) (legal_V recs) ps
                (expect_passes ps recs) (run_passes (V_pass kind) ps image) (as_list oA) total
                (cls_V recs)
  else if fmt =? 6 then
    let blocks := map dec_recs (as_list recs_sx) in
    let ps := map dec_pass (as_list (nth_sx 5 c)) in
    judge_multi 60 kind clean (negb clean || lN_eqb image (write_VB blocks)) (legal_VB blocks) ps
                (expect_passes_VB ps blocks) (run_passes (VB_pass kind) ps image) (as_list oA) total
                (cls_VB blocks 1)
  else if fmt =? 0 then
    let recs := dec_recs recs_sx in
    let image_ok := negb clean || lN_eqb image (write_F recs) in
    let indom := clean && legal_F (Z.to_nat param) recs in
    (* rdw_iter is in the domain only when lrecl + 4 fits the 16-bit length word *)
    let hdr_ok := (N.of_nat (Z.to_nat param) + 4 <=? max_hdr)%N in
    let gA := obs_is oA recs total in
    let gB := negb hdr_ok || obs_is oB (map rdw_rec recs) total in
    let aA := obs_agrees oA (F_record_iter kind param image) total in
    let aB := obs_agrees oB (F_rdw_iter kind param image) total in
    let cls := match recs with [] => 0 | _ => if hdr_ok then 1 else if aB then 2 else 5 end in
    finish image_ok clean indom (gA && gB) (aA && (aB || (indom && negb hdr_ok))) 0 cls
           (L [A (b2z gA); A (b2z gB); A (b2z aA); A (b2z aB)])
  else if fmt =? 1 then
    let recs := dec_recs recs_sx in
    let image_ok := negb clean || lN_eqb image (write_V recs) in
    let indom := clean && legal_V recs in
    let gA := obs_is oA recs total in
    let gB := obs_is oB (map rdw_rec recs) total in
    let aA := obs_agrees oA (V_record_iter kind image) total in
    let aB := obs_agrees oB (V_rdw_iter kind image) total in
    let cls := cls_V recs in
    finish image_ok clean indom (gA && gB) (aA && aB) 10 cls
           (L [A (b2z gA); A (b2z gB); A (b2z aA); A (b2z aB)])
  else if fmt =? 2 then
    let blocks := map dec_recs (as_list recs_sx) in
    let recs := concat blocks in
    let image_ok := negb clean || lN_eqb image (write_VB blocks) in
    let indom := clean && legal_VB blocks in
    let gA := obs_is oA recs total in
    let gB := obs_is oB (map rdw_rec recs) total in
    let gC := obs_is oC (map write_block blocks) total in
    let aA := obs_agrees oA (VB_record_iter kind image) total in
    let aB := obs_agrees oB (VB_rdw_iter kind image) total in
    let aC := obs_agrees oC (VB_bdw_iter kind image) total in
    let cls := cls_VB blocks (if (length blocks <? length recs)%nat then 2 else 1) in
    finish image_ok clean indom (gA && gB && gC) (aA && aB && aC) 20 cls
           (L [A (b2z gA); A (b2z gB); A (b2z gC); A (b2z aA); A (b2z aB); A (b2z aC)])
  else
    let recs := dec_recs recs_sx in
    let B := N.to_nat buffer_size in
    let image_ok := negb clean || lN_eqb image (write_N recs) in
    let announced := forallb (fun p => (fst p =? snd p)%nat) (combine lens (map (@length N) recs))
                     && (length lens =? length recs)%nat in
    let indom := clean && legal_N B recs && announced in
    let its := as_list (obs_items oA) in
    let got := map (fun it => dec_bytes (nth_sx 1 it)) its in
    let gA := llN_eqb got recs && pair_eqb (obs_end oA) (0, 0) && Z.eqb (obs_tell oA) (Z.of_nat total) in
    let '(bufs, f, s') := N_read kind image lens in
    let aA := n_items_agree its bufs lens && pair_eqb (obs_end oA) (fin_code f)
              && Z.eqb (obs_tell oA) (Z.of_nat (total - length (rest s'))) in
    let cls := match recs with [] => 0 | _ => if (total <=? B)%nat then 1 else 2 end in
    finish image_ok clean indom gA aA 30 cls
           (L [A (b2z gA); A (b2z aA); A (fst (fin_code f)); A (snd (fin_code f))]).
