(* Judge for C04.
   (1 usage signed m n calc dec maxlen minlen locsize lrecl struct text sheetlrecl)  one configuration
       calc = estruct.calcsize(clause); dec = unpack(clause, canonical buffer of THAT size) succeeded;
       maxlen/minlen = schema keywords from schema_iter; locsize/lrecl = the field's Location size and the
       record's end from LocationMaker.from_schema; struct/text = Struct().calcsize / TextUnpacker().calcsize
       on the loaded schema; sheetlrecl = the lrecl a sheet of ONE long-lived COBOL_EBCDIC_File computes when the
       schema is bound to it.  Each is (0 n) | (1 exn) | (2) not applicable.
   (2 k calc maxlen locsize lrecl text sheetlrecl)   alphanumeric X(k): every report is k *)
From Coq Require Import ZArith NArith List Bool.
Import ListNotations.
Require Import SR.Base.Sx SR.Base.Res SR.Spec.Encode SR.Spec.Fits SR.Spec.SizeCfg SR.Model.Estruct.
Open Scope Z_scope.

Inductive rep := RVal (n : Z) | RErr (c : Z) | RNone.
Definition rep_of (s : sx) : rep :=
  match as_Z (nth_sx 0 s) with 0 => RVal (as_Z (nth_sx 1 s)) | 1 => RErr (as_Z (nth_sx 1 s)) | _ => RNone end.
Definition rep_is (r : rep) (n : N) : bool := match r with RVal v => v =? Z.of_N n | _ => false end.
Definition rep_model (r : rep) (m : res N) : bool :=
  match r, m with
  | RVal v, Ok n => v =? Z.of_N n
  | RErr c, Err e => c =? exn_code e
  | _, _ => false
  end.
Definition rep_any_err (r : rep) : bool := match r with RErr _ => true | _ => false end.

Definition judge (c : sx) : sx :=
  let kind := as_Z (nth_sx 0 c) in
  if kind =? 1 then
    let u := as_N (nth_sx 1 c) in
    let s := as_bool (nth_sx 2 c) in
    let m := as_nat (nth_sx 3 c) in
    let n := as_nat (nth_sx 4 c) in
    let p := mkpic s m n in
    let r i := rep_of (nth_sx i c) in
    match spec_size u s m n with
    | None => L [A 9; A 0; L [A 0]]
    | Some sz =>
      let mc := calcsize u p in
      let good :=
        rep_is (r 5%nat) sz
        && rep_is (r 6%nat) 1
        && rep_is (r 7%nat) sz && rep_is (r 8%nat) sz && rep_is (r 9%nat) sz && rep_is (r 10%nat) sz
        && rep_is (r 11%nat) sz
        && rep_is (r 12%nat) sz && rep_is (r 13%nat) sz in
      let mdec := match mc with
                  | Ok w => if decoder_accepts u p (N.to_nat w) then RVal 1 else RErr 0
                  | Err _ => RNone end in
      let agree :=
        rep_model (r 5%nat) mc
        && match mdec, r 6%nat with
           | RVal _, RVal _ => true | RErr _, RErr _ => true | RNone, RNone => true | _, _ => false end
        && rep_model (r 7%nat) mc && rep_model (r 8%nat) mc && rep_model (r 9%nat) mc && rep_model (r 10%nat) mc
        && rep_model (r 11%nat) (struct_calcsize u p)
        && rep_model (r 12%nat) mc && rep_model (r 13%nat) mc in
      (* a known finding excuses only its own, pinned, wrong behaviour: everything else must be right *)
      let rest_ok := rep_is (r 7%nat) sz && rep_is (r 8%nat) sz && rep_is (r 9%nat) sz && rep_is (r 10%nat) sz && rep_is (r 12%nat) sz && rep_is (r 13%nat) sz in
      let known :=
        match known_bad_C04 (u, s, m, n) with
        | Some 1 =>
            let wrong := if (m + n =? 4)%nat then 4%N else 8%N in
            if rep_is (r 5%nat) wrong && rep_any_err (r 6%nat) && rep_is (r 7%nat) wrong && rep_is (r 8%nat) wrong
               && rep_is (r 9%nat) wrong && rep_is (r 10%nat) wrong && rep_is (r 12%nat) wrong && rep_is (r 13%nat) wrong && rep_is (r 11%nat) sz
            then Some 1 else None
        | Some 2 =>
            if rep_is (r 5%nat) sz && rest_ok && rep_is (r 11%nat) sz
               && match r 6%nat with RErr 5 => true | _ => false end then Some 2 else None
        | Some 3 =>
            if rep_is (r 5%nat) sz && rest_ok && rep_is (r 6%nat) 1
               && match r 11%nat with RErr 1 => true | _ => false end then Some 3 else None
        | _ => None
        end in
      verdict known good agree (1000 + Z.of_N u * 10 + (if s then 1 else 0))
        (L [sx_of_res of_N mc; of_N sz; sx_of_res of_N (struct_calcsize u p)])
    end
  else if kind =? 2 then
    let k := as_N (nth_sx 1 c) in
    let r i := rep_of (nth_sx i c) in
    let all := rep_is (r 2%nat) k && rep_is (r 3%nat) k && rep_is (r 4%nat) k && rep_is (r 5%nat) k && rep_is (r 6%nat) k
               && rep_is (r 7%nat) k in
    verdict None all all 2000 (L [of_N k])
  else L [A 9; A 0; L [A 0]].
