(* Judge for C06 (files of OCCURS DEPENDING ON records).
   case = (tree recfm lrecl envs counters records blocking image schema run)
     tree     abstract record description the generator built (wire form: JLayoutCommon)
     recfm    0 = RECFM_N, 1 = RECFM_V, 2 = RECFM_VB, 3 = RECFM_F (every record padded to lrecl bytes in the file)
     lrecl    (0) = None | (1 n): what the runner passed to COBOL_EBCDIC_File.  With None or 0 the property is the same
              (one row per record, each laid out by its own counters) for RECFM N, V, VB; RECFM F cannot cut the file and
              must raise TypeError before delivering a row
     envs     one count vector ((counter-id value) ...) per record
     counters ((counter-id path) ...) where each live counter sits
     records  the byte strings the runner put into the file, in order
     blocking VB: number of records in each block
     image    the bytes of the file the implementation read (read back from disk by the runner)
     schema   (0 emitted-schema) | (1 exn)
     run      (1 exn)                     set_schema raised (a violation: lrecl None / 0 is legal with an ODO layout)
            | (0 (row ...) ending)        ending = (0) rows() ended | (1 exn) it raised | (2) runner stopped at its cap
     row      (buflen end head ((path obs) ...) ((counter-id cobs) ...))
                buflen = len(row.instance); end = row.nav.location.end; head = row.instance[:end]
                obs  = (0 start end raw8 item_count) | (1 exn): navigation along path from row.nav; raw8 = first 8 bytes
                       of raw(); item_count = location.item_count, -1 when the location has none
                cobs = (0 int(value)) | (1 exn): the counter read by name from the row
   A byte string travels as segments: (0 b ...) literal | (1 start step count) arithmetic progression mod 256.

   Optional eleventh field  ckind = (kind d mode)  (absent in the streams that existed before: kind 0, mode 0):
     kind  0  counters are unsigned DISPLAY digits read by their low nibbles (JLayoutCommon.dcount, as before)
           1  DISPLAY zoned, signed or not: ZonedCounter.dcount_zoned / Counters.zcount_zoned (estruct.unpack + int)
           2  COMP-3 / PACKED-DECIMAL:      Counters.dcount_packed / zcount_packed
           3  COMP / BINARY of d digit positions: Counters.dcount_binary d / zcount_binary d
     For kind 1..3 "the record carries the count vector" is checked with the specification's ENCODERS (stores_b: the
     counter's bytes are an image of the value under Spec/Encode.v), never with a decoder; the model of the run is
     Model/OdoStream.v with the kind's decoder.  For EVERY kind (0 included) every row must IN ADDITION agree with the walk over
     Python's integers (Model/Counters.v znav_of / znav_path / znav_raw with the kind's Z-valued decoder): one more tie, of that
     model to the code, on every stream of this check (nested groups and tables of groups included).
     mode  0  as above (count vectors are natural numbers)
           1  stream negative-counter: RECFM V only; envs hold SIGNED values.  The property (fix of finding K-negative-counter:
              LocationMaker.walk refuses a negative item count): the records before the first one in which a table's counter
              is negative are delivered, each laid out by its own counters, and AT that record the row loop raises ValueError
              (Row() builds the navigator eagerly) - nothing of such a record is ever located; a file without such a record is
              delivered whole.  A counter read by name shows the stored signed value.  The model is the walk over Python's
              integers on every record (Model/Counters.v, with the sign test as harness/t1_layout.py found it in the source).
              No known finding: a tree that accepts a negative counter is a VIOLATION.
*)
From Coq Require Import ZArith NArith List Bool Arith.
Import ListNotations.
Require Import SR.Base.Sx SR.Base.Res SR.Gen.RecfmParams SR.Spec.Recfm SR.Model.Recfm.
Require Import SR.Spec.Layout SR.Model.Layout SR.Spec.OdoStream SR.Model.OdoStream SR.Judge.JLayoutCommon.
Require Import SR.Base.Dec SR.Spec.Encode SR.Model.ZonedCounter SR.Model.Counters.
Open Scope Z_scope.

(* ---- counter kinds *)
Definition dc_of (kind : Z) (d : nat) : list N -> nat :=
  if kind =? 1 then dcount_zoned else if kind =? 2 then dcount_packed else if kind =? 3 then dcount_binary d else dcount.
Definition zdec_of (kind : Z) (d : nat) : list N -> res Z :=
  if kind =? 1 then zcount_zoned else if kind =? 2 then zcount_packed else if kind =? 3 then zcount_binary d
  else fun bs => Ok (Z.of_nat (dcount bs)).

(* the field bs is an image of z under the specification's encoder for this kind of counter (Spec/Encode.v only) *)
Fixpoint digits_of (w : nat) (n : N) : list N :=
  match w with O => [] | S w' => digits_of w' (n / 10)%N ++ [(n mod 10)%N] end.
Definition signs_for (z : Z) : list N :=
  if z <? 0 then neg_signs else if z =? 0 then pos_signs ++ neg_signs else pos_signs.
Definition stores_b (kind : Z) (d : nat) (bs : list N) (z : Z) : bool :=
  let a := Z.to_N (Z.abs z) in
  if kind =? 1 then
    let w := length bs in
    (1 <=? w)%nat && (a <? 10 ^ N.of_nat w)%N
    && existsb (fun s => list_N_eqb bs (enc_zoned (digits_of w a) s)) (signs_for z)
  else if kind =? 2 then
    let w := (2 * length bs - 1)%nat in
    (1 <=? length bs)%nat && (a <? 10 ^ N.of_nat w)%N
    && existsb (fun s => list_N_eqb bs (enc_packed (digits_of w a) s)) (signs_for z)
  else if kind =? 3 then
    match spec_binary_width d with
    | Some w => (- 2 ^ (8 * Z.of_nat w - 1) <=? z) && (z <? 2 ^ (8 * Z.of_nat w - 1)) && list_N_eqb bs (enc_be w z)
    | None => false
    end
  else (0 <=? z) && (dcount bs =? Z.to_nat z)%nat.

(* ---- byte strings *)
Fixpoint run_bytes (start stp : N) (count : nat) : list N :=
  match count with
  | O => []
  | S c => start :: run_bytes (let x := (start + stp)%N in if (256 <=? x)%N then (x - 256)%N else x) stp c
  end.
Definition dec_seg (s : sx) : list N :=
  match as_list s with
  | A 0 :: bs => map as_N bs
  | [A 1; A start; A stp; A count] => run_bytes (Z.to_N start mod 256)%N (Z.to_N stp mod 256)%N (Z.to_nat count)
  | _ => []
  end.
Definition dec_bytes (s : sx) : list N := flat_map dec_seg (as_list s).

(* ---- VB: cut the record list into blocks of the given sizes *)
Fixpoint cut {T} (sizes : list nat) (l : list T) : list (list T) :=
  match sizes with
  | [] => []
  | n :: r => firstn n l :: cut r (skipn n l)
  end.

Definition err_code (e : nav_error) : Z :=
  match e with NoSuchName => 4 | NotAnObject => 2 | NotAnArray => 2 | IndexOut => 3 end.

(* obs = (0 start end raw8 cnt) *)
Definition obs_is (o : sx) (st en : nat) (raw : list N) (cnt : option nat) : bool :=
  (as_Z (nth_sx 0 o) =? 0) && (as_Z (nth_sx 1 o) =? Z.of_nat st) && (as_Z (nth_sx 2 o) =? Z.of_nat en)
  && list_N_eqb (as_Ns (nth_sx 3 o)) (firstn 8 raw)
  && match cnt with Some n => as_Z (nth_sx 4 o) =? Z.of_nat n | None => true end.
Definition obs_err (o : sx) (code : Z) : bool :=
  (as_Z (nth_sx 0 o) =? 1) && (as_Z (nth_sx 1 o) =? code).

Definition fin_obs (f : fin) : sx :=
  match f with
  | Done => L [A 0]
  | Raised e => L [A 1; A (exn_code e)]
  | Hang => L [A 2]
  | More => L [A 3]
  end.

Fixpoint forall2b {X Y} (f : X -> Y -> bool) (xs : list X) (ys : list Y) : bool :=
  match xs, ys with
  | [], [] => true
  | x :: xs', y :: ys' => f x y && forall2b f xs' ys'
  | _, _ => false
  end.

Fixpoint offsets (acc : nat) (lens : list nat) : list nat :=
  match lens with [] => [] | n :: r => acc :: offsets (acc + n) r end.

Section Judge.
Variable t : item.
Variable dc : list N -> nat.          (* the model's counter decoder (dc_of) *)

(* ---- the property on one observed row, from the specification and the record alone *)
Definition good_path (e : env) (r : list N) (po : sx) : bool :=
  let o := nth_sx 1 po in
  match spec_nav e (VItem t) 0 (path_of (nth_sx 0 po)) with
  | inl (v, st) =>
      obs_is o st (st + view_size e v) (slice r st (st + view_size e v))
        (match v with VItem x => if is_table x then Some (count e (item_oc x)) else None | _ => None end)
  | inr err => obs_err o (err_code err)
  end.

(* cv: the value a counter read by name must show (the stored one) *)
Definition good_row_cv (cv : id -> Z) (want_buflen : nat) (e : env) (r : list N) (row : sx) : bool :=
  (as_Z (nth_sx 0 row) =? Z.of_nat want_buflen)
  && (as_Z (nth_sx 1 row) =? Z.of_nat (extent e t))
  && list_N_eqb (dec_bytes (nth_sx 2 row)) r
  && forallb (good_path e r) (as_list (nth_sx 3 row))
  && forallb (fun co => let o := nth_sx 1 co in
                        (as_Z (nth_sx 0 o) =? 0) && (as_Z (nth_sx 1 o) =? cv (as_N (nth_sx 0 co))))
       (as_list (nth_sx 4 row)).
Definition good_row (want_buflen : nat) (e : env) (r : list N) (row : sx) : bool :=
  good_row_cv (fun c => Z.of_nat (e c)) want_buflen e r row.

(* ---- the same row against the model *)
Definition agree_path (buf : list N) (v0 : nav) (po : sx) : bool :=
  let o := nth_sx 1 po in
  match nav_path dc buf v0 (path_of (nth_sx 0 po)) with
  | Ok v => obs_is o (lstart (n_loc v)) (lend (n_loc v)) (nav_raw buf v)
              (match n_loc v with LArr _ _ _ cnt _ _ => Some cnt | _ => None end)
            && match n_loc v with LArr _ _ _ _ _ _ => true | _ => as_Z (nth_sx 4 o) =? -1 end
  | Err ex => obs_err o (exn_code ex)
  end.

Definition agree_counter (buf : list N) (v0 : nav) (counters : list sx) (co : sx) : bool :=
  let o := nth_sx 1 co in
  match find (fun cp => N.eqb (as_N (nth_sx 0 cp)) (as_N (nth_sx 0 co))) counters with
  | None => false
  | Some cp =>
      match nav_path dc buf v0 (path_of (nth_sx 1 cp)) with
      | Ok v => (as_Z (nth_sx 0 o) =? 0) && (as_Z (nth_sx 1 o) =? Z.of_nat (dc (nav_raw buf v)))
      | Err ex => obs_err o (exn_code ex)
      end
  end.

Definition agree_row (counters : list sx) (m : row N) (row : sx) : bool :=
  let b := row_buf m in
  let v0 := row_nav m in
  (as_Z (nth_sx 0 row) =? Z.of_nat (length b))
  && (as_Z (nth_sx 1 row) =? Z.of_nat (lend (n_loc v0)))
  && list_N_eqb (dec_bytes (nth_sx 2 row)) (firstn (lend (n_loc v0)) b)
  && forallb (agree_path b v0) (as_list (nth_sx 3 row))
  && forallb (agree_counter b v0 counters) (as_list (nth_sx 4 row)).

(* ---- the same row against the walk over Python's integers (Model/Counters.v) *)
Variable zdec : list N -> res Z.

Definition zobs_is (o : sx) (st en : Z) (raw : list N) (cnt : option Z) : bool :=
  (as_Z (nth_sx 0 o) =? 0) && (as_Z (nth_sx 1 o) =? st) && (as_Z (nth_sx 2 o) =? en)
  && list_N_eqb (as_Ns (nth_sx 3 o)) (firstn 8 raw)
  && match cnt with Some n => as_Z (nth_sx 4 o) =? n | None => as_Z (nth_sx 4 o) =? -1 end.

Definition zagree_path (buf : list N) (v0 : znav) (po : sx) : bool :=
  let o := nth_sx 1 po in
  match znav_path zdec buf v0 (path_of (nth_sx 0 po)) with
  | Ok v => zobs_is o (zstart (zn_loc v)) (zend (zn_loc v)) (znav_raw buf v)
              (match zn_loc v with ZArr _ _ _ _ cnt _ _ => Some cnt | _ => None end)
  | Err ex => obs_err o (exn_code ex)
  end.

Definition zagree_counter (buf : list N) (v0 : znav) (counters : list sx) (co : sx) : bool :=
  let o := nth_sx 1 co in
  match find (fun cp => N.eqb (as_N (nth_sx 0 cp)) (as_N (nth_sx 0 co))) counters with
  | None => false
  | Some cp =>
      match znav_path zdec buf v0 (path_of (nth_sx 1 cp)) with
      | Ok v => match zdec (znav_value_bytes buf v) with
                | Ok z => (as_Z (nth_sx 0 o) =? 0) && (as_Z (nth_sx 1 o) =? z)
                | Err ex => obs_err o (exn_code ex)
                end
      | Err ex => obs_err o (exn_code ex)
      end
  end.

Definition zagree_row (js : js) (counters : list sx) (b : list N) (row : sx) : bool :=
  match znav_of zdec b js with
  | Err _ => false
  | Ok v0 =>
      (as_Z (nth_sx 0 row) =? Z.of_nat (length b))
      && (as_Z (nth_sx 1 row) =? zend (zn_loc v0))
      && list_N_eqb (dec_bytes (nth_sx 2 row)) (pyslice b 0 (zend (zn_loc v0)))
      && forallb (zagree_path b v0) (as_list (nth_sx 3 row))
      && forallb (zagree_counter b v0 counters) (as_list (nth_sx 4 row))
  end.

(* the rows of a file of records under that walk: Row() builds the navigator eagerly, the first record whose walk raises
   ends the iteration with that exception *)
Fixpoint zrows_agree (js : js) (counters : list sx) (recs : list (list N)) (f : fin) (obs_rows : list sx) (obs_end : sx) : bool :=
  match recs with
  | [] => match obs_rows with [] => sx_eqb obs_end (fin_obs f) | _ => false end
  | r :: rest =>
      match znav_of zdec r js with
      | Err ex => match obs_rows with [] => sx_eqb obs_end (L [A 1; A (exn_code ex)]) | _ => false end
      | Ok _ =>
          match obs_rows with
          | [] => false
          | row :: orest => zagree_row js counters r row && zrows_agree js counters rest f orest obs_end
          end
      end
  end.

End Judge.

Definition envz_of (s : sx) : id -> Z :=
  fun c => match find (fun p => N.eqb (as_N (nth_sx 0 p)) c) (as_list s) with
           | Some p => as_Z (nth_sx 1 p)
           | None => 0
           end.

Fixpoint odo_tables (x : item) : list id :=
  (match item_oc x with Odo c => [c] | _ => [] end)
  ++ match x with Elem _ _ _ _ => [] | Group _ _ _ ks => odo_tables_kids ks end
with odo_tables_kids (ks : items) : list id :=
  match ks with INil => [] | ICons x xs => odo_tables x ++ odo_tables_kids xs end.

(* ---- mode 1: signed count vectors, RECFM V *)
Definition judge_signed (c : sx) (kind : Z) (d : nat) : sx :=
  let t := item_of (nth_sx 0 c) in
  let recfm := as_Z (nth_sx 1 c) in
  let ezs := map envz_of (as_list (nth_sx 3 c)) in
  let counters := as_list (nth_sx 4 c) in
  let rs := map dec_bytes (as_list (nth_sx 5 c)) in
  let image := dec_bytes (nth_sx 7 c) in
  let schema := nth_sx 8 c in
  let run := nth_sx 9 c in
  let zdec := zdec_of kind d in
  let clamp (ez : id -> Z) : env := fun i => Z.to_nat (ez i) in
  let rec_valid (ez : id -> Z) (r : list N) : bool :=
    let e := clamp ez in
    (length r =? extent e t)%nat
    && forallb (fun cp =>
         match spec_nav e (VItem t) 0 (path_of (nth_sx 1 cp)) with
         | inl (v, st) => stores_b kind d (slice r st (st + view_size e v)) (ez (as_N (nth_sx 0 cp)))
         | inr _ => false
         end) counters in
  let image_ok := (recfm =? 1) && list_N_eqb image (write_V rs) && legal_V rs && flat_odo t && (1 <=? kind) in
  if negb (forall2b rec_valid ezs rs && image_ok) then L [A 9; A 0; L [A 0]] else
  let js := build t in
  let obs_rows := as_list (nth_sx 1 run) in
  let obs_end := nth_sx 2 run in
  (* property: the records before the first one in which a table's counter is negative are delivered, each laid out by its
     own counters; that record is REFUSED with ValueError (and the iteration ends there); without such a record the file is
     delivered whole and the iteration ends normally *)
  let neg_rec (ez : id -> Z) : bool := existsb (fun cc => ez cc <? 0) (odo_tables t) in
  let clean_prefix := (fix go (l : list (id -> Z)) : nat := match l with [] => O | ez :: r => if neg_rec ez then O else S (go r) end) ezs in
  let rows_good (n : nat) :=
    forall2b (fun (p : (id -> Z) * list N) row => good_row_cv t (fst p) (length (snd p)) (clamp (fst p)) (snd p) row)
      (firstn n (combine ezs rs)) obs_rows in
  let good :=
    (as_Z (nth_sx 0 run) =? 0)
    && (length obs_rows =? clean_prefix)%nat && rows_good clean_prefix
    && sx_eqb obs_end (if (clean_prefix <? length rs)%nat then L [A 1; A 1] else L [A 0]) in
  (* correspondence: the walk over Python's integers on every record the reader delivers *)
  let schema_agrees := sx_eqb schema (L [A 0; sx_of_js js]) in
  let '(recs, f, _) := V_record_iter 0 image in
  let run_agrees := (as_Z (nth_sx 0 run) =? 0) && zrows_agree zdec js counters recs f obs_rows obs_end in
  let agree := schema_agrees && run_agrees in
  let trigger := existsb neg_rec ezs in
  let known : option Z := None in
  let branch := 60 + kind + (if trigger then 4 else 0) in
  verdict known good agree branch
    (L [of_bool schema_agrees; of_bool run_agrees; of_bool trigger; of_nat clean_prefix; of_nat (length recs); fin_obs f]).

Definition judge (c : sx) : sx :=
  let ckind := nth_sx 10 c in
  let kind := as_Z (nth_sx 0 ckind) in
  let d := as_nat (nth_sx 1 ckind) in
  if as_Z (nth_sx 2 ckind) =? 1 then judge_signed c kind d else
  let dcount := dc_of kind d in
  let zdec := zdec_of kind d in
  let t := item_of (nth_sx 0 c) in
  let recfm := as_Z (nth_sx 1 c) in
  let lrecl := match as_Z (nth_sx 0 (nth_sx 2 c)) with 1 => Some (as_nat (nth_sx 1 (nth_sx 2 c))) | _ => None end in
  let es := map env_of (as_list (nth_sx 3 c)) in
  let counters := as_list (nth_sx 4 c) in
  let rs := map dec_bytes (as_list (nth_sx 5 c)) in
  let blocking := as_nats (nth_sx 6 c) in
  let image := dec_bytes (nth_sx 7 c) in
  let schema := nth_sx 8 c in
  let run := nth_sx 9 c in
  let B := N.to_nat buffer_size in
  (* ---- is the input what it claims to be *)
  let rec_valid (e : env) (r : list N) : bool :=
    (length r =? extent e t)%nat
    && forallb (fun cp =>
         match spec_nav e (VItem t) 0 (path_of (nth_sx 1 cp)) with
         | inl (v, st) => stores_b kind d (slice r st (st + view_size e v)) (Z.of_nat (e (as_N (nth_sx 0 cp))))
         | inr _ => false
         end) counters in
  let blocks := cut blocking rs in
  let Lr := match lrecl with Some n => n | None => 0%nat end in
  let chunks := cut (repeat Lr (length rs)) image in
  let image_ok :=
    if (recfm =? 3) && (Lr =? 0)%nat then true          (* no lrecl: nothing of the file is read *)
    else if recfm =? 3 then
      (1 <=? Lr)%nat && (length image =? Lr * length rs)%nat
      && forall2b (fun r ch => (length ch =? Lr)%nat && list_N_eqb (firstn (length r) ch) r) rs chunks
    else if recfm =? 0 then list_N_eqb image (write_N rs) && legal_N B rs
    else if recfm =? 1 then list_N_eqb image (write_V rs) && legal_V rs
    else list_N_eqb image (write_VB blocks) && legal_VB blocks && (length (concat blocks) =? length rs)%nat in
  if negb (forall2b rec_valid es rs && image_ok) then L [A 9; A 0; L [A 0]] else
  (* ---- model *)
  let js := build t in
  let model : res (list (row N) * fin) :=
    if recfm =? 0 then
      match rows_N dcount 0 lrecl js image with Ok (rows, f, _) => Ok (rows, f) | Err ex => Err ex end
    else if recfm =? 1 then rows_V dcount 0 lrecl js image
    else if recfm =? 3 then rows_F dcount 0 lrecl js image
    else rows_VB dcount 0 lrecl js image in
  let obs_rows := as_list (nth_sx 1 run) in
  let obs_end := nth_sx 2 run in
  (* ---- property: set_schema succeeds, exactly one row per record, each laid out by its own counters, the
          iteration ends normally *)
  let lens := map (@length N) rs in
  let total := length image in
  let want_buflens :=
    if recfm =? 0 then map (fun off => Nat.min B (total - off)) (offsets 0 lens)
    else if recfm =? 3 then map (fun _ => Lr) lens else lens in
  let no_lrecl := match lrecl with Some (S _) => false | _ => true end in
  let good :=
    if (recfm =? 3) && no_lrecl && js_has_odo js then
      (* RECFM F / FB without any record length (none given, none computable): refused with TypeError, no row delivered *)
      (as_Z (nth_sx 0 run) =? 0) && sx_eqb obs_end (L [A 1; A 2]) && (length obs_rows =? 0)%nat
    else
    (as_Z (nth_sx 0 run) =? 0)
    && sx_eqb obs_end (L [A 0])
    && (length obs_rows =? length rs)%nat
    && forall2b (fun (p : nat * (env * list N)) row => good_row t (fst p) (fst (snd p)) (snd (snd p)) row)
         (combine want_buflens (combine es rs)) obs_rows in
  (* ---- correspondence *)
  let schema_agrees := if build_raises t then obs_err schema 4 else sx_eqb schema (L [A 0; sx_of_js js]) in
  let run_agrees :=
    match model with
    | Err ex => obs_err run (exn_code ex)
    | Ok (mrows, f) =>
        (as_Z (nth_sx 0 run) =? 0) && sx_eqb obs_end (fin_obs f)
        && forall2b (agree_row dcount counters) mrows obs_rows
    end in
  (* every delivered row also against the walk over Python's integers (kind 0: the low-nibble decoder as a Z) *)
  let zrun_agrees :=
    match model with
    | Err _ => true
    | Ok (mrows, _) => forall2b (fun m row => zagree_row zdec js counters (row_buf m) row) mrows obs_rows
    end in
  let agree := schema_agrees && run_agrees && zrun_agrees in
  let known : option Z := None in
  let branch :=
    if no_lrecl then 90 else
    10 * recfm + 1 + (if flat_odo t then 0 else 1) + (if (B <? total)%nat then 2 else 0) + 100 * kind in
  verdict known good agree branch
    (L [of_bool schema_agrees; of_bool run_agrees; of_bool zrun_agrees;
        match model with
        | Err ex => L [A 1; A (exn_code ex)]
        | Ok (mrows, f) => L [A 0; of_nat (length mrows); fin_obs f;
                              L (map (fun m => L [of_nat (length (row_buf m)); of_nat (lend (n_loc (row_nav m)))]) mrows)]
        end;
        L (map (fun p => of_nat (extent (fst p) t)) (combine es rs))]).
