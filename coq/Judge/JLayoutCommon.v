(* Wire format of record trees, schemas, paths and records for the layout judges (C01, C06, C10). *)
From Coq Require Import ZArith NArith List Bool.
Import ListNotations.
Require Import SR.Base.Sx SR.Base.Res SR.Base.Dec SR.Spec.Layout SR.Model.Layout.
Open Scope Z_scope.

Definition occ_of (s : sx) : occ :=
  match as_Z (nth_sx 0 s) with
  | 1 => Times (as_nat (nth_sx 1 s))
  | 2 => Odo (as_N (nth_sx 1 s))
  | _ => Once
  end.
Definition redef_of (s : sx) : option id :=
  match as_Z (nth_sx 0 s) with 1 => Some (as_N (nth_sx 1 s)) | _ => None end.

(* item: (0 id size occ redef) | (1 id occ redef (kids...)) *)
Fixpoint item_of (s : sx) : item :=
  match s with
  | L (A tag :: A i :: rest) =>
      if tag =? 0 then
        match rest with
        | A sz :: oc :: rd :: _ => Elem (Z.to_N i) (Z.to_nat sz) (occ_of oc) (redef_of rd)
        | _ => Elem 0%N 0%nat Once None
        end
      else
        match rest with
        | oc :: rd :: L kids :: _ =>
            Group (Z.to_N i) (occ_of oc) (redef_of rd)
              ((fix go (l : list sx) : items :=
                  match l with [] => INil | k :: t => ICons (item_of k) (go t) end) kids)
        | _ => Elem 0%N 0%nat Once None
        end
  | _ => Elem 0%N 0%nat Once None
  end.

Definition sx_of_key (k : key) : sx :=
  match k with KName i => L [A 0; of_N i] | KRedef i => L [A 1; of_N i] end.
Definition sx_of_anchor (a : option key) : sx :=
  match a with None => L [A 0] | Some k => L [A 1; sx_of_key k] end.

(* schema: (0 a sz) atom | (1 a n items) | (2 a counter items) | (3 a ((key schema)...)) | (4 a (alts...)) | (5 key) *)
Fixpoint sx_of_js (s : js) : sx :=
  match s with
  | JAtom a sz => L [A 0; sx_of_anchor a; of_nat sz]
  | JArr a n its => L [A 1; sx_of_anchor a; of_nat n; sx_of_js its]
  | JOdo a c its => L [A 2; sx_of_anchor a; of_N c; sx_of_js its]
  | JObj a ps => L [A 3; sx_of_anchor a; L (sx_of_props ps)]
  | JOne a alts => L [A 4; sx_of_anchor a; L (sx_of_alts alts)]
  | JRef k => L [A 5; sx_of_key k]
  end
with sx_of_props (ps : props) : list sx :=
  match ps with PNil => [] | PCons k s r => L [sx_of_key k; sx_of_js s] :: sx_of_props r end
with sx_of_alts (alts : jalts) : list sx :=
  match alts with ANil => [] | ACons s r => sx_of_js s :: sx_of_alts r end.

(* path: ((0 id) | (1 index) ...) *)
Definition step_of (s : sx) : step :=
  match as_Z (nth_sx 0 s) with 1 => PIndex (as_nat (nth_sx 1 s)) | _ => PName (as_N (nth_sx 1 s)) end.
Definition path_of (s : sx) : list step := map step_of (as_list s).

(* counters are unsigned digit items: DISPLAY digits F0..F9 in EBCDIC records, characters 0..9 in
   text records; either way the digit is the low nibble *)
Definition dcount (bs : list N) : nat := N.to_nat (val (map (fun b => (b mod 16)%N) bs)).

Definition env_of (s : sx) : env :=
  fun c => match find (fun p => N.eqb (as_N (nth_sx 0 p)) c) (as_list s) with
           | Some p => as_nat (nth_sx 1 p)
           | None => 0%nat
           end.

Definition list_N_eqb (a b : list N) : bool :=
  (length a =? length b)%nat && forallb (fun p => N.eqb (fst p) (snd p)) (combine a b).

Fixpoint has_odo (x : item) : bool :=
  match x with
  | Elem _ _ (Odo _) _ => true
  | Elem _ _ _ _ => false
  | Group _ oc _ ks => (match oc with Odo _ => true | _ => false end) || kids_have_odo ks
  end
with kids_have_odo (ks : items) : bool :=
  match ks with INil => false | ICons x xs => has_odo x || kids_have_odo xs end.

(* an elementary OCCURS item that is a member of a REDEFINES union (finding K-occurs-elem-in-union) *)
Fixpoint occurs_elem_in_union (x : item) : bool :=
  match x with
  | Elem _ _ _ _ => false
  | Group _ _ _ ks => kids_oeu (redef_targets ks) ks
  end
with kids_oeu (targets : list id) (ks : items) : bool :=
  match ks with
  | INil => false
  | ICons x xs =>
      (match x with
       | Elem _ _ Once _ => false
       | Elem _ _ _ _ => match union_of targets x with Some _ => true | None => false end
       | Group _ _ _ _ => occurs_elem_in_union x
       end) || kids_oeu targets xs
  end.

Fixpoint has_redef (x : item) : bool :=
  match x with
  | Elem _ _ _ _ => false
  | Group _ _ _ ks => (match redef_targets ks with [] => false | _ => true end) || kids_have_redef ks
  end
with kids_have_redef (ks : items) : bool :=
  match ks with INil => false | ICons x xs => has_redef x || kids_have_redef xs end.

Fixpoint has_table (x : item) : bool :=
  is_table x || match x with Elem _ _ _ _ => false | Group _ _ _ ks => kids_have_table ks end
with kids_have_table (ks : items) : bool :=
  match ks with INil => false | ICons x xs => has_table x || kids_have_table xs end.

(* an OCCURS DEPENDING ON table inside a repeated item (finding K-index-odo: NDNav.index re-walks one
   occurrence with a fresh LocationMaker whose anchors do not hold the counter) *)
Fixpoint odo_in_table_aux (inside : bool) (x : item) : bool :=
  (inside && match item_oc x with Odo _ => true | _ => false end)
  || match x with
     | Elem _ _ _ _ => false
     | Group _ _ _ ks => kids_odo_in_table (inside || is_table x) ks
     end
with kids_odo_in_table (inside : bool) (ks : items) : bool :=
  match ks with INil => false | ICons x xs => odo_in_table_aux inside x || kids_odo_in_table inside xs end.
Definition odo_in_table (x : item) : bool := odo_in_table_aux false x.

(* a data name that is used twice in the record AND belongs to a REDEFINES union somewhere: $ref placeholders
   resolve through LocationMaker.anchors, one flat last-wins namespace (finding K-duplicate-name-union) *)
Fixpoint all_ids (x : item) : list id :=
  item_id x :: match x with Elem _ _ _ _ => [] | Group _ _ _ ks => all_ids_kids ks end
with all_ids_kids (ks : items) : list id :=
  match ks with INil => [] | ICons x xs => all_ids x ++ all_ids_kids xs end.

Fixpoint union_member_ids (x : item) : list id :=
  match x with
  | Elem _ _ _ _ => []
  | Group _ _ _ ks => kids_union_ids (redef_targets ks) ks
  end
with kids_union_ids (targets : list id) (ks : items) : list id :=
  match ks with
  | INil => []
  | ICons x xs =>
      (match union_of targets x with Some _ => [item_id x] | None => [] end)
      ++ union_member_ids x ++ kids_union_ids targets xs
  end.

Definition count_id (i : id) (l : list id) : nat := length (filter (N.eqb i) l).

Definition dup_union_name (x : item) : bool :=
  let ids := all_ids x in
  existsb (fun i => (2 <=? count_id i ids)%nat) (union_member_ids x).

(* a REDEFINES whose target is itself a redefining item (finding K-redefines-of-redefiner): structure() overwrites the
   REDEFINES clause of the middle item with the item's own name, so build_json_schema files it - and everything that
   redefines it - under a NEW oneOf placed after the first union instead of where the original item begins *)
Fixpoint chained_redef (x : item) : bool :=
  match x with
  | Elem _ _ _ _ => false
  | Group _ _ _ ks => kids_chained (redef_targets ks) ks
  end
with kids_chained (targets : list id) (ks : items) : bool :=
  match ks with
  | INil => false
  | ICons x xs =>
      (is_redefiner x && existsb (N.eqb (item_id x)) targets) || chained_redef x || kids_chained targets xs
  end.
