(* Judge for C15.  case = (doc loadobs inst navobs)
     doc     = node          node = (scal oneOf items props)
               scal  = (ref type anchor title mido extra), an optional string is () or ((codepoints)),
                       extra = (((key) (valuetext)) ...)
               oneOf = () | ((node ...))      items = () | (node)      props = () | ((((key) node) ...))
     loadobs = (0 tree) | (1 exn)            what SchemaMaker.from_json(doc) did
               tree  = (class json children target)
                       class 1 Atomic 2 Array 3 DependsOnArray 4 Object 5 OneOf 6 RefTo
                       json = node (the re-serialised .json() of that Schema object)
                       children = (tree ...) for 2,3,5 ; (((key) tree) ...) for 4 ; () otherwise
                       target = () | ((path))   path of the object ref_to (class 6) / max_ref_to (class 3) points at;
                                                 compared with the model's binding (schema_eqb) and with the
                                                 sub-schema bearing the anchor (refs_resolved, tables_bound)
     inst    = JSON value: (0) null (1 b) (2 z) (3 (codepoints)) (4 (v ...)) (5 (((key) v) ...))
     navobs  = ((path result) ...)   path = ((0 (name)) | (1 index) ...), result = (0 value) | (1 exn)
   Decoding uses explicit fuel; a case that does not decode is answered (9 ...). *)
From Coq Require Import ZArith NArith List Bool.
Import ListNotations.
Require Import SR.Base.Sx SR.Base.Res SR.Spec.JsonDoc SR.Spec.JsonDocOdo SR.Model.SchemaMaker.
Open Scope Z_scope.

Definition obind {A B} (x : option A) (f : A -> option B) : option B :=
  match x with Some a => f a | None => None end.

Fixpoint map_opt {A} (f : sx -> option A) (l : list sx) : option (list A) :=
  match l with
  | [] => Some []
  | x :: r => obind (f x) (fun a => obind (map_opt f r) (fun b => Some (a :: b)))
  end.

Definition dec_ostr (s : sx) : option str :=
  match as_list s with [x] => Some (as_Ns x) | _ => None end.

Definition dec_extra (s : sx) : list (str * str) :=
  map (fun e => (as_Ns (nth_sx 0 e), as_Ns (nth_sx 1 e))) (as_list s).

Definition dec_scal (s : sx) : scal :=
  Scal (dec_ostr (nth_sx 0 s)) (dec_ostr (nth_sx 1 s)) (dec_ostr (nth_sx 2 s))
       (dec_ostr (nth_sx 3 s)) (dec_ostr (nth_sx 4 s)) (dec_extra (nth_sx 5 s)).

Fixpoint alts_of (l : list js) : alts := match l with [] => ANil | x :: r => ACons x (alts_of r) end.
Fixpoint props_of (l : list (str * js)) : props :=
  match l with [] => PNil | (k, x) :: r => PCons k x (props_of r) end.

Fixpoint dec_js (n : nat) (s : sx) {struct n} : option js :=
  match n with
  | O => None
  | S m =>
      let sc := dec_scal (nth_sx 0 s) in
      obind (match as_list (nth_sx 1 s) with
             | [] => Some OANone
             | l :: _ => obind (map_opt (dec_js m) (as_list l)) (fun xs => Some (OASome (alts_of xs)))
             end) (fun o =>
      obind (match as_list (nth_sx 2 s) with
             | [] => Some OJNone
             | x :: _ => obind (dec_js m x) (fun y => Some (OJSome y))
             end) (fun i =>
      obind (match as_list (nth_sx 3 s) with
             | [] => Some OPNone
             | l :: _ =>
                 obind (map_opt (fun e => obind (dec_js m (nth_sx 1 e)) (fun y => Some (as_Ns (nth_sx 0 e), y)))
                                (as_list l))
                       (fun kvs => Some (OPSome (props_of kvs)))
             end) (fun p => Some (Node sc o i p))))
  end.

Definition dec_path (s : sx) : path := as_nats s.
Definition dec_target (s : sx) : option path :=
  match as_list s with [x] => Some (dec_path x) | _ => None end.

Fixpoint slist_of (l : list schema) : slist := match l with [] => SNil | x :: r => SCons x (slist_of r) end.
Fixpoint sprops_of (l : list (str * schema)) : sprops :=
  match l with [] => SPNil | (k, x) :: r => SPCons k x (sprops_of r) end.

Definition dummy_schema (a : js) : schema := LAtomic a.

Fixpoint dec_schema (n : nat) (s : sx) {struct n} : option schema :=
  match n with
  | O => None
  | S m =>
      obind (dec_js 64 (nth_sx 1 s)) (fun a =>
      let cls := as_Z (nth_sx 0 s) in
      let kids := as_list (nth_sx 2 s) in
      let tgt := dec_target (nth_sx 3 s) in
      if cls =? 1 then Some (LAtomic a)
      else if cls =? 2 then
        match kids with [x] => obind (dec_schema m x) (fun it => Some (LArray a it)) | _ => None end
      else if cls =? 3 then
        match kids with [x] => obind (dec_schema m x) (fun it => Some (LDepends a it (match tgt with Some t => t | None => [3000%nat] end))) | _ => None end
      else if cls =? 4 then
        obind (map_opt (fun e => obind (dec_schema m (nth_sx 1 e)) (fun y => Some (as_Ns (nth_sx 0 e), y))) kids)
              (fun kvs => Some (LObject a (sprops_of kvs)))
      else if cls =? 5 then
        obind (map_opt (dec_schema m) kids) (fun xs => Some (LOneOf a (slist_of xs)))
      else if cls =? 6 then Some (LRefTo a tgt)
      else None)
  end.

Fixpoint jlist_of (l : list jv) : jlist := match l with [] => JLNil | x :: r => JLCons x (jlist_of r) end.
Fixpoint jdict_of (l : list (str * jv)) : jdict :=
  match l with [] => JDNil | (k, x) :: r => JDCons k x (jdict_of r) end.

Fixpoint dec_jv (n : nat) (s : sx) {struct n} : option jv :=
  match n with
  | O => None
  | S m =>
      let tag := as_Z (nth_sx 0 s) in
      if tag =? 0 then Some JNull
      else if tag =? 1 then Some (JBool (as_bool (nth_sx 1 s)))
      else if tag =? 2 then Some (JInt (as_Z (nth_sx 1 s)))
      else if tag =? 3 then Some (JStr (as_Ns (nth_sx 1 s)))
      else if tag =? 4 then obind (map_opt (dec_jv m) (as_list (nth_sx 1 s))) (fun xs => Some (JList (jlist_of xs)))
      else if tag =? 5 then
        obind (map_opt (fun e => obind (dec_jv m (nth_sx 1 e)) (fun y => Some (as_Ns (nth_sx 0 e), y)))
                       (as_list (nth_sx 1 s)))
              (fun kvs => Some (JDict (jdict_of kvs)))
      else None
  end.

Definition dec_step (s : sx) : step :=
  if as_Z (nth_sx 0 s) =? 0 then SName (as_Ns (nth_sx 1 s)) else SIndex (as_Z (nth_sx 1 s)).

(* an observed result: a value or an exception class code *)
Inductive obs (T : Type) := OVal (v : T) | OExn (k : Z).
Arguments OVal {T} v.
Arguments OExn {T} k.

Definition dec_obs {T} (f : sx -> option T) (s : sx) : option (obs T) :=
  if as_Z (nth_sx 0 s) =? 0 then obind (f (nth_sx 1 s)) (fun v => Some (OVal v))
  else Some (OExn (as_Z (nth_sx 1 s))).

Fixpoint schema_eqb (a b : schema) {struct a} : bool :=
  match a, b with
  | LAtomic x, LAtomic y => js_eqb x y
  | LArray x i, LArray y j => js_eqb x y && schema_eqb i j
  | LDepends x i t, LDepends y j u => js_eqb x y && schema_eqb i j && path_eqb t u
  | LObject x ps, LObject y qs => js_eqb x y && sprops_eqb ps qs
  | LOneOf x ss, LOneOf y ts => js_eqb x y && slist_eqb ss ts
  | LRefTo x t, LRefTo y u => js_eqb x y && opath_eqb t u
  | _, _ => false
  end
with slist_eqb (a b : slist) {struct a} : bool :=
  match a, b with
  | SNil, SNil => true
  | SCons x r, SCons y r' => schema_eqb x y && slist_eqb r r'
  | _, _ => false
  end
with sprops_eqb (a b : sprops) {struct a} : bool :=
  match a, b with
  | SPNil, SPNil => true
  | SPCons k x r, SPCons k' y r' => str_eqb k k' && schema_eqb x y && sprops_eqb r r'
  | _, _ => false
  end.

Definition res_obs_eqb {T} (eqb : T -> T -> bool) (o : obs T) (m : res T) : bool :=
  match o, m with
  | OVal x, Ok y => eqb x y
  | OExn k, Err e => k =? exn_code e
  | _, _ => false
  end.

Definition value_eqb (o : obs jv) (x : jv) : bool :=
  match o with OVal y => jv_eqb y x | OExn _ => false end.

(* property predicate on the observed load.  A document of the grammar (maxItemsDependsOn included) is
   refused only for a reference - $ref or maxItemsDependsOn - that names no anchor, and then with
   ValueError; a loaded graph mirrors the document and every reference, max_ref_to of every
   DependsOnArraySchema included, points at the sub-schema bearing the anchor. *)
Definition good_load (d : js) (o : obs schema) : bool :=
  if wf d then
    match o with
    | OExn k => (k =? exn_code ValueError) && dangling_any d
    | OVal s => mirrors s d && negb (dangling_any d)
                && (if uniq_anchors d then refs_resolved d s && tables_bound d s else true)
    end
  else true.

(* trigger of candidate finding 2 (K-odo-forward-counter): a document of the grammar in which every
   reference has its anchor, but some depending array's counter is not declared when the array
   closes (it stands after the table, is the table itself or encloses it): Props/C15c.v
   C15c_counter_not_declared / C15c_loads_depends_on_refuted *)
Definition forward_counter (d : js) : bool :=
  wf d && negb (dangling_any d) && negb (counters_declared d).

(* property predicate on one observed navigation (s = the observed loaded graph) *)
Definition good_nav (s : schema) (v : jv) (p : list step) (o : obs jv) : bool :=
  (* what a navigation returns is what plain indexing returns *)
  (match o with
   | OVal x => match index_json v p with Ok y => jv_eqb x y | Err _ => false end
   | OExn _ => true
   end)
  (* refusal: a name on a non-object / an index on a non-array is a TypeError *)
  && (match nav_value s v p with
      | Err TypeError => match o with OExn k => k =? exn_code TypeError | OVal _ => false end
      | _ => true
      end)
  (* a conforming instance can be navigated wherever it can be indexed *)
  && (if conforms s s v
      then match index_json v p with Ok y => value_eqb o y | Err _ => true end
      else true).

Definition answer_error (k : Z) : sx := L [A 9; A 0; L [A k]].

Definition judge (c : sx) : sx :=
  match dec_js 64 (nth_sx 0 c), dec_obs (dec_schema 64) (nth_sx 1 c), dec_jv 64 (nth_sx 2 c) with
  | Some d, Some o, Some v =>
      let navs := map (fun e => (map dec_step (as_list (nth_sx 0 e)), dec_obs (dec_jv 64) (nth_sx 1 e)))
                      (as_list (nth_sx 3 c)) in
      if negb (forallb (fun e => is_some (snd e)) navs) then answer_error 2 else
      let m := load d in
      let gl := good_load d o in
      let al := res_obs_eqb schema_eqb o m in
      let gn := match o with
                | OVal s => forallb (fun e => match snd e with Some r => good_nav s v (fst e) r | None => false end) navs
                | OExn _ => true
                end in
      let an := match m with
                | Ok ms => forallb (fun e => match snd e with
                                             | Some r => res_obs_eqb jv_eqb r (nav_value ms v (fst e))
                                             | None => false end) navs
                | Err _ => match navs with [] => true | _ => false end
                end in
      let known := if shadowed d then Some 1 else if forward_counter d then Some 2 else None in
      let size := length (all_nodes d) in
      let base :=
        match walk d [] [] [] with
        | Ok (_, _, fx) =>
            match m with
            | Err _ => 4
            | Ok _ => match fx with
                      | _ :: _ => 3
                      | [] => match refnames d with _ :: _ => 2 | [] => 1 end
                      end
            end
        | Err ValueError => 4
        | Err KeyError => 5
        | Err AssertionError => 6
        | Err _ => 7
        end in
      let branch := if (size <=? 1)%nat then 0 else base + (if wf d then 0 else 10) + (if has_depends d then 20 else 0) in
      verdict known (gl && gn) (al && an) branch
        (L [of_bool gl; of_bool al; of_bool gn; of_bool an;
            match m with Ok _ => A 0 | Err e => A (exn_code e) end; of_bool (wf d); of_bool (uniq_anchors d);
            of_bool (dangling_any d); of_bool (counters_declared d)])
  | _, _, _ => answer_error 1
  end.
