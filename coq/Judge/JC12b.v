(* Judge for C12b (clause recognition; an additional engine of C12, also serving C07).

   case = (1 stream cs sps text obs)    an entry cs printed in the spelling sps; text = what the harness printed
        | (2 stream text obs)           any text (token soup): model fidelity only
     cs   list of clauses  (0 name) (1) (2 target) (3 digits ix) (4 min max dep ix) (5 picture) (6 family) (7 value)
                           (8) (9 right) (10 side) (11 leading separate) (12) (13)
          ix = () | (key (index names))  key = () | (ascending name)    min = () | (digits)
     sps  list of ((choices masks separators) after)
     obs  (0 (dict parsed name unique)) | (1 exception)
          dict = ((key text) ...) in key order, parsed = () | (elements) as in JC13, name / unique = DDE(05, text).name /
          .unique_name with DDE.filler_count = 0 before the call
   good  (kind 1) the text is the specification's printing of cs in sps, the observed dictionary is [expected cs sps]
         (texts as written), its content is [abstract cs], and unique_name is what C07 demands;
         (kind 2) true
   agree the observation equals the model (Model/Clauses.v), compared in wire form
   known (kind 1, outside [in_domain]) the code of the finding family whose trigger the case satisfies
   branch 1 printed in the domain; 20+k printed, trigger k; 3 printed, outside the domain, no trigger;
          100 soup, model dictionary empty (trivial); 101 soup, non-empty; 102 soup, model raises *)
From Coq Require Import ZArith NArith List Bool.
Import ListNotations.
Require Import SR.Base.Sx SR.Base.Res SR.Spec.Clauses SR.Model.Clauses.
Require SR.Model.Picture.
Open Scope Z_scope.

(* ---- decoding ---- *)
Definition d_opt {T} (f : sx -> T) (s : sx) : option T :=
  match as_list s with [] => None | x :: _ => Some (f x) end.

Definition d_ix (s : sx) : option iphrase :=
  match as_list s with
  | [] => None
  | k :: idx :: _ =>
      Some {| ip_key := match as_list k with
                        | a :: n :: _ => Some (as_bool a, as_Ns n)
                        | _ => None
                        end;
              ip_idx := map as_Ns (as_list idx) |}
  | _ => None
  end.

Definition d_clause (s : sx) : clause :=
  let a := fun i => nth_sx i s in
  match as_Z (a 0%nat) with
  | 0 => CName (as_Ns (a 1%nat))
  | 1 => CFiller
  | 2 => CRedefines (as_Ns (a 1%nat))
  | 3 => COccurs (as_Ns (a 1%nat)) (d_ix (a 2%nat))
  | 4 => COdo (d_opt as_Ns (a 1%nat)) (as_Ns (a 2%nat)) (as_Ns (a 3%nat)) (d_ix (a 4%nat))
  | 5 => CPicture (as_Ns (a 1%nat))
  | 6 => CUsage (as_N (a 1%nat))
  | 7 => CValue (as_Ns (a 1%nat))
  | 8 => CBlank
  | 9 => CJust (as_bool (a 1%nat))
  | 10 => CSync (as_N (a 1%nat))
  | 11 => CSign (as_bool (a 1%nat)) (as_bool (a 2%nat))
  | 12 => CExternal
  | _ => CGlobal
  end.

Definition d_cspell (s : sx) : cspell :=
  {| ch := as_Ns (nth_sx 0 s);
     masks := map (fun m => map as_bool (as_list m)) (as_list (nth_sx 1 s));
     seps := map as_Ns (as_list (nth_sx 2 s)) |}.

Definition d_spelling (s : sx) : spelling :=
  map (fun p => (d_cspell (nth_sx 0 p), as_Ns (nth_sx 1 p))) (as_list s).

(* ---- wire form of the model's answer ---- *)
Definition sx_dict (d : list (N * list N)) : sx := L (map (fun kv => L [of_N (fst kv); of_Ns (snd kv)]) d).
Definition sx_groups (d : groups) : sx := sx_dict (map (fun kv => (key_code (fst kv), snd kv)) d).

Definition kind_code (k : SR.Model.Picture.kind) : Z :=
  match k with
  | SR.Model.Picture.KSign => 0 | SR.Model.Picture.KChar => 1 | SR.Model.Picture.KDecimal => 2 | SR.Model.Picture.KDigit => 3
  end.
Definition sx_elt (e : SR.Model.Picture.elt) : sx :=
  match e with SR.Model.Picture.E k t => L [L [A (kind_code k); of_Ns t]] end.

Definition sx_record (r : clause_record) : sx :=
  L [sx_groups (cr_dict r);
     match cr_parsed r with None => L [] | Some es => L [L (map sx_elt es)] end;
     of_Ns (dde_name (cr_dict r));
     of_Ns (dde_unique (cr_dict r))].

Definition sx_model (m : option (res clause_record)) : sx :=
  match m with None => L [A 9] | Some r => sx_of_res sx_record r end.

(* ---- observation accessors ---- *)
Definition o_ok (o : sx) : bool := as_Z (nth_sx 0 o) =? 0.
Definition o_dict (o : sx) : list (N * list N) :=
  map (fun kv => (as_N (nth_sx 0 kv), as_Ns (nth_sx 1 kv))) (as_list (nth_sx 0 (nth_sx 1 o))).
Definition o_unique (o : sx) : list N := as_Ns (nth_sx 3 (nth_sx 1 o)).

Definition str_eq (a b : list N) : bool := SR.Spec.Clauses.str_eqb a b.
Fixpoint dict_eqb (a b : list (N * list N)) : bool :=
  match a, b with
  | [], [] => true
  | (k, v) :: a', (k', v') :: b' => N.eqb k k' && str_eq v v' && dict_eqb a' b'
  | _, _ => false
  end.

(* ---- triggers of the known findings, decidable predicates of the entry and its spelling ---- *)
Definition bad_name (n : list N) : bool :=
  negb (match n with [] => true | _ => false end) && forallb name_char n && negb (name_ok n).

Definition t_keyword_name (c : clause) : bool :=
  match c with
  | CName n | CRedefines n => bad_name n
  | COdo _ _ dep _ => bad_name dep
  | _ => false
  end.

Definition glued (a : list N) : bool := match a with c :: _ => s_mem c [44%N; 59%N] | [] => false end.
Definition t_glued_sep (c : clause) (a : list N) : bool :=
  match c with
  | CPicture _ => glued a
  | CValue v => negb (is_quoted v) && glued a
  | _ => false
  end.

Definition t_indexed (c : clause) : bool :=
  match c with
  | COccurs _ (Some _) | COdo _ _ _ (Some _) => true
  | _ => false
  end.

Definition t_zeros (c : clause) (sp : cspell) : bool :=
  match c with CBlank => negb (chN sp 1 =? 0)%N | _ => false end.

Definition t_just_last (c : clause) (a : list N) : bool :=
  match c with CJust false => match a with [] => true | _ => false end | _ => false end.

Definition t_sign_plain (c : clause) : bool := match c with CSign _ false => true | _ => false end.

Definition t_filler_case (c : clause) (sp : cspell) : bool :=
  match c with CFiller => existsb (fun b => b) (firstn 6 (nth 0 (masks sp) [])) | _ => false end.

Fixpoint any_item (f : clause -> cspell -> list N -> bool) (cs : list clause) (sps : spelling) : bool :=
  match cs with
  | [] => false
  | c :: cs' => f c (fst (hd sp_default sps)) (snd (hd sp_default sps)) || any_item f cs' (tl sps)
  end.

Definition trigger (cs : list clause) (sps : spelling) : option Z :=
  if any_item (fun c _ _ => t_indexed c) cs sps then Some 3
  else if any_item (fun c _ _ => t_keyword_name c) cs sps then Some 1
  else if any_item (fun c _ a => t_glued_sep c a) cs sps then Some 2
  else if any_item (fun c sp _ => t_zeros c sp) cs sps then Some 4
  else if any_item (fun c _ a => t_just_last c a) cs sps then Some 5
  else if any_item (fun c _ _ => t_sign_plain c) cs sps then Some 6
  else if any_item (fun c sp _ => t_filler_case c sp) cs sps then Some 7
  else None.

Definition judge (c : sx) : sx :=
  match as_Z (nth_sx 0 c) with
  | 1 =>
      let cs := map d_clause (as_list (nth_sx 2 c)) in
      let sps := d_spelling (nth_sx 3 c) in
      let text := as_Ns (nth_sx 4 c) in
      let obs := nth_sx 5 c in
      if negb (str_eq (print_items cs sps) text) then L [A 9; A 9]     (* the harness did not print the specification's text *)
      else if (as_Z (nth_sx 1 c) =? 1) && negb (in_domain cs sps) then L [A 9; A 8]   (* the clean stream left the domain *)
      else
        let m := sx_model (clause_dict text) in
        let agree := sx_eqb obs m in
        let exp := expected cs sps in
        let good :=
          o_ok obs
          && dict_eqb (o_dict obs) exp
          && dict_eqb (normal (o_dict obs)) (abstract cs)
          && str_eq (o_unique obs) (spec_unique_name cs) in
        let dom := in_domain cs sps in
        let known := if dom then None else trigger cs sps in
        let branch := if dom then 1 else match known with Some k => 20 + k | None => 3 end in
        verdict known good agree branch (L [m; sx_dict exp])
  | _ =>
      let text := as_Ns (nth_sx 2 c) in
      let obs := nth_sx 3 c in
      let md := clause_dict text in
      let m := sx_model md in
      let agree := sx_eqb obs m in
      let branch :=
        match md with
        | Some (Ok r) => match cr_dict r with [] => 100 | _ => 101 end
        | _ => 102
        end in
      verdict None true agree branch (L [m])
  end.
