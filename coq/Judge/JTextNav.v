(* Judge for the stream text-nav of C07b: from raw copybook TEXT to locations and decoded values.
   Ties Model/TextLayout.v (layout_of_doc: how a document is read as a layout, with every atomic width taken from the decoder's
   parse of the cobol keyword; kind_of_cobol: the decoder an atom gets from its cobol keyword) to the implementation:
   the theorems of Props/C07c.v and Props/C12d.v speak about these functions.

   case = (2 text record schema top nav)
     text    code points of the copybook
     record  the bytes handed to EBCDIC().nav
     schema  (0 s) | (1 exn)   the FIRST document schema_iter emitted, as the loader reads it, with the widths
             unpacker.calcsize reports:  s = (0 a size) | (1 a n items) | (2 a counter items) | (3 a ((key s) ...))
             | (4 a (alt ...)) | (5 target);  a = (0) | (1 anchor); key, anchor, counter, target = code points
     top     (0 end) | (1 exn)   SchemaMaker.from_json, then nav(schema, record): end of the record's location
     nav     ((path leaf o) ...)  path = ((0 name) | (1 index) ...);  o = (0 start end v) | (1 exn);
             v = (0 pyval) | (1 exn) the value() of an atomic leaf (leaf = 1), anything for the others
   agree   the model's layout of the text (layouts_of_text, first record) is the observed schema, or neither exists; without
           OCCURS DEPENDING ON and when the loader and nav succeeded: every observed path ends where Model/Layout.v nav_path
           ends on the model's layout (or is refused alike), and an atomic leaf whose decoder the model knows (kind_of_cobol
           defined, all names of the record distinct) has the value Model/RecordValue.v value_at computes with the
           kinds taken from the text.
   There is no property predicate for arbitrary text: good = true; a disagreement is verdict 3.
   branch  129 no layout on either side, 130 schema only (DEPENDING ON, or the loader / nav raised), 131 paths compared,
           135 some value compared as well; 64 the model is Unmodelled or an item count exceeds 5000 (skip). *)
From Coq Require Import ZArith NArith List Bool Arith.
Import ListNotations.
Require Import SR.Base.Sx SR.Base.Res SR.Model.Pipeline.
Require Import SR.Spec.Layout SR.Model.Layout SR.Model.Estruct SR.Model.LayoutValue SR.Model.RecordValue SR.Model.TextLayout.
Require SR.Spec.Record SR.Judge.JLayoutCommon SR.Judge.JEstructCommon.
Open Scope Z_scope.

Fixpoint nodup_ids (l : list id) : bool :=
  match l with [] => true | a :: r => negb (existsb (N.eqb a) r) && nodup_ids r end.

Definition anchor_of_sx (s : sx) : option key :=
  match as_Z (nth_sx 0 s) with 1 => Some (key_of (as_Ns (nth_sx 1 s))) | _ => None end.

Fixpoint js_of_sx (s : sx) : js :=
  match s with
  | L (A tag :: a :: rest) =>
      if tag =? 0 then JAtom (anchor_of_sx a) (match rest with z :: _ => as_nat z | [] => O end)
      else if tag =? 1 then
        match rest with n :: its :: _ => Layout.JArr (anchor_of_sx a) (as_nat n) (js_of_sx its) | _ => JAtom None O end
      else if tag =? 2 then
        match rest with c :: its :: _ => JOdo (anchor_of_sx a) (name_id (as_Ns c)) (js_of_sx its) | _ => JAtom None O end
      else if tag =? 3 then
        match rest with
        | L ps :: _ =>
            Layout.JObj (anchor_of_sx a)
              ((fix go (l : list sx) : props :=
                  match l with
                  | [] => PNil
                  | L (k :: v :: _) :: t => PCons (key_of (as_Ns k)) (js_of_sx v) (go t)
                  | _ :: t => go t
                  end) ps)
        | _ => JAtom None O
        end
      else if tag =? 4 then
        match rest with
        | L alts :: _ =>
            JOne (anchor_of_sx a)
              ((fix go (l : list sx) : jalts := match l with [] => ANil | x :: t => ACons (js_of_sx x) (go t) end) alts)
        | _ => JAtom None O
        end
      else JRef (key_of (as_Ns a))
  | _ => JAtom None O
  end.

Fixpoint has_odo (s : js) : bool :=
  match s with
  | JAtom _ _ | JRef _ => false
  | Layout.JArr _ _ its => has_odo its
  | JOdo _ _ _ => true
  | Layout.JObj _ ps => has_odo_props ps
  | JOne _ alts => has_odo_alts alts
  end
with has_odo_props (ps : props) : bool := match ps with PNil => false | PCons _ s r => has_odo s || has_odo_props r end
with has_odo_alts (alts : jalts) : bool := match alts with ANil => false | ACons s r => has_odo s || has_odo_alts r end.

Definition nstep_of_sx (s : sx) : step :=
  match as_Z (nth_sx 0 s) with 1 => PIndex (as_nat (nth_sx 1 s)) | _ => PName (name_id (as_Ns (nth_sx 1 s))) end.
Definition npath_of_sx (s : sx) : list step := map nstep_of_sx (as_list s).

Definition no_dcount (bs : list N) : nat := O.

Fixpoint last_id (p : list step) (i0 : id) : id :=
  match p with [] => i0 | PName k :: r => last_id r k | PIndex _ :: r => last_id r i0 end.

(* every name of the record *)
Fixpoint all_ids (t : xtree) : list id :=
  match t with XNode d _ _ kids => name_id (SR.Model.Structure.du d) :: all_ids_f kids end
with all_ids_f (ks : xforest) : list id :=
  match ks with XNil => [] | XCons k r => all_ids k ++ all_ids_f r end.

(* the kinds of the first record of the text, when every item of the record has a name of its own (the decoders are
   indexed by name: C01b's hypothesis) *)
Definition text_kinds (text : str) : option (list (id * SR.Spec.Record.fkind)) :=
  match forest_of_text text with
  | Some (t :: _) => if nodup_ids (all_ids t) then Some (kind_table t) else None
  | _ => None
  end.

Definition table_has (tb : list (id * SR.Spec.Record.fkind)) (i : id) : bool := existsb (fun p => N.eqb (fst p) i) tb.

(* one observed path against the model; answer: (agrees, a value was compared) *)
Definition path_ok (s : js) (tb : option (list (id * SR.Spec.Record.fkind))) (record : list N) (o : sx) : bool * bool :=
  let p := npath_of_sx (nth_sx 0 o) in
  let leaf := as_bool (nth_sx 1 o) in
  let ob := nth_sx 2 o in
  match nav_of no_dcount record s with
  | Err e => (false, false)
  | Ok v0 =>
      match nav_path no_dcount record v0 p with
      | Err e => ((as_Z (nth_sx 0 ob) =? 1) && (as_Z (nth_sx 1 ob) =? exn_code e), false)
      | Ok nv =>
          let place := (as_Z (nth_sx 0 ob) =? 0) && (as_nat (nth_sx 1 ob) =? lstart (n_loc nv))%nat && (as_nat (nth_sx 2 ob) =? lend (n_loc nv))%nat in
          match tb with
          | Some t =>
              if leaf && table_has t (last_id p 0%N) then
                match value_at (table_kinds t) no_dcount record s p with
                | Some (Ok (PAtom v)) => (place && SR.Judge.JEstructCommon.obs_matches (SR.Judge.JEstructCommon.obs_of_sx (nth_sx 3 ob)) (Ok v), true)
                | Some (Err e) => (place && SR.Judge.JEstructCommon.obs_matches (SR.Judge.JEstructCommon.obs_of_sx (nth_sx 3 ob)) (Err e), true)
                | _ => (false, true)
                end
              else (place, false)
          | None => (place, false)
          end
      end
  end.

(* an item count the unary numbers of Model/Layout.v cannot hold (OCCURS 99999999999999999999): not judged *)
Fixpoint doc_big (d : jdoc) : bool :=
  match d with
  | SR.Model.Pipeline.JInt n => (5000 <? n)%N
  | SR.Model.Pipeline.JStr _ => false
  | SR.Model.Pipeline.JObj kvs => existsb (fun kv => doc_big (snd kv)) kvs
  | SR.Model.Pipeline.JArr l => existsb doc_big l
  end.

Definition outcome_big (o : outcome) : bool :=
  match o with Done (Ok docs) => existsb doc_big docs | _ => false end.

Definition judge_nav (c : sx) : sx :=
  let text := as_Ns (nth_sx 1 c) in
  let record := as_Ns (nth_sx 2 c) in
  let schema := nth_sx 3 c in
  let top := nth_sx 4 c in
  let navs := as_list (nth_sx 5 c) in
  match schemas_of_text text with
  | Unmodelled _ => L [A 0; A 64]
  | o =>
      if outcome_big o then L [A 0; A 64] else
      match layouts_of_text text with
      | Some (s :: _) =>
          let schema_ok := (as_Z (nth_sx 0 schema) =? 0)
                           && sx_eqb (SR.Judge.JLayoutCommon.sx_of_js (js_of_sx (nth_sx 1 schema))) (SR.Judge.JLayoutCommon.sx_of_js s) in
          if negb schema_ok then verdict None true false 130 (L [A 1; SR.Judge.JLayoutCommon.sx_of_js s])
          else if has_odo s || negb (as_Z (nth_sx 0 top) =? 0) then L [A 0; A 130]
          else
            let tb := text_kinds text in
            let rs := map (path_ok s tb record) navs in
            let all_ok := forallb fst rs in
            let some_val := existsb snd rs in
            let top_ok := match nav_of no_dcount record s with
                          | Ok v0 => (as_nat (nth_sx 1 top) =? lend (n_loc v0))%nat
                          | Err _ => false
                          end in
            verdict None true (all_ok && top_ok) (if some_val then 135 else 131)
                    (L [A 2; L (map (fun r => of_bool (fst r)) rs)])
      | _ =>
          (* no layout in the model: the documents do not exist, or reading the first one fails (a size that cannot be computed) *)
          verdict None true (negb (as_Z (nth_sx 0 schema) =? 0)) 129 (L [A 0])
      end
  end.
