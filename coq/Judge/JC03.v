(* Judge for C03.

   Wire forms
     text      = list of code points
     value     = (0 text)            a str
               | (1 id text)         any other object: identity tag and its str()   (None = (1 0 'None'))
               | (2)                 the list [None]  (the absent marker of WBNav.name)
     result X  = (0 X) | (1 exception-code)
     rows      = result ((result value ...) ...)   list(sheet.rows()); per row name(k).value() for the column names
     sheetobs  = (name rows)                       one per Sheet that sheet_iter yielded, in order
     fileobs   = (extra (sheetobs ...))            extra = () or, for the formats the library decodes itself,
                                                   (image recfm lrecl): the file as written (code points / bytes),
                                                   recfm 0 = N, 1 = F, lrecl -1 = not given
     table     = (name (colname ...) ((cell ...) ...))
   Cases
     (0 (table ...) ((sheet table) ...) ((width ...) ...) ((fmt (fileobs ...)) ...))
         the abstract workbook; for every table the Numbers sheet and table name it was stored under
         (consecutive equal sheet names share one Numbers sheet); for every table its column widths
         (an empty list of lists when no fixed format takes part);
         per format the files read: one file for a multi-sheet format, one file per table otherwise.
         fmt 0 CSV, 1 TAB, 2 XLSX, 3 ODS, 4 NUMBERS, 6 NDJSON, 7 fixed text, 8 EBCDIC
     (1 ((name (key ...) rows) ...) ((name (key ...) rows) ...))
         the read-only XLS sample and the XLSX sample, each read with its own header row
     (2 fmt content ((key ...) ...) (sheetobs ...))
         the glue of one office format on typed cells.  content = the document as the third-party parser holds it, dumped
         by the runner through the library directly (not through stingray): fmt 2 XLSX / 3 ODS / 5 XLS ((name ((cell ...) ...)) ...),
         fmt 4 NUMBERS ((sheet ((table ((cell ...) ...)) ...)) ...), a cell in the wire form of a value; the probe names of
         every presented sheet; what the facade run (heading-row binding) observed.
         [good]  = every stored sheet (sheet::table for Numbers) is presented once, in order, under its name, and reads
                   exactly as its stored rows read when handed to Sheet.row_iter as they are (the single-sheet path of
                   the model, which goes through no glue): every row, in order, every cell unconverted.
         [agree] = the observation is what Model/Workbook.v computes from the content through the glue rules of
                   Gen/ImplParams.v.
     (3 fmt table (sheet table) (width ...) (pass ...) fileobs)
         SEVERAL PASSES over the rows of one Sheet object (Model/WorkbookPasses.v).  One table stored in ONE format (codes as
         above; for Numbers under the given sheet and table name, otherwise that pair is ignored; the widths only for the fixed
         formats); pass = -1 a complete pass list(sheet.rows()), k >= 0 list(islice(sheet.rows(), k)) and the iterator
         abandoned; fileobs as above except that a sheetobs is (name (rows rows ...)): one rows per pass.
         [good]  = EVERY pass shows the table's rows from the first on (all of them, or the first k), by name: the stored
                   table does not change between the passes (Spec/TransparencyPasses.v [take_rows]).
         [agree] = the observation is what Model/WorkbookPasses.v computes.
         [known] = 2 (K-second-pass-differs) when the format is read from an open file (CSV, TAB, NDJSON, fixed text, EBCDIC)
                   AND the case has a second pass; with [verdict] the finding is reported only when the observation is
                   exactly the model's continuation, anything else is a VIOLATION.  The in-memory formats (XLSX, ODS,
                   Numbers) enjoy no exemption.
     (4 fmt content ((key ...) ...) (pass ...) ((name (rows rows ...)) ...))
         the passes of case 3 over EVERY sheet of a workbook of typed cells or of a sample file of the repository (fmt, content,
         probe names as in case 2; XLS included: the read-only sample).  All four formats are in-memory: no exemption.
         [good]  = every pass over every stored sheet reads as the first rows of that sheet read when handed to Sheet.row_iter as
                   the rows it holds (the single-sheet path of the model: no glue, nothing remembered between passes).
         [agree] = what Model/WorkbookPasses.v computes from the content through the glue rules of Gen/ImplParams.v.
   EBCDIC files of stream 0 whose explicit lrecl (RECFM F / FB) exceeds the layout: the image must be the PADDED writer's
   output (Spec/TransparencyPasses.v write_ebcdic_padded) for the fillers found in the image itself; recfm 2 = the alias
   RECFM_FB of RECFM_F.
   [good]  = every file of every format shows exactly the abstract workbook (Spec/Transparency.v:
             sheets by name and order, [cells_by_name] for every row; the padded table for the fixed
             formats; sheet::table for Numbers).
   [agree] = every file shows what Model/Workbook.v computes from the content a correct third-party
             parser would deliver ([phys]); for fixed text and EBCDIC from the file image itself.
   [known] = 1 when a Numbers sheet name does not split back at the first separator.
   Answer 9 = the case is malformed (a runner defect): the image is not what the Coq writer produces,
   widths do not fit, a single-sheet file list has the wrong length. *)
From Coq Require Import ZArith NArith List Bool Arith.
Import ListNotations.
Require SR.Spec.Table.
Require Import SR.Base.Sx SR.Base.Res SR.Spec.Transparency SR.Spec.TransparencyPasses SR.Model.HeaderRow SR.Model.Workbook
  SR.Model.WorkbookPasses.
Open Scope Z_scope.

(* ---------------------------------------------------------------- equality tests *)
Fixpoint list_eqb {T} (eqb : T -> T -> bool) (a b : list T) : bool :=
  match a, b with
  | [], [] => true
  | x :: a', y :: b' => eqb x y && list_eqb eqb a' b'
  | _, _ => false
  end.

Definition cell_eqb (a b : cell) : bool :=
  match a, b with
  | Txt s, Txt t => key_eqb s t
  | Obj i r, Obj j q => N.eqb i j && key_eqb r q
  | _, _ => false
  end.

Definition opt_eqb {T} (eqb : T -> T -> bool) (a b : option T) : bool :=
  match a, b with
  | Some x, Some y => eqb x y
  | None, None => true
  | _, _ => false
  end.

Definition res_eqb {T} (eqb : T -> T -> bool) (a b : res T) : bool :=
  match a, b with
  | Ok x, Ok y => eqb x y
  | Err e, Err f => exn_eqb e f
  | _, _ => false
  end.

Definition value_eqb : value -> value -> bool := res_eqb (opt_eqb cell_eqb).
Definition rows_eqb : rows_obs -> rows_obs -> bool := res_eqb (list_eqb (list_eqb value_eqb)).
Definition sheetobs_eqb (a b : key * rows_obs) : bool := key_eqb (fst a) (fst b) && rows_eqb (snd a) (snd b).
Definition obs_eqb : obs -> obs -> bool := list_eqb sheetobs_eqb.

(* ---------------------------------------------------------------- decoding *)
Definition exn_of (z : Z) : exn :=
  if z =? 1 then ValueError else if z =? 2 then TypeError else if z =? 3 then IndexError
  else if z =? 4 then KeyError else if z =? 5 then RuntimeError else if z =? 6 then NotImplementedError
  else if z =? 7 then StructError else if z =? 8 then DecimalInvalid else if z =? 9 then DesignError
  else if z =? 10 then AttributeError else if z =? 11 then StopIter else if z =? 12 then AssertionError
  else OtherError.

Definition dec_res {T} (f : sx -> T) (x : sx) : res T :=
  if as_Z (nth_sx 0 x) =? 0 then Ok (f (nth_sx 1 x)) else Err (exn_of (as_Z (nth_sx 1 x))).

Definition dec_cellopt (x : sx) : option cell :=
  let tag := as_Z (nth_sx 0 x) in
  if tag =? 0 then Some (Txt (as_Ns (nth_sx 1 x)))
  else if tag =? 1 then Some (Obj (as_N (nth_sx 1 x)) (as_Ns (nth_sx 2 x)))
  else None.

Definition dec_value (x : sx) : value := dec_res dec_cellopt x.
Definition dec_rows (x : sx) : rows_obs :=
  dec_res (fun v => map (fun r => map dec_value (as_list r)) (as_list v)) x.
Definition dec_obs (x : sx) : obs := map (fun s => (as_Ns (nth_sx 0 s), dec_rows (nth_sx 1 s))) (as_list x).

Definition dec_table (x : sx) : table :=
  mk_table (map as_Ns (as_list (nth_sx 1 x))) (map (fun r => map as_Ns (as_list r)) (as_list (nth_sx 2 x))).
Definition dec_wb (x : sx) : workbook := map (fun s => (as_Ns (nth_sx 0 s), dec_table s)) (as_list x).

Record fileobs := mk_fileobs { fo_image : list N; fo_recfm : Z; fo_lrecl : Z; fo_obs : obs }.
Definition dec_file (x : sx) : fileobs :=
  let extra := nth_sx 0 x in
  mk_fileobs (as_Ns (nth_sx 0 extra)) (as_Z (nth_sx 1 extra)) (as_Z (nth_sx 2 extra)) (dec_obs (nth_sx 1 x)).

(* ---------------------------------------------------------------- the abstract side *)
(* consecutive tables stored in the same Numbers sheet *)
Fixpoint group (items : list (text * (text * table))) : numbers_doc :=
  match items with
  | [] => []
  | (s, tb) :: rest =>
      match group rest with
      | (s', tbs) :: g => if text_eqb s s' then (s, tb :: tbs) :: g else (s, [tb]) :: (s', tbs) :: g
      | [] => [(s, [tb])]
      end
  end.

Definition numbers_of (W : workbook) (names : list (text * text)) : numbers_doc :=
  group (map (fun p => (fst (snd p), (snd (snd p), snd (fst p)))) (combine W names)).

Definition splits_back (st : text * text) : bool :=
  let (a, b) := partition_sep (composite (fst st) (snd st)) in
  text_eqb a (fst st) && text_eqb b (snd st).

(* the property on one sheet observation: the name, and the association name -> text of every row *)
Definition assoc_eqb (a b : list (key * value)) : bool :=
  list_eqb (fun p q => key_eqb (fst p) (fst q) && value_eqb (snd p) (snd q)) a b.

Definition good_sheet (name : text) (T : table) (o : key * rows_obs) : bool :=
  key_eqb (fst o) name
  && match snd o with
     | Ok rows =>
         forallb (fun r => (length r =? length (t_header T))%nat) rows
         && res_eqb (list_eqb assoc_eqb) (rows_by_name (t_header T) (snd o)) (expected_by_name T)
     | Err _ => false
     end.

Fixpoint good_obs (W : workbook) (o : obs) : bool :=
  match W, o with
  | [], [] => true
  | (n, T) :: W', s :: o' => good_sheet n T s && good_obs W' o'
  | _, _ => false
  end.

Definition wf_table (T : table) : bool :=
  rect T && Table.distinct key_eqb (t_header T) && (1 <=? length (t_header T))%nat.

(* ---------------------------------------------------------------- one format *)
Definition fmt_of (z : Z) : option fmt :=
  if z =? 0 then Some F_CSV else if z =? 1 then Some F_TAB else if z =? 2 then Some F_XLSX
  else if z =? 3 then Some F_ODS else if z =? 4 then Some F_NUMBERS else if z =? 6 then Some F_NDJSON
  else if z =? 7 then Some F_FIXED else if z =? 8 then Some F_EBCDIC else None.

(* per file: (well-formed, good, agree) *)
Definition tri := (bool * bool * bool)%type.
Definition tri_and (a b : tri) : tri :=
  let '(w1, g1, a1) := a in let '(w2, g2, a2) := b in (w1 && w2, g1 && g2, a1 && a2).
Definition tri_all (l : list tri) : tri := fold_right tri_and (true, true, true) l.

Definition recfm_of (z : Z) : recfm := if (z =? 1) || (z =? 2) then RECFM_F else RECFM_N.     (* 2 = RECFM_FB, the same class *)
Definition lrecl_of (z : Z) : option nat := if z <? 0 then None else Some (Z.to_nat z).

(* is the registry still selecting the reader of this format *)
Definition reader_ok (f : fmt) : bool :=
  match reader_for f with Ok g => fmt_eqb f g | Err _ => false end.

(* the EBCDIC image is what the Coq writer produces: records back to back, or - RECFM F / FB with an explicit lrecl beyond the
   end of the layout - every record followed by lrecl - (end of the layout) filler bytes, whatever they are *)
Definition ebcdic_image_ok (widths : list nat) (T : table) (fo : fileobs) : bool :=
  let used := list_sum widths in
  let lr := Z.to_nat (fo_lrecl fo) in
  if ((fo_recfm fo =? 1) || (fo_recfm fo =? 2)) && (used <? lr)%nat
  then let fill := fillers_of lr used (fo_image fo) in
       fill_ok (lr - used) T fill && list_eqb N.eqb (fo_image fo) (write_ebcdic_padded T widths fill)
  else list_eqb N.eqb (fo_image fo) (write_ebcdic T widths).

Definition judge_single (f : fmt) (widths : list nat) (T : table) (fo : fileobs) : tri :=
  let o := fo_obs fo in
  let hs := t_header T in
  match f with
  | F_FIXED =>
      let Tp := pad_table widths T in
      (fits widths T && line_safe T && list_eqb N.eqb (fo_image fo) (write_fixed_text T widths),
       good_obs [([], Tp)] o,
       obs_eqb o (read_fixed (fo_image fo) (layout_of hs widths) hs))
  | F_EBCDIC =>
      let Tp := pad_table widths T in
      (fits widths T && repertoire_ok T && ebcdic_image_ok widths T fo,
       good_obs [([], Tp)] o,
       obs_eqb o (read_ebcdic (recfm_of (fo_recfm fo)) 0%N (lrecl_of (fo_lrecl fo)) (fo_image fo)
                              (layout_of hs widths) hs))
  | _ =>
      (true,
       good_obs [([], T)] o,
       reader_ok f && obs_eqb o (facade_read f (phys f [([], T)]) [hs]))
  end.

Definition judge_format (W : workbook) (names : list (text * text)) (widths : list (list nat)) (x : sx) : tri :=
  let files := map dec_file (as_list (nth_sx 1 x)) in
  match fmt_of (as_Z (nth_sx 0 x)) with
  | None => (false, true, true)
  | Some f =>
      if single_sheet f then
        if (length files =? length W)%nat
        then tri_all (map (fun p => judge_single f (nth (fst p) widths []) (snd (fst (snd p))) (snd (snd p)))
                          (combine (seq 0 (length W)) (combine W files)))
        else (false, true, true)
      else
        match files with
        | [fo] =>
            match f with
            | F_NUMBERS =>
                let d := numbers_of W names in
                let Wn := flatten_numbers d in
                ((length names =? length W)%nat,
                 good_obs Wn (fo_obs fo),
                 reader_ok f && obs_eqb (fo_obs fo) (read_header (phys_numbers d) (headers Wn)))
            | _ =>
                (true,
                 good_obs W (fo_obs fo),
                 reader_ok f && obs_eqb (fo_obs fo) (facade_read f (phys f W) (headers W)))
            end
        | _ => (false, true, true)
        end
  end.

Definition has_numbers (formats : list sx) : bool :=
  existsb (fun x => as_Z (nth_sx 0 x) =? 4) formats.

Definition judge_tables (c : sx) : sx :=
  let W := dec_wb (nth_sx 1 c) in
  let names := map (fun p => (as_Ns (nth_sx 0 p), as_Ns (nth_sx 1 p))) (as_list (nth_sx 2 c)) in
  let widths := map as_nats (as_list (nth_sx 3 c)) in
  let formats := as_list (nth_sx 4 c) in
  let per := map (fun x => (as_Z (nth_sx 0 x), judge_format W names widths x)) formats in
  let '(wf, good, agree) := tri_all (map snd per) in
  let wf := wf && forallb (fun s => wf_table (snd s)) W in
  let known := if has_numbers formats && existsb (fun st => negb (splits_back st)) names then Some 1 else None in
  let nrows := fold_right (fun s n => (length (t_rows (snd s)) + n)%nat) 0%nat W in
  let br := match nrows with
            | O => 0
            | _ => 1 + (if (2 <=? length W)%nat then 1 else 0) + (match widths with [] => 0 | _ => 2 end)
            end in
  let detail := L (map (fun p => let '(w, g, a) := snd p in L [A (fst p); of_bool w; of_bool g; of_bool a]) per) in
  if wf then verdict known good agree br detail else L [A 9; A br; detail].

(* ---------------------------------------------------------------- the XLS sample (read only) *)
Definition dec_sample (x : sx) : list (key * list key * rows_obs) :=
  map (fun s => (as_Ns (nth_sx 0 s), map as_Ns (as_list (nth_sx 1 s)), dec_rows (nth_sx 2 s))) (as_list x).

(* two text cells must be equal; a typed or empty cell is outside the property *)
Definition text_agree (a b : value) : bool :=
  match a, b with
  | Ok (Some (Txt s)), Ok (Some (Txt t)) => key_eqb s t || match s, t with [], _ => true | _, [] => true | _, _ => false end
  | Ok _, Ok _ => true
  | _, _ => false
  end.

Definition sample_sheet_agree (a b : key * list key * rows_obs) : bool :=
  let '(na, ka, ra) := a in let '(nb, kb, rb) := b in
  key_eqb na nb && list_eqb key_eqb ka kb
  && match ra, rb with
     | Ok xa, Ok xb => list_eqb (list_eqb text_agree) xa xb
     | _, _ => false
     end.

Definition judge_sample (c : sx) : sx :=
  let a := dec_sample (nth_sx 1 c) in
  let b := dec_sample (nth_sx 2 c) in
  let good := list_eqb sample_sheet_agree a b in
  verdict None good good 5 (L []).

(* ---------------------------------------------------------------- typed cells through the office glue *)
Definition dec_cell (x : sx) : cell := match dec_cellopt x with Some c => c | None => none_obj end.
Definition dec_sheet_rows (x : sx) : sheet := map (fun r => map dec_cell (as_list r)) (as_list x).
Definition dec_book (x : sx) : list (key * sheet) :=
  map (fun s => (as_Ns (nth_sx 0 s), dec_sheet_rows (nth_sx 1 s))) (as_list x).
Definition dec_numbers (x : sx) : list (key * list (key * sheet)) :=
  map (fun s => (as_Ns (nth_sx 0 s), dec_book (nth_sx 1 s))) (as_list x).

(* the stored sheets read without any glue: each handed to Sheet.row_iter as the rows it holds *)
Fixpoint plain_read (ss : list (key * sheet)) (probes : list (list key)) (i : nat) : obs :=
  match ss with
  | [] => []
  | (n, rows) :: t => (n, read_sheet_header (C_single rows) [] (probes_at probes i)) :: plain_read t probes (S i)
  end.

Definition judge_typed (c : sx) : sx :=
  let f := as_Z (nth_sx 1 c) in
  let probes := map (fun p => map as_Ns (as_list p)) (as_list (nth_sx 3 c)) in
  let o := dec_obs (nth_sx 4 c) in
  let d := dec_numbers (nth_sx 2 c) in
  let b := dec_book (nth_sx 2 c) in
  let numbers := f =? 4 in
  let wf := numbers || (f =? 2) || (f =? 3) || (f =? 5) in
  let stored := if numbers then flat_map (fun s => map (fun t => (composite (fst s) (fst t), snd t)) (snd s)) d else b in
  let content := if numbers then C_numbers d else C_multi (if f =? 3 then B_ODS else if f =? 5 then B_XLS else B_XLSX) b in
  let fm := if numbers then F_NUMBERS else if f =? 3 then F_ODS else if f =? 5 then F_XLS else F_XLSX in
  let good := obs_eqb o (plain_read stored probes 0) in
  let agree := reader_ok fm && obs_eqb o (read_header content probes) in
  let known := if numbers && existsb (fun s => existsb (fun t => negb (splits_back (fst s, fst t))) (snd s)) d
               then Some 1 else None in
  let br := if existsb (fun s => (2 <=? length (snd s))%nat) stored then 6 else 0 in
  let detail := L [A f; of_bool good; of_bool agree] in
  if wf then verdict known good agree br detail else L [A 9; A br; detail].

(* ---------------------------------------------------------------- several passes over one Sheet *)
Definition dec_obs_passes (x : sx) : obs_passes :=
  map (fun s => (as_Ns (nth_sx 0 s), map dec_rows (as_list (nth_sx 1 s)))) (as_list x).

Definition obs_passes_eqb : obs_passes -> obs_passes -> bool :=
  list_eqb (fun a b => key_eqb (fst a) (fst b) && list_eqb rows_eqb (snd a) (snd b)).

Definition pass_of (z : Z) : option nat := if z <? 0 then None else Some (Z.to_nat z).

(* every pass shows the first rows of the table (all of them for a complete pass) *)
Fixpoint good_passes (name : text) (T : table) (pat : passes) (os : list rows_obs) : bool :=
  match pat, os with
  | [], [] => true
  | k :: pat', o :: os' =>
      good_sheet name (mk_table (t_header T) (take_rows k (t_rows T))) (name, o) && good_passes name T pat' os'
  | _, _ => false
  end.

Definition good_obs_passes (name : text) (T : table) (pat : passes) (o : obs_passes) : bool :=
  match o with
  | [s] => key_eqb (fst s) name && good_passes name T pat (snd s)
  | _ => false
  end.

Definition judge_passes (c : sx) : sx :=
  let fz := as_Z (nth_sx 1 c) in
  let T := dec_table (nth_sx 2 c) in
  let tname := as_Ns (nth_sx 0 (nth_sx 2 c)) in
  let st := (as_Ns (nth_sx 0 (nth_sx 3 c)), as_Ns (nth_sx 1 (nth_sx 3 c))) in
  let widths := as_nats (nth_sx 4 c) in
  let pz := as_Zs (nth_sx 5 c) in
  let pat := map pass_of pz in
  let fx := nth_sx 6 c in
  let extra := nth_sx 0 fx in
  let image := as_Ns (nth_sx 0 extra) in
  let o := dec_obs_passes (nth_sx 1 fx) in
  let hs := t_header T in
  let nrows := length (t_rows T) in
  match fmt_of fz with
  | None => L [A 9; A (-1); L []]
  | Some f =>
      let '(wf, good, agree) :=
        match f with
        | F_FIXED =>
            (fits widths T && line_safe T && list_eqb N.eqb image (write_fixed_text T widths),
             good_obs_passes [] (pad_table widths T) pat o,
             obs_passes_eqb o (read_fixed_passes image (layout_of hs widths) hs pat))
        | F_EBCDIC =>
            (fits widths T && repertoire_ok T && list_eqb N.eqb image (write_ebcdic T widths),
             good_obs_passes [] (pad_table widths T) pat o,
             obs_passes_eqb o (read_ebcdic_passes (recfm_of (as_Z (nth_sx 1 extra))) 0%N (lrecl_of (as_Z (nth_sx 2 extra)))
                                                  image (layout_of hs widths) hs pat))
        | F_NUMBERS =>
            let d := numbers_of [(tname, T)] [st] in
            let Wn := flatten_numbers d in
            (splits_back st,
             good_obs_passes (composite (fst st) (snd st)) T pat o,
             reader_ok f && obs_passes_eqb o (read_header_passes (phys_numbers d) (headers Wn) pat))
        | _ =>
            let name := if single_sheet f then [] else tname in
            (true,
             good_obs_passes name T pat o,
             reader_ok f && obs_passes_eqb o (facade_passes f (phys f [(name, T)]) [hs] pat))
        end in
      let wf := wf && wf_table T && forallb (fun z => -1 <=? z) pz in
      let known := if file_backed f && has_second_pass pat then Some 2 else None in
      let br := match nrows with O => 0 | _ => if in_memory f then 7 else 8 end in
      let detail := L [A fz; of_bool good; of_bool agree] in
      if wf then verdict known good agree br detail else L [A 9; A br; detail]
  end.

(* ---------------------------------------------------------------- several passes, typed cells and the sample files *)
(* every stored sheet handed to Sheet.row_iter as the rows it holds, once per pass: no glue, nothing remembered *)
Fixpoint plain_passes (ss : list (key * sheet)) (probes : list (list key)) (i : nat) (pat : passes) : obs_passes :=
  match ss with
  | [] => []
  | (n, rows) :: t =>
      (n, map (fun k => take_obs k (read_sheet_header (C_single rows) [] (probes_at probes i))) pat)
      :: plain_passes t probes (S i) pat
  end.

Definition judge_typed_passes (c : sx) : sx :=
  let f := as_Z (nth_sx 1 c) in
  let probes := map (fun p => map as_Ns (as_list p)) (as_list (nth_sx 3 c)) in
  let pz := as_Zs (nth_sx 4 c) in
  let pat := map pass_of pz in
  let o := dec_obs_passes (nth_sx 5 c) in
  let d := dec_numbers (nth_sx 2 c) in
  let b := dec_book (nth_sx 2 c) in
  let numbers := f =? 4 in
  let wf := (numbers || (f =? 2) || (f =? 3) || (f =? 5)) && forallb (fun z => -1 <=? z) pz in
  let stored := if numbers then flat_map (fun s => map (fun t => (composite (fst s) (fst t), snd t)) (snd s)) d else b in
  let content := if numbers then C_numbers d else C_multi (if f =? 3 then B_ODS else if f =? 5 then B_XLS else B_XLSX) b in
  let fm := if numbers then F_NUMBERS else if f =? 3 then F_ODS else if f =? 5 then F_XLS else F_XLSX in
  let good := obs_passes_eqb o (plain_passes stored probes 0 pat) in
  let agree := reader_ok fm && obs_passes_eqb o (read_header_passes content probes pat) in
  let known := if numbers && existsb (fun s => existsb (fun t => negb (splits_back (fst s, fst t))) (snd s)) d
               then Some 1 else None in
  let br := if existsb (fun s => (2 <=? length (snd s))%nat) stored then 7 else 0 in
  let detail := L [A f; of_bool good; of_bool agree] in
  if wf then verdict known good agree br detail else L [A 9; A br; detail].

Definition judge (c : sx) : sx :=
  let stream := as_Z (nth_sx 0 c) in
  if stream =? 0 then judge_tables c
  else if stream =? 1 then judge_sample c
  else if stream =? 2 then judge_typed c
  else if stream =? 3 then judge_passes c
  else if stream =? 4 then judge_typed_passes c
  else L [A 9; A (-1); L []].
